"""C09 -- alternative routes to a score agree; zone files round-trip."""
import os, string, warnings
from vlib import rat, unrat, exc_tag
import complexgen as cg
from pdb2sql import StructureSimilarity, pdb2sql

ID = 'C09'
LEVEL = 'proof'
CLUSTER = 'A'
GEN_UNITS = ['zone_line', 'read_zone_line',
             'sim_runtime', 'sim_get_izone_rowID', 'sim_compute_irmsd_pdb2sql']       # simTie: Props/C09K2.lean
RULE = ('zone lines: every printable ASCII chain character x residue numbers {-999..-1, 0, 1..9999 sample incl. every digit-count}; '
        'written by the library (_write_zone) and read by both readers (read_zone, get_izone_rowID); route agreement: synthetic two-chain '
        'complexes (equal-sized chains, chains whose atom count and backbone count rank differently, incomplete decoys, negative numbers) '
        'x {fast, SQL} x {svd, quaternion} x {no zone file, zone file absent (written), zone file present (read)} for i-RMSD, L-RMSD, Fnat. '
        'Non-trivial = distinct (chain, number) / distinct complex with a non-zero score.')
ASSUMPTIONS = ['values of different routes are compared after the library\'s own rounding (3 decimals for RMSD, 6 for Fnat); a difference of one '
               'unit in the last decimal is counted as a rounding-boundary discard']

CHAINS = [c for c in string.printable if c.isprintable() and c not in ' \t']


def cases(ctx):
    rng = ctx.rng
    out = []
    nums = [-999, -100, -99, -10, -9, -1, 0, 1, 9, 10, 99, 100, 999, 1000, 9999]
    chains = CHAINS if ctx.thorough else ['A', 'B', 'Z', 'a', '1', '0', '_', '+', '.', '*', '-'] + rng.sample(CHAINS, 12)
    for c in chains:
        for n in nums + [rng.randint(-999, 9999) for _ in range(3)]:
            out.append({'op': 'zone', 'chain': c, 'num': n})
    return out


def search_cases(ctx):
    return [{'op': 'zone', 'chain': c, 'num': n} for c in CHAINS for n in (-999, -12, -1, 0, 1, 7, 42, 1234)]


def impl(ctx, c):
    d = ctx.tmpdir()
    # one file name for every case: a zone file names what it holds NOW (a reader that remembers an earlier file of that name differs)
    fn = os.path.join(d, 'case.zone')
    try:
        StructureSimilarity._write_zone(fn, [(c['chain'], c['num'])])
        text = open(fn).read()
        try:
            rz = StructureSimilarity.read_zone(fn)
            rz = sorted([k, v] for k, v in rz.items())
        except Exception as e:
            rz = exc_tag(e)
        return {'text': text, 'read_zone': rz}
    except Exception as e:
        return {'text': exc_tag(e)}
    finally:
        if os.path.exists(fn):
            os.remove(fn)


def agree_model(c, out, model):
    if isinstance(model, str):
        # the translated reader raises on the translated writer's line
        return True if out.get('read_zone') == model or (isinstance(out.get('read_zone'), str) and model.startswith('ERR')) else \
            f'implementation {out} model {model}'
    if out.get('text') != model['line']:
        return f'written line: implementation {out.get("text")!r} model {model["line"]!r}'
    want = [[model['chain'], [model['num']]]]
    return True if out.get('read_zone') == want else f'read back: implementation {out.get("read_zone")!r} model {want!r}'


def agree_spec(c, out, spec):
    want = [[spec['chain'], [spec['num']]]]
    return True if out.get('read_zone') == want else f'zone written for {want!r} is read back as {out.get("read_zone")!r}'


def classify(c, out, spec):
    return 'zone_chain_is_dash' if c['chain'] == '-' else None


def nontrivial_key(c, out):
    return [c['chain'], c['num']]


def distribution(recs):
    neg = sum(1 for r in recs if r['case']['num'] < 0)
    return {'zone_lines': len(recs), 'negative_numbers': neg, 'zero': sum(1 for r in recs if r['case']['num'] == 0),
            'distinct_chain_characters': len({r['case']['chain'] for r in recs})}


# ---- route agreement (implementation vs implementation) -------------------------------------------------------------

def write(path, lines):
    with open(path, 'w') as f:
        f.write('\n'.join(lines) + '\n')
    return path


def make_pair(rng, kind):
    """reference / decoy complexes exercising the places where the routes could diverge"""
    if kind == 'equal':
        n = rng.randint(3, 7)
        ref = cg.make_complex(rng, nA=n, nB=n)
    elif kind == 'rankflip':
        # chain A: fewer residues but long side chains; chain B: more residues, bare backbone
        ref = cg.make_complex(rng, nA=rng.randint(3, 5), nB=rng.randint(5, 7))
        for r in ref.residues:
            if r['chain'] == 'B':
                r['atoms'] = r['atoms'][:4]
            else:
                base = r['atoms'][1][2]
                r['atoms'] = r['atoms'][:4] + [(nm, el, (round(base[0] + 0.7 * j, 3), round(base[1] - 1.5 - 0.9 * j, 3), round(base[2] + 0.3 * j, 3)))
                                              for j, (nm, el) in enumerate(cg.SIDE)]
    elif kind == 'flip':
        # reference chains nearly equal in atom count; the decoy loses atoms of the LARGER chain only, so that every count taken
        # on the decoy (atoms, common backbone atoms) ranks the chains the other way round
        n = rng.randint(4, 7)
        ref = cg.make_complex(rng, nA=n, nB=n)
        big = rng.choice(['A', 'B'])
        for r in ref.residues:
            base = r['atoms'][1][2]
            r['atoms'] = r['atoms'][:4] + [('CB', 'C', (round(base[0] + 0.4, 3), round(base[1] + (1.4 if r['chain'] == 'A' else -1.4), 3), round(base[2] + 0.3, 3)))]
        first_big = next(r for r in ref.residues if r['chain'] == big)
        first_big['atoms'].append(('CG', 'C', tuple(round(v + 0.9, 3) for v in first_big['atoms'][4][2])))   # one atom more in the bigger chain
    elif kind == 'negative':
        ref = cg.make_complex(rng, numbering='negative')
    else:
        ref = cg.make_complex(rng)
    dec = cg.jitter(rng, ref, rng.choice([0.2, 0.5, 1.0]))
    if kind == 'mirror':
        # the decoy is (close to) the mirror image of the reference: the covariance has a negative determinant
        dec = cg.mirror(dec, axis=rng.choice([0, 1, 2]))
    if rng.random() < 0.5:
        dec = cg.rigid_move(rng, dec, which=rng.choice(['all', 'B']))
    if kind == 'incomplete':
        dec = cg.delete_some(rng, dec, n_res=rng.randint(1, 2), n_atoms=rng.randint(0, 2))
    if kind == 'chainorder':
        # one of the two files lists chain B before chain A (same atoms, same chain identifiers)
        if rng.random() < 0.5:
            dec = cg.permute(rng, dec, 'chains')
        else:
            ref = cg.permute(rng, ref, 'chains')
    if kind == 'flip':
        big = max(ref.chains(), key=lambda c: sum(len(r['atoms']) for r in ref.residues if r['chain'] == c))
        mode = rng.choice(['side', 'backbone', 'residue'])
        cand = [r for r in dec.residues if r['chain'] == big]
        if mode == 'residue':
            dec.residues.remove(rng.choice(cand[1:-1] or cand))
        else:
            for r in rng.sample(cand, min(len(cand), 3)):
                r['atoms'] = [a for a in r['atoms'] if a[0] != ('O' if mode == 'backbone' else 'CB') and a[0] != 'CG']
    return ref, dec


def extra_checks(ctx):
    rng = ctx.rng
    res = []
    d = ctx.tmpdir()
    n = ctx.scale(30, 180)
    kinds = ['plain', 'equal', 'rankflip', 'negative', 'incomplete', 'mirror', 'mirror', 'flip', 'flip', 'chainorder']
    compared = discards = 0
    for k in range(n):
        kind = kinds[k % len(kinds)]
        ref, dec = make_pair(rng, kind)
        # the same file names are reused from complex to complex (rewritten structures, zone files removed so that the
        # 'written' route really writes): a file name means what the file holds now, whatever was read from it before
        rf = write(os.path.join(d, 'ref.pdb'), ref.lines())
        df = write(os.path.join(d, 'dec.pdb'), dec.lines())
        S = StructureSimilarity(df, rf, enforce_residue_matching=False)
        izf, lzf = os.path.join(d, 'c.izone'), os.path.join(d, 'c.lzone')
        for zf in (izf, lzf):
            for m in ('svd', 'quaternion'):
                if os.path.exists(zf + m):
                    os.remove(zf + m)
        vals = {'irmsd': {}, 'lrmsd': {}, 'fnat': {}}

        def run(measure, label, f):
            try:
                with warnings.catch_warnings():
                    warnings.simplefilter('ignore')
                    vals[measure][label] = float(f())
            except Exception as e:
                vals[measure][label] = exc_tag(e)
        for m in ('svd', 'quaternion'):
            run('irmsd', f'fast/{m}/nozone', lambda: S.compute_irmsd_fast(method=m))
            run('irmsd', f'fast/{m}/zone-written', lambda: S.compute_irmsd_fast(method=m, izone=izf + m))
            run('irmsd', f'fast/{m}/zone-read', lambda: S.compute_irmsd_fast(method=m, izone=izf + m))
            run('irmsd', f'sql/{m}/nozone', lambda: S.compute_irmsd_pdb2sql(method=m))
            run('irmsd', f'sql/{m}/zone-read', lambda: S.compute_irmsd_pdb2sql(method=m, izone=izf + m))
            run('lrmsd', f'fast/{m}/nozone', lambda: S.compute_lrmsd_fast(method=m))
            run('lrmsd', f'fast/{m}/zone-written', lambda: S.compute_lrmsd_fast(method=m, lzone=lzf + m))
            run('lrmsd', f'fast/{m}/zone-read', lambda: S.compute_lrmsd_fast(method=m, lzone=lzf + m))
            run('lrmsd', f'sql/{m}', lambda: S.compute_lrmsd_pdb2sql(method=m))
        run('fnat', 'fast', lambda: S.compute_fnat_fast())
        run('fnat', 'sql', lambda: S.compute_fnat_pdb2sql())
        # zone written = zone in memory = zone read back (both readers see the same residues)
        try:
            mem = S.compute_izone(10.0, save_file=False)
            back = StructureSimilarity.read_zone(izf + 'svd')
            zone_ok = {k_: sorted(v) for k_, v in mem.items()} == {k_: sorted(v) for k_, v in back.items()}
        except Exception as e:
            zone_ok = exc_tag(e)
        bad = None
        for measure, tol in (('irmsd', 0.001), ('lrmsd', 0.001), ('fnat', 1e-6)):
            vs = vals[measure]
            nums = [v for v in vs.values() if isinstance(v, float)]
            errs = {l: v for l, v in vs.items() if not isinstance(v, float)}
            if errs and nums:
                bad = {'measure': measure, 'values': vs, 'why': 'some routes fail where others return a value'}
            elif nums and max(nums) - min(nums) > tol * 1.0000001:
                bad = {'measure': measure, 'values': vs, 'why': 'routes disagree'}
            elif nums and max(nums) != min(nums):
                discards += 1
            compared += len(vs)
        if zone_ok is not True:
            bad = {'measure': 'izone', 'why': f'in-memory zone and zone read back differ: {zone_ok}'}
        res.append({'name': f'routes agree on complex {k} ({kind})', 'ok': bad is None,
                    'case': None if bad is None else dict(bad, ref=ref.lines(), decoy=dec.lines()),
                    'detail': 'fast/SQL x svd/quaternion x zone-file source must return the same value'})
    res.append({'name': f'{compared} route values compared; {discards} one-unit rounding differences tolerated', 'ok': True, 'case': None, 'detail': ''})
    return res
