"""C06 -- optimal superposition: a proper rotation attaining the minimum RMSD (SVD and quaternion kernels)."""
import math, contextlib
from fractions import Fraction
import numpy as np
from vlib import rat, unrat, exc_tag
import importlib
SP = importlib.import_module('pdb2sql.superpose')

ID = 'C06'
LEVEL = 'proof'
CLUSTER = 'D'
GEN_UNITS = ['quaternion', 'kabsch', 'rotate', 'superpose_glue', 'kabsch_core', 'get_rotation_matrix_Kabsh',
             'sup_runtime', 'sup_get_rotation_matrix_quaternion', 'sup_get_rotation_matrix']
EXTRA_TARGETS = ['PdbVerif.Driver.MainG']       # supTie: the generated quaternion kernel / dispatch are run by the cluster-G driver (Driver/ExtSup.lean)
PIN_TARGETS = ['PdbVerif.Pins.D']
RULE = ('centred point-set pairs, n in {1,2,3,4,10,50}, families generic / coplanar / collinear / single point / identical / '
        'mirror image (negative-determinant covariance) / near-equal singular values / noisy rigid copy / exactly rank-deficient '
        'covariance (three points incl. a backbone N-CA-C triple, two points, planar n = 4 and 10; rigid copies and mirror images, both '
        'orientations of the pair), coordinate scales '
        '0.01 .. 1000, each through the real get_rotation_matrix_Kabsh and get_rotation_matrix_quaternion (NumPy\'s own svd / eigh '
        'factors recorded during the call and handed to the Lean model as exact rationals), plus get_rotation_matrix dispatch, '
        'superpose_selection, and a stream of uncentred / unequally sized / wrong-method inputs. A case is non-trivial when distinct '
        'by (operation, family, n, scale decade, sign of det of the covariance, accepted/rejected).')
ASSUMPTIONS = ['np.linalg.svd returns A = V diag(s) Wt with V, Wt orthogonal and s sorted non-negative (SvdContract); checked on every sampled case to 1e-9 relative',
               'np.linalg.eigh returns for the symmetric key matrix an orthogonal eigendecomposition, so that the column at argmax(l) is a unit eigenvector for the largest eigenvalue (EigContract, via eigContract_of_decomposition); decomposition defect, eigen-residual, unit length and maximality (against the non-symmetric solver np.linalg.eigvals) checked on every sampled case',
               'floating-point evaluation of the kernels stays within 1e-9 (relative to the coordinate scale) of the exact-rational model: sampled, not proved']
TRUSTED = ['the recording wrappers around np.linalg.svd / np.linalg.eigh / np.linalg.eig used to capture the factors the real code saw']

TOL = Fraction(1, 10**9)
NS = [1, 2, 3, 4, 10, 50]
FAMILIES = ['generic', 'coplanar', 'collinear', 'single', 'identical', 'mirror', 'near_equal_sv', 'noisy_copy']
EPS = 1e-6


# ----------------------------------------------------------------------------------------------
# generators
# ----------------------------------------------------------------------------------------------

def nprng(rng):
    return np.random.default_rng(rng.getrandbits(64))


def rand_rot(g):
    q = g.normal(size=4)
    q /= np.linalg.norm(q)
    a, b, c, d = q
    return np.array([[a*a+b*b-c*c-d*d, 2*(b*c-a*d), 2*(b*d+a*c)],
                     [2*(b*c+a*d), a*a-b*b+c*c-d*d, 2*(c*d-a*b)],
                     [2*(b*d-a*c), 2*(c*d+a*b), a*a-b*b-c*c+d*d]])


def centre(X):
    X = X - np.mean(X, 0)
    return X - np.mean(X, 0)          # twice: the float mean of the result is ~1e-17 * scale


def make_pair(g, family, n, scale):
    R = rand_rot(g)
    if family == 'generic':
        P, Q = g.normal(size=(n, 3)), g.normal(size=(n, 3))
    elif family == 'coplanar':
        P = g.normal(size=(n, 3)); P[:, 2] = 0
        Q = g.normal(size=(n, 3)); Q[:, 2] = 0
        P, Q = P @ rand_rot(g).T, Q @ R.T
    elif family == 'collinear':
        d1, d2 = g.normal(size=3), g.normal(size=3)
        P = np.outer(g.normal(size=n), d1 / np.linalg.norm(d1))
        Q = np.outer(g.normal(size=n), d2 / np.linalg.norm(d2))
    elif family == 'single':
        P, Q = np.zeros((n, 3)), np.zeros((n, 3))
        if n > 1:                      # all points coincide with the centroid except a symmetric pair
            P[0], P[1] = [1, 0, 0], [-1, 0, 0]
    elif family == 'identical':
        P = g.normal(size=(n, 3)); Q = P.copy()
    elif family == 'mirror':
        P = g.normal(size=(n, 3))
        Q = (P * np.array([1, 1, -1])) @ R.T + 0.01 * g.normal(size=(n, 3))
    elif family == 'near_equal_sv':
        base = np.array([[1, 0, 0], [-1, 0, 0], [0, 1, 0], [0, -1, 0], [0, 0, 1], [0, 0, -1]], float)
        P = np.array([base[i % 6] * (1 + 1e-7 * g.normal()) for i in range(n)])
        Q = P @ R.T
        if g.random() < 0.5:
            Q = Q * np.array([1, 1, -1])
    else:                              # noisy rigid copy
        P = g.normal(size=(n, 3)); Q = P @ R.T + 0.05 * g.normal(size=(n, 3))
    return centre(P * scale), centre(Q * scale)


def pts(X):
    return [[rat(v) for v in row] for row in np.asarray(X, float).reshape(-1, 3)]


def unpts(L):
    return np.array([[float(unrat(v)) for v in row] for row in L], float).reshape(-1, 3)


def offset_vec(rng):
    """a centroid offset well above the 1e-6 tolerance: single components of either sign, all components, and
    offsets whose components cancel (sum to zero) or are all negative - a guard that averages over all coordinates,
    or forgets the absolute value, accepts exactly those"""
    base = rng.choice([(1, 0, 0), (0, 1, 0), (0, 0, 1), (-1, 0, 0), (0, -1, 0), (0, 0, -1), (1, 1, 1), (-1, -1, -1),
                       (3, -3, 0), (0, 2, -2), (5, -2, -3), (-1, 2, -1), (1, -1, 0), (-2, 0, 2)])
    return rng.choice([1e-5, 1e-3, 0.5, 1.0, 7.0]) * np.array(base, dtype=float)


def cases(ctx):
    rng = ctx.rng
    g = nprng(rng)
    out = []
    reps = ctx.scale(3, 60)
    for rep in range(reps):
        for fam in FAMILIES:
            for n in NS:
                scale = [0.01, 1.0, 1000.0][(NS.index(n) + FAMILIES.index(fam) + rep) % 3] if rep == 0 else 10 ** g.uniform(-2, 3)
                P, Q = make_pair(g, fam, n, scale)
                for op in ('kabsch', 'quat'):
                    out.append({'op': op, 'P': pts(P), 'Q': pts(Q), 'family': fam, 'n': n, 'scale_in': scale, 'eps': rat(EPS)})
    # exactly rank-deficient covariance (det A = 0 in exact arithmetic, rounding noise in floats): three generic points (always
    # coplanar once centred; incl. an N, CA, C backbone triple), two points, planar n >= 4; the pair is a rigidly displaced copy or
    # a mirror image, with and without noise, in both orientations (P, Q) and (Q, P).  The reflection decision must come from
    # det(W V^T), never from the (meaningless) sign of det A.
    backbone = np.array([[0.0, 0.0, 0.0], [1.458, 0.0, 0.0], [2.009, 1.420, 0.0]])
    for rep in range(ctx.scale(4, 40)):
        for shape in ('three', 'backbone', 'two', 'planar4', 'planar10'):
            for relation in ('rigid', 'mirror', 'rigid_noisy', 'mirror_noisy'):
                scale = 10 ** g.uniform(-2, 3) if rep % 2 else 1.0
                if shape == 'three':
                    P = g.normal(size=(3, 3))
                elif shape == 'backbone':
                    P = backbone @ rand_rot(g).T
                elif shape == 'two':
                    P = g.normal(size=(2, 3))
                else:
                    m = 4 if shape == 'planar4' else 10
                    P = g.normal(size=(m, 3)); P[:, 2] = 0; P = P @ rand_rot(g).T
                Q = P * np.array([1, 1, -1]) if relation.startswith('mirror') else P.copy()
                Q = Q @ rand_rot(g).T + g.normal(size=3)
                if relation.endswith('noisy'):
                    Q = Q + 0.02 * g.normal(size=Q.shape)
                    if shape.startswith('planar'):          # keep the target set planar as well
                        Qc = Q - Q.mean(0); _, _, Vt = np.linalg.svd(Qc); Q = Qc - np.outer(Qc @ Vt[2], Vt[2])
                P, Q = centre(P * scale), centre(Q * scale)
                for A_, B_ in ((P, Q), (Q, P)):
                    for op in ('kabsch', 'quat') if rep == 0 else ('kabsch',):
                        out.append({'op': op, 'P': pts(A_), 'Q': pts(B_), 'family': f'rankdef-{shape}-{relation}', 'n': len(P),
                                    'scale_in': scale, 'eps': rat(EPS)})
    # every scale decade for the two families the tests never reach
    for fam in ('mirror', 'collinear', 'generic'):
        for scale in (0.01, 0.1, 1.0, 10.0, 100.0, 1000.0):
            P, Q = make_pair(g, fam, 10, scale)
            for op in ('kabsch', 'quat'):
                out.append({'op': op, 'P': pts(P), 'Q': pts(Q), 'family': fam, 'n': 10, 'scale_in': scale, 'eps': rat(EPS)})
    # exact small configurations (integers: no rounding anywhere)
    exact = [
        ([[2, 0, 0], [-2, 0, 0], [0, 1, 0], [0, -1, 0]], [[2, 0, 0], [-2, 0, 0], [0, 1, 0], [0, -1, 0]], 'identical'),
        ([[2, 0, 0], [-2, 0, 0], [0, 1, 0], [0, -1, 0], [0, 0, 0.5], [0, 0, -0.5]],
         [[2, 0, 0], [-2, 0, 0], [0, 1, 0], [0, -1, 0], [0, 0, -0.5], [0, 0, 0.5]], 'mirror'),
        ([[1, 0, 0], [-1, 0, 0]], [[0, 1, 0], [0, -1, 0]], 'collinear'),
        ([[0, 0, 0]], [[0, 0, 0]], 'single'),
        ([[1, 2, 3], [-1, -2, -3]], [[-1, -2, -3], [1, 2, 3]], 'collinear'),
    ]
    for P, Q, fam in exact:
        for op in ('kabsch', 'quat'):
            out.append({'op': op, 'P': pts(P), 'Q': pts(Q), 'family': fam + '-exact', 'n': len(P), 'scale_in': 1.0, 'eps': rat(EPS)})
    # guards and dispatch
    for k in range(ctx.scale(180, 3000)):
        n = rng.choice([1, 2, 3, 10])
        P, Q = make_pair(g, 'generic', n, 10 ** g.uniform(-1, 2))
        kind = ['size', 'offsetP', 'offsetQ', 'tiny', 'method', 'ok'][k % 6]
        method = rng.choice(['svd', 'quaternion', 'SVD', 'Quaternion'])
        if kind == 'size':
            Q = centre(g.normal(size=(n + rng.choice([1, 2]), 3)))
        elif kind == 'offsetP':
            P = P + offset_vec(rng)
        elif kind == 'offsetQ':
            Q = Q + offset_vec(rng)
        elif kind == 'tiny':
            P = P + rng.choice([1e-8, -1e-9]) * np.eye(3)[rng.randrange(3)]
        elif kind == 'method':
            method = rng.choice(['kabsch', 'quat', '', 'svd '])
        out.append({'op': 'guard', 'P': pts(P), 'Q': pts(Q), 'method': method, 'family': 'guard-' + kind, 'n': n, 'eps': rat(EPS)})
    # superpose_selection
    for k in range(ctx.scale(60, 1500)):
        n = rng.choice([3, 4, 10, 50])
        fam = rng.choice(['generic', 'mirror', 'noisy_copy', 'coplanar'])
        scale = 10 ** g.uniform(-1, 2)
        P, Q = make_pair(g, fam, n, scale)
        selMob = P + scale * g.normal(size=3)
        selTar = Q + scale * g.normal(size=3)
        self_ = (k % 2 == 0)
        xyz = selMob if self_ else np.vstack([selMob, scale * g.normal(size=(rng.choice([1, 5]), 3))])
        out.append({'op': 'superpose_sel', 'xyz': pts(xyz), 'selMob': pts(selMob), 'selTar': pts(selTar),
                    'method': rng.choice(['svd', 'quaternion']), 'self': self_, 'family': 'superpose-' + fam, 'n': n})
    return out


def corpus(ctx):
    """minimised past failures, replayed first on every run"""
    out = []
    # regression (fixed in /repo 75916a0): collinear pair on which np.linalg.eig returned a complex-conjugate eigenvector pair for
    # the (numerically double) top eigenvalue of the symmetric key matrix; the quaternion kernel dropped the imaginary parts entry
    # by entry and returned a nearly singular matrix (det 0.019, residual 17.2 against the optimum 0.733). Must pass with eigh.
    P, Q = [[-3, -2, 0], [3, 2, 0]], [[0, 0, -3], [0, 0, 3]]
    for op in ('quat', 'kabsch'):
        out.append({'op': op, 'P': pts(P), 'Q': pts(Q), 'family': 'corpus-collinear', 'n': 2, 'scale_in': 1.0, 'eps': rat(EPS)})
    return out


def search_cases(ctx):
    """mirror-image / degenerate families (used when a proof obligation or the correspondence breaks)"""
    g = nprng(ctx.rng)
    out = []
    for fam in ('mirror', 'collinear', 'coplanar', 'single', 'identical', 'near_equal_sv', 'generic'):
        for n in NS:
            for scale in (0.01, 1.0, 1000.0):
                for _ in range(ctx.scale(2, 10)):
                    P, Q = make_pair(g, fam, n, scale)
                    for op in ('kabsch', 'quat'):
                        out.append({'op': op, 'P': pts(P), 'Q': pts(Q), 'family': 'search-' + fam, 'n': n, 'scale_in': scale, 'eps': rat(EPS)})
    return out


# ----------------------------------------------------------------------------------------------
# real code
# ----------------------------------------------------------------------------------------------

@contextlib.contextmanager
def recording():
    """record what np.linalg.svd / np.linalg.eigh (or eig, should the code go back to it) return while the real code runs"""
    rec = {}
    svd0, eig0, eigh0 = np.linalg.svd, np.linalg.eig, np.linalg.eigh

    def svd(a, *args, **kw):
        r = svd0(a, *args, **kw)
        rec['svd'] = (np.array(a), [np.array(x) for x in r])
        return r

    def eig(a, *args, **kw):
        r = eig0(a, *args, **kw)
        rec['eig'] = (np.array(a), [np.array(x) for x in r])
        return r
    def eigh(a, *args, **kw):
        r = eigh0(a, *args, **kw)
        rec['eig'] = (np.array(a), [np.array(x) for x in r])
        rec['eig_routine'] = 'eigh'
        return r
    np.linalg.svd, np.linalg.eig, np.linalg.eigh = svd, eig, eigh
    try:
        yield rec
    finally:
        np.linalg.svd, np.linalg.eig, np.linalg.eigh = svd0, eig0, eigh0


def horn_optimum(P, Q):
    """independent optimiser: Horn's quaternion method through the symmetric solver; returns the optimal residual"""
    R = P.T @ Q
    F = np.array([[R[0, 0] + R[1, 1] + R[2, 2], R[1, 2] - R[2, 1], R[2, 0] - R[0, 2], R[0, 1] - R[1, 0]],
                  [R[1, 2] - R[2, 1], R[0, 0] - R[1, 1] - R[2, 2], R[0, 1] + R[1, 0], R[0, 2] + R[2, 0]],
                  [R[2, 0] - R[0, 2], R[0, 1] + R[1, 0], -R[0, 0] + R[1, 1] - R[2, 2], R[1, 2] + R[2, 1]],
                  [R[0, 1] - R[1, 0], R[0, 2] + R[2, 0], R[1, 2] + R[2, 1], -R[0, 0] - R[1, 1] + R[2, 2]]])
    w = np.linalg.eigvalsh(F)
    return float(np.sum(P * P) + np.sum(Q * Q) - 2 * w[-1]), float(w[-1])


def obs_factors(rec):
    o = {}
    if 'svd' in rec:
        V, s, Wt = rec['svd'][1]
        o.update({'V': [rat(x) for x in V.ravel()], 's': [rat(x) for x in s], 'Wt': [rat(x) for x in Wt.ravel()]})
    if 'eig' in rec:
        l, U = rec['eig'][1]
        o['eig_complex'] = bool(np.iscomplexobj(l) or np.iscomplexobj(U))
        l, U = np.real(l), np.real(U)
        o['eig'] = [[rat(l[k]), [rat(x) for x in U[:, k]]] for k in range(4)]
        F = rec['eig'][0]
        fs = float(np.max(np.abs(F))) or 1.0
        # the full decomposition contract (Proofs.Quat.eigContract_of_decomposition): F U = U diag(l), U orthogonal
        o['decomp_defect'] = float(max(np.max(np.abs(F @ U - U * l)) / fs, np.max(np.abs(U.T @ U - np.eye(4)))))
        # independent value of the largest eigenvalue: the non-symmetric solver
        o['eigh_max'] = rat(float(np.max(np.real(np.linalg.eigvals(F)))))
        o['eig_routine'] = rec.get('eig_routine', 'eig')
    return o


def impl(ctx, c):
    c.pop('obs', None)
    op = c['op']
    if op in ('kabsch', 'quat', 'guard'):
        P, Q = unpts(c['P']), unpts(c['Q'])
        with recording() as rec:
            try:
                if op == 'kabsch':
                    U = SP.get_rotation_matrix_Kabsh(P.copy(), Q.copy())
                elif op == 'quat':
                    U = SP.get_rotation_matrix_quaternion(P.copy(), Q.copy())
                else:
                    U = SP.get_rotation_matrix(P.copy(), Q.copy(), method=c['method'])
            except Exception as e:
                c['obs'] = {}
                return exc_tag(e)
        o = obs_factors(rec)
        o['U'] = [rat(x) for x in np.asarray(U, float).ravel()]
        n = min(len(P), len(Q))
        B = P[:n].T @ Q[:n]
        o['scale'] = rat(float(np.max(np.abs(B))) or 1.0)
        c['obs'] = o
        res, lam = horn_optimum(P, Q)
        return {'U': o['U'], 'horn_residual': rat(res), 'sumsq': rat(float(np.sum(P * P) + np.sum(Q * Q)))}
    if op == 'superpose_sel':
        X, sm, st = unpts(c['xyz']), unpts(c['selMob']), unpts(c['selTar'])
        with recording() as rec:
            try:
                out = SP.superpose_selection(X.copy(), sm.copy(), st.copy(), c['method'])
            except Exception as e:
                c['obs'] = {}
                return exc_tag(e)
        o = obs_factors(rec)
        if c['self']:
            o['out'] = pts(out)
            oc, tc = out - out.mean(0), st - st.mean(0)
            o['scale'] = rat(float(np.max(np.abs(oc.T @ tc))) or 1.0)
        c['obs'] = o
        return {'xyz': pts(out), 'coord_scale': rat(float(max(1.0, np.max(np.abs(X)), np.max(np.abs(st)))))}
    raise ValueError(op)


def driver_line(c):
    d = {k: v for k, v in c.items() if k not in ('family', 'n', 'scale_in', 'obs', 'self')}
    obs = c.get('obs') or {}
    for k, v in obs.items():
        if k not in ('eig_complex', 'eigh_max', 'decomp_defect', 'eig_routine'):
            d[k] = v
    # nothing recorded (the implementation raised, or never called the routine): neutral factors, so that the drivers still answer;
    # agree_model then reports the missing recording as a disagreement instead of the harness stopping without a verdict
    if c['op'] == 'kabsch' and 'V' not in d:
        one = ['1/1', '0/1', '0/1', '0/1', '1/1', '0/1', '0/1', '0/1', '1/1']
        d.update({'V': one, 's': ['1/1', '1/1', '1/1'], 'Wt': one})
    if c['op'] == 'quat' and 'eig' not in d:
        d['eig'] = [['1/1', ['1/1', '0/1', '0/1', '0/1']]]
    return d


# ----------------------------------------------------------------------------------------------
# comparison
# ----------------------------------------------------------------------------------------------

def _maxdiff(a, b):
    return max(abs(unrat(x) - unrat(y)) for x, y in zip(a, b))


def total(f):
    """a comparison never raises: what it cannot make sense of is a disagreement"""
    def g(c, out, other):
        try:
            return f(c, out, other)
        except Exception as e:
            return f'comparison impossible ({type(e).__name__}: {e}); implementation output {str(out)[:120]}'
    g.__name__ = f.__name__
    return g


@total
def agree_model(c, out, model):
    op = c['op']
    if op == 'superpose_sel':
        m = model['xyz']
        if c.get('obs', {}).get('eig_complex'):
            return True
        if isinstance(out, str) or isinstance(m, str):
            return True if out == m else f'implementation {out!r} model {m!r}'
        scale = unrat(out['coord_scale'])
        flat = lambda L: [v for row in L for v in row]
        if len(flat(m)) != len(flat(out['xyz'])):
            return 'different shapes'
        d = _maxdiff(flat(m), flat(out['xyz']))
        return True if d <= TOL * scale else f'superposed coordinates differ by {float(d):.3e} (scale {float(scale):.3g})'
    mU = model['U']
    if c.get('obs', {}).get('eig_complex'):
        # np.linalg.eig returned complex arrays: outside what the model's real `eig` parameter can express, the model has no
        # answer; the implementation is judged by the Spec alone (agree_spec) on this case
        return True
    if op == 'guard':
        if isinstance(out, str):
            return True if out == mU else f'implementation {out!r} model {mU!r}'
        return True if mU == 'accepted' else f'implementation returned a matrix, model {mU!r}'
    if isinstance(out, str) or isinstance(mU, str):
        return True if out == mU else f'implementation {out!r} model {mU!r}'
    d = _maxdiff(mU, out['U'])
    if d > TOL:
        return f'rotation matrices differ by {float(d):.3e}'
    ct = model['contract']
    obs = c.get('obs', {})
    if op == 'kabsch' and 's' not in obs:
        return 'the implementation returned a matrix without calling np.linalg.svd'
    if op == 'quat' and 'eig' not in obs:
        return 'the implementation returned a matrix without calling np.linalg.eigh / eig'
    if op == 'kabsch':
        smax = max(unrat(obs['s'][0]), Fraction(1, 10**300))
        if unrat(ct['factor']) > TOL * smax or unrat(ct['orthV']) > TOL or unrat(ct['orthW']) > TOL or not ct['ordered']:
            return f'NumPy svd outside its contract: {ct}'
    else:
        fscale = max(abs(unrat(p[0])) for p in obs['eig']) or Fraction(1)
        if unrat(ct['residual']) > TOL * max(fscale, 1) or unrat(ct['unit']) > TOL or not ct['isMax']:
            return f'NumPy eig outside its contract: {ct}'
        if obs['decomp_defect'] > 1e-9:
            return f'NumPy {obs["eig_routine"]} is not an orthogonal eigendecomposition (defect {obs["decomp_defect"]:.3e})'
        if unrat(ct['lambda']) < unrat(obs['eigh_max']) - Fraction(1, 10**8) * max(fscale, 1):
            return f'eigenvalue chosen {ct["lambda"]} is not the largest ({obs["eigh_max"]})'
    return True


CERT_TOL = Fraction(1, 10**9)


def _cert_ok(cert):
    bad = []
    if unrat(cert['orth']) > CERT_TOL: bad.append('not orthogonal')
    if unrat(cert['det']) > CERT_TOL: bad.append('determinant is not +1')
    if unrat(cert['asym']) > CERT_TOL: bad.append('U*B not symmetric (first-order condition)')
    if unrat(cert['minMinor']) < -CERT_TOL: bad.append('tr(M) I - M not positive semidefinite (second-order condition)')
    return bad


@total
def agree_spec(c, out, spec):
    op = c['op']
    if op == 'superpose_sel':
        if spec is None or isinstance(out, str):
            return True
        bad = _cert_ok(spec['cert'])
        scale = unrat(out['coord_scale'])
        if unrat(spec['centroidShift']) > TOL * scale: bad.append('centroids of the superposed selection and the target differ')
        return True if not bad else 'superposed selection is not optimally placed: ' + '; '.join(bad)
    if op == 'guard' and c['method'].lower() not in ('svd', 'quaternion'):
        return True if out == 'ERR:ValueError' else f'invalid method gave {out!r}'
    if spec['mustReject']:
        return True if out == 'ERR:ValueError' else f'input that must be rejected gave {str(out)[:80]}'
    if isinstance(out, str):
        return f'valid input raised {out}'
    bad = _cert_ok(spec['cert'])
    res, horn, ss = unrat(spec['cert']['residual']), unrat(out['horn_residual']), max(unrat(spec['sumSq']), Fraction(1, 10**300))
    if abs(res - horn) > Fraction(1, 10**9) * ss:
        bad.append(f'residual {float(res):.12g} differs from the independent optimum {float(horn):.12g}')
    return True if not bad else '; '.join(bad)


def classify(c, out, spec):
    """kind of a Spec violation, for /verif/known_findings.json"""
    if c.get('obs', {}).get('eig_complex'):
        return 'quat_complex_eig_pair'
    return None


def nontrivial_key(c, out):
    acc = 'rejected' if isinstance(out, str) else 'accepted'
    sgn = None
    if c['op'] in ('kabsch', 'quat') and 'P' in c:
        P, Q = unpts(c['P']), unpts(c['Q'])
        if len(P) == len(Q):
            d = np.linalg.det(P.T @ Q)
            sgn = 0 if abs(d) < 1e-12 * max(1.0, np.max(np.abs(P.T @ Q))) ** 3 else (1 if d > 0 else -1)
    dec = round(math.log10(c['scale_in'])) if 'scale_in' in c else None
    return [c['op'], c['family'], c.get('n'), dec, sgn, acc, c.get('method')]


def distribution(recs):
    fam, sign, outcome = {}, {}, {}
    for r in recs:
        c = r['case']
        k = c['op'] + ':' + c['family']
        fam[k] = fam.get(k, 0) + 1
        key = nontrivial_key(c, r['impl'])
        sign[str(key[4])] = sign.get(str(key[4]), 0) + 1
        o = r['impl'] if isinstance(r['impl'], str) else 'matrix'
        outcome[o] = outcome.get(o, 0) + 1
    return {'families': fam, 'sign_of_det_covariance': sign, 'outcomes': outcome}


def extra_checks(ctx):
    """both methods attain the same minimum (and the independent optimum) on the real code, family by family"""
    g = nprng(ctx.rng)
    res = []
    worst, bad = 0.0, None
    cnt = 0
    for fam in FAMILIES:
        for n in NS:
            for _ in range(ctx.scale(2, 60)):
                scale = 10 ** g.uniform(-2, 3)
                P, Q = make_pair(g, fam, n, scale)
                Uk = SP.get_rotation_matrix(P.copy(), Q.copy(), 'svd')
                Uq = SP.get_rotation_matrix(P.copy(), Q.copy(), 'quaternion')
                rk = float(np.sum((P @ Uk.T - Q) ** 2)); rq = float(np.sum((P @ Uq.T - Q) ** 2))
                ro, _ = horn_optimum(P, Q)
                ss = float(np.sum(P * P) + np.sum(Q * Q)) or 1.0
                d = max(abs(rk - rq), abs(rk - ro), abs(rq - ro)) / ss
                cnt += 1
                if d > worst:
                    worst = d
                if d > 1e-9 and bad is None:
                    bad = {'family': fam, 'n': n, 'P': pts(P), 'Q': pts(Q), 'svd': rk, 'quaternion': rq, 'independent': ro}
                for U, nm in ((Uk, 'svd'), (Uq, 'quaternion')):
                    if (abs(np.linalg.det(U) - 1) > 1e-9 or np.max(np.abs(U @ U.T - np.eye(3))) > 1e-9) and bad is None:
                        bad = {'family': fam, 'n': n, 'P': pts(P), 'Q': pts(Q), 'method': nm, 'det': float(np.linalg.det(U))}
    res.append({'name': f'svd, quaternion and independent optimiser give equal residuals on {cnt} pairs (worst relative gap {worst:.2e})',
                'ok': bad is None, 'case': bad, 'detail': 'residuals of the two methods differ, or a method returned an improper matrix'})
    res += _gensup_guarded(ctx)      # supTie
    return res


# ================================================================================================================
# supTie: the GENERATED quaternion kernel and method dispatch (Gen/Sup.lean, translated from superpose.py on every run) against the real code
# ================================================================================================================

def gensup_checks(ctx):
    """implementation = generated = hand model: point-set pairs of every family go through the real `get_rotation_matrix_quaternion` /
    `get_rotation_matrix` (NumPy's factors recorded, as in `impl`) and through the driver operations `gen_quat` / `gen_dispatch` of
    cluster G, which run `GenSup.get_rotation_matrix_quaternion` / `GenSup.get_rotation_matrix` (over the translated kernels) and
    the hand models on the same factors: generated and hand model must be EQUAL (exact rationals), generated and implementation
    agree on the exception class and within 1e-9 on the matrix."""
    import vlib
    rng = ctx.rng
    g = nprng(rng)
    cs = []
    for fam in FAMILIES:
        for n in NS:
            for _ in range(ctx.scale(1, 6)):
                P, Q = make_pair(g, fam, n, 10 ** g.uniform(-2, 3))
                cs.append({'op': 'quat', 'P': pts(P), 'Q': pts(Q), 'family': fam, 'n': n, 'eps': rat(EPS)})
    for k in range(ctx.scale(36, 240)):
        n = rng.choice([1, 2, 3, 10])
        P, Q = make_pair(g, 'generic', n, 10 ** g.uniform(-1, 2))
        kind = ['size', 'offsetP', 'offsetQ', 'tiny', 'method', 'ok'][k % 6]
        method = rng.choice(['svd', 'quaternion', 'SVD', 'Quaternion', 'sVd'])
        if kind == 'size':
            Q = centre(g.normal(size=(n + rng.choice([1, 2]), 3)))
        elif kind == 'offsetP':
            P = P + offset_vec(rng)
        elif kind == 'offsetQ':
            Q = Q + offset_vec(rng)
        elif kind == 'tiny':
            P = P + rng.choice([1e-8, -1e-9]) * np.eye(3)[rng.randrange(3)]
        elif kind == 'method':
            method = rng.choice(['kabsch', 'quat', '', 'svd ', 'quaternions'])
        cs.append({'op': 'guard', 'P': pts(P), 'Q': pts(Q), 'method': method, 'family': 'guard-' + kind, 'n': n, 'eps': rat(EPS)})
    lines, outs = [], []
    res = []
    for c in cs:
        try:
            out = impl(ctx, c)
        except Exception as e:
            res.append({'name': 'generated rotation kernels: harness', 'ok': False, 'case': {'family': c['family'], 'n': c['n']}, 'detail': repr(e)})
            continue
        if c.get('obs', {}).get('eig_complex'):
            continue
        d = driver_line(c)
        if c['op'] == 'quat' and len(d.get('eig', [])) != 4:
            d['eig'] = []           # nothing recorded: the implementation raised before `eigh`
        d['op'] = 'gen_quat' if c['op'] == 'quat' else 'gen_dispatch'
        lines.append(d); outs.append((c, out))
    bad_eq, bad_impl, n_mat, n_err = None, None, 0, 0
    if lines:
        for (c, out), a in zip(outs, vlib.run_driver(lines, which='model', cluster='G')):
            m = a.get('model')
            brief = {'op': c['op'], 'family': c['family'], 'n': c['n'], 'method': c.get('method'), 'P': c['P'], 'Q': c['Q']}
            if not isinstance(m, dict):
                bad_impl = bad_impl or (brief, f'driver: {str(a)[:300]}')
                continue
            if m.get('equal') is not True:
                bad_eq = bad_eq or (brief, f'generated {str(m.get("gen"))[:160]} vs hand model {str(m.get("model"))[:160]}')
            gU = m['gen']
            if isinstance(out, str) or isinstance(gU, str):
                if gU != out:
                    bad_impl = bad_impl or (brief, f'implementation {str(out)[:100]}, generated {str(gU)[:100]}')
                else:
                    n_err += 1
                continue
            dmax = _maxdiff(gU, out['U'])
            if dmax > TOL:
                bad_impl = bad_impl or (brief, f'rotation matrices differ by {float(dmax):.3e}')
            else:
                n_mat += 1
            if 'lits' in m and m['lits'] != [rat(EPS)]:
                bad_impl = bad_impl or (brief, f'centring threshold of the generated kernel {m["lits"]} is not the double 1e-6')
    res.append({'name': f'generated quaternion kernel / dispatch = hand model on {len(lines)} cases (exact)', 'ok': bad_eq is None,
                'case': bad_eq[0] if bad_eq else None, 'detail': bad_eq[1] if bad_eq else ''})
    res.append({'name': f'generated quaternion kernel / dispatch = implementation on {len(lines)} cases ({n_mat} matrices, {n_err} exceptions)',
                'ok': bad_impl is None, 'case': bad_impl[0] if bad_impl else None, 'detail': bad_impl[1] if bad_impl else ''})
    return res


def _gensup_guarded(ctx):
    """the cluster-G driver that runs the generated functions does not build when the regenerated text no longer fits its callers
    (reported as a broken obligation by the check itself): then there is nothing to compare here, and no verdict"""
    try:
        return gensup_checks(ctx)
    except RuntimeError as e:
        if 'driver failed' in str(e) or 'driver answered' in str(e):
            return [{'name': 'generated quaternion kernel / dispatch: not run (the driver with the generated functions is unavailable)', 'ok': True,
                     'case': None, 'detail': str(e)[:300]}]
        raise
