"""
translate_ext_get.py -- translator plug-in: `pdb2sqlcore.get` WHOLE (argument validation, the per-model dispatch, the no-keyword
query, the `SELECT EXISTS` probes of the keys, the loop over the keywords, the chunked branch with its recursion through
`self.get`, the combined-limit error, the final query), `update` (validation; shape checks, `get('rowID')`, statement and rows),
`update_column`, `add_column`, and the wrappers `get_xyz`, `get_residues`, `get_chains`, `update_xyz` of pdb2sql_base.py, into
Gen/Get.lean (namespace GenG).

It is built on the statement / expression translator of translate_ext_sql.py (class `Tr`: types Str | Int | Bool | Val | Arg |
Kwargs | List T | Opt T | Tuple, SSA renaming, join-free `do` blocks) and adds what the rest of `get` needs:

  * the database object: `self.c.execute(text, params)` as an EXPRESSION (`E.execute db text params`: MicroSql on the emitted
    text), `self.get_colnames()`, `self._nModel`, `self.get(columns, tablename=.., **kw)` = the parameter `self_get` (the
    recursion: `getF (fuel + 1) = get_body (getF fuel)`), `self._format_get_output` = the translated `GenSql.format_get_output`;
  * every `for` loop becomes its own definition `<fn>_for_<target>` (parameters: the variables it reads, the loop item, the tuple
    of loop-carried variables) run by `E.forM` / `E.forIn` (a loop whose body may `return`);
  * the returning `if` that calls `self.get` (the chunked branch) becomes its own definition `get_chunked`;
  * `try: <execute> except BaseException: raise X` (match on the engine's answer), `x = None` / `x is None` on a local,
    truthiness of a str, `kwargs[key] = v`, `kwargs.keys() / .copy()`, `x in <list>`, `set(..)`, `&=` / `|=` on sets,
    `sorted(..)`, `range(a, b, step)`, `any(<generator>)`, `isinstance(columns, str / list)` decided by the static type.

  * methods that MODIFY the database (`update`, `update_xyz`, `update_column`, `add_column`): everything before the effects only
    reads the database, so the translated body is a pure function that returns a plan (`E.Plan`): the calls `self.update(...)` it
    makes (the per-model loop), then its final `self.c.executemany(text, rows)` / `self.c.execute(text)`; `E.run` executes the plan
    (calls one after the other on the database the previous one left, an exception stops it with what was done so far);
    `updateF (fuel + 1) = E.run (updateF fuel) (update_body (get db) ...)`;
  * `isinstance(x, str / list)` is decided by the static type of `x` (only the live branch is emitted), so `columns` may change
    from str to list in one branch; `sorted(set(x), key=x.index)`, `set(<answer of get>)`, iteration over an answer of `get`.

Units: get_runtime (fixed text), get_get, get_update, get_update_column, get_add_column, get_get_xyz, get_get_residues, get_get_chains,
get_update_xyz.  Exceptions of the translated statements are `GenSql.Err` lifted by `E.py` / `E.raise` into `Model.Err`, the class
space the engine answers in.  What each operation means is fixed in the unit `get_runtime` (fixed text).

Anything outside the subset raises Refuse for that unit only: it is reported and the unit's text is spliced from
lean/gen_snapshot/Get.lean.  Output is a pure function of the source text.  Standard library only.  Never raises.
"""
import ast, os, re, sys

sys.path.insert(0, os.path.dirname(os.path.abspath(__file__)))
from translate import parse_module, find_func, Refuse, unit, refused_unit, lean_str, lean_string  # noqa: E402
import translate_ext_sql as S  # noqa: E402
from translate_ext_sql import (Tr, TVar, prune, is_list, same, proj, assigned_names, ends_with_return, rest_unless_exit,  # noqa: E402
                               is_print, is_diagnostic, comment_src, substitute_tvars, NeedMonad)

FNAME = 'Get.lean'

# ---- types: the ones of translate_ext_sql plus Result (an answer of get), Db --------------------------------------------
_base_lty = S.lty


def lty(t):
    t = prune(t)
    if t == 'Result':
        return 'Result'
    if t == 'Db':
        return 'Db'
    if t == 'Plan':
        return 'E.Plan'
    if t == 'Call':
        return 'E.Call'
    return _base_lty(t)


S.lty = lty                      # this module has its own copy of translate_ext_sql (imported by name), nothing else sees the patch
lty_atom = S.lty_atom

SELF_GET_TY = 'Py.Str → Py.Str → List Kw → Except Err Result'


def names_loaded(stmts):
    out = []
    for s in stmts:
        for n in ast.walk(s):
            if isinstance(n, ast.Name) and n.id not in out:
                out.append(n.id)
    return out


def target_names(t):
    return [n.id for n in ast.walk(t) if isinstance(n, ast.Name)]


def calls_self(stmts, meth):
    return any(isinstance(n, ast.Call) and ast.unparse(n.func) == 'self.' + meth for s in stmts for n in ast.walk(s))


def is_execute(n):
    return isinstance(n, ast.Call) and isinstance(n.func, ast.Attribute) and n.func.attr == 'execute' and \
        ast.unparse(n.func.value) in ('self.c', 'self.conn')


class TrG(Tr):
    """one definition of Gen/Get.lean; `fn` = the python function, `out` = list collecting the outlined definitions"""

    def __init__(self, where, fn, out, chunk_pred=None):
        super().__init__(where, 'm', units={'_to_sql_value': ('to_sql_value', ['Val'], 'Val', False)})
        self.fn = fn
        self.out = out
        self.chunk_pred = chunk_pred
        self.frag_ty = None
        self.frag_method = None

    def sub(self, where=None):
        t = TrG(where or self.where, self.fn, self.out, self.chunk_pred)
        return t

    # ---- monad plumbing -------------------------------------------------------------------------
    def bind(self, ind, code, native=False):
        self.fallible = True
        self.tmp += 1
        t = f't{self.tmp}'
        self.emit(ind, f'let {t} ← {code}' if native else f'let {t} ← E.py ({code})')
        return t

    def raise_(self, s, ind):
        e = s.exc
        if isinstance(e, ast.Call) and isinstance(e.func, ast.Name):
            cls = e.func.id
            msg = ''
            if e.args and isinstance(e.args[0], ast.Constant) and isinstance(e.args[0].value, str):
                msg = e.args[0].value
        elif isinstance(e, ast.Name):
            cls, msg = e.id, ''
        else:
            self.refuse('raise of an unknown form', s)
        self.fallible = True
        if cls == 'ValueError':
            self.emit(ind, f'E.raise (GenSql.Err.valueError {lean_string(msg)})')
        elif cls == 'TypeError':
            self.emit(ind, 'E.raise GenSql.Err.typeError')
        elif cls == 'IndexError':
            self.emit(ind, 'E.raise GenSql.Err.indexError')
        else:
            self.refuse(f'raise {cls}', s)

    def coerce(self, code, have, want, node=None):
        h, w = prune(have), prune(want)
        if h == 'Items' and w == 'Result':
            return f'(Model.Result.data {code})'
        if same(h, ('List', 'Items')) and w == 'Result':
            return f'(Model.Result.models {code})'
        if h == 'Int' and w == 'Arg':
            return f'(Arg.scalar (Val.int {code}))'
        if h == 'Val' and w == 'Arg':
            return f'(Arg.scalar {code})'
        if same(h, ('List', 'Val')) and w == 'Arg':
            return f'(Arg.list {code})'
        if same(h, ('List', 'Int')) and w == 'Arg':
            return f'(Arg.list (List.map Val.int {code}))'
        return super().coerce(code, have, want, node)

    # ---- expressions ------------------------------------------------------------------------------
    def expr(self, e, env, ind):
        if isinstance(e, ast.Constant) and e.value is None:
            return 'none', ('Opt', TVar())
        if isinstance(e, ast.Attribute) and isinstance(e.value, ast.Name) and e.value.id == 'self' and e.attr == '_nModel':
            return '(E.nModel db)', 'Int'
        if isinstance(e, ast.Tuple) and not e.elts:
            return '[]', ('List', 'Val')            # the empty tuple of bound values
        if isinstance(e, ast.GeneratorExp):
            self.refuse('generator expression outside any()', e)
        return super().expr(e, env, ind)

    def binop(self, e, env, ind):
        if isinstance(e.op, (ast.BitAnd, ast.BitOr)):
            a, ta = self.expr(e.left, env, ind)
            b, tb = self.expr(e.right, env, ind)
            if same(ta, ('List', 'Int')) and same(tb, ('List', 'Int')):
                return (f'(E.setAnd {a} {b})' if isinstance(e.op, ast.BitAnd) else f'(E.setOr {a} {b})'), ('List', 'Int')
            self.refuse(f'`&` / `|` on {prune(ta)} and {prune(tb)}', e)
        return super().binop(e, env, ind)

    def compare(self, e, env, ind):
        if len(e.ops) == 1 and isinstance(e.ops[0], (ast.In, ast.NotIn)):
            a, ta = self.expr(e.left, env, ind)
            b, tb = self.expr(e.comparators[0], env, ind)
            if prune(ta) == 'Str' and same(tb, ('List', 'Str')):
                c = f'({a} ∈ {b})'
                return (c if isinstance(e.ops[0], ast.In) else f'(¬ {c})'), 'Bool'
            if prune(ta) == 'Str' and prune(tb) == 'Kwargs':
                c = f'({a} ∈ (E.keys {b}))'
                return (c if isinstance(e.ops[0], ast.In) else f'(¬ {c})'), 'Bool'
        return super().compare(e, env, ind)

    def listcomp(self, e, env, ind):
        if len(e.generators) == 1 and isinstance(e.generators[0].iter, ast.Call) and ast.unparse(e.generators[0].iter.func) == 'self.get' \
                and not e.generators[0].ifs and isinstance(e.generators[0].target, ast.Name):
            # iterating over an answer of get: its rows
            g = e.generators[0]
            r, tr = self.expr(g.iter, env, ind)
            if prune(tr) != 'Result':
                self.refuse('comprehension over a get answer that is not rows', e)
            rows = self.bind(ind, f'E.rows {r}', native=True)
            names, body, t, f = self.lam([g.target.id], [('List', 'Val')], e.elt, env, ind)
            return self.map_over(names, body, f, rows, ind), ('List', t)
        return super().listcomp(e, env, ind)

    def self_get(self, e, env, ind):
        """self.get(columns, tablename=t, **kw)"""
        if len(e.args) != 1:
            self.refuse('self.get with other than one positional argument', e)
        cols, tc = self.expr(e.args[0], env, ind)
        if prune(tc) != 'Str':
            self.refuse('self.get: columns that is not a str', e)
        tn, kw = None, None
        for k in e.keywords:
            if k.arg == 'tablename':
                tn, tt = self.expr(k.value, env, ind)
                if prune(tt) != 'Str':
                    self.refuse('self.get: tablename that is not a str', e)
            elif k.arg is None:
                kw, tk = self.expr(k.value, env, ind)
                if prune(tk) != 'Kwargs':
                    self.refuse('self.get: ** of something that is not the keyword dictionary', e)
            else:
                self.refuse(f'self.get: a literal keyword {k.arg}', e)
        if tn is None:
            tn = DEFAULT_TABLE[0]
        if kw is None:
            kw = '([] : List Kw)'
        r = self.bind(ind, f'self_get {cols} {tn} {kw}', native=True)
        if isinstance(e.args[0], ast.Constant) and e.args[0].value == 'rowID':
            # a `get('rowID', ...)` answer is used as a list of ints
            return self.bind(ind, f'E.rowIDs {r}', native=True), ('List', 'Int')
        return r, 'Result'

    def call(self, e, env, ind):
        f = e.func
        src = ast.unparse(f)
        if src == 'self.get':
            return self.self_get(e, env, ind)
        if src == 'self.get_colnames' and not e.args and not e.keywords:
            return '(E.get_colnames db)', ('List', 'Str')
        if src == 'self._format_get_output' and len(e.args) == 2 and not e.keywords:
            a, ta = self.expr(e.args[0], env, ind)
            b, tb = self.expr(e.args[1], env, ind)
            a = self.coerce(a, ta, ('List', ('List', 'Val')), e)
            if prune(tb) != 'Str':
                self.refuse('_format_get_output: columns that is not a str', e)
            return self.bind(ind, f'format_get_output {a} {b}'), 'Items'
        if is_execute(e):
            if e.keywords or not 1 <= len(e.args) <= 2:
                self.refuse('execute call shape', e)
            q, tq = self.expr(e.args[0], env, ind)
            if prune(tq) != 'Str':
                self.refuse('execute of something that is not a str', e)
            if len(e.args) == 2:
                p, tp = self.expr(e.args[1], env, ind)
                p = self.coerce(p, tp, ('List', 'Val'), e)
            else:
                p = '([] : List Val)'
            eng = 'E.connExecute' if ast.unparse(e.func.value) == 'self.conn' else 'E.execute'
            return self.bind(ind, f'{eng} db {q} {p}', native=True), ('List', ('List', 'Val'))
        if isinstance(f, ast.Name):
            name, args = f.id, e.args
            if name == 'len' and len(args) == 1 and not e.keywords:
                a, t = self.expr(args[0], env, ind)
                if prune(t) == 'Kwargs':
                    return f'(Rt.len {a})', 'Int'
                if prune(t) == 'Str' or is_list(t):
                    return f'(Rt.len {a})', 'Int'
                self.refuse(f'len of a {prune(t)}', e)
            if name == 'range' and len(args) == 3 and not e.keywords:
                cs = []
                for a in args:
                    c, t = self.expr(a, env, ind)
                    if t != 'Int':
                        self.refuse('range of a non-int', e)
                    cs.append(c)
                return f'(E.range3 {cs[0]} {cs[1]} {cs[2]})', ('List', 'Int')
            if name == 'sorted' and len(args) == 1 and len(e.keywords) == 1 and e.keywords[0].arg == 'key' and \
                    isinstance(args[0], ast.Call) and ast.unparse(args[0].func) == 'set' and len(args[0].args) == 1 and \
                    isinstance(args[0].args[0], ast.Name) and ast.unparse(e.keywords[0].value) == args[0].args[0].id + '.index':
                a, t = self.expr(args[0].args[0], env, ind)        # sorted(set(x), key=x.index): first occurrences, in order
                if same(t, ('List', ('List', 'Val'))):
                    return f'(E.firstOcc {a})', t
                self.refuse(f'sorted(set(x), key=x.index) of a {prune(t)}', e)
            if name == 'set' and len(args) == 1 and not e.keywords:
                a, t = self.expr(args[0], env, ind)
                if prune(t) == 'Result':
                    return self.bind(ind, f'E.textSet {a}', native=True), ('List', 'Str')   # hashable items of a flat answer: str
                if same(t, ('List', 'Str')):
                    return a, ('List', 'Str')
                if same(t, ('List', 'Int')):
                    return a, ('List', 'Int')           # a set of ints is represented by the list of its members
                self.refuse(f'set of a {prune(t)}', e)
            if name == 'sorted' and len(args) == 1 and not e.keywords:
                a, t = self.expr(args[0], env, ind)
                t = prune(t)
                if same(t, ('List', 'Int')):
                    return f'(E.sorted {a})', ('List', 'Int')
                if same(t, ('List', 'Str')):
                    return f'(E.sortedStr {a})', ('List', 'Str')
                if isinstance(t, tuple) and t[0] == 'Opt':
                    if isinstance(prune(t[1]), TVar):
                        prune(t[1]).ref = ('List', 'Int')
                    if same(t[1], ('List', 'Int')):
                        return self.bind(ind, f'E.sortedOpt {a}', native=True), ('List', 'Int')
                self.refuse(f'sorted of a {t}', e)
            if name == 'any' and len(args) == 1 and isinstance(args[0], ast.GeneratorExp) and not e.keywords:
                g = args[0]
                if len(g.generators) != 1 or g.generators[0].ifs or not isinstance(g.generators[0].target, ast.Name):
                    self.refuse('any() over something else than one plain generator', e)
                it, tit = self.expr(g.generators[0].iter, env, ind)
                if not is_list(tit):
                    self.refuse('any() over a non-list', e)
                names, body, t, fl = self.lam([g.generators[0].target.id], [prune(tit)[1]], g.elt, env, ind)
                if fl or t != 'Bool':
                    self.refuse('any() of a fallible or non-boolean element', e)
                return f'(List.any {it} (fun {names[0]} => decide {body}) = true)', 'Bool'
            if name == 'isinstance' and len(args) == 2 and isinstance(args[0], ast.Name) and args[0].id in env and \
                    isinstance(args[1], ast.Name) and args[1].id in ('str', 'list'):
                t = prune(env[args[0].id][1])
                if t == 'Str' or is_list(t):
                    yes = (t == 'Str') == (args[1].id == 'str')
                    return '(' + ('true' if yes else 'false') + ' = true)', 'Bool'   # decided by the static type
                self.refuse(f'isinstance on a {t}', e)
        if isinstance(f, ast.Attribute) and not e.args and not e.keywords and f.attr == 'strip':
            recv, tr = self.expr(f.value, env, ind)
            if prune(tr) != 'Str':
                self.refuse(f'.strip() of a {prune(tr)}', e)
            return f'(Py.strip {recv})', 'Str'
        if isinstance(f, ast.Attribute) and not e.args and not e.keywords and f.attr in ('keys', 'copy'):
            recv, tr = self.expr(f.value, env, ind)
            if prune(tr) == 'Kwargs':
                return (f'(E.keys {recv})', ('List', 'Str')) if f.attr == 'keys' else (recv, 'Kwargs')
            self.refuse(f'.{f.attr}() of a {prune(tr)}', e)
        return super().call(e, env, ind)

    # ---- statements --------------------------------------------------------------------------------
    def assign(self, name, code, ty, rest, env, ind, ctx):
        if code == 'none':
            n = self.fresh(name)
            env2 = dict(env)
            env2[name] = (n, ty)
            self.emit(ind, f'let {n} : {lty(ty)} := none')
            return self.block(rest, env2, ind, ctx)
        return super().assign(name, code, ty, rest, env, ind, ctx)

    def block(self, stmts, env, ind, ctx):
        if not stmts:
            return self.fall_off(env, ind, ctx)
        s, rest = stmts[0], stmts[1:]
        # a bare `return` (of None) at the end of a function that returns nothing
        if isinstance(s, ast.Return) and s.value is None and ctx[0] == 'fn' and ctx[1] == 'Unit':
            self.finish_pure(ind, '()')
            return
        if isinstance(s, ast.Return) and s.value is not None and ctx[0] == 'fn' and same(ctx[1], ('List', 'Str')):
            c, t = self.expr(s.value, env, ind)
            if same(t, ('List', 'Val')):
                c, t = self.bind(ind, f'E.strs {c}', native=True), ('List', 'Str')
            self.finish_pure(ind, self.coerce(c, t, ctx[1], s))
            return
        plan = ctx[0] == 'fn' and ctx[1] == 'Plan' or (ctx[0] == 'loop' and 'calls_' in env)
        if isinstance(s, ast.Return) and s.value is None and ctx[0] == 'fn' and ctx[1] == 'Plan':
            self.finish_pure(ind, f'(E.Plan.mk {env["calls_"][0]} E.Effect.nothing)')
            return
        if isinstance(s, ast.Expr) and isinstance(s.value, ast.Call) and ast.unparse(s.value.func) == 'self.update' and 'calls_' in env:
            e = s.value
            if len(e.args) != 2:
                self.refuse('self.update with other than two positional arguments', s)
            a, ta = self.expr(e.args[0], env, ind)
            b, tb = self.expr(e.args[1], env, ind)
            if prune(ta) != 'Str' or not same(tb, ('List', ('List', 'Val'))):
                self.refuse('self.update: argument types', s)
            tn, kw = DEFAULT_TABLE[0], '([] : List Kw)'
            for k in e.keywords:
                if k.arg == 'tablename':
                    tn, tt = self.expr(k.value, env, ind)
                elif k.arg is None:
                    kw, tk = self.expr(k.value, env, ind)
                    if prune(tk) != 'Kwargs':
                        self.refuse('self.update: ** of something that is not the keyword dictionary', s)
                else:
                    self.refuse(f'self.update: a literal keyword {k.arg}', s)
            return self.assign('calls_', f'({env["calls_"][0]} ++ [E.Call.mk {a} {b} {tn} {kw}])', ('List', 'Call'), rest, env, ind, ctx)
        if isinstance(s, ast.Expr) and isinstance(s.value, ast.Call) and isinstance(s.value.func, ast.Attribute) and \
                s.value.func.attr in ('executemany', 'execute') and ast.unparse(s.value.func.value) in ('self.c', 'self.conn') and \
                ctx[0] == 'fn' and ctx[1] == 'Plan':
            e = s.value
            if rest:
                self.refuse('statements after the final database call', s)
            if e.func.attr == 'executemany':
                if len(e.args) != 2 or e.keywords:
                    self.refuse('executemany call shape', s)
                q, tq = self.expr(e.args[0], env, ind)
                d, td = self.expr(e.args[1], env, ind)
                if prune(tq) != 'Str' or not same(td, ('List', ('List', 'Val'))):
                    self.refuse('executemany: argument types', s)
                self.finish_pure(ind, f'(E.Plan.mk {env["calls_"][0]} (E.Effect.many {q} {d}))')
                return
            if len(e.args) != 1 or e.keywords:
                self.refuse('execute call shape', s)
            q, tq = self.expr(e.args[0], env, ind)
            if prune(tq) != 'Str':
                self.refuse('execute: argument type', s)
            self.finish_pure(ind, f'(E.Plan.mk {env["calls_"][0]} (E.Effect.alter {q}))')
            return
        # statements that talk to the engine in the middle of a function
        has_exec = any(is_execute(n) for n in ast.walk(s))
        if has_exec and isinstance(s, ast.Assign) and len(s.targets) == 1 and isinstance(s.targets[0], ast.Name):
            c, t = self.expr(s.value, env, ind)
            return self.assign(s.targets[0].id, c, t, rest, env, ind, ctx)
        if has_exec and isinstance(s, ast.AugAssign) and isinstance(s.target, ast.Name):
            e = ast.BinOp(left=ast.Name(id=s.target.id, ctx=ast.Load()), op=s.op, right=s.value)
            ast.copy_location(e, s)
            ast.fix_missing_locations(e)
            c, t = self.expr(e, env, ind)
            return self.assign(s.target.id, c, t, rest, env, ind, ctx)
        if has_exec and isinstance(s, ast.Expr) and is_execute(s.value):
            self.expr(s.value, env, ind)
            return self.block(rest, env, ind, ctx)
        # `kwargs[key] = v`
        if isinstance(s, ast.Assign) and len(s.targets) == 1 and isinstance(s.targets[0], ast.Subscript) and \
                isinstance(s.targets[0].value, ast.Name) and s.targets[0].value.id in env and \
                prune(env[s.targets[0].value.id][1]) == 'Kwargs' and not isinstance(s.targets[0].slice, ast.Slice):
            d = s.targets[0].value.id
            k, tk = self.expr(s.targets[0].slice, env, ind)
            if prune(tk) != 'Str':
                self.refuse('a key that is not a str', s)
            v, tv = self.expr(s.value, env, ind)
            v = self.coerce(v, tv, 'Arg', s)
            return self.assign(d, f'(E.setKw {env[d][0]} {k} {v})', 'Kwargs', rest, env, ind, ctx)
        if isinstance(s, ast.Try):
            return self.try_(s, rest, env, ind, ctx)
        # `xs.append(self.get(...))`: the answer is used as a list of rows / values
        if isinstance(s, ast.Expr) and isinstance(s.value, ast.Call) and isinstance(s.value.func, ast.Attribute) and \
                s.value.func.attr == 'append' and isinstance(s.value.func.value, ast.Name) and len(s.value.args) == 1 and \
                isinstance(s.value.args[0], ast.Call) and ast.unparse(s.value.args[0].func) == 'self.get':
            x = s.value.func.value.id
            if x not in env or not is_list(env[x][1]):
                self.refuse(f'append to `{x}`', s)
            xc, xt = env[x]
            a, ta = self.expr(s.value.args[0], env, ind)
            if prune(ta) == 'Result':
                a, ta = self.bind(ind, f'E.asData {a}', native=True), 'Items'
            a = self.coerce(a, ta, prune(xt)[1], s)
            return self.assign(x, f'({xc} ++ [{a}])', xt, rest, env, ind, ctx)
        return super().block(stmts, env, ind, ctx)

    def try_(self, s, rest, env, ind, ctx):
        """try: self.c.execute(..)  except BaseException: <diagnostics>; raise X"""
        if s.orelse or s.finalbody or len(s.handlers) != 1 or len(s.body) != 1:
            self.refuse('try statement shape', s)
        h = s.handlers[0]
        if h.type is None or ast.unparse(h.type) not in ('BaseException', 'Exception') or h.name is not None:
            self.refuse('except clause that is not `except BaseException:`', s)
        b = s.body[0]
        if not (isinstance(b, ast.Expr) and is_execute(b.value)):
            self.refuse('try body that is not one self.c.execute(..)', s)
        hb = list(h.body)
        if not hb or not isinstance(hb[-1], ast.Raise) or not all(is_diagnostic(d) for d in hb[:-1]):
            self.refuse('except body that is not (diagnostics and) a raise', s)
        call = b.value
        q, tq = self.expr(call.args[0], env, ind)
        if prune(tq) != 'Str' or call.keywords or not 1 <= len(call.args) <= 2:
            self.refuse('execute call shape', s)
        if len(call.args) == 2:
            p, tp = self.expr(call.args[1], env, ind)
            p = self.coerce(p, tp, ('List', 'Val'), s)
        else:
            p = '([] : List Val)'
        self.fallible = True
        self.emit(ind, f'match E.execute db {q} {p} with')
        self.emit(ind, '| .error _ =>')
        self.raise_(hb[-1], ind + 1)
        self.emit(ind, '| .ok _ =>')
        return self.block(rest, env, ind + 1, ctx)

    def if_(self, s, rest, env, ind, ctx):
        t = s.test
        # the chunked branch: its own definition
        if self.chunk_pred is not None and self.chunk_pred(s):
            if not ends_with_return(s.body):
                self.refuse('the recursive branch does not end in a return', s)
            c, ty = self.expr(t, env, ind)
            first = assigned_names(s.body, None)
            r = self.outline_block(self.where_name + '_if_' + (first[0] if first else 'block'), list(s.body), env, ind, node=s)
            self.emit(ind, f'if {c} then')
            self.can_ret = True
            t1 = self.bind(ind + 1, r, native=True)
            if ctx[0] == 'loop':
                self.finish_pure(ind + 1, f'(Flow.ret {t1})')
            else:
                self.finish_pure(ind + 1, t1)
            self.emit(ind, 'else')
            return self.block(list(s.orelse) + rest, env, ind + 1, ctx)
        # a guard: an `if` without `else` whose body changes no variable and does not return (it can only raise)
        if not s.orelse and not ends_with_return(s.body) and not [v for v in assigned_names(s.body, None) if v in env] and \
                not any(isinstance(n, ast.Return) for b in s.body for n in ast.walk(b)):
            c, ty = self.expr(t, env, ind)
            if ty != 'Bool':
                self.refuse(f'condition of type {ty}', s)
            self.fallible = True
            self.emit(ind, 'let _ ← E.unit (do')          # one step: the continuation is not duplicated
            self.emit(ind + 2, f'if {c} then')
            self.block(list(s.body), env, ind + 3, ('fn', 'Unit'))
            self.emit(ind + 2, 'else')
            self.emit(ind + 3, 'pure ())')
            return self.block(rest, env, ind, ctx)
        # isinstance(x, str / list) on a variable whose static type decides it: only the live branch exists
        neg_t = isinstance(t, ast.UnaryOp) and isinstance(t.op, ast.Not)
        it = t.operand if neg_t else t
        if isinstance(it, ast.Call) and isinstance(it.func, ast.Name) and it.func.id == 'isinstance' and len(it.args) == 2 and \
                isinstance(it.args[0], ast.Name) and it.args[0].id in env and isinstance(it.args[1], ast.Name) and it.args[1].id in ('str', 'list'):
            ty = prune(env[it.args[0].id][1])
            if ty == 'Str' or is_list(ty):
                yes = ((ty == 'Str') == (it.args[1].id == 'str')) != neg_t
                self.emit(ind, f'-- `{ast.unparse(t)}` is {yes} by the static type of `{it.args[0].id}` ({lty(ty)})')
                live = list(s.body) if yes else list(s.orelse)
                return self.block(live + rest_unless_exit(live, rest), env, ind, ctx)
        # truthiness of a str
        if isinstance(t, ast.Name) and t.id in env and prune(env[t.id][1]) == 'Str':
            c = f'({env[t.id][0]} ≠ ([] : Py.Str))'
            return self.plain_if(c, list(s.body), list(s.orelse), rest, env, ind, ctx)
        # `not isinstance(x, str)` / `isinstance(x, list)`: by the static type (handled in call); raise-only bodies keep only the raise
        return super().if_(s, rest, env, ind, ctx)

    # ---- outlining ----------------------------------------------------------------------------------
    def free_params(self, stmts, env, exclude):
        used = names_loaded(stmts)
        return [(v, env[v][0], env[v][1]) for v in env if v in used and v not in exclude]

    def cached(self, node, params):
        key = (id(node), tuple((py, repr(prune(ty))) for py, _, ty in params))
        return key, CACHE.get(key)

    def outline_block(self, lname, stmts, env, ind, node=None):
        """a returning block as its own definition -> the call"""
        params = self.free_params(stmts, env, set())
        key, hit = self.cached(node, params)
        if hit is not None:
            return f'{hit} self_get db ' + ' '.join(c for _, c, _ in params)
        CACHE[key] = lname
        sub = self.sub()
        env2 = {}
        for py, _, ty in params:
            sub.counter[py if py not in S.LEAN_RESERVED else py + '_'] = 1
            env2[py] = (sub.fresh0(py), ty)
        self.out.append((lname, None))
        pos = len(self.out) - 1
        sub.where_name = lname
        sub.block(stmts, env2, 0, ('fn', 'Result'))
        sig = ''.join(f' ({env2[py][0]} : {lty(ty)})' for py, _, ty in params)
        head = f'def {lname} (self_get : {SELF_GET_TY}) (db : Db){sig} :\n    Except Err Result := do'
        self.out[pos] = ((lname, f'/-- `{self.fn}`: the block\n{doc_src(stmts)} -/\n' + head + '\n' + '\n'.join('  ' + l for l in sub.lines)))
        return f'{lname} self_get db ' + ' '.join(c for _, c, _ in params)

    def fresh0(self, base):
        return base if base not in S.LEAN_RESERVED else base + '_'

    def for_(self, s, rest, env, ind, ctx):
        if s.orelse:
            self.refuse('for/else', s)
        it, tit = self.expr(s.iter, env, ind)
        tit = prune(tit)
        if not is_list(tit):
            self.refuse(f'loop over a {tit}', s)
        tnames = target_names(s.target)
        assigned = [v for v in assigned_names(s.body, None) if v in env and v not in tnames]
        if 'calls_' in env and calls_self(list(s.body), 'update'):
            assigned.append('calls_')
        tys = [env[v][1] for v in assigned]
        st_ty = 'Unit' if not assigned else (tys[0] if len(tys) == 1 else ('Tuple', tuple(tys)))
        returns = any(isinstance(n, ast.Return) for b in s.body for n in ast.walk(b))
        params = self.free_params(list(s.body), env, set(tnames) | set(assigned))
        key, hit = self.cached(s, params)
        base = self.where_name + '_for_' + '_'.join(n for n in tnames if n != '_')
        k = sum(1 for n, _ in self.out if n == base or n.startswith(base + '__'))
        lname = hit or (base if k == 0 else f'{base}__{k}')
        CACHE[key] = lname
        if hit is not None:                         # the same loop in the other copy of a duplicated continuation: same state types
            for a, b in zip(tys, STATE_TYS.get(key, [])):
                unify(a, b)
        STATE_TYS[key] = tys
        # the body, as a definition
        sub = self.sub()
        sub.where_name = lname
        env2 = {}
        for py, _, ty in params:
            sub.counter[sub.fresh0(py)] = 1
            env2[py] = (sub.fresh0(py), ty)
        sub.counter['it_'] = 1
        sub.counter['st_'] = 1
        sub.bind_target(s.target, 'it_', tit[1], env2, [], s)
        for kk, v in enumerate(assigned):
            env2[v] = (proj('st_', kk, len(assigned)), tys[kk])
        if returns:
            sub.can_ret = True
        if hit is None:
            self.out.append((lname, None))            # reserve the position (outer loops before inner ones are emitted after)
            pos = len(self.out) - 1
            sub.block(list(s.body), env2, 0, ('loop', assigned, tys, 'flow') if returns else ('loop', assigned, tys))
            sig = ''.join(f' ({env2[py][0]} : {lty(ty)})' for py, _, ty in params)
            rt = lty(st_ty)
            if returns:
                rt = f'Flow ({rt}) Result'
            head = (f'def {lname} (self_get : {SELF_GET_TY}) (db : Db){sig} (it_ : {lty(tit[1])}) (st_ : {lty(st_ty)}) :\n'
                    f'    Except Err ({rt}) := do')
            text = f'/-- `{self.fn}`: the body of `for {ast.unparse(s.target)} in {ast.unparse(s.iter)}`\n{doc_src(list(s.body))} -/\n' + \
                head + '\n' + '\n'.join('  ' + l for l in sub.lines)
            self.out[pos] = (lname, text)
        # the loop
        self.fallible = True
        names = [env[v][0] for v in assigned]
        init = '()' if not assigned else self.state_tuple(names)
        call = f'(fun it_ st_ => {lname} self_get db ' + ''.join(c + ' ' for _, c, _ in params) + 'it_ st_)'
        st = self.fresh('st_')
        if returns:
            self.tmp += 1
            r = f'r{self.tmp}'
            self.emit(ind, f'let {r} ← E.forIn {it} {init} {call}')
            self.emit(ind, f'match {r} with')
            if ctx[0] == 'loop':
                self.can_ret = True
                self.emit(ind, '| .ret r => pure (Flow.ret r)')
            else:
                self.emit(ind, '| .ret r => pure r')
            self.emit(ind, f'| .cont {st} =>')
            ind2 = ind + 1
        else:
            self.emit(ind, f'let {st} ← E.forM {it} {init} {call}')
            ind2 = ind
        env2 = dict(env)
        for kk, v in enumerate(assigned):
            n = self.fresh(v)
            self.emit(ind2, f'let {n} := {proj(st, kk, len(assigned))}')
            env2[v] = (n, tys[kk])
        return self.block(rest, env2, ind2, ctx)

    where_name = 'get'

    def fall_off(self, env, ind, ctx):
        if ctx[0] == 'loop':
            codes = []
            for v, want in zip(ctx[1], ctx[2]):
                c, have = env[v]
                w, h = prune(want), prune(have)
                if isinstance(w, tuple) and w[0] == 'Opt' and not (isinstance(h, tuple) and h[0] == 'Opt'):
                    if isinstance(prune(w[1]), TVar):
                        prune(w[1]).ref = h
                    if not same(w[1], h):
                        self.refuse(f'loop-carried `{v}` changes its type from {w} to {h}')
                    c = f'(some {c})'
                elif not same(w, h) and not isinstance(w, TVar) and not isinstance(h, TVar):
                    self.refuse(f'loop-carried `{v}` changes its type from {w} to {h}')
                codes.append(c)
            code = '()' if not codes else (codes[0] if len(codes) == 1 else '(' + ', '.join(codes) + ')')
            if self.can_ret or ctx[-1] == 'flow':
                code = f'(Flow.cont {code})'
            self.finish_pure(ind, code)
            return
        if ctx[0] == 'fn' and ctx[1] == 'Unit':
            self.finish_pure(ind, '()')
            return
        if ctx[0] == 'fn' and ctx[1] == 'Plan':
            self.finish_pure(ind, f'(E.Plan.mk {env["calls_"][0]} E.Effect.nothing)')
            return
        if ctx[0] == 'frag':
            self.refuse('the function ends without the database call')
        self.refuse('the translated part ends without a value')


def doc_src(stmts, limit=60):
    src = []
    for s in stmts:
        src += ast.unparse(s).splitlines()
    if len(src) > limit:
        src = src[:limit] + ['...']
    return '\n'.join('      ' + l.replace('-/', '- /') for l in src)


DEFAULT_TABLE = [lean_str('ATOM')]
CACHE = {}
STATE_TYS = {}


def unify(a, b):
    a, b = prune(a), prune(b)
    if isinstance(a, TVar):
        if not isinstance(b, TVar) or b is not a:
            a.ref = b
        return
    if isinstance(a, tuple) and isinstance(b, tuple) and a[0] == b[0]:
        if a[0] in ('List', 'Opt'):
            unify(a[1], b[1])
        elif a[0] == 'Tuple' and len(a[1]) == len(b[1]):
            for x, y in zip(a[1], b[1]):
                unify(x, y)


def stmts_of(f):
    b = list(f.body)
    if b and isinstance(b[0], ast.Expr) and isinstance(b[0].value, ast.Constant) and isinstance(b[0].value.value, str):
        b = b[1:]
    return b


def default_of(f, name):
    args = f.args.args
    d = f.args.defaults
    off = len(args) - len(d)
    for i, a in enumerate(args):
        if a.arg == name and i >= off:
            return d[i - off]
    return None


def has_get(s):
    return any(isinstance(n, ast.Call) and ast.unparse(n.func) == 'self.get' for n in ast.walk(s))


def chunk_pred(s):
    """the innermost returning `if` whose body calls self.get (the chunked path)"""
    if not (isinstance(s, ast.If) and ends_with_return(s.body) and any(has_get(b) for b in s.body)):
        return False
    return not any(isinstance(n, ast.If) and n is not s and ends_with_return(n.body) and any(has_get(b) for b in n.body)
                   for n in ast.walk(s))


def generate():
    try:
        return _generate()
    except Exception as e:                                              # never let the translator crash
        refused = []
        text = refused_unit(FNAME, 'get_all', refused, f'{type(e).__name__}: {e}')
        from translate import SNAPSHOT
        p = os.path.join(SNAPSHOT, FNAME)
        if os.path.exists(p):
            return {FNAME: open(p).read()}, [('Get.lean', f'{type(e).__name__}: {e}')]
        return {}, [('Get.lean', f'{type(e).__name__}: {e}')]


def _generate():
    CACHE.clear()
    STATE_TYS.clear()
    refused = []
    units_text = []

    def do_unit(name, build):
        try:
            text = substitute_tvars(build())
            units_text.append(unit(name, text))
        except Refuse as r:
            units_text.append(refused_unit(FNAME, name, refused, str(r)))
        except Exception as e:
            units_text.append(refused_unit(FNAME, name, refused, f'{type(e).__name__}: {e}'))

    mods = {}

    def fn(modname, qual):
        if modname not in mods:
            try:
                mods[modname] = parse_module(modname)
            except Exception as e:
                mods[modname] = e
        if isinstance(mods[modname], Exception):
            raise Refuse(qual, f'source not parsed: {mods[modname]}')
        return find_func(mods[modname], qual)

    def params_of(f):
        return [a.arg for a in f.args.args], (f.args.kwarg.arg if f.args.kwarg else None)

    def str_default(f, name):
        d = default_of(f, name)
        if not (isinstance(d, ast.Constant) and isinstance(d.value, str)):
            raise Refuse(f.name, f'default of {name} is not a string literal')
        return d.value

    # ---- get ----------------------------------------------------------------------------------------------
    def get_unit():
        f = fn('pdb2sqlcore.py', 'pdb2sql.get')
        if params_of(f) != (['self', 'columns', 'tablename'], 'kwargs'):
            raise Refuse('pdb2sql.get', 'parameters changed')
        dflt = str_default(f, 'tablename')
        out = []
        tr = TrG('pdb2sql.get', 'get', out, chunk_pred)
        tr.where_name = 'get'
        env = {'columns': ('columns', 'Str'), 'tablename': ('tablename', 'Str'), 'kwargs': ('kwargs', 'Kwargs')}
        for n in ('columns', 'tablename', 'kwargs'):
            tr.counter[n] = 1
        tr.block(stmts_of(f), env, 0, ('fn', 'Result'))
        body = (f'/-- `pdb2sql.get(columns, tablename, **kwargs)`, one activation: `self_get` = the recursive calls `self.get(...)` -/\n'
                f'def get_body (self_get : {SELF_GET_TY}) (db : Db) (columns : Py.Str) (tablename : Py.Str) (kwargs : List Kw) :\n'
                '    Except Err Result := do\n' + '\n'.join('  ' + l for l in tr.lines))
        wrap = ('/-- the recursion of `get` through `self.get`, bounded by `fuel` (each recursive call of the source is a call with `fuel - 1`) -/\n'
                'def getF : Nat → Db → Py.Str → Py.Str → List Kw → Except Err Result\n'
                '  | 0, _, _, _, _ => .error .fuel\n'
                '  | fuel + 1, db, columns, tablename, kwargs => get_body (getF fuel db) db columns tablename kwargs\n\n'
                '/-- `pdb2sql.get`: one level per keyword (each level of the chunked branch removes one over-long list), one for the per-model\n'
                '    dispatch, one for the plain query -/\n'
                'def get (db : Db) (columns : Py.Str) (tablename : Py.Str) (kwargs : List Kw) : Except Err Result :=\n'
                '  getF (kwargs.length + 3) db columns tablename kwargs\n\n'
                f'/-- the default of `tablename` in `pdb2sql.get` -/\ndef get_default_tablename : Py.Str := {lean_str(dflt)}')
        # inner definitions first (a definition is used by the ones that follow it)
        defs = [t for _, t in reversed(out)]
        return '\n\n'.join(defs + [body, wrap])

    def build_fn(f, where, lname, params, ret, doc, chunk=None):
        """params: [(python name, type)] -> (text of the outlined definitions + the body definition)"""
        out = []
        tr = TrG(where, lname.replace('_body', ''), out, chunk)
        tr.where_name = lname.replace('_body', '')
        env = {}
        for n, t in params:
            ln = tr.fresh0(n)
            tr.counter[ln] = 1
            env[n] = (ln, t)
        if ret == 'Plan':
            tr.counter['calls_'] = 1
            env['calls_'] = ('calls_', ('List', 'Call'))
            tr.emit(0, 'let calls_ : List E.Call := []')
        tr.block(stmts_of(f), env, 0, ('fn', ret))
        sig = ''.join(f' ({env[n][0]} : {lty(t)})' for n, t in params)
        if tr.uses_str or any(getattr(t, 'uses_str', False) for t in [tr]):
            sig = ' (str : Val → Py.Str)' + sig
        body = (f'/-- {doc} -/\n'
                f'def {lname} (self_get : {SELF_GET_TY}) (db : Db){sig} :\n    Except Err ({lty(ret)}) := do\n'
                + '\n'.join('  ' + l for l in tr.lines))
        return '\n\n'.join([t for _, t in reversed(out)] + [body]), tr

    KW = ('kwargs', 'Kwargs')
    VALUES = ('values', ('List', ('List', 'Val')))

    def update_unit():
        f = fn('pdb2sqlcore.py', 'pdb2sql.update')
        if params_of(f) != (['self', 'columns', 'values', 'tablename'], 'kwargs'):
            raise Refuse('pdb2sql.update', 'parameters changed')
        dflt = str_default(f, 'tablename')
        text, tr = build_fn(f, 'pdb2sql.update', 'update_body', [('columns', 'Str'), VALUES, ('tablename', 'Str'), KW], 'Plan',
                            '`pdb2sql.update(columns, values, tablename, **kwargs)`, one activation: the checks, `get(\'rowID\')`, and the effects '
                            '(`self.update(...)` calls of the per-model loop / the final `executemany`) as a plan')
        wrap = ('/-- the recursion of `update` through `self.update` (the per-model loop), bounded by `fuel` -/\n'
                'def updateF : Nat → Db → Py.Str → List (List Val) → Py.Str → List Kw → Db × Except Err Unit\n'
                '  | 0, db, _, _, _, _ => (db, .error .fuel)\n'
                '  | fuel + 1, db, columns, values, tablename, kwargs =>\n'
                '    E.run (updateF fuel) db (update_body (get db) db columns values tablename kwargs)\n\n'
                '/-- `pdb2sql.update`: one level for the per-model dispatch, one for the update itself -/\n'
                'def update (db : Db) (columns : Py.Str) (values : List (List Val)) (tablename : Py.Str) (kwargs : List Kw) : Db × Except Err Unit :=\n'
                '  updateF 2 db columns values tablename kwargs\n\n'
                f'/-- the default of `tablename` in `pdb2sql.update` -/\ndef update_default_tablename : Py.Str := {lean_str(dflt)}')
        return text + '\n\n' + wrap

    def update_column_unit():
        f = fn('pdb2sqlcore.py', 'pdb2sql.update_column')
        if params_of(f) != (['self', 'colname', 'values', 'index', 'tablename'], None):
            raise Refuse('pdb2sql.update_column', 'parameters changed')
        d = default_of(f, 'index')
        if not (isinstance(d, ast.Constant) and d.value is None):
            raise Refuse('pdb2sql.update_column', 'default of index is not None')
        dflt = str_default(f, 'tablename')
        text, tr = build_fn(f, 'pdb2sql.update_column', 'update_column_body',
                            [('colname', 'Str'), ('values', ('List', 'Val')), ('index', ('Opt', ('List', 'Val'))), ('tablename', 'Str')], 'Plan',
                            '`pdb2sql.update_column(colname, values, index, tablename)`: the rows (all rows in order when `index is None`) and the final `executemany`')
        wrap = ('/-- `pdb2sql.update_column` -/\n'
                'def update_column (db : Db) (colname : Py.Str) (values : List Val) (index : Option (List Val)) (tablename : Py.Str) : Db × Except Err Unit :=\n'
                '  E.run E.noUpdate db (update_column_body (get db) db colname values index tablename)\n\n'
                f'/-- the defaults of `update_column`: `index=None`, `tablename` -/\ndef update_column_default_tablename : Py.Str := {lean_str(dflt)}')
        return text + '\n\n' + wrap

    def add_column_unit():
        f = fn('pdb2sqlcore.py', 'pdb2sql.add_column')
        if params_of(f) != (['self', 'colname', 'coltype', 'value', 'tablename'], None):
            raise Refuse('pdb2sql.add_column', 'parameters changed')
        dv = default_of(f, 'value')
        if not (isinstance(dv, ast.Constant) and isinstance(dv.value, int) and not isinstance(dv.value, bool)):
            raise Refuse('pdb2sql.add_column', 'default of value is not an int literal')
        text, tr = build_fn(f, 'pdb2sql.add_column', 'add_column_body',
                            [('colname', 'Str'), ('coltype', 'Str'), ('value', 'Val'), ('tablename', 'Str')], 'Plan',
                            '`pdb2sql.add_column(colname, coltype, value, tablename)`: the ALTER TABLE text and its execution (`str` = Python\'s `str` on values)')
        if not tr.uses_str:
            raise Refuse('pdb2sql.add_column', 'str(value) not found')
        wrap = ('/-- `pdb2sql.add_column` -/\n'
                'def add_column (str : Val → Py.Str) (db : Db) (colname : Py.Str) (coltype : Py.Str) (value : Val) (tablename : Py.Str) : Db × Except Err Unit :=\n'
                '  E.run E.noUpdate db (add_column_body (get db) db str colname coltype value tablename)\n\n'
                f'/-- the defaults of `add_column`: `coltype`, `value`, `tablename` -/\n'
                f'def add_column_default_coltype : Py.Str := {lean_str(str_default(f, "coltype"))}\n'
                f'def add_column_default_value : Val := Val.int {dv.value}\n'
                f'def add_column_default_tablename : Py.Str := {lean_str(str_default(f, "tablename"))}')
        return text + '\n\n' + wrap

    def wrapper_unit(name, params, ret, doc, wrap):
        def build():
            f = fn('pdb2sql_base.py', 'pdb2sql_base.' + name)
            want = ['self'] + [n for n, _ in params if n != 'kwargs']
            if params_of(f) != (want, 'kwargs'):
                raise Refuse('pdb2sql_base.' + name, 'parameters changed')
            dflt = str_default(f, 'tablename')
            text, tr = build_fn(f, 'pdb2sql_base.' + name, name + '_body', params, ret, doc)
            return text + '\n\n' + wrap + f'\n\n/-- the default of `tablename` in `{name}` -/\ndef {name}_default_tablename : Py.Str := {lean_str(dflt)}'
        return build

    def table_names_unit():
        f = fn('pdb2sql_base.py', 'pdb2sql_base._get_table_names')
        if params_of(f) != (['self'], None):
            raise Refuse('pdb2sql_base._get_table_names', 'parameters changed')
        text, tr = build_fn(f, 'pdb2sql_base._get_table_names', '_get_table_names_body', [], ('List', 'Str'),
                            '`pdb2sql_base._get_table_names`: the catalogue query (its text is what is translated; `E.connExecute` says what it means) and the names')
        return text + ('\n\n/-- `_get_table_names` -/\ndef _get_table_names (db : Db) : Except Err (List Py.Str) :=\n'
                       '  _get_table_names_body (fun _ _ _ => .error .fuel) db')

    do_unit('get_runtime', lambda: RUNTIME.strip('\n'))
    do_unit('get_get_table_names', table_names_unit)
    do_unit('get_get', get_unit)
    do_unit('get_update', update_unit)
    do_unit('get_update_column', update_column_unit)
    do_unit('get_add_column', add_column_unit)
    do_unit('get_get_xyz', wrapper_unit('get_xyz', [('tablename', 'Str'), KW], 'Result', '`pdb2sql_base.get_xyz`',
            '/-- `get_xyz` -/\ndef get_xyz (db : Db) (tablename : Py.Str) (kwargs : List Kw) : Except Err Result :=\n  get_xyz_body (get db) db tablename kwargs'))
    do_unit('get_get_residues', wrapper_unit('get_residues', [('tablename', 'Str'), KW], ('List', ('List', 'Val')), '`pdb2sql_base.get_residues`',
            '/-- `get_residues` -/\ndef get_residues (db : Db) (tablename : Py.Str) (kwargs : List Kw) : Except Err (List (List Val)) :=\n  get_residues_body (get db) db tablename kwargs'))
    do_unit('get_get_chains', wrapper_unit('get_chains', [('tablename', 'Str'), KW], ('List', 'Str'), '`pdb2sql_base.get_chains`',
            '/-- `get_chains` -/\ndef get_chains (db : Db) (tablename : Py.Str) (kwargs : List Kw) : Except Err (List Py.Str) :=\n  get_chains_body (get db) db tablename kwargs'))
    do_unit('get_update_xyz', wrapper_unit('update_xyz', [('xyz', ('List', ('List', 'Val'))), ('tablename', 'Str'), KW], 'Plan', '`pdb2sql_base.update_xyz`',
            '/-- `update_xyz` -/\ndef update_xyz (db : Db) (xyz : List (List Val)) (tablename : Py.Str) (kwargs : List Kw) : Db × Except Err Unit :=\n  E.run (updateF 2) db (update_xyz_body (get db) db xyz tablename kwargs)'))

    text = ('/- GENERATED by /verif/py/translate_ext_get.py from /repo/pdb2sql/pdb2sqlcore.py and pdb2sql_base.py — do not edit.\n'
            '   `get` / `update` / `update_column` / `add_column` and the wrappers of pdb2sql_base, translated whole: validation, per-model\n'
            '   dispatch, the chunked branch with its recursion, shape checks.  The SQLite engine is MicroSql run on the emitted text\n'
            '   (unit `get_runtime`).  `Proofs/GenGet*.lean` prove the definitions equal to the hand models of Model/Table.lean\n'
            '   (re-exported in Props/C03K2, C04K3, C17K2). -/\n'
            'import PdbVerif.Gen.Sql\nimport PdbVerif.Model.MicroSql\n\n'
            'set_option linter.unusedVariables false\n\nnamespace GenG\nopen Tbl GenSql\n\n'
            + '\n'.join(units_text) + '\nend GenG\n')
    return {FNAME: text}, refused


RUNTIME = r'''
/-- exceptions: those of the translated statements (`GenSql.Err`) and those of the SQLite engine, in the classes of
    `Model.Err` -/
abbrev Err := Model.Err
/-- what `get` returns: rows / a flat list (`data`) or one such answer per model (`models`) -/
abbrev Result := Model.Result

/- the engine (`self.c`, `self.conn`: MicroSql on the emitted text), the object's attributes, and the Python operations
   the translated statements of `get` / `update` use beyond `GenSql.Rt`.  Fixed text, not translated. -/
namespace E

def liftErr : GenSql.Err → Err
  | .valueError m => if m = "Too many SQL variables" then .tooManyVars else .valueError
  | .typeError => .typeError
  | .indexError => .indexError

/-- a step of `GenSql.Rt` inside a function that also talks to the engine -/
def py {α : Type} : Except GenSql.Err α → Except Err α
  | .ok a => .ok a
  | .error e => .error (liftErr e)

/-- a statement that yields no value (an `if` without `else` whose body can only raise) -/
def unit (x : Except Err Unit) : Except Err Unit := x

/-- `raise X(...)` -/
def raise {α : Type} (e : GenSql.Err) : Except Err α := .error (liftErr e)

/-- `for x in xs: body` without `return` -/
def forM {α σ : Type} : List α → σ → (α → σ → Except Err σ) → Except Err σ
  | [], s, _ => .ok s
  | x :: xs, s, body =>
    match body x s with
    | .error e => .error e
    | .ok s' => forM xs s' body

/-- `for x in xs: body` where the body may `return` -/
def forIn {α σ ρ : Type} : List α → σ → (α → σ → Except Err (Flow σ ρ)) → Except Err (Flow σ ρ)
  | [], s, _ => .ok (.cont s)
  | x :: xs, s, body =>
    match body x s with
    | .error e => .error e
    | .ok (.ret r) => .ok (.ret r)
    | .ok (.cont s') => forIn xs s' body

def existsHead : Py.Str := ['S', 'E', 'L', 'E', 'C', 'T', ' ', 'E', 'X', 'I', 'S', 'T', 'S', '(']

/-- `self.c.execute(text, params)` of a query: MicroSql on the text; `SELECT EXISTS(<select>)` compiles and runs
    exactly when `<select>` does and answers one row with 0 or 1 -/
def execute (db : Db) (text : Py.Str) (params : List Val) : Except Err (List (List Val)) :=
  if existsHead.isPrefixOf text ∧ text.getLast? = some ')' then
    match MicroSql.query db ((text.drop existsHead.length).dropLast) params with
    | .error e => .error e
    | .ok rows => .ok [[Val.int (if rows.isEmpty then 0 else 1)]]
  else MicroSql.query db text params

/-- the one query over the catalogue the library emits (`_get_table_names`) -/
def masterText : Py.Str := (['S', 'E', 'L', 'E', 'C', 'T', ' ', 'n', 'a', 'm', 'e', ' ', 'f', 'r', 'o', 'm', ' ', 's', 'q', 'l', 'i', 't', 'e', '_', 'm', 'a', 's', 't', 'e', 'r', ' ', 'W', 'H', 'E', 'R', 'E', ' ', 't', 'y', 'p', 'e', '=', '\'', 't', 'a', 'b', 'l', 'e', '\'', ';'] : Py.Str)

/-- `self.conn.execute(text, params)`: the SQLite contract for the catalogue — `SELECT name from sqlite_master WHERE type='table';`
    (exactly this text) answers the names of the tables in the order in which they were created, one row each; any other text
    that mentions `sqlite_master` (an ORDER BY, other columns, ...) is given no meaning (`unmodelled`); everything else is `execute` -/
def connExecute (db : Db) (text : Py.Str) (params : List Val) : Except Err (List (List Val)) :=
  if text = masterText then
    (if params.isEmpty then .ok (db.tabs.map (fun t => [Val.text t.name])) else .error .programming)
  else if Py.strIn "sqlite_master".toList text then .error (.unmodelled "a query over sqlite_master other than the table-name query")
  else execute db text params

/-- a list of values used as a list of str (`return [n[0] for n in names]` of table names) -/
def strs (l : List Val) : Except Err (List Py.Str) :=
  l.mapM (fun v => match v with
    | .text s => .ok s
    | _ => .error (.unmodelled "a name that is not a text"))

/-- `self.c.executemany(text, rows)` -/
def executemany (db : Db) (text : Py.Str) (rows : List (List Val)) : Db × Except Err Unit := MicroSql.executemany db text rows

/-- `self.c.execute(text)` of an `ALTER TABLE` -/
def executeAlter (db : Db) (text : Py.Str) : Db × Except Err Unit := MicroSql.execAlter db text

/-- `self.get_colnames()` -/
def get_colnames (db : Db) : List Py.Str := db.colnames

/-- `self._nModel` -/
def nModel (db : Db) : Int := db.nModel

/-- `kwargs.keys()` -/
def keys (kw : List Kw) : List Py.Str := kw.map (·.key)

/-- `kwargs[key] = value`: the value of an existing key is replaced in place, a new key goes to the end -/
def setKw : List Kw → Py.Str → Arg → List Kw
  | [], key, a => [{ key := key, arg := a }]
  | k :: rest, key, a => if k.key = key then { key := key, arg := a } :: rest else k :: setKw rest key a

/-- `range(a, b, step)` -/
def range3 (a b step : Int) : List Int :=
  if step ≤ 0 then [] else (List.range ((b - a + step - 1) / step).toNat).map (fun (k : Nat) => a + (k : Int) * step)

/-- an answer of `get` used as a list of rows / values (an answer per model is not one) -/
def asData : Result → Except Err (List Item)
  | .data d => .ok d
  | .models _ => .error (.unmodelled "nested answer where a flat one is expected")

/-- an answer of `get('rowID', ...)` used as a list of ints (`len`, `set`, `rowID[i] + 1`); a set of ints is represented by
    the list of its members (repetitions allowed) -/
def rowIDs : Result → Except Err (List Int)
  | .data items => items.mapM (fun it => match it with
      | .one (.int i) => .ok i
      | _ => .error (.unmodelled "rowID answer is not a flat list of ints"))
  | .models _ => .error (.unmodelled "nested answer where a flat one is expected")

/-- `a & b` on sets -/
def setAnd (a b : List Int) : List Int := a.filter (fun i => b.contains i)

/-- `a | b` on sets -/
def setOr (a b : List Int) : List Int := a ++ b

/-- `sorted(s)` of a set of ints: strictly ascending -/
def sorted (s : List Int) : List Int := sortDedup (fun a b => decide (a < b)) s

/-- `sorted(s)` of a set of str -/
def sortedStr (s : List Py.Str) : List Py.Str := sortDedup strLt s

/-- `set(answer)`: the hashable items of a flat answer of `get` (texts); an answer per model holds lists (TypeError) -/
def textSet : Result → Except Err (List Py.Str)
  | .data items => items.mapM (fun it => match it with
      | .one (.text s) => .ok s
      | _ => .error (.unmodelled "chainID that is not a text"))
  | .models _ => .error .typeError

/-- `[tuple(x) for x in answer]`: the rows of an answer of `get` (an answer per model: tuples of lists, unhashable later: TypeError) -/
def rows : Result → Except Err (List (List Val))
  | .data items => items.mapM (fun it => match it with
      | .many vs => .ok vs
      | .one _ => .error (.unmodelled "flat answer for three columns"))
  | .models _ => .error .typeError

/-- `sorted(set(x), key=x.index)`: the distinct members in order of first occurrence -/
def firstOcc {α : Type} [DecidableEq α] : List α → List α
  | [] => []
  | a :: t => a :: (firstOcc t).filter (· ≠ a)

/-- what a method that modifies the database does last -/
inductive Effect
  | many (text : Py.Str) (rows : List (List Val))      -- `self.c.executemany(text, rows)`
  | alter (text : Py.Str)                                -- `self.c.execute(text)` of an ALTER TABLE
  | nothing                                              -- a bare `return`

/-- a call `self.update(columns, values, tablename=.., **kwargs)` -/
structure Call where
  columns : Py.Str
  values : List (List Val)
  tablename : Py.Str
  kwargs : List Kw

/-- the effects of one activation of a modifying method, in order: calls of `self.update`, then the final database call.
    (Everything before them only reads the database, so the translated body computes them from the state at entry.) -/
structure Plan where
  calls : List Call
  last : Effect

abbrev SelfUpdate := Db → Py.Str → List (List Val) → Py.Str → List Kw → Db × Except Err Unit

def runEffect (db : Db) : Effect → Db × Except Err Unit
  | .many text rows => executemany db text rows
  | .alter text => executeAlter db text
  | .nothing => (db, .ok ())

/-- the calls one after the other; an exception stops them with what was done so far -/
def runCalls (self_update : SelfUpdate) : Db → List Call → Db × Except Err Unit
  | db, [] => (db, .ok ())
  | db, c :: rest =>
    match self_update db c.columns c.values c.tablename c.kwargs with
    | (db', .ok ()) => runCalls self_update db' rest
    | (db', .error e) => (db', .error e)

def runPlan (self_update : SelfUpdate) (db : Db) (p : Plan) : Db × Except Err Unit :=
  match runCalls self_update db p.calls with
  | (db', .ok ()) => runEffect db' p.last
  | (db', .error e) => (db', .error e)

/-- a modifying method: its body (an exception there leaves the database as it was), then its effects -/
def run (self_update : SelfUpdate) (db : Db) (body : Except Err Plan) : Db × Except Err Unit :=
  match body with
  | .error e => (db, .error e)
  | .ok p => runPlan self_update db p

/-- for methods that never call `self.update` -/
def noUpdate : SelfUpdate := fun db _ _ _ _ => (db, .ok ())

/-- `sorted(x)` where `x` may be `None` (TypeError) -/
def sortedOpt : Option (List Int) → Except Err (List Int)
  | none => .error .typeError
  | some s => .ok (sorted s)

end E
'''

if __name__ == '__main__':
    files, refused = generate()
    out = sys.argv[1] if len(sys.argv) > 1 else None
    for name, text in files.items():
        if out:
            with open(os.path.join(out, name), 'w') as fh:
                fh.write(text)
        else:
            sys.stdout.write(text)
    print('REFUSED', refused, file=sys.stderr)
