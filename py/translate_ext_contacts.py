"""
translate_ext_contacts.py -- translator plug-in: REAL translation of the contact code of interface.py
(`get_contact_atoms`, `_extend_contact_to_residue`, `get_contact_residues`; plus `pdb2sql_base.get_chains` and the
constant `self.backbone_atoms` they use) into Gen/Contacts.lean (namespace GenC), from the AST of the current source.

Front end: a typed subset of Python.  Every expression gets one of the types

    Bool | Str | Rat | Nat | Int | List T | Set T | Coll T (list-or-set) | Dict K V | Tuple (T, ...) |
    SArr2 (T, ...) / SArr1 T (NumPy string arrays made by np.array of get-rows, by column) | Union A B | Kw (a literal dict(k=v) of keywords)

by inference from the parameter types (taken from the default values; declared below where there is none), with type variables
for empty containers (`dict()`, `[]`, `set()`) that are resolved by their first use.  The Lean term is chosen by the types.
What each operation means is fixed once in lean/PdbVerif/Py/Dict.lean (`Dict`, `Rt`, `Tbl`, `Np`).

Statements: assignment (SSA renaming), tuple unpacking, `d[k] = v`, `x += e`, `d[k] += e`, the in-place methods
`.append / .extend / .add` on a variable, on `d[k]` and on `d.setdefault(k, v)`, `d.setdefault(k, v)` as a statement,
`if / elif / else` (the variables changed in the branches are JOINED: `let j ← if c then .. pure (a, b) else .. pure (a, b)`; a
branch that ends in `continue / return / raise` takes no part in the join), `for` over lists, `enumerate`, `zip`,
`itertools.combinations(., 2)`, `d.keys() / d.items()` -- an explicit `List.foldlM` over the iterated list whose accumulator
is the tuple of loop-carried variables (`continue` = `pure` of the accumulator as it is), `return`, `raise`, `pass`,
`warnings.warn / print` (dropped; RECORDED in the unit's doc comment).  Expressions: names, literals, `and / or / not` (short-circuit
kept when an operand can raise), comparisons, `in`, `len`, `any([..]) / all([..])`, `l[i]`, `d[k]`, list literals, list
comprehensions (with `if`; monadic when an element expression can raise), `list / tuple / set / sorted / zip / map(lambda)`,
`s.startswith('..')`, `self.get(columns, **kw)` (-> `Tbl.select`), calls of translated methods, `np.array`, `data[:, a:b]`,
`.astype(float|int)`, `np.where(mask)[0]` and the distance test `np.sqrt(np.sum((A - x)**2, 1)) <= c` (-> ONE primitive `Np.withinCutoff`).
`list(set(x))` / iterating a set has an unspecified order: it goes through a PARAMETER `setOrder` of the generated definition.

Aliasing: Python lists / dicts / sets are mutable and shared; the translation is functional.  An in-place update is only
translated when the updated object provably has one name: a variable that is updated in place is never copied by reference
(`y = x`, `d[k] = x`, `l.append(x)`), and a dictionary whose entries are updated in place never hands out an entry by reference
(`v = d[k]`, `v = d.setdefault(..)`, `for k, v in d.items()`).  Anything else raises Refuse for that unit: it is reported, and the
unit's previous text is spliced from lean/gen_snapshot/Contacts.lean.  A unit that calls a refused unit is refused as well.
Output is a pure function of the source text.  Standard library only.
"""
import ast, os, sys, re

sys.path.insert(0, os.path.dirname(os.path.abspath(__file__)))
from translate import parse_module, find_func, Refuse, unit, refused_unit, lean_rat, lean_str, self_assign  # noqa: E402

FNAME = 'Contacts.lean'

EXC_MAP = {'ValueError': 'Py.Err.valueError', 'TypeError': 'Py.Err.typeError', 'IndexError': 'Py.Err.indexError',
           'KeyError': 'Py.Err.keyError'}

LEAN_RESERVED = {'at', 'from', 'end', 'fun', 'let', 'do', 'then', 'else', 'if', 'in', 'have', 'show', 'by', 'match', 'with',
                 'open', 'section', 'namespace', 'variable', 'def', 'theorem', 'instance', 'class', 'structure', 'where',
                 'Type', 'Prop', 'Sort', 'import', 'export', 'mutual', 'deriving', 'macro', 'syntax', 'local', 'private',
                 'protected', 'universe', 'axiom', 'example', 'abbrev', 'opaque', 'attribute', 'for', 'unless', 'return',
                 'try', 'catch', 'finally', 'mut', 'nomatch', 'nofun', 'calc', 'using', 'extends', 'notation', 'prefix',
                 'infix', 'postfix', 'pure', 'throw', 'acc', 'it', 'r', 'p', 'true', 'false', 'some', 'none', 'id', 'set', 'index'}

SQL_KIND = {'INT': 'Int', 'TEXT': 'Str', 'REAL': 'Rat'}
MUTATORS = {'append', 'extend', 'add'}
MUTABLE_HEADS = {'List', 'Set', 'Coll', 'Dict'}


# ---------------------------------------------------------------------------------------------
# types
# ---------------------------------------------------------------------------------------------

TVARS = {}


class TVar:
    n = 0

    def __init__(self):
        TVar.n += 1
        self.id = TVar.n
        self.ref = None
        TVARS[self.id] = self

    def __repr__(self):
        return f'?{self.id}'


def res(t):
    """resolve type variables (deep)"""
    while isinstance(t, TVar) and t.ref is not None:
        t = t.ref
    if isinstance(t, tuple):
        if t[0] in ('List', 'Set', 'Coll', 'SArr1'):
            return (t[0], res(t[1]))
        if t[0] == 'Dict':
            return ('Dict', res(t[1]), res(t[2]))
        if t[0] in ('Tuple', 'SArr2'):
            return (t[0], tuple(res(x) for x in t[1]))
        if t[0] == 'Union':
            return ('Union', res(t[1]), res(t[2]))
    return t


def head(t):
    t = res(t)
    return t[0] if isinstance(t, tuple) else t


def occurs(v, t):
    t = res(t)
    if t is v:
        return True
    if isinstance(t, tuple):
        return any(occurs(v, x) for x in (t[1] if t[0] in ('Tuple', 'SArr2') else t[1:]) if not isinstance(x, str) or True)
    return False


def unify(a, b):
    """make a and b equal by binding type variables; False when impossible"""
    a, b = res(a), res(b)
    if a is b or a == b:
        return True
    if isinstance(a, TVar):
        if occurs(a, b):
            return False
        a.ref = b
        return True
    if isinstance(b, TVar):
        return unify(b, a)
    if isinstance(a, tuple) and isinstance(b, tuple) and a[0] == b[0]:
        if a[0] in ('Tuple', 'SArr2'):
            return len(a[1]) == len(b[1]) and all(unify(x, y) for x, y in zip(a[1], b[1]))
        if a[0] == 'Kw':
            return False
        return len(a) == len(b) and all(unify(x, y) for x, y in zip(a[1:], b[1:]))
    return False


def join(a, b):
    """least common type for a variable / dictionary value that holds a or b (list | set -> Coll); None when there is none"""
    a, b = res(a), res(b)
    if unify_probe(a, b):
        unify(a, b)
        return res(a)
    ha, hb = head(a), head(b)
    if ha in ('List', 'Set', 'Coll') and hb in ('List', 'Set', 'Coll'):
        if unify(a[1], b[1]):
            return ('Coll', res(a[1]))
        return None
    if ha == 'Dict' and hb == 'Dict':
        if not unify(a[1], b[1]):
            return None
        v = join(a[2], b[2])
        return None if v is None else ('Dict', res(a[1]), v)
    return None


def unify_probe(a, b):
    """would unify succeed? (no binding)"""
    a, b = res(a), res(b)
    if a is b or a == b or isinstance(a, TVar) or isinstance(b, TVar):
        return True
    if isinstance(a, tuple) and isinstance(b, tuple) and a[0] == b[0]:
        if a[0] in ('Tuple', 'SArr2'):
            return len(a[1]) == len(b[1]) and all(unify_probe(x, y) for x, y in zip(a[1], b[1]))
        if a[0] == 'Kw':
            return False
        return len(a) == len(b) and all(unify_probe(x, y) for x, y in zip(a[1:], b[1:]))
    return False


def atomic(s):
    return bool(re.fullmatch(r'[A-Za-z_.⟦⟧0-9:]+', s)) or (s.startswith('(') and s.endswith(')') and balanced(s[1:-1]))


def balanced(s):
    d = 0
    for c in s:
        if c == '(':
            d += 1
        elif c == ')':
            d -= 1
            if d < 0:
                return False
    return d == 0


def par(s):
    return s if atomic(s) else '(' + s + ')'


def lty(t):
    """Lean type of a front-end type (type variables become placeholders that are filled in at the end)"""
    t = res(t)
    if isinstance(t, TVar):
        return f'⟦{t.id}⟧'
    if isinstance(t, str):
        return {'Bool': 'Bool', 'Str': 'Py.Str', 'Rat': 'Rat', 'Nat': 'Nat', 'Int': 'Int', 'Unit': 'Unit',
                'Table': 'List Py.Atom'}[t]
    if t[0] in ('List', 'Set', 'Coll', 'SArr1'):
        return 'List ' + par(lty(t[1]))
    if t[0] == 'Dict':
        return 'Dict ' + par(lty(t[1])) + ' ' + par(lty(t[2]))
    if t[0] in ('Tuple', 'SArr2'):
        if len(t[1]) == 1:
            return lty(t[1][0])
        return '(' + ' × '.join(par(lty(x)) if head(x) not in ('Tuple', 'SArr2') else lty(x) for x in t[1]) + ')'
    if t[0] == 'Union':
        return 'Sum ' + par(lty(t[1])) + ' ' + par(lty(t[2]))
    raise ValueError(t)


def proj(code, k, n):
    """k-th component of a right-nested n-tuple"""
    if n == 1:
        return code
    s = code + '.2' * k
    return s + '.1' if k < n - 1 else s


def tuple_code(codes):
    return codes[0] if len(codes) == 1 else '(' + ', '.join(codes) + ')'


def is_mutable(t):
    return head(t) in MUTABLE_HEADS


def orderable(t):
    t = res(t)
    if t in ('Nat', 'Int', 'Str'):
        return True
    return isinstance(t, tuple) and t[0] == 'Tuple' and all(orderable(x) for x in t[1])


def has_eq(t):
    t = res(t)
    if t in ('Nat', 'Int', 'Str', 'Bool', 'Rat'):
        return True
    return isinstance(t, tuple) and t[0] in ('Tuple', 'List') and all(has_eq(x) for x in (t[1] if t[0] == 'Tuple' else [t[1]]))


# ---------------------------------------------------------------------------------------------
# AST analyses (names stored / updated in place / read before being written)
# ---------------------------------------------------------------------------------------------

def dotted(node):
    if isinstance(node, ast.Name):
        return node.id
    if isinstance(node, ast.Attribute):
        b = dotted(node.value)
        return None if b is None else b + '.' + node.attr
    return None


def target_names(t):
    if isinstance(t, ast.Name):
        return [t.id]
    if isinstance(t, (ast.Tuple, ast.List)):
        return [n for e in t.elts for n in target_names(e)]
    return []


def path_root(node):
    """the variable whose object an update of `node` changes: X, X[k], X.setdefault(k, v), X[k][j] ..."""
    if isinstance(node, ast.Name):
        return node.id
    if isinstance(node, ast.Subscript):
        return path_root(node.value)
    if isinstance(node, ast.Call) and isinstance(node.func, ast.Attribute) and node.func.attr == 'setdefault':
        return path_root(node.func.value)
    return None


def stores(stmts):
    out = set()
    for s in stmts:
        if isinstance(s, ast.Assign):
            for t in s.targets:
                out.update(target_names(t))
        elif isinstance(s, ast.AugAssign):
            out.update(target_names(s.target))
        elif isinstance(s, ast.For):
            out.update(target_names(s.target))
            out |= stores(s.body) | stores(s.orelse)
        elif isinstance(s, ast.If):
            out |= stores(s.body) | stores(s.orelse)
    return out


def mutated(stmts):
    out = set()
    for s in stmts:
        if isinstance(s, (ast.Assign, ast.AugAssign)):
            for t in (s.targets if isinstance(s, ast.Assign) else [s.target]):
                if isinstance(t, ast.Subscript):
                    r = path_root(t)
                    if r:
                        out.add(r)
            if isinstance(s, ast.AugAssign) and isinstance(s.target, ast.Name):
                out.add(s.target.id)
        elif isinstance(s, ast.Expr) and isinstance(s.value, ast.Call) and isinstance(s.value.func, ast.Attribute) \
                and s.value.func.attr in MUTATORS | {'setdefault'}:
            r = path_root(s.value.func.value)
            if r:
                out.add(r)
        elif isinstance(s, ast.For):
            out |= mutated(s.body) | mutated(s.orelse)
        elif isinstance(s, ast.If):
            out |= mutated(s.body) | mutated(s.orelse)
    return out


def expr_loads(node, bound=frozenset()):
    """names read by an expression (comprehension / lambda variables excluded)"""
    out = set()
    if node is None:
        return out
    if isinstance(node, ast.Name):
        if node.id not in bound:
            out.add(node.id)
        return out
    if isinstance(node, (ast.ListComp, ast.SetComp, ast.GeneratorExp)):
        b = set(bound)
        for g in node.generators:
            out |= expr_loads(g.iter, frozenset(b))
            b |= set(target_names(g.target))
            for c in g.ifs:
                out |= expr_loads(c, frozenset(b))
        out |= expr_loads(node.elt, frozenset(b))
        return out
    if isinstance(node, ast.Lambda):
        b = set(bound) | {a.arg for a in node.args.args}
        return expr_loads(node.body, frozenset(b))
    for ch in ast.iter_child_nodes(node):
        out |= expr_loads(ch, bound)
    return out


def all_loads(stmts):
    out = set()
    for s in stmts:
        if isinstance(s, ast.Assign):
            out |= expr_loads(s.value)
            for t in s.targets:
                if not isinstance(t, (ast.Name, ast.Tuple)):
                    out |= expr_loads(t)
        elif isinstance(s, ast.AugAssign):
            out |= expr_loads(s.value) | expr_loads(s.target)
        elif isinstance(s, ast.For):
            out |= expr_loads(s.iter) | all_loads(s.body) | all_loads(s.orelse)
        elif isinstance(s, ast.If):
            out |= expr_loads(s.test) | all_loads(s.body) | all_loads(s.orelse)
        else:
            for ch in ast.iter_child_nodes(s):
                out |= expr_loads(ch)
    return out


def upward_exposed(stmts, defined):
    """names a block may read before it has (definitely) written them; -> (exposed, defined afterwards)"""
    exposed = set()
    defined = set(defined)

    def use(names):
        exposed.update(n for n in names if n not in defined)

    for s in stmts:
        if isinstance(s, ast.Assign):
            use(expr_loads(s.value))
            for t in s.targets:
                if isinstance(t, (ast.Name, ast.Tuple)):
                    defined.update(target_names(t))
                else:
                    use(expr_loads(t))
        elif isinstance(s, ast.AugAssign):
            use(expr_loads(s.target) | expr_loads(s.value))
        elif isinstance(s, ast.If):
            use(expr_loads(s.test))
            ea, da = upward_exposed(s.body, defined)
            eb, db = upward_exposed(s.orelse, defined)
            exposed |= ea | eb
            defined = da & db
        elif isinstance(s, ast.For):
            use(expr_loads(s.iter))
            eb, _ = upward_exposed(s.body, defined | set(target_names(s.target)))
            exposed |= eb
        else:
            for ch in ast.iter_child_nodes(s):
                use(expr_loads(ch))
    return exposed, defined


# ---------------------------------------------------------------------------------------------
# one function: expressions
# ---------------------------------------------------------------------------------------------

def code_lines(prefix, code, ind):
    """`prefix code` at indentation `ind`; continuation lines of a multi-line code keep their relative indentation"""
    ls = code.split('\n')
    return [ind + prefix + ls[0]] + [ind + l for l in ls[1:]]


def render_pre(pre, ind):
    out = []
    for kind, name, code in pre:
        out += code_lines(f'let {name} ← ' if kind == 'bind' else f'let {name} := ', code, ind)
    return out


def shift(lines, ind):
    return [ind + l for l in lines]


class FnTr:
    """translation of one Python function into a Lean definition"""

    def __init__(self, where, registry, consts, coltypes, fixed=None):
        self.where = where
        self.registry = registry
        self.consts = consts              # self.<attr> -> (lean name, type)
        self.coltypes = coltypes          # column name -> type
        self.fixed = fixed or {}
        self.used = set()
        self.pre_stack = [[]]
        self.tmp = 0
        self.bind_order = []
        self.alias_names, self.alias_values = set(), set()
        self.mut_names, self.mut_values, self.mut_dict = set(), set(), set()
        self.dropped = []
        self.set_orders = []              # [(param name, element type)]
        self.ret_types = {}               # id(Return node) -> type
        self.ret_nodes = []
        self.deferred = []                # checks on types that may still contain variables
        self.params = []
        self.calls_refused = None
        self.cond_stack = []
        self.monadic = True

    # -- bookkeeping ---------------------------------------------------------------------------
    def refuse(self, node, why):
        raise Refuse(self.where, f'line {getattr(node, "lineno", "?")}: {why}')

    def fresh(self, base):
        b = re.sub(r'\W', '_', base)
        if b in LEAN_RESERVED or not b or b[0].isdigit():
            b = b + '_'
        if b == '_':
            b = '_u'
        name, k = b, 0
        while name in self.used:
            k += 1
            name = f'{b}_{k}'
        self.used.add(name)
        return name

    @property
    def pre(self):
        return self.pre_stack[-1]

    def push_pre(self):
        self.pre_stack.append([])

    def pop_pre(self):
        return self.pre_stack.pop()

    def take_pre(self):
        p = list(self.pre_stack[-1])
        self.pre_stack[-1].clear()
        return p

    def hoist(self, code):
        """bind a computation that can raise to a temporary"""
        self.tmp += 1
        t = self.fresh(f't{self.tmp}')
        self.pre.append(('bind', t, code))
        return t

    def set_order(self, elem_ty):
        elem_ty = res(elem_ty)
        for nm, t in self.set_orders:
            if res(t) == elem_ty:
                return nm
        nm = self.fresh('setOrder')
        self.set_orders.append((nm, elem_ty))
        return nm

    def note_ref(self, node, env):
        """`node` (an expression of a mutable type) is stored / bound by reference"""
        if isinstance(node, ast.Name):
            self.alias_names.add(node.id)
            return
        r = path_root(node) if isinstance(node, (ast.Subscript, ast.Call)) else None
        if r is not None:
            self.alias_values.add(r)
            return
        if isinstance(node, ast.Call) and isinstance(node.func, ast.Attribute) and node.func.attr in ('items', 'values'):
            r = path_root(node.func.value)
            if r is not None:
                self.alias_values.add(r)

    def num(self, code, t, want, node):
        t = res(t)
        if isinstance(t, tuple) and t[0] == 'IntLit':
            v = t[1]
            if want == 'Nat':
                if v < 0:
                    self.refuse(node, 'negative literal where a natural number is needed')
                return f'({v} : Nat)'
            if want == 'Int':
                return f'({v} : Int)' if v >= 0 else f'(-{-v} : Int)'
            if want == 'Rat':
                return lean_rat(v)
            self.refuse(node, f'integer literal where {want} is needed')
        if t == want:
            return code
        if t == 'Nat' and want == 'Int':
            return f'(({code} : Nat) : Int)'
        if t in ('Nat', 'Int') and want == 'Rat':
            return f'(({code} : {t}) : Rat)'
        self.refuse(node, f'{t} where {want} is needed')

    def value(self, node, env, want=None):
        """an expression whose value is stored: integer literals get a type"""
        c, t = self.ex(node, env)
        t = res(t)
        if isinstance(t, tuple) and t[0] == 'IntLit':
            w = want if want in ('Nat', 'Int', 'Rat') else ('Nat' if t[1] >= 0 else 'Int')
            return self.num(c, t, w, node), w
        if t == 'None':
            self.refuse(node, 'None as a value')
        return c, t

    def bool_of(self, node, env):
        c, t = self.ex(node, env)
        t = res(t)
        if t == 'Bool':
            return c
        if head(t) in ('List', 'Set', 'Coll'):
            return f'(!{par(c)}.isEmpty)'
        self.refuse(node, f'truth value of {t}')

    # -- expressions ---------------------------------------------------------------------------
    def ex(self, node, env):
        """(lean code, type); computations that can raise are bound in self.pre, in evaluation order"""
        if isinstance(node, ast.Constant):
            v = node.value
            if isinstance(v, bool):
                return ('true' if v else 'false'), 'Bool'
            if isinstance(v, int):
                return str(v), ('IntLit', v)
            if isinstance(v, float):
                return lean_rat(v), 'Rat'
            if isinstance(v, str):
                return lean_str(v), 'Str'
            if v is None:
                return None, 'None'
            self.refuse(node, f'constant {v!r}')
        if isinstance(node, ast.Name):
            if node.id not in env:
                self.refuse(node, f'variable {node.id} is not (definitely) assigned here')
            return env[node.id]
        if isinstance(node, ast.List):
            if not node.elts:
                tv = TVar()
                return f'([] : List {par(lty(tv))})', ('List', tv)
            parts = [self.value(e, env) for e in node.elts]
            t0 = parts[0][1]
            for (c, t), e in zip(parts, node.elts):
                if not unify(t0, t):
                    self.refuse(node, f'list of {res(t0)} and {res(t)}')
                if is_mutable(t):
                    self.note_ref(e, env)
            return '[' + ', '.join(c for c, _ in parts) + ']', ('List', t0)
        if isinstance(node, ast.Tuple):
            parts = [self.value(e, env) for e in node.elts]
            for (c, t), e in zip(parts, node.elts):
                if is_mutable(t):
                    self.note_ref(e, env)
            return tuple_code([c for c, _ in parts]), ('Tuple', tuple(t for _, t in parts))
        if isinstance(node, ast.Dict):
            if node.keys:
                self.refuse(node, 'dict literal with entries')
            k, v = TVar(), TVar()
            return f'(Dict.empty : {lty(("Dict", k, v))})', ('Dict', k, v)
        if isinstance(node, ast.UnaryOp):
            if isinstance(node.op, ast.Not):
                return f'(!{self.bool_of(node.operand, env)})', 'Bool'
            if isinstance(node.op, ast.USub):
                c, t = self.ex(node.operand, env)
                if isinstance(t, tuple) and t[0] == 'IntLit':
                    return str(-t[1]), ('IntLit', -t[1])
            self.refuse(node, 'unary operator')
        if isinstance(node, ast.BoolOp):
            return self.boolop(node, env)
        if isinstance(node, ast.Compare):
            return self.compare(node, env)
        if isinstance(node, ast.Subscript):
            return self.subscript(node, env)
        if isinstance(node, ast.Attribute):
            d = dotted(node)
            if d and d.startswith('self.') and d[5:] in self.consts:
                return self.consts[d[5:]]
            self.refuse(node, f'attribute {d or node.attr}')
        if isinstance(node, ast.Call):
            return self.call(node, env)
        if isinstance(node, ast.ListComp):
            return self.listcomp(node, env)
        if isinstance(node, ast.BinOp) and isinstance(node.op, ast.Add):
            ca, ta = self.ex(node.left, env)
            cb, tb = self.ex(node.right, env)
            if head(ta) == 'List' and head(tb) == 'List' and unify(ta, tb):
                return f'({ca} ++ {cb})', res(ta)
            self.refuse(node, f'{res(ta)} + {res(tb)}')
        self.refuse(node, 'expression ' + type(node).__name__)

    def boolop(self, node, env):
        is_and = isinstance(node.op, ast.And)
        ops = []
        for i, v in enumerate(node.values):
            if i > 0:
                self.push_pre()
            c = self.bool_of(v, env)
            ops.append((self.pop_pre() if i > 0 else [], c))

        def combine(i):
            pre_i, code_i = ops[i]
            if i == len(ops) - 1:
                return pre_i, code_i
            pre_r, code_r = combine(i + 1)
            if not pre_r:
                return pre_i, f'({code_i} {"&&" if is_and else "||"} {code_r})'
            self.tmp += 1
            t = self.fresh(f't{self.tmp}')
            inner = render_pre(pre_r, '    ') + ['    pure ' + code_r]
            if is_and:
                block = '\n'.join([f'(if {code_i} then do'] + inner + ['  else pure false)'])
            else:
                block = '\n'.join([f'(if {code_i} then pure true else do'] + inner[:-1] + [inner[-1] + ')'])
            return pre_i + [('bind', t, block)], t
        pre, code = combine(0)
        self.pre.extend(pre)
        return code, 'Bool'

    def within_cutoff(self, node, env):
        """`np.sqrt(np.sum((A - x)**2, 1)) <= c`  ->  (A, x, c) or None"""
        if not (len(node.ops) == 1 and isinstance(node.ops[0], ast.LtE)):
            return None
        l = node.left
        if not (isinstance(l, ast.Call) and dotted(l.func) == 'np.sqrt' and len(l.args) == 1 and not l.keywords):
            return None
        s = l.args[0]
        if not (isinstance(s, ast.Call) and dotted(s.func) == 'np.sum' and len(s.args) == 2 and not s.keywords
                and isinstance(s.args[1], ast.Constant) and s.args[1].value == 1):
            return None
        p = s.args[0]
        if not (isinstance(p, ast.BinOp) and isinstance(p.op, ast.Pow) and isinstance(p.right, ast.Constant) and p.right.value == 2
                and isinstance(p.left, ast.BinOp) and isinstance(p.left.op, ast.Sub)):
            return None
        return p.left.left, p.left.right, node.comparators[0]

    def compare(self, node, env):
        wc = self.within_cutoff(node, env)
        if wc is not None:
            pt = ('Tuple', ('Rat', 'Rat', 'Rat'))
            ca, ta = self.ex(wc[0], env)
            cb, tb = self.ex(wc[1], env)
            cc, tc = self.ex(wc[2], env)
            if res(ta) != ('List', pt) or res(tb) != pt:
                self.refuse(node, f'distance test on {res(ta)} and {res(tb)}')
            return f'(Np.withinCutoff {par(ca)} {par(cb)} {par(self.num(cc, tc, "Rat", node))})', ('List', 'Bool')
        if len(node.ops) != 1:
            self.refuse(node, 'chained comparison')
        op = node.ops[0]
        ca, ta = self.ex(node.left, env)
        cb, tb = self.ex(node.comparators[0], env)
        ta, tb = res(ta), res(tb)
        il = lambda t: isinstance(t, tuple) and t[0] == 'IntLit'
        if isinstance(op, (ast.In, ast.NotIn)):
            neg = isinstance(op, ast.NotIn)
            if head(tb) in ('List', 'Set', 'Coll'):
                if il(ta):
                    ca, ta = self.num(ca, ta, res(tb[1]) if res(tb[1]) in ('Nat', 'Int') else 'Nat', node), res(tb[1])
                if not unify(ta, tb[1]):
                    self.refuse(node, f'{ta} in a container of {res(tb[1])}')
                self.deferred.append((node, 'eq', ta))
                c = f'decide ({ca} ∈ {cb})'
            elif head(tb) == 'Dict':
                if not unify(ta, tb[1]):
                    self.refuse(node, f'{ta} in a dict with keys {res(tb[1])}')
                c = f'Dict.contains {par(cb)} {par(ca)}'
            else:
                self.refuse(node, f'`in` on {tb}')
            return (f'(!{c})' if neg else f'({c})'), 'Bool'
        num_t = lambda t: il(t) or t in ('Nat', 'Int', 'Rat')
        if num_t(ta) and num_t(tb):
            rank = {'Nat': 0, 'Int': 1, 'Rat': 2}
            cands = [t for t in (ta, tb) if not il(t)]
            w = max(cands, key=lambda t: rank[t]) if cands else 'Int'
            if any(il(t) and t[1] < 0 for t in (ta, tb)) and w == 'Nat':
                w = 'Int'
            ca, cb = self.num(ca, ta, w, node), self.num(cb, tb, w, node)
            sym = {ast.Eq: '=', ast.NotEq: '≠', ast.Lt: '<', ast.Gt: '>', ast.LtE: '≤', ast.GtE: '≥'}.get(type(op))
            if sym is None:
                self.refuse(node, 'comparison operator')
            return f'decide ({ca} {sym} {cb})', 'Bool'
        if isinstance(op, (ast.Eq, ast.NotEq)):
            if not unify(ta, tb):
                self.refuse(node, f'equality of {ta} and {tb}')
            self.deferred.append((node, 'eq', ta))
            return f'decide ({ca} {"=" if isinstance(op, ast.Eq) else "≠"} {cb})', 'Bool'
        self.refuse(node, f'comparison of {ta} and {tb}')

    def const_int(self, node):
        if isinstance(node, ast.Constant) and isinstance(node.value, int) and not isinstance(node.value, bool):
            return node.value
        if isinstance(node, ast.UnaryOp) and isinstance(node.op, ast.USub):
            v = self.const_int(node.operand)
            return None if v is None else -v
        return None

    def subscript(self, node, env):
        v, sl = node.value, node.slice
        # np.where(mask)[0]
        if isinstance(v, ast.Call) and dotted(v.func) == 'np.where' and self.const_int(sl) == 0 and len(v.args) == 1 and not v.keywords:
            c, t = self.ex(v.args[0], env)
            if res(t) != ('List', 'Bool'):
                self.refuse(node, f'np.where of {res(t)}')
            return f'(Np.where0 {par(c)})', ('List', 'Nat')
        c, t = self.ex(v, env)
        t = res(t)
        if head(t) == 'SArr2':
            if not (isinstance(sl, ast.Tuple) and len(sl.elts) == 2 and isinstance(sl.elts[0], ast.Slice)
                    and sl.elts[0].lower is None and sl.elts[0].upper is None and sl.elts[0].step is None):
                self.refuse(node, 'array index other than [:, columns]')
            n = len(t[1])
            cs = sl.elts[1]
            norm = lambda k: k + n if k < 0 else k
            if isinstance(cs, ast.Slice):
                if cs.step is not None:
                    self.refuse(node, 'column slice with a step')
                lo = 0 if cs.lower is None else self.const_int(cs.lower)
                hi = n if cs.upper is None else self.const_int(cs.upper)
                if lo is None or hi is None:
                    self.refuse(node, 'non-constant column slice')
                lo, hi = max(0, min(n, norm(lo))), max(0, min(n, norm(hi)))
                if hi <= lo:
                    self.refuse(node, 'empty column slice')
                ks = list(range(lo, hi))
                rt = ('SArr2', tuple(t[1][k] for k in ks))
            else:
                k = self.const_int(cs)
                if k is None or not (0 <= norm(k) < n):
                    self.refuse(node, 'column index')
                ks = [norm(k)]
                ct = res(t[1][ks[0]])
                rt = ('List', 'Str') if ct == 'Str' else ('SArr1', ct)
            rv = self.fresh('r')
            pr = tuple_code([proj(rv, k, n) for k in ks])
            return self.hoist(f'Np.cols {par(c)} (fun {rv} => {pr})'), rt
        if head(t) == 'Dict':
            ck, tk = self.value(sl, env, want=res(t[1]))
            if not unify(tk, t[1]):
                self.refuse(node, f'key {res(tk)} for a dict with keys {res(t[1])}')
            return self.hoist(f'Dict.getItem {par(c)} {par(ck)}'), res(t[2])
        if head(t) == 'Tuple':
            k = self.const_int(sl)
            n = len(t[1])
            if k is None or not (-n <= k < n):
                self.refuse(node, 'tuple index')
            return proj(c, k % n, n), res(t[1][k % n])
        if head(t) in ('List', 'Coll'):
            if isinstance(sl, ast.Slice):
                self.refuse(node, 'list slice')
            k = self.const_int(sl)
            if k is not None:
                if k >= 0:
                    return self.hoist(f'Rt.getItem {par(c)} {k}'), res(t[1])
                return self.hoist(f'Rt.getItemEnd {par(c)} {-k}'), res(t[1])
            ci, ti = self.ex(sl, env)
            if res(ti) != 'Nat':
                self.refuse(node, f'list index of type {res(ti)}')
            return self.hoist(f'Rt.getItem {par(c)} {par(ci)}'), res(t[1])
        self.refuse(node, f'subscript of {t}')

    def bind_target(self, target, code, ty, env, node):
        """bind the names of a loop / comprehension / lambda target to (projections of) `code`; -> new env"""
        ty = res(ty)
        env2 = dict(env)
        if isinstance(target, ast.Name):
            env2[target.id] = (code, ty)
            return env2
        if isinstance(target, (ast.Tuple, ast.List)):
            if head(ty) != 'Tuple' or len(ty[1]) != len(target.elts):
                self.refuse(node, f'unpacking {ty} into {len(target.elts)} names')
            for k, e in enumerate(target.elts):
                env2 = self.bind_target(e, proj(code, k, len(ty[1])), ty[1][k], env2, node)
            return env2
        self.refuse(node, 'target ' + ast.unparse(target)[:40])

    def iterable(self, node, env):
        """(code, element type) of something that is iterated"""
        c, t = self.ex(node, env)
        t = res(t)
        if head(t) in ('List',):
            if is_mutable(t[1]):
                self.note_ref(node, env)
            return c, res(t[1])
        if head(t) == 'Set':
            return f'({self.set_order(t[1])} {par(c)})', res(t[1])
        if head(t) == 'Dict':
            return f'(Dict.keys {par(c)})', res(t[1])
        self.refuse(node, f'iteration over {t}')

    def listcomp(self, node, env):
        if len(node.generators) != 1 or node.generators[0].is_async:
            self.refuse(node, 'comprehension with several generators')
        g = node.generators[0]
        ic, et = self.iterable(g.iter, env)
        base = g.target.id if isinstance(g.target, ast.Name) else 'p'
        x = self.fresh(base)
        env2 = self.bind_target(g.target, x, et, env, node)
        if is_mutable(et):
            for n in target_names(g.target):
                self.alias_names.add(n)
        self.push_pre()
        conds = [self.bool_of(cnd, env2) for cnd in g.ifs]
        pre_c = self.pop_pre()
        self.push_pre()
        ce, te = self.value(node.elt, env2)
        pre_e = self.pop_pre()
        if is_mutable(te):
            self.note_ref(node.elt, env2)
        self.used.discard(x) if False else None
        binder = f'fun ({x} : {lty(et)}) =>'
        cond = ' && '.join(conds) if conds else None
        if not pre_c and not pre_e:
            src = ic
            if cond is not None:
                src = f'({par(ic)}.filter ({binder} {cond}))'
            if ce == x:
                return src, ('List', te)
            return f'({par(src)}.map ({binder} {ce}))', ('List', te)
        if cond is None:
            lines = [f'Rt.mapM ({binder} do'] + render_pre(pre_e, '    ') + [f'    pure {par(ce)}) {par(ic)}']
        else:
            lines = [f'Rt.filterMapM ({binder} do'] + render_pre(pre_c, '    ') + [f'    if {cond} then do'] + \
                render_pre(pre_e, '      ') + [f'      pure (some {par(ce)})', f'    else pure none) {par(ic)}']
        return self.hoist('\n'.join(lines)), ('List', te)

    # -- calls ---------------------------------------------------------------------------------
    def call(self, node, env):
        f = node.func
        d = dotted(f)
        args, kws = node.args, node.keywords
        plain = not kws

        def one():
            if len(args) != 1 or not plain:
                self.refuse(node, f'arguments of {d}')
            return args[0]

        if d is not None and d.startswith('self.'):
            m = d[5:]
            if m == 'get':
                return self.self_get(node, env)
            if m in self.registry:
                return self.call_unit(node, m, env)
            self.refuse(node, f'call of self.{m} (outside the subset)')
        if d == 'len':
            c, t = self.ex(one(), env)
            if head(t) in ('List', 'Set', 'Coll'):
                return f'{par(c)}.length', 'Nat'
            if head(t) == 'Dict':
                return f'(Dict.len {par(c)})', 'Nat'
            self.refuse(node, f'len of {res(t)}')
        if d in ('any', 'all'):
            c, t = self.ex(one(), env)
            if res(t) != ('List', 'Bool'):
                self.refuse(node, f'{d} of {res(t)}')
            return f'(Rt.{d} {par(c)})', 'Bool'
        if d == 'list':
            a = one()
            if isinstance(a, ast.Call) and dotted(a.func) == 'map':
                return self.ex(a, env)
            c, t = self.ex(a, env)
            t = res(t)
            if head(t) == 'List':
                return c, t
            if head(t) == 'Set':
                return f'({self.set_order(t[1])} {par(c)})', ('List', res(t[1]))
            self.refuse(node, f'list of {t}')
        if d == 'map':
            if len(args) != 2 or not plain or not isinstance(args[0], ast.Lambda) or len(args[0].args.args) != 1:
                self.refuse(node, 'map other than map(lambda x: .., xs)')
            ic, et = self.iterable(args[1], env)
            x = self.fresh(args[0].args.args[0].arg)
            env2 = dict(env)
            env2[args[0].args.args[0].arg] = (x, et)
            self.push_pre()
            ce, te = self.value(args[0].body, env2)
            pre_e = self.pop_pre()
            binder = f'fun ({x} : {lty(et)}) =>'
            if not pre_e:
                if ce == x:
                    return ic, ('List', te)
                return f'({par(ic)}.map ({binder} {ce}))', ('List', te)
            lines = [f'Rt.mapM ({binder} do'] + render_pre(pre_e, '    ') + [f'    pure {par(ce)}) {par(ic)}']
            return self.hoist('\n'.join(lines)), ('List', te)
        if d == 'tuple':
            c, t = self.ex(one(), env)
            if head(t) == 'Tuple':
                return c, res(t)
            self.refuse(node, f'tuple of {res(t)}')
        if d == 'set':
            if not args and plain:
                tv = TVar()
                return f'(Rt.emptySet : List {par(lty(tv))})', ('Set', tv)
            c, t = self.ex(one(), env)
            t = res(t)
            if head(t) in ('List', 'Coll', 'Set'):
                self.deferred.append((node, 'eq', t[1]))
                return (c if head(t) == 'Set' else f'(Rt.set {par(c)})'), ('Set', res(t[1]))
            self.refuse(node, f'set of {t}')
        if d == 'sorted':
            c, t = self.ex(one(), env)
            t = res(t)
            if head(t) in ('List', 'Coll', 'Set'):
                self.deferred.append((node, 'ord', t[1]))
                return f'(Rt.sorted {par(c)})', ('List', res(t[1]))
            self.refuse(node, f'sorted of {t}')
        if d == 'zip':
            if len(args) != 2 or not plain:
                self.refuse(node, 'zip of other than two lists')
            (ca, ta), (cb, tb) = self.ex(args[0], env), self.ex(args[1], env)
            if head(ta) != 'List' or head(tb) != 'List':
                self.refuse(node, f'zip of {res(ta)} and {res(tb)}')
            return f'(List.zip {par(ca)} {par(cb)})', ('List', ('Tuple', (res(ta)[1], res(tb)[1])))
        if d == 'enumerate':
            c, t = self.ex(one(), env)
            if head(t) != 'List':
                self.refuse(node, f'enumerate of {res(t)}')
            return f'(Rt.enumerate {par(c)})', ('List', ('Tuple', ('Nat', res(t)[1])))
        if d == 'itertools.combinations':
            if len(args) != 2 or not plain or self.const_int(args[1]) != 2:
                self.refuse(node, 'itertools.combinations other than (l, 2)')
            c, t = self.ex(args[0], env)
            if head(t) != 'List':
                self.refuse(node, f'combinations of {res(t)}')
            return f'(Rt.combinations2 {par(c)})', ('List', ('Tuple', (res(t)[1], res(t)[1])))
        if d == 'dict':
            if args:
                self.refuse(node, 'dict(x)')
            if not kws:
                k, v = TVar(), TVar()
                return f'(Dict.empty : {lty(("Dict", k, v))})', ('Dict', k, v)
            ents = []
            for k in kws:
                if k.arg is None:
                    self.refuse(node, 'dict(**x)')
                c, t = self.value(k.value, env)
                ents.append((k.arg, c, res(t)))
            return None, ('Kw', tuple(ents))
        if d == 'np.array':
            c, t = self.ex(one(), env)
            t = res(t)
            if head(t) == 'List' and head(t[1]) == 'Tuple' and any(res(x) == 'Str' for x in t[1][1]):
                return f'(Np.array {par(c)})', ('SArr2', tuple(res(x) for x in t[1][1]))
            self.refuse(node, f'np.array of {t} (only rows that contain a string: NumPy\'s string array)')
        if isinstance(f, ast.Attribute):
            oc, ot = self.ex(f.value, env)
            ot = res(ot)
            m = f.attr
            if m == 'startswith' and ot == 'Str':
                a = one()
                if not (isinstance(a, ast.Constant) and isinstance(a.value, str)):
                    self.refuse(node, 'startswith of a non-literal')
                return f'(Py.startsWith {par(oc)} {lean_str(a.value)})', 'Bool'
            if m in ('keys', 'items', 'values') and head(ot) == 'Dict' and not args and plain:
                et = {'keys': ot[1], 'values': ot[2], 'items': ('Tuple', (ot[1], ot[2]))}[m]
                return f'(Dict.{m} {par(oc)})', ('List', res(et))
            if m == 'astype':
                a = dotted(one())
                if a == 'float' and head(ot) == 'SArr2' and all(res(x) == 'Rat' for x in ot[1]):
                    return f'(Np.astypeFloat {par(oc)})', ('List', ('Tuple', ot[1]))
                if a == 'float' and ot == ('SArr1', 'Rat'):
                    return f'(Np.astypeFloat {par(oc)})', ('List', 'Rat')
                if a == 'int' and head(ot) == 'SArr1' and ot[1] in ('Nat', 'Int'):
                    return f'(Np.astypeInt {par(oc)})', ('List', ot[1])
                self.refuse(node, f'astype({a}) of {ot}')
            self.refuse(node, f'method .{m} of {ot} (as an expression)')
        self.refuse(node, f'call of {d} (outside the subset)')

    def self_get(self, node, env):
        """`self.get('c1,c2', key=value, ...)` -> Tbl.select self cond proj"""
        if len(node.args) != 1 or not (isinstance(node.args[0], ast.Constant) and isinstance(node.args[0].value, str)):
            self.refuse(node, 'self.get with a non-literal column string')
        cols = [c.strip() for c in node.args[0].value.split(',')]
        tys = []
        r = self.fresh('r')
        acc = lambda c: f'{r}.2' if c == 'rowID' else f'{r}.1.{c}'
        for c in cols:
            if c == 'rowID':
                tys.append('Nat')
            elif c in self.coltypes:
                tys.append(self.coltypes[c])
            else:
                self.refuse(node, f'column {c!r}')
        kws = []
        for k in node.keywords:
            if k.arg is None:
                c, t = self.ex(k.value, env)
                t = res(t)
                if head(t) != 'Kw':
                    self.refuse(node, f'**{ast.unparse(k.value)[:30]} of type {t}')
                kws += [(kk, kc, kt, k.value) for kk, kc, kt in t[1]]
            elif k.arg == 'tablename':
                ok = (isinstance(k.value, ast.Constant) and k.value.value == 'atom') or \
                     (isinstance(k.value, ast.Name) and self.fixed.get(k.value.id) == 'atom')
                if not ok:
                    self.refuse(node, 'a table other than the atom table')
            else:
                c, t = self.value(k.value, env, want=('Nat' if k.arg == 'rowID' else self.coltypes.get(k.arg)))
                kws.append((k.arg, c, res(t), k.value))
        conds = []
        for key, c, t, vnode in kws:
            if key.startswith('no_'):
                self.refuse(node, 'negated keyword')
            ct = 'Nat' if key == 'rowID' else self.coltypes.get(key)
            if ct is None:
                self.refuse(node, f'keyword {key!r}')
            if head(t) in ('List', 'Coll'):
                if not unify(t[1], ct):
                    self.refuse(node, f'values of type {res(t[1])} for the column {key}')
                conds.append(f'decide ({acc(key)} ∈ {c})')
            else:
                if not unify(t, ct):
                    self.refuse(node, f'value of type {t} for the column {key}')
                conds.append(f'decide ({acc(key)} = {c})')
        cond = f'(fun {r} => ' + ' && '.join(conds) + ')' if conds else '(fun _ => true)'
        prj = f'(fun {r} => ' + tuple_code([acc(c) for c in cols]) + ')'
        rt = tys[0] if len(cols) == 1 else ('Tuple', tuple(tys))
        return f'(Tbl.select self {cond} {prj})', ('List', rt)

    def call_unit(self, node, m, env):
        sig = self.registry[m]
        if sig is None:
            self.calls_refused = m
            self.refuse(node, f'calls the refused unit {m}')
        params = sig['params']
        given = {}
        if len(node.args) > len(params):
            self.refuse(node, f'too many arguments for {m}')
        for (pn, pt, pd), a in zip(params, node.args):
            given[pn] = a
        for k in node.keywords:
            if k.arg is None or k.arg in given or k.arg not in [p[0] for p in params]:
                self.refuse(node, f'keyword arguments of {m}')
            given[k.arg] = k.value
        cs = []
        flag = None
        for pn, pt, pd in params:
            if pn in given:
                a = given[pn]
                c, t = self.value(a, env, want=pt if isinstance(pt, str) else None)
                if not unify(t, pt):
                    self.refuse(node, f'argument {pn} of {m}: {res(t)} where {res(pt)} is expected')
                if is_mutable(t) and pn in sig['mutates']:
                    self.refuse(node, f'{m} updates its argument {pn} in place')
                if sig.get('ret_switch') and sig['ret_switch'][0] == pn and isinstance(a, ast.Constant) and isinstance(a.value, bool):
                    flag = a.value
                cs.append(par(c))
            elif pd is not None:
                if sig.get('ret_switch') and sig['ret_switch'][0] == pn and pd in ('true', 'false'):
                    flag = pd == 'true'
                cs.append(par(pd))
            else:
                self.refuse(node, f'missing argument {pn} of {m}')
        so = [self.set_order(t) for _, t in sig['set_orders']]
        code = ' '.join([sig['lean']] + so + ['self'] + cs)
        ret = res(sig['ret'])
        if sig['monadic']:
            code = self.hoist(code)
        else:
            code = '(' + code + ')'
        if head(ret) == 'Union' and flag is not None:
            want = res(sig['ret_switch'][1] if flag else sig['ret_switch'][2])
            side = 'asLeft' if want == res(ret[1]) else 'asRight'
            return self.hoist(f'Rt.{side} {par(code)}'), want
        return code, ret

    # -- statements ----------------------------------------------------------------------------
    # IR: ('let', name, code, rest) | ('bind', name, code, rest) | ('comment', text, rest) | ('ite', cond, a, b)
    #     | ('pure', code, kind[, ret index])  kind = ret | cont | join      | ('raise', err) | ('hole', env)
    @staticmethod
    def with_pre(pre, ir):
        for kind, name, code in reversed(pre):
            ir = (kind, name, code, ir)
        return ir

    def block(self, stmts, env, k, later, loop):
        if not stmts:
            return k(env)
        rest = stmts[1:]
        later_here = later | all_loads(rest)
        return self.stmt(stmts[0], env, lambda e: self.block(rest, e, k, later, loop), later_here, loop)

    def bind_name(self, py, code, ty, env):
        nm = self.fresh(py)
        if py not in self.bind_order:
            self.bind_order.append(py)
        env2 = dict(env)
        env2[py] = (nm, ty)
        self.pre.append(('let', nm, code))
        return env2

    def concat_mk(self, arg, env, node, single=False):
        """cur -> cur ++ arg  (`+=`, `.extend(arg)`; single: `.append(arg)`)"""
        def mk(cur, ty):
            ty = res(ty)
            if head(ty) != 'List':
                self.refuse(node, f'list update of {ty}')
            c, t = self.value(arg, env, want=res(ty[1]) if isinstance(res(ty[1]), str) else None)
            if single:
                if not unify(t, ty[1]):
                    self.refuse(node, f'appending {res(t)} to a list of {res(ty[1])}')
                if is_mutable(t):
                    self.note_ref(arg, env)
                return f'({cur} ++ [{c}])', res(ty)
            if head(t) != 'List' or not unify(t, ty):
                self.refuse(node, f'extending a list of {res(ty[1])} by {res(t)}')
            return f'({cur} ++ {c})', res(ty)
        return mk

    def add_mk(self, arg, env, node):
        def mk(cur, ty):
            ty = res(ty)
            if head(ty) != 'Set':
                self.refuse(node, f'.add on {ty}')
            c, t = self.value(arg, env)
            if not unify(t, ty[1]):
                self.refuse(node, f'adding {res(t)} to a set of {res(ty[1])}')
            self.deferred.append((node, 'eq', ty[1]))
            return f'(Rt.setAdd {par(cur)} {par(c)})', res(ty)
        return mk

    def in_place(self, path, mk, env, node):
        """update, in place, the object `path` denotes; the let / bind lines go to self.pre; -> new env"""
        if isinstance(path, ast.Name):
            if path.id not in env:
                self.refuse(node, f'{path.id} is not assigned here')
            c, t = env[path.id]
            if c is None:
                self.refuse(node, f'update of {path.id}')
            nc, nt = mk(c, t)
            self.mut_names.add(path.id)
            return self.bind_name(path.id, nc, nt, env)
        if isinstance(path, ast.Subscript) and isinstance(path.value, ast.Name):
            d = path.value.id
            if d not in env or head(env[d][1]) != 'Dict':
                self.refuse(node, f'update of an entry of {d}')
            dc, dt = env[d]
            dt = res(dt)
            ck, tk = self.value(path.slice, env, want=res(dt[1]) if isinstance(res(dt[1]), str) else None)
            if not unify(tk, dt[1]):
                self.refuse(node, f'key {res(tk)} for a dict with keys {res(dt[1])}')
            cur = self.hoist(f'Dict.getItem {par(dc)} {par(ck)}')
            nc, nt = mk(cur, dt[2])
            vt = join(dt[2], nt)
            if vt is None:
                self.refuse(node, f'entry of type {res(nt)} in a dict of {res(dt[2])}')
            self.mut_values.add(d)
            return self.bind_name(d, f'Dict.setItem {par(dc)} {par(ck)} {par(nc)}', ('Dict', res(dt[1]), vt), env)
        if isinstance(path, ast.Call) and isinstance(path.func, ast.Attribute) and path.func.attr == 'setdefault' \
                and isinstance(path.func.value, ast.Name):
            env1, ck = self.setdefault_stmt(path, env, node)
            d = path.func.value.id
            dc, dt = env1[d]
            dt = res(dt)
            cur = self.hoist(f'Dict.getItem {par(dc)} {par(ck)}')
            nc, nt = mk(cur, dt[2])
            vt = join(dt[2], nt)
            if vt is None:
                self.refuse(node, f'entry of type {res(nt)} in a dict of {res(dt[2])}')
            self.mut_values.add(d)
            return self.bind_name(d, f'Dict.setItem {par(dc)} {par(ck)} {par(nc)}', ('Dict', res(dt[1]), vt), env1)
        self.refuse(node, 'in-place update of ' + ast.unparse(path)[:50])

    def setdefault_stmt(self, call, env, node):
        """`d.setdefault(k, v)` for its effect on d; -> (new env, key code)"""
        d = call.func.value.id
        if d not in env or head(env[d][1]) != 'Dict' or len(call.args) != 2 or call.keywords:
            self.refuse(node, 'setdefault other than d.setdefault(k, v) on a dict variable')
        dc, dt = env[d]
        dt = res(dt)
        ck, tk = self.value(call.args[0], env, want=res(dt[1]) if isinstance(res(dt[1]), str) else None)
        if not unify(tk, dt[1]):
            self.refuse(node, f'key {res(tk)} for a dict with keys {res(dt[1])}')
        if not ck.isidentifier():
            self.tmp += 1
            kn = self.fresh(f't{self.tmp}')
            self.pre.append(('let', kn, ck))
            ck = kn
        cv, tv = self.value(call.args[1], env)
        vt = join(dt[2], tv)
        if vt is None:
            self.refuse(node, f'default of type {res(tv)} in a dict of {res(dt[2])}')
        if is_mutable(tv):
            self.note_ref(call.args[1], env)
        self.mut_dict.add(d)
        env1 = self.bind_name(d, f'Dict.setdefault {par(dc)} {par(ck)} {par(cv)}', ('Dict', res(dt[1]), vt), env)
        return env1, ck

    def stmt(self, s, env, k, later, loop):
        if self.pre:
            raise AssertionError('pending hoisted computations')
        if isinstance(s, ast.Pass):
            return k(env)
        if isinstance(s, ast.Expr):
            v = s.value
            if isinstance(v, ast.Constant):
                return k(env)
            if isinstance(v, ast.Call):
                d = dotted(v.func)
                if d in ('warnings.warn', 'print'):
                    if any(isinstance(n, (ast.Call, ast.Subscript, ast.Attribute)) for a in v.args + [kw.value for kw in v.keywords]
                           for n in ast.walk(a)):
                        self.refuse(s, f'{d} with computed arguments')
                    under = (' [when ' + ' and '.join(self.cond_stack) + ']') if self.cond_stack else ''
                    self.dropped.append(ast.unparse(v) + under)
                    return k(env)
                if isinstance(v.func, ast.Attribute) and v.func.attr in MUTATORS:
                    if len(v.args) != 1 or v.keywords:
                        self.refuse(s, f'arguments of .{v.func.attr}')
                    m = v.func.attr
                    mk = self.add_mk(v.args[0], env, s) if m == 'add' else self.concat_mk(v.args[0], env, s, single=(m == 'append'))
                    env2 = self.in_place(v.func.value, mk, env, s)
                    return self.with_pre(self.take_pre(), k(env2))
                if isinstance(v.func, ast.Attribute) and v.func.attr == 'setdefault' and isinstance(v.func.value, ast.Name):
                    env2, _ = self.setdefault_stmt(v, env, s)
                    return self.with_pre(self.take_pre(), k(env2))
            self.refuse(s, 'expression statement ' + ast.unparse(s)[:50])
        if isinstance(s, ast.Return):
            if loop is not None:
                self.refuse(s, 'return inside a loop')
            if s.value is None:
                self.refuse(s, 'bare return')
            c, t = self.value(s.value, env)
            if isinstance(s.value, ast.Name) and s.value.id in [p[0] for p in self.params] and is_mutable(t):
                self.refuse(s, 'returns its own (mutable) argument')
            self.ret_nodes.append((s, res(t)))
            return self.with_pre(self.take_pre(), ('pure', c, 'ret', len(self.ret_nodes) - 1))
        if isinstance(s, ast.Raise):
            exc = s.exc
            name = dotted(exc.func) if isinstance(exc, ast.Call) else dotted(exc) if exc is not None else None
            if name not in EXC_MAP:
                self.refuse(s, f'raise of {name}')
            return ('raise', EXC_MAP[name])
        if isinstance(s, ast.Continue):
            if loop is None:
                self.refuse(s, 'continue outside a loop')
            return loop(env)
        if isinstance(s, ast.AugAssign):
            if not isinstance(s.op, ast.Add):
                self.refuse(s, 'augmented assignment other than +=')
            env2 = self.in_place(s.target, self.concat_mk(s.value, env, s), env, s)
            return self.with_pre(self.take_pre(), k(env2))
        if isinstance(s, ast.Assign):
            if len(s.targets) != 1:
                self.refuse(s, 'multiple assignment targets')
            env2 = self.assign(s, s.targets[0], s.value, env)
            return self.with_pre(self.take_pre(), k(env2))
        if isinstance(s, ast.If):
            return self.if_stmt(s, env, k, later, loop)
        if isinstance(s, ast.For):
            return self.for_stmt(s, env, k, later, loop)
        self.refuse(s, 'statement ' + type(s).__name__)

    def assign(self, s, target, value, env):
        if isinstance(target, ast.Name):
            if isinstance(value, ast.Call) and isinstance(value.func, ast.Attribute) and value.func.attr == 'setdefault':
                self.refuse(s, f'{target.id} = ....setdefault(...): a reference into the dictionary (aliasing is outside the subset)')
            c, t = self.value(value, env)
            t = res(t)
            if head(t) == 'Kw':
                env2 = dict(env)
                env2[target.id] = (None, t)
                return env2
            if is_mutable(t) and isinstance(value, (ast.Name, ast.Subscript)):
                self.note_ref(value, env)
                self.alias_names.add(target.id)
            return self.bind_name(target.id, c, t, env)
        if isinstance(target, (ast.Tuple, ast.List)):
            c, t = self.value(value, env)
            t = res(t)
            if head(t) != 'Tuple' or len(t[1]) != len(target.elts) or not all(isinstance(e, ast.Name) for e in target.elts):
                self.refuse(s, f'unpacking {t} into {len(target.elts)} names')
            if not c.isidentifier():
                self.tmp += 1
                tn = self.fresh(f't{self.tmp}')
                self.pre.append(('let', tn, c))
                c = tn
            env2 = env
            for i, e in enumerate(target.elts):
                env2 = self.bind_name(e.id, proj(c, i, len(t[1])), res(t[1][i]), env2)
            return env2
        if isinstance(target, ast.Subscript) and isinstance(target.value, ast.Name):
            d = target.value.id
            if d not in env or head(env[d][1]) != 'Dict':
                self.refuse(s, f'assignment to an entry of {d}')
            cv, tv = self.value(value, env)          # Python evaluates the right-hand side first
            dc, dt = env[d]
            dt = res(dt)
            ck, tk = self.value(target.slice, env, want=res(dt[1]) if isinstance(res(dt[1]), str) else None)
            if not unify(tk, dt[1]):
                self.refuse(s, f'key {res(tk)} for a dict with keys {res(dt[1])}')
            vt = join(dt[2], tv)
            if vt is None:
                self.refuse(s, f'entry of type {res(tv)} in a dict of {res(dt[2])}')
            if is_mutable(tv):
                self.note_ref(value, env)
            self.mut_dict.add(d)
            return self.bind_name(d, f'Dict.setItem {par(dc)} {par(ck)} {par(cv)}', ('Dict', res(dt[1]), vt), env)
        self.refuse(s, 'assignment target ' + ast.unparse(target)[:40])

    def if_stmt(self, s, env, k, later, loop):
        hole = lambda e: ('hole', e)
        cond = self.bool_of(s.test, env)
        pre = self.take_pre()
        txt = ast.unparse(s.test)
        self.cond_stack.append(txt)
        ir_a = self.block(s.body, env, hole, later, loop)
        self.cond_stack[-1] = f'not ({txt})'
        ir_b = self.block(s.orelse, env, hole, later, loop)
        self.cond_stack.pop()
        ha, hb = holes(ir_a), holes(ir_b)
        exits = any(n[0] == 'pure' and n[2] in ('ret', 'cont') for ir in (ir_a, ir_b) for n in ir_nodes(ir))
        if not ha or not hb or exits:
            return self.with_pre(pre, ('ite', cond, fill(ir_a, k), fill(ir_b, k)))
        henvs = ha + hb
        changed = []
        for h in henvs:
            for py in h:
                if py not in changed and h[py] != env.get(py):
                    changed.append(py)
        changed = [py for py in self.bind_order if py in changed] + [py for py in changed if py not in self.bind_order]
        env2 = dict(env)
        joined = []
        for py in changed:
            ents = [h.get(py) for h in henvs]
            if any(e is None or e[0] is None for e in ents):
                env2.pop(py, None)           # possibly unbound afterwards: any later use is refused
                continue
            if py not in later and py not in env:
                env2.pop(py, None)           # local to a branch and never read afterwards
                continue
            t = ents[0][1]
            for e in ents[1:]:
                t = join(t, e[1])
                if t is None:
                    self.refuse(s, f'{py} has incompatible types in the branches')
            joined.append((py, t))
        if not joined:
            if ir_a[0] == 'hole' and ir_b[0] == 'hole':
                return self.with_pre(pre, k(env2))
            fa = fill(ir_a, lambda e: ('pure', '()', 'join'))
            fb = fill(ir_b, lambda e: ('pure', '()', 'join'))
            return self.with_pre(pre, ('bind', self.fresh('_u'), self.ite_block(cond, fa, fb), k(env2)))
        mkp = lambda e: ('pure', tuple_code([e[py][0] for py, _ in joined]), 'join')
        # `x = a if c else b` shape: one variable, one plain expression per branch
        if len(joined) == 1:
            simple = []
            for ir in (ir_a, ir_b):
                if ir[0] == 'hole':
                    simple.append(ir[1][joined[0][0]][0])
                elif ir[0] == 'let' and ir[3][0] == 'hole' and '\n' not in ir[2] and ir[3][1][joined[0][0]][0] == ir[1]:
                    simple.append(ir[2])
                else:
                    simple = None
                    break
            if simple:
                py, t = joined[0]
                nm = self.fresh(py)
                env2[py] = (nm, t)
                return self.with_pre(pre, ('let', nm, f'if {cond} then {simple[0]} else {simple[1]}', k(env2)))
        code = self.ite_block(cond, fill(ir_a, mkp), fill(ir_b, mkp))
        if len(joined) == 1:
            py, t = joined[0]
            nm = self.fresh(py)
            env2[py] = (nm, t)
            return self.with_pre(pre, ('bind', nm, code, k(env2)))
        self.tmp += 1
        j = self.fresh(f'j{self.tmp}')
        lets = []
        for i, (py, t) in enumerate(joined):
            nm = self.fresh(py)
            env2[py] = (nm, t)
            lets.append((nm, proj(j, i, len(joined))))
        ir = k(env2)
        for nm, c in reversed(lets):
            ir = ('let', nm, c, ir)
        return self.with_pre(pre, ('bind', j, code, ir))

    def ite_block(self, cond, ir_a, ir_b):
        la = self.emit_ir(ir_a, '    ')
        lb = self.emit_ir(ir_b, '    ')
        if len(lb) == 1:
            lines = [f'(if {cond} then do'] + la + ['  else ' + lb[0].strip() + ')']
        else:
            lines = [f'(if {cond} then do'] + la + ['  else do'] + lb[:-1] + [lb[-1] + ')']
        return '\n'.join(lines)

    def for_stmt(self, s, env, k, later, loop):
        if s.orelse:
            self.refuse(s, 'for ... else')
        ic, et = self.iterable(s.iter, env)
        pre = self.take_pre()
        targets = target_names(s.target)
        self.check_dict_iteration(s, env)
        ue, _ = upward_exposed(s.body, set(targets))
        cand = stores(s.body) | mutated(s.body) | set(targets)
        later_body = later | all_loads(s.body)
        carried = [v for v in self.bind_order if v in cand and v in env and env[v][0] is not None and (v in ue or v in later)]
        if any(t in carried for t in targets):
            self.refuse(s, 'the loop variable is used after the loop')
        if is_mutable(et) or (head(et) == 'Tuple' and any(is_mutable(x) for x in res(et)[1])):
            self.alias_names.update(targets)
            self.note_ref(s.iter, env)
        for t in targets:
            if t not in self.bind_order:
                self.bind_order.append(t)
        head_types = [res(env[v][1]) for v in carried]
        n = len(carried)
        for _attempt in range(4):
            acc = self.fresh('acc')
            it = self.fresh(s.target.id if isinstance(s.target, ast.Name) else 'it')
            env_b = dict(env)
            lets = []
            for i, v in enumerate(carried):
                nm = self.fresh(v)
                env_b[v] = (nm, head_types[i])
                lets.append((nm, proj(acc, i, n)))
            if isinstance(s.target, ast.Name):
                env_b[s.target.id] = (it, et)
            else:
                tmp_env = self.bind_target(s.target, it, et, {}, s)
                for py, (c, t) in tmp_env.items():
                    nm = self.fresh(py)
                    lets.append((nm, c))
                    env_b[py] = (nm, t)
            exits = []

            def k_end(e):
                for v in carried:
                    if v not in e or e[v][0] is None:
                        self.refuse(s, f'{v} may be unbound at the end of the loop body')
                exits.append([res(e[v][1]) for v in carried])
                return ('pure', tuple_code([e[v][0] for v in carried]) if carried else '()', 'cont')
            body_ir = self.block(s.body, env_b, k_end, later_body, k_end)
            new_types = list(head_types)
            for xt in exits:
                for i in range(n):
                    j = join(new_types[i], xt[i])
                    if j is None:
                        self.refuse(s, f'{carried[i]} changes its type in the loop: {res(new_types[i])} / {res(xt[i])}')
                    new_types[i] = j
            if [res(t) for t in new_types] == [res(t) for t in head_types]:
                break
            head_types = [res(t) for t in new_types]
        else:
            self.refuse(s, 'the types of the loop-carried variables do not settle')
        acc_ty = 'Unit' if n == 0 else head_types[0] if n == 1 else ('Tuple', tuple(head_types))
        lines = [f'List.foldlM (fun ({acc} : {lty(acc_ty)}) ({it} : {lty(et)}) => do']
        for nm, c in lets:
            lines.append(f'    let {nm} := {c}')
        lines += self.emit_ir(body_ir, '    ')
        init = tuple_code([env[v][0] for v in carried]) if carried else '()'
        lines[-1] += f') {par(init)} {par(ic)}'
        env2 = dict(env)
        for v in cand:
            if v not in carried:
                env2.pop(v, None)
        if n == 0:
            return self.with_pre(pre, ('bind', self.fresh('_u'), '\n'.join(lines), k(env2)))
        if n == 1:
            nm = self.fresh(carried[0])
            env2[carried[0]] = (nm, head_types[0])
            return self.with_pre(pre, ('bind', nm, '\n'.join(lines), k(env2)))
        self.tmp += 1
        r = self.fresh(f'r{self.tmp}')
        outl = []
        for i, v in enumerate(carried):
            nm = self.fresh(v)
            env2[v] = (nm, head_types[i])
            outl.append((nm, proj(r, i, n)))
        ir = k(env2)
        for nm, c in reversed(outl):
            ir = ('let', nm, c, ir)
        return self.with_pre(pre, ('bind', r, '\n'.join(lines), ir))

    def check_dict_iteration(self, s, env):
        """iterating a dictionary while its body assigns to it: Python raises RuntimeError when the size changes; only
        `d[k] = ...` with `k` the key the loop is at (an existing key) is translated"""
        it = s.iter
        how = 'keys'
        if isinstance(it, ast.Call) and isinstance(it.func, ast.Attribute) and it.func.attr in ('keys', 'items', 'values') and not it.args:
            how, it = it.func.attr, it.func.value
        if not (isinstance(it, ast.Name) and it.id in env and head(env[it.id][1]) == 'Dict'):
            return
        d = it.id
        if d not in mutated(s.body) and d not in stores(s.body):
            return
        if how == 'values':
            self.refuse(s, f'{d} is changed while its values are iterated')
        tgt = s.target if how == 'keys' else (s.target.elts[0] if isinstance(s.target, ast.Tuple) and s.target.elts else None)
        if not isinstance(tgt, ast.Name):
            self.refuse(s, f'{d} is changed while it is iterated')
        if d in stores(s.body) or tgt.id in stores(s.body):
            self.refuse(s, f'{d} (or the loop variable) is rebound while {d} is iterated')
        for n in ast.walk(ast.Module(body=list(s.body), type_ignores=[])):
            if isinstance(n, ast.Call) and isinstance(n.func, ast.Attribute) and n.func.attr == 'setdefault' and path_root(n.func.value) == d:
                self.refuse(s, f'{d}.setdefault while {d} is iterated (the size may change: RuntimeError in Python)')
            if isinstance(n, (ast.Assign, ast.AugAssign)):
                for t in (n.targets if isinstance(n, ast.Assign) else [n.target]):
                    if isinstance(t, ast.Subscript) and isinstance(t.value, ast.Name) and t.value.id == d and \
                            not (isinstance(t.slice, ast.Name) and t.slice.id == tgt.id):
                        self.refuse(s, f'{d}[...] = ... with another key than the one the loop is at, while {d} is iterated')

    # -- emission ------------------------------------------------------------------------------
    def emit_ir(self, ir, ind, monadic=True):
        kind = ir[0]
        if kind == 'let':
            return code_lines(f'let {ir[1]} := ', ir[2], ind) + self.emit_ir(ir[3], ind, monadic)
        if kind == 'bind':
            return code_lines(f'let {ir[1]} ← ', ir[2], ind) + self.emit_ir(ir[3], ind, monadic)
        if kind == 'comment':
            return [ind + '-- ' + ir[1]] + self.emit_ir(ir[2], ind, monadic)
        if kind == 'ite':
            return [ind + f'if {ir[1]} then'] + self.emit_ir(ir[2], ind + '  ', monadic) + [ind + 'else'] + self.emit_ir(ir[3], ind + '  ', monadic)
        if kind == 'pure':
            code = ir[1]
            if ir[2] == 'ret':
                code = f'⟦ret:{ir[3]}⟧{code}⟦/ret⟧'
                return [ind + ('pure ' + code if monadic else code)]
            return [ind + ('pure ' + par(code) if monadic else code)]
        if kind == 'raise':
            return [ind + f'throw {ir[1]}']
        raise ValueError(kind)


def holes(ir):
    return [n[1] for n in ir_nodes(ir) if n[0] == 'hole']


def ir_nodes(ir):
    yield ir
    kind = ir[0]
    if kind in ('let', 'bind'):
        yield from ir_nodes(ir[3])
    elif kind == 'comment':
        yield from ir_nodes(ir[2])
    elif kind == 'ite':
        yield from ir_nodes(ir[2])
        yield from ir_nodes(ir[3])


def fill(ir, k):
    kind = ir[0]
    if kind == 'hole':
        return k(ir[1])
    if kind in ('let', 'bind'):
        return ir[:3] + (fill(ir[3], k),)
    if kind == 'comment':
        return ir[:2] + (fill(ir[2], k),)
    if kind == 'ite':
        return ('ite', ir[1], fill(ir[2], k), fill(ir[3], k))
    return ir


# ---------------------------------------------------------------------------------------------
# one definition
# ---------------------------------------------------------------------------------------------

def strip_doc(body):
    if body and isinstance(body[0], ast.Expr) and isinstance(body[0].value, ast.Constant) and isinstance(body[0].value.value, str):
        return body[1:]
    return body


def literal_default(node):
    """(lean code, type) of a default value"""
    if isinstance(node, ast.Constant):
        v = node.value
        if isinstance(v, bool):
            return ('true' if v else 'false'), 'Bool'
        if isinstance(v, float):
            return lean_rat(v), 'Rat'
        if isinstance(v, str):
            return lean_str(v), 'Str'
    return None


def translate_function(where, fnode, leanname, registry, consts, coltypes, declared, fixed=None, doc=''):
    """-> (lean text, signature)"""
    fixed = fixed or {}
    K = FnTr(where, registry, consts, coltypes, fixed)
    a = fnode.args
    if a.vararg or a.kwonlyargs or a.posonlyargs:
        raise Refuse(where, 'parameter list outside the subset')
    names = [x.arg for x in a.args]
    if not names or names[0] != 'self':
        raise Refuse(where, 'not a method')
    off = len(names) - len(a.defaults)
    env = {'self': ('self', 'Table')}
    K.used.add('self')
    params = []
    for i, nm in enumerate(names[1:], 1):
        dflt = literal_default(a.defaults[i - off]) if i >= off else None
        if nm in fixed:
            if dflt is None or dflt[0] != lean_str(fixed[nm]):
                raise Refuse(where, f'the default of {nm} is not {fixed[nm]!r}')
            env[nm] = (dflt[0], 'Str')
            continue
        ty = declared.get(nm, dflt[1] if dflt else None)
        if ty is None:
            raise Refuse(where, f'no type for the parameter {nm}')
        if dflt is not None and dflt[1] != ty:
            raise Refuse(where, f'default of {nm} has type {dflt[1]}, {ty} declared')
        ln = K.fresh(nm)
        env[nm] = (ln, ty)
        K.bind_order.append(nm)
        params.append((nm, ty, dflt[0] if dflt else None))
    if a.kwarg is not None:
        if a.kwarg.arg not in fixed:
            raise Refuse(where, '**kwargs')
        env[a.kwarg.arg] = (None, ('Kw', ()))
    K.params = params
    body = strip_doc(list(fnode.body))
    if not body:
        raise Refuse(where, 'empty body')

    def end(e):
        raise Refuse(where, 'control can reach the end of the function without a return')
    ir = K.block(body, env, end, frozenset(), None)
    # aliasing discipline
    bad = (K.mut_names & K.alias_names) | (K.mut_dict & K.alias_names)
    if bad:
        raise Refuse(where, 'in-place update of ' + ', '.join(sorted(bad)) + ', whose object has another name (aliasing is outside the subset)')
    bad = K.mut_values & K.alias_values
    if bad:
        raise Refuse(where, 'in-place update of entries of ' + ', '.join(sorted(bad)) + ', which are also handed out by reference (aliasing is outside the subset)')
    for node, kind, t in K.deferred:
        if not (has_eq(t) if kind == 'eq' else orderable(t)):
            raise Refuse(where, f'line {getattr(node, "lineno", "?")}: {"equality" if kind == "eq" else "ordering"} on {res(t)}')
    # return type(s)
    rts = []
    for _, t in K.ret_nodes:
        for u in rts:
            if unify_probe(u, t):
                unify(u, t)
                break
        else:
            rts.append(t)
    rts = [res(t) for t in rts]
    if not rts:
        raise Refuse(where, 'no return')
    if len(rts) > 2:
        raise Refuse(where, 'more than two return types')
    if len(rts) == 2:
        rts.sort(key=lty)
        ret_ty = ('Union', rts[0], rts[1])
    else:
        ret_ty = rts[0]
    K.monadic = any(n[0] in ('bind', 'raise') for n in ir_nodes(ir))
    lines = K.emit_ir(ir, '  ', K.monadic)
    text = '\n'.join(lines)

    def ret_wrap(m):
        t = res(K.ret_nodes[int(m.group(1))][1])
        if len(rts) == 1:
            return par(m.group(2)) if K.monadic else m.group(2)
        return '(' + ('Sum.inl ' if t == rts[0] else 'Sum.inr ') + par(m.group(2)) + ')'
    text = re.sub(r'⟦ret:(\d+)⟧(.*?)⟦/ret⟧', ret_wrap, text, flags=re.S)
    binders = [f'({nm} : {lty(("List", t))} → {lty(("List", t))})' for nm, t in K.set_orders]
    binders.append('(self : List Py.Atom)')
    for nm, ty, _ in params:
        binders.append(f'({env[nm][0]} : {lty(ty)})')
    rty = lty(ret_ty)
    if K.monadic:
        rty = 'Except Py.Err ' + par(rty)
    head_lines = [f'def {leanname} ' + ' '.join(binders) + ' :', f'    {rty} :=' + (' do' if K.monadic else '')]
    text = '\n'.join(head_lines) + '\n' + text

    def tv_fill(m):
        t = res(TVARS[int(m.group(1))])
        if isinstance(t, TVar):
            raise Refuse(where, 'the element type of an empty container is never determined')
        return par(lty(t))
    for _ in range(4):
        if '⟦' not in text:
            break
        text = re.sub(r'⟦(\d+)⟧', tv_fill, text)
    # which return is taken, when a Boolean parameter alone decides it
    ret_switch = None
    if len(rts) == 2:
        for s in body:
            if isinstance(s, ast.If) and isinstance(s.test, ast.Name) and s.test.id in [p[0] for p in params] \
                    and s.test.id not in stores(body):
                inside = {id(n) for n in ast.walk(s) if isinstance(n, ast.Return)}
                if inside == {id(n) for n, _ in K.ret_nodes}:
                    ta = {lty(t) for n, t in K.ret_nodes if any(n is m for b in s.body for m in ast.walk(b))}
                    tb = {lty(t) for n, t in K.ret_nodes if any(n is m for b in s.orelse for m in ast.walk(b))}
                    if len(ta) == 1 and len(tb) == 1 and ta != tb:
                        by = {lty(t): t for t in rts}
                        ret_switch = (s.test.id, by[ta.pop()], by[tb.pop()])
    src = ['--   ' + l for st in body for l in ast.unparse(st).split('\n')]
    dl = [f'/-- {doc}']
    if K.set_orders:
        dl.append('    `' + ', '.join(nm for nm, _ in K.set_orders) + '`: the (unspecified) order in which Python iterates a `set`: a parameter.')
    seen = []
    for d in K.dropped:
        if d not in seen:
            seen.append(d)
    for d in seen:
        dl.append(f'    Effect dropped (no value depends on it): `{d}`.')
    if len(rts) == 2:
        dl.append(f'    Two return types: `Sum.inl` = `{lty(rts[0])}`, `Sum.inr` = `{lty(rts[1])}`' +
                  (f' (`{ret_switch[0]}` alone decides which).' if ret_switch else '.'))
    dl[-1] += ' -/'
    text = '\n'.join(dl + src) + '\n' + text + '\n'
    mutates = {p[0] for p in params if p[0] in (K.mut_names | K.mut_values | K.mut_dict)}
    sig = {'lean': leanname, 'params': params, 'ret': ret_ty, 'monadic': K.monadic, 'set_orders': list(K.set_orders),
           'mutates': mutates, 'ret_switch': ret_switch}
    return text, sig, K


# ---------------------------------------------------------------------------------------------
# the units
# ---------------------------------------------------------------------------------------------

HEADER = ['/- GENERATED by /verif/py/translate_ext_contacts.py from /repo/pdb2sql/interface.py (and pdb2sql_base.py) — do not edit.',
          '   Statement-by-statement translation of get_contact_atoms / _extend_contact_to_residue / get_contact_residues; the meaning of',
          '   each Python / NumPy operation is fixed in PdbVerif/Py/Dict.lean; `Proofs/GenContacts*.lean` prove each definition equal to the',
          '   hand model (Model/Contacts.lean) the theorems of Props/C05, C14 are stated about (re-exported in Props/C05K, C14K). -/',
          'import PdbVerif.Py.Dict', '', 'set_option linter.unusedVariables false', '', 'namespace GenC', 'open Py', '']

DECLARED = {'index1': ('List', 'Nat'), 'only_backbone_atoms': 'Bool'}


UNITS = ['contacts_attrs', 'contacts_get_chains', 'contacts_extend_to_residue', 'contacts_get_contact_atoms', 'contacts_get_contact_residues']


def generate():
    """never raises: whatever goes wrong becomes a refusal of every unit (their text is then the committed snapshot's)"""
    try:
        return _generate()
    except Exception as e:
        refused, out = [], list(HEADER)
        for u in UNITS:
            out.append(refused_unit(FNAME, u, refused, f'translator plug-in failed ({type(e).__name__}: {e})'))
        out.append('end GenC')
        return {FNAME: '\n'.join(out) + '\n'}, refused


def _generate():
    TVar.n = 0
    TVARS.clear()
    refused, out, registry, mods = [], list(HEADER), {}, {}
    consts, coltypes = {}, {}

    def module(fname):
        if fname not in mods:
            try:
                mods[fname] = parse_module(fname)
            except (SyntaxError, OSError) as e:
                mods[fname] = Refuse(fname, f'cannot be parsed: {type(e).__name__}')
        if isinstance(mods[fname], Refuse):
            raise mods[fname]
        return mods[fname]

    def guarded(name, build, on_fail=None):
        try:
            out.append(unit(name, build()))
        except Refuse as r:
            out.append(refused_unit(FNAME, name, refused, str(r)))
            if on_fail:
                on_fail()
        except Exception as e:   # AST shapes the front end did not anticipate: a refusal, never a crash or a silent skip
            out.append(refused_unit(FNAME, name, refused, f'{name}: outside the subset ({type(e).__name__}: {e})'))
            if on_fail:
                on_fail()

    # the columns of the ATOM table and the constant self.backbone_atoms, from pdb2sql_base.__init__
    def attrs():
        init = find_func(module('pdb2sql_base.py'), 'pdb2sql_base.__init__')
        col = ast.literal_eval(self_assign(init, 'col'))
        for c, k in col.items():
            if k not in SQL_KIND:
                raise Refuse('pdb2sql_base.col', f'column type {k!r}')
            coltypes[c] = SQL_KIND[k]
        bb = ast.literal_eval(self_assign(init, 'backbone_atoms'))
        if not (isinstance(bb, list) and all(isinstance(x, str) for x in bb)):
            raise Refuse('self.backbone_atoms', 'not a list of string literals')
        consts['backbone_atoms'] = ('backbone_atoms', ('List', 'Str'))
        return ('/-- `self.backbone_atoms` (pdb2sql_base.__init__) -/\n'
                'def backbone_atoms : List Py.Str :=\n  [' + ', '.join(lean_str(x) for x in bb) + ']\n\n'
                '/-- the column types the translation relies on (`pdb2sql_base.col`), in dictionary order -/\n'
                'def col_types : List (String × String) :=\n  [' + ', '.join(f'("{c}", "{k}")' for c, k in col.items()) + ']\n')

    def attrs_fail():
        # committed column types (the Atom structure of Py/Atom.lean); the constant comes from the snapshot
        coltypes.update({'serial': 'Int', 'name': 'Str', 'altLoc': 'Str', 'resName': 'Str', 'chainID': 'Str', 'resSeq': 'Int',
                         'iCode': 'Str', 'x': 'Rat', 'y': 'Rat', 'z': 'Rat', 'occ': 'Rat', 'temp': 'Rat', 'element': 'Str', 'model': 'Int'})
        consts['backbone_atoms'] = ('backbone_atoms', ('List', 'Str'))
    guarded('contacts_attrs', attrs, attrs_fail)

    def method(name, fname, qual, fixed=None):
        py = qual.split('.')[-1]

        def build():
            fnode = find_func(module(fname), qual)
            text, sig, _ = translate_function(qual, fnode, py, registry, consts, coltypes, DECLARED, fixed=fixed,
                                              doc=f'`{fname[:-3]}.{qual}`')
            registry[py] = sig
            return text

        def fail():
            registry[py] = None
        guarded(name, build, fail)

    method('contacts_get_chains', 'pdb2sql_base.py', 'pdb2sql_base.get_chains', fixed={'tablename': 'atom', 'kwargs': None})
    method('contacts_extend_to_residue', 'interface.py', 'interface._extend_contact_to_residue')
    method('contacts_get_contact_atoms', 'interface.py', 'interface.get_contact_atoms')
    method('contacts_get_contact_residues', 'interface.py', 'interface.get_contact_residues')

    out.append('end GenC')
    return {FNAME: '\n'.join(out) + '\n'}, refused


if __name__ == '__main__':
    files, refused = generate()
    sys.stdout.write(files[FNAME])
    for u, why in refused:
        sys.stderr.write(f'REFUSED {u}: {why}\n')
