"""
translate_ext_sup.py -- translator plug-in: REAL translation (from the AST of the current source) of the remaining functions of
superpose.py into Gen/Sup.lean (namespace GenSup):

    get_rotation_matrix_quaternion   the whole function: guards, key matrix, `np.linalg.eigh` (a PARAMETER), argmax, column, rotation
    get_rotation_matrix              the `method.lower()` dispatch (the two kernels are PARAMETERS; unknown method -> ValueError)
    get_intersection                 `sql2pdb` of both, `many2sql(...)`, `manydb(**kwargs).get_intersection('x,y,z')` (the three
                                     many2sql operations are PARAMETERS), the two arrays
    superpose                        the whole body: wrap-unless-pdb2sql (`pdb2sql(...)` is a PARAMETER), the only_backbone / name
                                     ValueError, the selections through `get`, the identity comparison and the `get_intersection`
                                     call, `superpose_selection` (GenK), `update('x,y,z', ...)`, the export name and the export as
                                     a RETURNED effect (second component of the result)

Two front ends.
 * numeric (`get_rotation_matrix*`): the typed matrix language of translate_ext_kernels.py (a private copy of that module is
   imported and its `Kernel` class extended here with Mat4 / Vec4, `np.zeros((k, k))` + element assignment, `np.linalg.eigh`,
   `np.argmax`, the column `U[:, k]`, `method.lower()`).
 * database level (`superpose`, `get_intersection`): a typed subset of Python, types
       Bool | Str | Rat | Int | Nat | List T | Tuple (T, ..) | Opt T | Db | Src (what `pdb2sql(.)` is called on) |
       Union Src Db (a parameter that is "str or pdb2sql") | Kwargs (the `**kwargs` dictionary) | Points (n x 3 array) |
       Method (opaque, passed on) | Many (a many2sql object, opaque)
   Statements: assignment (SSA renaming; `x = a if c else b` as the `if` statement it abbreviates), tuple unpacking, `kwargs[key] = list`, `if / else` (the variables changed in the
   branches are JOINED: `let j <- (if c then do .. pure (a, b) else do .. pure (a, b))`; a branch ending in `raise` / `return`
   takes no part), `if [not] isinstance(x, pdb2sql)` on a Union parameter (a `match` that refines the type of `x`),
   `db.update('x,y,z', xyz)` (rebinds `db`; every other name of the same object becomes unusable), `db.exportpdb(name)` (appends
   to the hidden list of files written, returned with the result), `warnings.warn / print` (dropped, recorded), `raise`, `return`.
   Expressions: names, string / list-of-string literals, `key [not] in kwargs`, `==` / `!=`, `not`, `+` on strings, `np.array` of
   get-rows, `db.get(columns[, **kwargs])` (-> `Tbl.select`, through `Rt.get` when keywords are passed), `db.pdbfile`,
   `os.path.basename`, `.rstrip(chars)`, `db.sql2pdb()`, `l[k]`, tuples, calls of `pdb2sql`, `many2sql`, `obj(**kwargs)`,
   `.get_intersection(cols)`, `superpose_selection` (GenK) and of translated units of this file.
What each operation means is fixed in lean/PdbVerif/Py/*.lean and in the fixed-text unit `sup_runtime` at the head of the
generated file.  Anything else raises Refuse for that unit only: it is reported and the unit's previous text is spliced from
lean/gen_snapshot/Sup.lean; a unit that calls a refused unit is refused as well.  Output is a pure function of the source text.
Standard library only.
"""
import ast, os, sys, importlib.util

_HERE = os.path.dirname(os.path.abspath(__file__))
if not os.path.exists(os.path.join(_HERE, 'translate.py')):      # run from a scratch directory during development
    _HERE = '/verif/py'
if _HERE not in sys.path:
    sys.path.insert(0, _HERE)
from translate import parse_module, find_func, Refuse, unit, refused_unit, lean_str  # noqa: E402

FNAME = 'Sup.lean'


def _load_kernels():
    """a PRIVATE copy of the kernel translator (so that the extensions below do not touch the instance translate.py runs)"""
    path = os.path.join(_HERE, 'translate_ext_kernels.py')
    if os.path.exists(path):
        spec = importlib.util.spec_from_file_location('_sup_private_kernels', path)
        mod = importlib.util.module_from_spec(spec)
        spec.loader.exec_module(mod)
        return mod
    raise Refuse('translate_ext_sup', 'translate_ext_kernels.py not found')


# =============================================================================================
# numeric front end: the kernel language, extended
# =============================================================================================

MAT4_FIELDS = [f'm{i}{j}' for i in range(4) for j in range(4)]
VEC4_FIELDS = 'wxyz'


def make_kernel_class(TK):
    TK.SIMPLE_TY.update({'Mat4': 'Mat4 α', 'Vec4': 'Vec4 α'})
    TK.NP_EXT['np.linalg.eigh'] = ('eigh', ['Mat4'], ('Tuple', ['Vec4', 'Mat4']))
    if 'eigh' not in TK.EXT_ORDER:
        TK.EXT_ORDER.append('eigh')
    TK.LEAN_RESERVED.add('eigh')

    class SupKernel(TK.Kernel):
        def zeros_shape(self, node):
            if len(node.args) == 1 and not node.keywords and isinstance(node.args[0], ast.Tuple):
                dims = [self.int_value(e) for e in node.args[0].elts]
                if dims == [3, 3] or dims == [4, 4]:
                    return dims[0]
            self.refuse(node, 'np.zeros other than np.zeros((3, 3)) / np.zeros((4, 4))')

        def call(self, node, env):
            d = TK.dotted(node.func)
            if d == 'np.zeros':
                k = self.zeros_shape(node)
                if k == 3:
                    return '(Mat3.zero : Mat3 α)', 'Mat3'
                return '(Mat4.mk ' + ' '.join(['(0 : α)'] * 16) + ')', 'Mat4'
            if d == 'np.argmax':
                if len(node.args) != 1 or node.keywords:
                    self.refuse(node, 'arguments of np.argmax')
                c, t = self.ex(node.args[0], env)
                if t != 'Vec4':
                    self.refuse(node, f'np.argmax of {t}')
                self.ordered = True
                return f'(Rt.argmax4 {c})', 'Nat'
            if isinstance(node.func, ast.Attribute) and node.func.attr == 'lower' and not node.args and not node.keywords:
                c, t = self.ex(node.func.value, env)
                if t != 'Str':
                    self.refuse(node, f'.lower() of {t}')
                return f'(String.toLower {c})', 'Str'
            return super().call(node, env)

        def subscript(self, node, env):
            sl = node.slice
            if isinstance(sl, ast.Tuple) and len(sl.elts) == 2 and isinstance(sl.elts[0], ast.Slice):
                s0 = sl.elts[0]
                if s0.lower is None and s0.upper is None and s0.step is None:
                    c, t = self.ex(node.value, env)
                    kc, kt = self.ex(sl.elts[1], env)
                    if t == 'Mat4' and kt == 'Nat':
                        return f'(Rt.col4 {c} {kc})', 'Vec4'
                    if t == 'Mat4' and isinstance(kt, tuple) and kt[0] == 'IntLit' and 0 <= kt[1] < 4:
                        return f'(Rt.col4 {c} {kt[1]})', 'Vec4'
                    self.refuse(node, f'column {ast.unparse(sl.elts[1])} of {t}')
            c, t = self.ex(node.value, env)
            idx = [self.int_value(e) for e in (sl.elts if isinstance(sl, ast.Tuple) else [sl])]
            if t == 'Mat4' and len(idx) == 2 and all(i is not None and 0 <= i < 4 for i in idx):
                return f'{c}.{MAT4_FIELDS[4 * idx[0] + idx[1]]}', 'Scalar'
            if t == 'Vec4' and len(idx) == 1 and idx[0] is not None and 0 <= idx[0] < 4:
                return f'{c}.{VEC4_FIELDS[idx[0]]}', 'Scalar'
            return super().subscript(node, env)

        def assign(self, s, target, value, env, k):
            # element assignment on a 4x4 matrix
            if isinstance(target, ast.Subscript) and isinstance(target.value, ast.Name) and target.value.id in env \
                    and env[target.value.id][1] == 'Mat4':
                py = target.value.id
                mc, mt = env[py]
                sl = target.slice
                idx = [self.int_value(e) for e in (sl.elts if isinstance(sl, ast.Tuple) else [sl])]
                if not (len(idx) == 2 and all(i is not None and 0 <= i < 4 for i in idx)):
                    self.refuse(s, f'element assignment {ast.unparse(target)} on Mat4')
                if mc in self.shared or mc in self.param_lean:
                    self.refuse(s, f'in-place update of {py}, whose array has another name')
                c, t = self.ex(value, env)
                c = self.scalar(c, t, value)
                pre = self.take_pre()
                nm = self.fresh(py)
                env2 = dict(env); env2[py] = (nm, mt)
                return self.with_pre(pre, ('let', nm, f'{{ {mc} with {MAT4_FIELDS[4 * idx[0] + idx[1]]} := {c} }}', k(env2)))
            # unpacking of a 4-vector
            if isinstance(target, ast.Tuple) and len(target.elts) == 4 and not isinstance(value, ast.Tuple):
                names = []
                for e in target.elts:
                    if not isinstance(e, ast.Name):
                        self.refuse(s, 'nested unpacking target')
                    names.append(e.id)
                c, t = self.value(value, env)
                if t == 'Vec4':
                    pre = self.take_pre()
                    lets = []
                    if not c.isidentifier():
                        self.tmp += 1
                        tname = self.fresh(f't{self.tmp}')
                        lets.append((tname, c))
                        c = tname
                    env2 = dict(env)
                    for py, f in zip(names, VEC4_FIELDS):
                        nm = self.fresh(py)
                        env2[py] = (nm, 'Scalar')
                        lets.append((nm, f'{c}.{f}'))
                    ir = k(env2)
                    for nm, vc in reversed(lets):
                        ir = ('let', nm, vc, ir)
                    return self.with_pre(pre, ir)
                self.refuse(s, f'unpacking {t} into 4 names')
            return super().assign(s, target, value, env, k)

    TK.Kernel = SupKernel
    return SupKernel


# =============================================================================================
# database-level front end
# =============================================================================================

EXC_MAP = {'ValueError': 'Py.Err.valueError', 'TypeError': 'Py.Err.typeError', 'IndexError': 'Py.Err.indexError',
           'KeyError': 'Py.Err.keyError'}

LEAN_RESERVED = {'at', 'from', 'end', 'fun', 'let', 'do', 'then', 'else', 'if', 'in', 'have', 'show', 'by', 'match', 'with',
                 'open', 'section', 'namespace', 'variable', 'def', 'theorem', 'instance', 'class', 'structure', 'where',
                 'Type', 'Prop', 'Sort', 'import', 'export', 'mutual', 'deriving', 'macro', 'syntax', 'local', 'private',
                 'protected', 'universe', 'axiom', 'example', 'abbrev', 'opaque', 'attribute', 'for', 'unless', 'return',
                 'try', 'catch', 'finally', 'mut', 'nomatch', 'nofun', 'calc', 'using', 'extends', 'notation', 'prefix',
                 'infix', 'postfix', 'pure', 'throw', 'acc', 'it', 'true', 'false', 'some', 'none', 'id', 'set', 'index',
                 'pdb2sql', 'many2sql', 'many2sql_call', 'many2sql_get_intersection', 'get_rotation_matrix', 'r_'}

ATOM_COLS = {'serial': 'Int', 'name': 'Str', 'altLoc': 'Str', 'resName': 'Str', 'chainID': 'Str', 'resSeq': 'Int',
             'iCode': 'Str', 'x': 'Rat', 'y': 'Rat', 'z': 'Rat', 'occ': 'Rat', 'temp': 'Rat', 'element': 'Str', 'model': 'Int'}

XYZ = ('Tuple', ('Rat', 'Rat', 'Rat'))
FILE_EFFECT = ('Tuple', ('Str', ('List', 'Str')))

# the world: python callee -> (lean parameter name, lean type); order of the binders = WORLD_ORDER
WORLD = {
    'pdb2sql': ('pdb2sql', 'σ → Except Py.Err Rt.Db'),
    'many2sql': ('many2sql', 'List (List Py.Str) → Except Py.Err ω'),
    'many2sql_call': ('many2sql_call', 'ω → Rt.Kwargs → Except Py.Err ω'),
    'many2sql_get_intersection': ('many2sql_get_intersection', 'ω → String → Except Py.Err (List (List (Rat × Rat × Rat)))'),
    'get_rotation_matrix': ('get_rotation_matrix', 'List (Vec3 Rat) → List (Vec3 Rat) → μ → Except Py.Err (Mat3 Rat)'),
}
WORLD_ORDER = ['pdb2sql', 'many2sql', 'many2sql_call', 'many2sql_get_intersection', 'get_rotation_matrix']
WORLD_TYVARS = {'pdb2sql': ['σ'], 'many2sql': ['ω'], 'many2sql_call': ['ω'], 'many2sql_get_intersection': ['ω'],
                'get_rotation_matrix': ['μ']}


def lty(t):
    if isinstance(t, str):
        return {'Bool': 'Bool', 'Str': 'Py.Str', 'Rat': 'Rat', 'Int': 'Int', 'Nat': 'Nat', 'Db': 'Rt.Db', 'Src': 'σ',
                'Kwargs': 'Rt.Kwargs', 'Points': 'List (Vec3 Rat)', 'Method': 'μ', 'Many': 'ω', 'Unit': 'Unit'}[t]
    if t[0] == 'List':
        return 'List ' + par(lty(t[1]))
    if t[0] == 'Opt':
        return 'Option ' + par(lty(t[1]))
    if t[0] == 'Tuple':
        return '(' + ' × '.join(par(lty(x)) if not (isinstance(x, tuple) and x[0] == 'Tuple') else lty(x) for x in t[1]) + ')'
    if t[0] == 'Union':
        return 'Sum ' + par(lty(t[1])) + ' ' + par(lty(t[2]))
    raise ValueError(t)


def par(s):
    return s if (' ' not in s or (s.startswith('(') and s.endswith(')'))) else '(' + s + ')'


def proj(code, k, n):
    if n == 1:
        return code
    s = code + '.2' * k
    return s + '.1' if k < n - 1 else s


def tyvars_of(t, out):
    if isinstance(t, str):
        v = {'Src': 'σ', 'Method': 'μ', 'Many': 'ω'}.get(t)
        if v and v not in out:
            out.append(v)
    elif t[0] in ('List', 'Opt'):
        tyvars_of(t[1], out)
    elif t[0] == 'Tuple':
        for x in t[1]:
            tyvars_of(x, out)
    elif t[0] == 'Union':
        tyvars_of(t[1], out); tyvars_of(t[2], out)


def has_eq(t):
    if isinstance(t, str):
        return t in ('Bool', 'Str', 'Rat', 'Int', 'Nat')
    if t[0] in ('List', 'Opt'):
        return has_eq(t[1])
    if t[0] == 'Tuple':
        return all(has_eq(x) for x in t[1])
    return False


def dotted(node):
    if isinstance(node, ast.Name):
        return node.id
    if isinstance(node, ast.Attribute):
        b = dotted(node.value)
        return None if b is None else b + '.' + node.attr
    return None


class V:
    """a translated expression: Lean code, type, and (for string literals / variables bound to one) the constant"""
    def __init__(self, code, ty, const=None):
        self.code, self.ty, self.const = code, ty, const


FILES = '$files'


class DbTr:
    def __init__(self, where, registry):
        self.where = where
        self.registry = registry      # python name -> signature of a translated unit of this file (None: refused)
        self.used = set()
        self.world = []               # world parameters used, python names
        self.pre = []                 # hoisted raising sub-expressions of the current statement: (name, code)
        self.tmp = 0
        self.dropped = []
        self.effects = False
        self.origin = {}              # lean name of a Db / Union value -> the objects it may denote (a frozenset of ids)
        self.calls_refused = None

    def refuse(self, node, why):
        raise Refuse(self.where, f'line {getattr(node, "lineno", "?")}: {why}')

    def fresh(self, base):
        b = base + '_' if base in LEAN_RESERVED else base
        if not b.isidentifier():
            b = 'v'
        name, k = b, 0
        while name in self.used:
            k += 1
            name = f'{b}_{k}'
        self.used.add(name)
        return name

    def need(self, w):
        if w not in self.world:
            self.world.append(w)
        return WORLD[w][0]

    def hoist(self, code):
        self.tmp += 1
        t = self.fresh(f't{self.tmp}')
        self.pre.append((t, code))
        return t

    # ---- expressions ------------------------------------------------------------------------------------------
    def const_str(self, node, env, what):
        v = self.ex(node, env)
        if v.ty != 'Str' or v.const is None:
            self.refuse(node, f'{what} is not a string constant')
        return v.const

    def columns(self, node, env):
        """projection of a row on the column string: (lean function body on the row `r_`, element type)"""
        cols = [c.strip() for c in self.const_str(node, env, 'the column string').split(',')]
        codes, tys = [], []
        for c in cols:
            if c == 'rowID':
                codes.append('r_.2'); tys.append('Nat')
            elif c in ATOM_COLS:
                codes.append(f'r_.1.{c}'); tys.append(ATOM_COLS[c])
            else:
                self.refuse(node, f'column {c!r}')
        if len(cols) == 1:
            return codes[0], tys[0]
        return '(' + ', '.join(codes) + ')', ('Tuple', tuple(tys))

    def kwargs_splat(self, node, env):
        """the keywords of a call must be exactly `**kwargs` (or nothing): -> lean name of the dictionary, or None"""
        if not node.keywords:
            return None
        if len(node.keywords) == 1 and node.keywords[0].arg is None:
            v = self.ex(node.keywords[0].value, env)
            if v.ty == 'Kwargs':
                return v.code
        self.refuse(node, 'keyword arguments other than **kwargs')

    def ex(self, node, env):
        if isinstance(node, ast.Constant):
            v = node.value
            if isinstance(v, bool):
                return V('true' if v else 'false', 'Bool')
            if isinstance(v, str):
                return V(lean_str(v), 'Str', const=v)
            if isinstance(v, int):
                return V(str(v), 'Nat', const=v)
            self.refuse(node, f'constant {v!r}')
        if isinstance(node, ast.Name):
            if node.id not in env:
                self.refuse(node, f'variable {node.id} is not (definitely) assigned here, or names an object that was updated under another name')
            return env[node.id]
        if isinstance(node, ast.List):
            vs = [self.ex(e, env) for e in node.elts]
            if not vs:
                self.refuse(node, 'empty list literal')
            if any(v.ty != vs[0].ty for v in vs):
                self.refuse(node, 'list literal of mixed types')
            return V('[' + ', '.join(v.code for v in vs) + ']', ('List', vs[0].ty))
        if isinstance(node, ast.Tuple):
            vs = [self.ex(e, env) for e in node.elts]
            return V('(' + ', '.join(v.code for v in vs) + ')', ('Tuple', tuple(v.ty for v in vs)))
        if isinstance(node, ast.UnaryOp) and isinstance(node.op, ast.Not):
            v = self.ex(node.operand, env)
            if v.ty != 'Bool':
                self.refuse(node, f'not on {v.ty}')
            return V(f'(!{v.code})', 'Bool')
        if isinstance(node, ast.BoolOp):
            npre = len(self.pre)
            vs = [self.ex(x, env) for x in node.values]
            if len(self.pre) != npre:
                self.refuse(node, 'raising call under and/or')
            if any(v.ty != 'Bool' for v in vs):
                self.refuse(node, 'and/or of non-Booleans')
            return V('(' + (' && ' if isinstance(node.op, ast.And) else ' || ').join(v.code for v in vs) + ')', 'Bool')
        if isinstance(node, ast.BinOp) and isinstance(node.op, ast.Add):
            a, b = self.ex(node.left, env), self.ex(node.right, env)
            if a.ty == 'Str' and b.ty == 'Str':
                return V(f'({a.code} ++ {b.code})', 'Str')
            self.refuse(node, f'{a.ty} + {b.ty}')
        if isinstance(node, ast.Compare):
            if len(node.ops) != 1:
                self.refuse(node, 'chained comparison')
            op = node.ops[0]
            if isinstance(op, (ast.In, ast.NotIn)):
                d = self.ex(node.comparators[0], env)
                if d.ty != 'Kwargs':
                    self.refuse(node, f'membership in {d.ty}')
                key = self.const_str(node.left, env, 'the key')
                c = f'(Dict.contains {d.code} {lean_str(key)})'
                return V(c if isinstance(op, ast.In) else f'(!{c})', 'Bool')
            if isinstance(op, (ast.Eq, ast.NotEq)):
                a, b = self.ex(node.left, env), self.ex(node.comparators[0], env)
                if a.ty != b.ty or not has_eq(a.ty):
                    self.refuse(node, f'equality of {a.ty} and {b.ty}')
                return V(f'(decide ({a.code} {"=" if isinstance(op, ast.Eq) else "≠"} {b.code}))', 'Bool')
            self.refuse(node, 'comparison ' + type(op).__name__)
        if isinstance(node, ast.Attribute):
            v = self.ex(node.value, env)
            if v.ty == 'Db' and node.attr == 'pdbfile':
                return V(f'{v.code}.pdbfile', ('Opt', 'Str'))
            self.refuse(node, f'attribute .{node.attr} of {v.ty}')
        if isinstance(node, ast.Subscript):
            v = self.ex(node.value, env)
            i = node.slice
            if isinstance(v.ty, tuple) and v.ty[0] == 'List' and isinstance(i, ast.Constant) and isinstance(i.value, int) \
                    and not isinstance(i.value, bool) and i.value >= 0:
                return V(self.hoist(f'Py.Rt.getItem {v.code} {i.value}'), v.ty[1])
            if isinstance(v.ty, tuple) and v.ty[0] == 'Tuple' and isinstance(i, ast.Constant) and isinstance(i.value, int) \
                    and 0 <= i.value < len(v.ty[1]):
                return V(proj(v.code, i.value, len(v.ty[1])), v.ty[1][i.value])
            self.refuse(node, f'subscript of {v.ty}')
        if isinstance(node, ast.Call):
            return self.call(node, env)
        self.refuse(node, 'expression ' + type(node).__name__)

    def call(self, node, env):
        f = node.func
        d = dotted(f)
        # ---- methods ---------------------------------------------------------------------------------------
        if isinstance(f, ast.Attribute) and d not in ('np.array', 'os.path.basename', 'warnings.warn'):
            obj = self.ex(f.value, env)
            m = f.attr
            if obj.ty == 'Db' and m == 'get':
                if len(node.args) != 1:
                    self.refuse(node, 'arguments of get')
                body, ety = self.columns(node.args[0], env)
                kw = self.kwargs_splat(node, env)
                if kw is None:
                    return V(f'(Tbl.select {obj.code}.rows (fun _ => true) (fun r_ => {body}))', ('List', ety))
                return V(self.hoist(f'Rt.get {obj.code}.rows {kw} (fun r_ => {body})'), ('List', ety))
            if obj.ty == 'Db' and m == 'sql2pdb':
                if node.args or node.keywords:
                    self.refuse(node, 'arguments of sql2pdb')
                return V(self.hoist(f'Rt.sql2pdb {obj.code}'), ('List', 'Str'))
            if obj.ty == 'Str' and m == 'rstrip':
                if len(node.args) != 1 or node.keywords:
                    self.refuse(node, 'arguments of rstrip')
                chars = self.const_str(node.args[0], env, 'the argument of rstrip')
                return V(f'(Rt.rstripChars {obj.code} {lean_str(chars)})', 'Str')
            if obj.ty == 'Many' and m == 'get_intersection':
                if len(node.args) != 1 or node.keywords:
                    self.refuse(node, 'arguments of get_intersection')
                cols = self.const_str(node.args[0], env, 'the column string')
                if [c.strip() for c in cols.split(',')] != ['x', 'y', 'z']:
                    self.refuse(node, f'many2sql.get_intersection of columns {cols!r}')
                w = self.need('many2sql_get_intersection')
                return V(self.hoist(f'{w} {obj.code} "{cols}"'), ('List', ('List', XYZ)))
            self.refuse(node, f'method .{m} of {obj.ty}')
        # ---- functions -------------------------------------------------------------------------------------
        if d == 'np.array':
            if len(node.args) != 1 or node.keywords:
                self.refuse(node, 'arguments of np.array')
            v = self.ex(node.args[0], env)
            if v.ty == ('List', XYZ):
                return V(f'(Rt.npArrayXYZ {v.code})', 'Points')
            self.refuse(node, f'np.array of {v.ty}')
        if d == 'os.path.basename':
            if len(node.args) != 1 or node.keywords:
                self.refuse(node, 'arguments of os.path.basename')
            v = self.ex(node.args[0], env)
            if v.ty == ('Opt', 'Str'):
                return V(self.hoist(f'Rt.basename {v.code}'), 'Str')
            self.refuse(node, f'os.path.basename of {v.ty}')
        if isinstance(f, ast.Name) and f.id in env:
            obj = env[f.id]
            if obj.ty == 'Many':
                if node.args:
                    self.refuse(node, 'positional arguments of a many2sql call')
                kw = self.kwargs_splat(node, env)
                if kw is None:
                    self.refuse(node, 'many2sql call without **kwargs')
                w = self.need('many2sql_call')
                return V(self.hoist(f'{w} {obj.code} {kw}'), 'Many')
            self.refuse(node, f'call of the variable {f.id}')
        if d == 'pdb2sql':
            if len(node.args) != 1 or node.keywords:
                self.refuse(node, 'arguments of pdb2sql')
            v = self.ex(node.args[0], env)
            if v.ty != 'Src':
                self.refuse(node, f'pdb2sql of {v.ty}')
            return V(self.hoist(f'{self.need("pdb2sql")} {v.code}'), 'Db')
        if d == 'many2sql':
            if len(node.args) != 1 or node.keywords:
                self.refuse(node, 'arguments of many2sql')
            v = self.ex(node.args[0], env)
            if v.ty != ('List', ('List', 'Str')):
                self.refuse(node, f'many2sql of {v.ty}')
            return V(self.hoist(f'{self.need("many2sql")} {v.code}'), 'Many')
        if d == 'superpose_selection':
            if len(node.args) != 4 or node.keywords:
                self.refuse(node, 'arguments of superpose_selection')
            vs = [self.ex(a, env) for a in node.args]
            if [v.ty for v in vs] != ['Points', 'Points', 'Points', 'Method']:
                self.refuse(node, 'superpose_selection of ' + ', '.join(str(v.ty) for v in vs))
            w = self.need('get_rotation_matrix')
            return V(self.hoist(f'GenK.superpose_selection {w} ' + ' '.join(v.code for v in vs)), 'Points')
        if d in self.registry:
            sig = self.registry[d]
            if sig is None:
                self.calls_refused = d
                self.refuse(node, f'calls the refused unit {d}')
            vs = [self.ex(a, env) for a in node.args]
            kw = self.kwargs_splat(node, env)
            want = [t for _, t in sig['params']]
            got = [v.ty for v in vs] + (['Kwargs'] if kw is not None else [])
            if got != want:
                self.refuse(node, f'{d} called with {got}, expects {want}')
            if sig['effects']:
                self.refuse(node, f'{d} writes files')
            ws = [self.need(w) for w in sig['world']]
            code = ' '.join([sig['lean']] + ws + [v.code for v in vs] + ([kw] if kw is not None else []))
            return V(self.hoist(code), sig['ret'])
        self.refuse(node, f'call of {d} (outside the subset)')

    # ---- statements -------------------------------------------------------------------------------------------
    def take_pre(self, ind):
        lines = [f'{ind}let {t} ← {code}' for t, code in self.pre]
        self.pre = []
        return lines

    def bind(self, env, py, v):
        """a fresh Lean name for the Python variable `py` holding `v`"""
        nm = self.fresh(py.lstrip('$'))
        env2 = dict(env)
        env2[py] = V(nm, v.ty, v.const)
        if v.code in self.origin:
            self.origin[nm] = self.origin[v.code]
        elif v.ty in ('Db',) or (isinstance(v.ty, tuple) and v.ty[0] == 'Union'):
            self.origin[nm] = frozenset([nm])
        return nm, env2

    def block(self, stmts, env, ind):
        """-> (lines, env, terminated)"""
        lines = []
        for i, s in enumerate(stmts):
            ls, env, term = self.stmt(s, env, ind)
            lines += ls
            if term:
                if i + 1 < len(stmts):
                    self.refuse(stmts[i + 1], 'unreachable statement')
                return lines, env, True
        return lines, env, False

    def stmt(self, s, env, ind):
        self.pre = []
        if isinstance(s, ast.Expr):
            if isinstance(s.value, ast.Constant):
                return [], env, False
            if isinstance(s.value, ast.Call):
                d = dotted(s.value.func)
                if d in ('print', 'warnings.warn'):
                    self.dropped.append(ast.unparse(s)[:100])
                    return [f'{ind}-- dropped: {ast.unparse(s)[:100]}'.replace('\n', ' ')], env, False
                if isinstance(s.value.func, ast.Attribute) and isinstance(s.value.func.value, ast.Name):
                    return self.method_stmt(s, s.value, env, ind)
            self.refuse(s, 'expression statement ' + ast.unparse(s)[:50])
        if isinstance(s, ast.Return):
            if s.value is None:
                self.refuse(s, 'bare return')
            v = self.ex(s.value, env)
            lines = self.take_pre(ind)
            self.ret_types.append(v.ty)
            if self.effects:
                return lines + [f'{ind}pure ({v.code}, {env[FILES].code})'], env, True
            return lines + [f'{ind}pure {v.code}'], env, True
        if isinstance(s, ast.Raise):
            exc = s.exc
            name = dotted(exc.func) if isinstance(exc, ast.Call) else dotted(exc) if exc is not None else None
            if name not in EXC_MAP:
                self.refuse(s, f'raise of {name}')
            return [f'{ind}throw {EXC_MAP[name]}'], env, True
        if isinstance(s, ast.Assign):
            if len(s.targets) != 1:
                self.refuse(s, 'multiple assignment targets')
            if isinstance(s.value, ast.IfExp):
                # `x = a if c else b`  is  `if c: x = a` / `else: x = b`
                mk = lambda v: ast.copy_location(ast.Assign(targets=s.targets, value=v), s)
                node = ast.copy_location(ast.If(test=s.value.test, body=[mk(s.value.body)], orelse=[mk(s.value.orelse)]), s)
                ast.fix_missing_locations(node)
                return self.if_stmt(node, env, ind)
            return self.assign(s, s.targets[0], s.value, env, ind)
        if isinstance(s, ast.If):
            return self.if_stmt(s, env, ind)
        self.refuse(s, 'statement ' + type(s).__name__)

    def method_stmt(self, s, call, env, ind):
        py = call.func.value.id
        m = call.func.attr
        if py not in env:
            self.refuse(s, f'{py} is not assigned here')
        obj = env[py]
        if obj.ty == 'Db' and m == 'update':
            if len(call.args) != 2 or call.keywords:
                self.refuse(s, 'update with keyword arguments / another number of arguments')
            cols = [c.strip() for c in self.const_str(call.args[0], env, 'the column string').split(',')]
            if cols != ['x', 'y', 'z']:
                self.refuse(s, f'update of columns {cols}')
            v = self.ex(call.args[1], env)
            if v.ty != 'Points':
                self.refuse(s, f'update with values of type {v.ty}')
            lines = self.take_pre(ind)
            org = self.origin.get(obj.code, frozenset())
            nm, env2 = self.bind(env, py, V(None, 'Db'))
            self.origin[nm] = org
            # every other name of the updated object is stale in the functional translation: forget it
            for other in list(env2):
                if other != py and self.origin.get(env2[other].code, frozenset()) & org:
                    del env2[other]
            return lines + [f'{ind}let {nm} ← Rt.updateXYZ {obj.code} {v.code}'], env2, False
        if obj.ty == 'Db' and m == 'exportpdb':
            if len(call.args) != 1 or call.keywords:
                self.refuse(s, 'exportpdb with options')
            v = self.ex(call.args[0], env)
            if v.ty != 'Str':
                self.refuse(s, f'exportpdb to a name of type {v.ty}')
            if FILES not in env:
                self.refuse(s, 'file effect in a unit without effects')
            lines = self.take_pre(ind)
            self.tmp += 1
            t = self.fresh(f't{self.tmp}')
            old = env[FILES]
            nm, env2 = self.bind(env, FILES, V(None, old.ty))
            return lines + [f'{ind}let {t} ← Rt.exportpdb {obj.code} {v.code}', f'{ind}let {nm} := {old.code} ++ [{t}]'], env2, False
        self.refuse(s, f'statement-call of .{m} on {obj.ty}')

    def assign(self, s, target, value, env, ind):
        if isinstance(target, ast.Name):
            v = self.ex(value, env)
            lines = self.take_pre(ind)
            nm, env2 = self.bind(env, target.id, v)
            return lines + [f'{ind}let {nm} := {v.code}'], env2, False
        if isinstance(target, ast.Tuple):
            names = []
            for e in target.elts:
                if not isinstance(e, ast.Name):
                    self.refuse(s, 'nested unpacking target')
                names.append(e.id)
            v = self.ex(value, env)
            if not (isinstance(v.ty, tuple) and v.ty[0] == 'Tuple' and len(v.ty[1]) == len(names)):
                self.refuse(s, f'unpacking {v.ty} into {len(names)} names')
            lines = self.take_pre(ind)
            c = v.code
            if not c.isidentifier():
                self.tmp += 1
                t = self.fresh(f't{self.tmp}')
                lines.append(f'{ind}let {t} := {c}')
                c = t
            env2 = env
            for i, py in enumerate(names):
                nm, env2 = self.bind(env2, py, V(None, v.ty[1][i]))
                lines.append(f'{ind}let {nm} := {proj(c, i, len(names))}')
            return lines, env2, False
        if isinstance(target, ast.Subscript) and isinstance(target.value, ast.Name):
            py = target.value.id
            if py not in env:
                self.refuse(s, f'{py} is not assigned here')
            d = env[py]
            if d.ty != 'Kwargs':
                self.refuse(s, f'item assignment on {d.ty}')
            key = self.const_str(target.slice, env, 'the key')
            v = self.ex(value, env)
            if v.ty != ('List', 'Str'):
                self.refuse(s, f'keyword value of type {v.ty}')
            lines = self.take_pre(ind)
            nm, env2 = self.bind(env, py, V(None, 'Kwargs'))
            return lines + [f'{ind}let {nm} := Dict.setItem {d.code} {lean_str(key)} (Rt.kwStrs {v.code})'], env2, False
        self.refuse(s, 'assignment target ' + ast.unparse(target)[:40])

    def isinstance_test(self, test, env):
        """`isinstance(x, pdb2sql)` / `not isinstance(x, pdb2sql)` on a Union variable -> (python name, positive?)"""
        pos = True
        if isinstance(test, ast.UnaryOp) and isinstance(test.op, ast.Not):
            test, pos = test.operand, False
        if isinstance(test, ast.Call) and dotted(test.func) == 'isinstance' and len(test.args) == 2 and not test.keywords \
                and isinstance(test.args[0], ast.Name) and dotted(test.args[1]) == 'pdb2sql' and test.args[0].id in env \
                and isinstance(env[test.args[0].id].ty, tuple) and env[test.args[0].id].ty[0] == 'Union':
            return test.args[0].id, pos
        return None

    def if_stmt(self, s, env, ind):
        it = self.isinstance_test(s.test, env)
        in2 = ind + '    '
        if it is not None:
            py, pos = it
            u = env[py]
            v_src, v_db = self.fresh(py), self.fresh(py)
            self.origin[v_db] = self.origin.get(u.code, frozenset([u.code]))
            env_src = dict(env); env_src[py] = V(v_src, u.ty[1])
            env_db = dict(env); env_db[py] = V(v_db, u.ty[2])
            body_db, body_src = (s.body, s.orelse) if pos else (s.orelse, s.body)
            la, ea, ta = self.block(body_src, env_src, in2)
            lb, eb, tb = self.block(body_db, env_db, in2)
            # the refined variable goes back to the Union type after the statement
            ea = dict(ea); eb = dict(eb)
            if ea.get(py) is env_src[py]:
                ea[py] = env[py]
            if eb.get(py) is env_db[py]:
                eb[py] = env[py]
            heads = (f'{ind}  | .inl {v_src} => do', f'{ind}  | .inr {v_db} => do')
            opener = f'match {u.code} with'
            pre = []
        else:
            c = self.ex(s.test, env)
            if c.ty != 'Bool':
                self.refuse(s.test, f'truth value of {c.ty}')
            pre = self.take_pre(ind)
            la, ea, ta = self.block(s.body, env, in2)
            lb, eb, tb = self.block(s.orelse, env, in2)
            heads = (f'{ind}  (if {c.code} then do', f'{ind}  else do')
            opener = None
        if ta and tb:
            if opener:
                return pre + [f'{ind}{opener}', heads[0].replace('  | ', '| ', 1)] + la + [heads[1].replace('  | ', '| ', 1)] + lb, env, True
            return pre + [f'{ind}if {c.code} then do'] + [l for l in la] + [f'{ind}else do'] + lb, env, True
        # join the variables changed in the (non-terminated) branches
        changed = []
        for e_branch, term in ((ea, ta), (eb, tb)):
            if term:
                continue
            for k_, v_ in e_branch.items():
                if (k_ not in env or env[k_].code != v_.code) and k_ not in changed:
                    changed.append(k_)
        env2 = dict(env)
        joined = []
        for k_ in changed:
            a = None if ta else ea.get(k_)
            b = None if tb else eb.get(k_)
            live = [x for x, term in ((a, ta), (b, tb)) if not term]
            if any(x is None for x in live):
                env2.pop(k_, None)                 # possibly unbound afterwards: a later use is refused
                continue
            if len(live) == 2 and live[0].ty != live[1].ty:
                self.refuse(s, f'{k_} has type {live[0].ty} in one branch and {live[1].ty} in the other')
            joined.append((k_, a, b, live[0].ty))
        # names that disappeared in a live branch (an object updated under another name) disappear
        for k_ in list(env2):
            for e_branch, term in ((ea, ta), (eb, tb)):
                if not term and k_ not in e_branch:
                    env2.pop(k_, None)
        tup = lambda names: '()' if not names else names[0] if len(names) == 1 else '(' + ', '.join(names) + ')'
        ra = [] if ta else [f'{in2}pure {tup([j[1].code for j in joined])}']
        rb = [] if tb else [f'{in2}pure {tup([j[2].code for j in joined])}']
        self.tmp += 1
        def org_of(a, b):
            o = frozenset()
            for x in (a, b):
                if x is not None:
                    o |= self.origin.get(x.code, frozenset())
            return o
        if len(joined) == 1:
            k_, a, b, ty = joined[0]
            jn, env2 = self.bind(env2, k_, V(None, ty))
            if org_of(a, b):
                self.origin[jn] = org_of(a, b) | self.origin.get(jn, frozenset())
            after = []
        else:
            jn = self.fresh(f'j{self.tmp}') if joined else '_u'
            after = []
            for i, (k_, a, b, ty) in enumerate(joined):
                nm, env2 = self.bind(env2, k_, V(None, ty))
                if org_of(a, b):
                    self.origin[nm] = org_of(a, b) | self.origin.get(nm, frozenset())
                after.append(f'{ind}let {nm} := {proj(jn, i, len(joined))}')
        if opener:
            lines = pre + [f'{ind}let {jn} ← ({opener}', heads[0]] + la + ra + [heads[1]] + lb + rb
            lines[-1] += ')'
        else:
            lines = pre + [f'{ind}let {jn} ←', heads[0]] + la + ra + [heads[1]] + lb + rb
            lines[-1] += ')'
        return lines + after, env2, False


def translate_db_function(where, fnode, ptypes, registry, leanname, kwargs=True, effects=False, doc='', world_fixed=()):
    tr = DbTr(where, registry)
    a = fnode.args
    if a.vararg or a.kwonlyargs or a.posonlyargs:
        raise Refuse(where, 'parameter list outside the subset')
    names = [x.arg for x in a.args]
    if len(names) != len(ptypes):
        raise Refuse(where, f'{len(names)} parameters, {len(ptypes)} expected')
    params = list(zip(names, ptypes))
    if a.kwarg is not None:
        if not kwargs:
            raise Refuse(where, '**kwargs')
        params.append((a.kwarg.arg, 'Kwargs'))
    elif kwargs:
        raise Refuse(where, 'no **kwargs parameter')
    tr.effects = effects
    tr.ret_types = []
    env, binders = {}, []
    for py, t in params:
        nm = tr.fresh(py)
        env[py] = V(nm, t)
        if t == 'Db' or (isinstance(t, tuple) and t[0] == 'Union'):
            tr.origin[nm] = frozenset([nm])
        binders.append(f'({nm} : {lty(t)})')
    if effects:
        tr.used.add('files')
        env[FILES] = V('files', ('List', FILE_EFFECT))
    body = list(fnode.body)
    if body and isinstance(body[0], ast.Expr) and isinstance(body[0].value, ast.Constant) and isinstance(body[0].value.value, str):
        body = body[1:]
    lines, env_end, term = tr.block(body, env, '  ')
    if not term:
        raise Refuse(where, 'control can reach the end of the function without a return')
    if not tr.ret_types or any(t != tr.ret_types[0] for t in tr.ret_types):
        raise Refuse(where, 'returns of different types')
    ret = tr.ret_types[0]
    # the world parameters of a unit are FIXED (used or not), so that a source edit never changes the signature callers rely on
    for w in tr.world:
        if w not in world_fixed:
            raise Refuse(where, f'uses {w}, which is not a declared world parameter of this unit')
    tr.world = list(world_fixed)
    world = [w for w in WORLD_ORDER if w in tr.world]
    tyvars = []
    for w in WORLD_ORDER:
        if w in tr.world:
            for v in WORLD_TYVARS[w]:
                if v not in tyvars:
                    tyvars.append(v)
    for _, t in params:
        tyvars_of(t, tyvars)
    tyvars_of(ret, tyvars)
    head = f'def {leanname} ' + ('{' + ' '.join(tyvars) + ' : Type} ' if tyvars else '') + \
        ' '.join([f'({WORLD[w][0]} : {WORLD[w][1]})' for w in world] + binders) + ' :'
    rty = lty(ret)
    if effects:
        rty = f'({rty} × List (Py.Str × List Py.Str))'
    out = []
    docs = [doc] if doc else []
    if tr.dropped:
        docs.append('Effects dropped (no value depends on them): ' + '; '.join(f'`{d}`' for d in tr.dropped) + '.')
    if effects:
        docs.append('Second component of the result: the files written, in order, as `(name, lines)`.')
    if docs:
        out.append('/-- ' + '\n    '.join(d.replace('-/', '- /') for d in docs) + ' -/')
    try:
        src = ast.unparse(ast.Module(body=body, type_ignores=[]))
        out += ['--   ' + l for l in src.split('\n')]
    except Exception:
        pass
    out.append(head)
    out.append(f'    Except Py.Err {par(rty)} := do')
    if effects:
        out.append('  let files := ([] : List (Py.Str × List Py.Str))')
    out += lines
    sig = {'lean': leanname, 'params': params, 'ret': ret, 'world': world, 'effects': effects}
    return '\n'.join(out) + '\n', sig


# =============================================================================================
# the generated file
# =============================================================================================

HEADER = [
    '/- GENERATED by /verif/py/translate_ext_sup.py from /repo/pdb2sql/superpose.py — do not edit.',
    '   Statement-by-statement translation of get_rotation_matrix_quaternion, get_rotation_matrix, get_intersection and superpose;',
    '   the meaning of each Python / NumPy operation is fixed in PdbVerif/Py/*.lean and in the unit `sup_runtime` below;',
    '   `Proofs/GenSup*.lean` prove each definition equal to the hand model (Model/Superpose.lean, Model/SuperposeDb.lean) the',
    '   theorems of Props/C06, C13 are stated about (re-exported in Props/C06K2, C13K2). -/',
    'import PdbVerif.Py.Dict', 'import PdbVerif.Py.Np', 'import PdbVerif.Gen.Str', 'import PdbVerif.Gen.Kernels',
    'import PdbVerif.Model.Transform', '',
    'set_option linter.unusedVariables false', '', 'namespace GenSup', 'open Py', '']

RUNTIME = '''/- FIXED TEXT (not translated): the runtime operations of this file that Py/*.lean does not have. -/
namespace Rt

/-- a `pdb2sql` object as far as `superpose` looks at it: its ATOM table (rowID = position) and its `pdbfile` attribute
    (`none`: the object was built from a list of lines, and `os.path.basename` of it raises TypeError) -/
structure Db where
  rows : List Py.Atom
  pdbfile : Option Py.Str
  deriving DecidableEq, Repr

/-- `**kwargs` of `get`: keyword -> list of admitted (`no_` prefix: excluded) cell values, in the order given -/
abbrev Kwargs := Py.Dict Py.Str (List Py.Val)

/-- a list of strings as a keyword value -/
def kwStrs (l : List Py.Str) : List Py.Val := l.map Py.Val.text

/-- `k.startswith('no_')` and the column name -/
def stripNo (k : Py.Str) : Bool × Py.Str :=
  if (['n', 'o', '_'] : Py.Str).isPrefixOf k then (true, k.drop 3) else (false, k)

/-- the cell of the row in the named column (`none`: not one of the fourteen standard columns) -/
def cell (col : Py.Str) (a : Py.Atom) : Option Py.Val :=
  if col = §serial§ then some (.int a.serial)
  else if col = §name§ then some (.text a.name)
  else if col = §altLoc§ then some (.text a.altLoc)
  else if col = §resName§ then some (.text a.resName)
  else if col = §chainID§ then some (.text a.chainID)
  else if col = §resSeq§ then some (.int a.resSeq)
  else if col = §iCode§ then some (.text a.iCode)
  else if col = §x§ then some (.real a.x)
  else if col = §y§ then some (.real a.y)
  else if col = §z§ then some (.real a.z)
  else if col = §occ§ then some (.real a.occ)
  else if col = §temp§ then some (.real a.temp)
  else if col = §element§ then some (.text a.element)
  else if col = §model§ then some (.int a.model)
  else none

/-- is the keyword one the selection of this file models?  (`get` raises ValueError for a name that is not a column; `rowID`,
    which `get` accepts, is outside this model) -/
def kwCheck : Kwargs → Except Py.Err Unit
  | [] => .ok ()
  | (k, _) :: kw =>
    if (stripNo k).2 = §rowID§ then .error (.unmodelled "rowID keyword")
    else if (cell (stripNo k).2 default).isNone then .error .valueError
    else kwCheck kw

/-- one keyword condition on a row: the cell is among the values (`no_`: is not) -/
def kwHolds (k : Py.Str) (vals : List Py.Val) (a : Py.Atom) : Bool :=
  match cell (stripNo k).2 a with
  | none => false
  | some c => if (stripNo k).1 then !decide (c ∈ vals) else decide (c ∈ vals)

/-- every keyword condition holds (AND between keywords, OR between the values of one) -/
def kwTest (kw : Kwargs) (a : Py.Atom) : Bool := kw.all (fun kv => kwHolds kv.1 kv.2 a)

/-- `db.get(columns, **kwargs)`: the rows for which every keyword condition holds, in rowID order, projected -/
def get {β : Type} (t : List Py.Atom) (kw : Kwargs) (proj : Py.Tbl.IRow → β) : Except Py.Err (List β) :=
  match kwCheck kw with
  | .error e => .error e
  | .ok () => .ok (Py.Tbl.select t (fun r => kwTest kw r.1) proj)

/-- `np.array(rows)` of `get('x,y,z')` rows: an n x 3 array -/
def npArrayXYZ (rows : List (Rat × Rat × Rat)) : List (Vec3 Rat) := rows.map (fun r => ⟨r.1, r.2.1, r.2.2⟩)

/-- `db.update('x,y,z', xyz)` without keywords: the table update of the hand model (Model/Transform.lean) on all rows -/
def updateXYZ (db : Db) (xyz : List (Vec3 Rat)) : Except Py.Err Db :=
  match Model.updateXYZ (fun _ _ => true) xyz db.rows with
  | .error e => .error e
  | .ok rows => .ok { db with rows := rows }

/-- `os.path.basename(p)` (a `pdbfile` that is not a path raises TypeError) -/
def basename : Option Py.Str → Except Py.Err Py.Str
  | none => .error .typeError
  | some p => .ok (((Py.splitOn '/' p).getLast?).getD [])

/-- `s.rstrip(chars)`: trailing characters that occur in `chars` are removed -/
def rstripChars (s chars : Py.Str) : Py.Str := (s.reverse.dropWhile (fun c => decide (c ∈ chars))).reverse

/-- `db.sql2pdb()`: one formatted line per row (the translated `data2pdb` body) -/
def sql2pdb (db : Db) : Except Py.Err (List Py.Str) := db.rows.mapM Gen.data2pdb_line

/-- `db.exportpdb(fname)` as a value: the file name and the lines written (each followed by a newline) -/
def exportpdb (db : Db) (fname : Py.Str) : Except Py.Err (Py.Str × List Py.Str) :=
  match sql2pdb db with
  | .error e => .error e
  | .ok lines => .ok (fname, lines)

section
variable {α : Type}

/-- `np.argmax` of four numbers: the index of the first maximal entry -/
def argmax4 [LT α] [DecidableLT α] (l : Vec4 α) : Nat :=
  let i1 := if l.w < l.x then 1 else 0
  let b1 := if l.w < l.x then l.x else l.w
  let i2 := if b1 < l.y then 2 else i1
  let b2 := if b1 < l.y then l.y else b1
  if b2 < l.z then 3 else i2

/-- `U[:, k]` of a 4 x 4 array (`k` comes from `argmax4`, so `k < 4`) -/
def col4 (U : Mat4 α) (k : Nat) : Vec4 α :=
  match k with
  | 0 => ⟨U.m00, U.m10, U.m20, U.m30⟩
  | 1 => ⟨U.m01, U.m11, U.m21, U.m31⟩
  | 2 => ⟨U.m02, U.m12, U.m22, U.m32⟩
  | _ => ⟨U.m03, U.m13, U.m23, U.m33⟩

end
end Rt
'''

import re as _re
RUNTIME = _re.sub(r'§(\w+)§', lambda m: lean_str(m.group(1)), RUNTIME)

P, M3 = 'Points', 'Mat3'


def generate():
    try:
        return _generate()
    except Exception as e:          # never take the translator down: everything is refused and spliced from the snapshot
        refused = []
        out = list(HEADER)
        for name in UNITS:
            out.append(refused_unit(FNAME, name, refused, f'translate_ext_sup: {type(e).__name__}: {e}'))
        out.append('end GenSup')
        return {FNAME: '\n'.join(out) + '\n'}, refused


UNITS = ['sup_runtime', 'sup_get_rotation_matrix_quaternion', 'sup_get_rotation_matrix', 'sup_get_intersection', 'sup_superpose']


def _generate():
    refused, out = [], list(HEADER)
    out.append(unit('sup_runtime', RUNTIME))
    try:
        mod = parse_module('superpose.py')
    except (SyntaxError, OSError) as e:
        for name in UNITS[1:]:
            out.append(refused_unit(FNAME, name, refused, f'superpose.py cannot be parsed: {type(e).__name__}'))
        out.append('end GenSup')
        return {FNAME: '\n'.join(out) + '\n'}, refused

    def do(name, qual, build):
        try:
            fnode = find_func(mod, qual)
            text, sig = build(fnode)
            out.append(unit(name, text))
            return sig
        except Refuse as r:
            out.append(refused_unit(FNAME, name, refused, str(r)))
        except Exception as e:
            out.append(refused_unit(FNAME, name, refused, f'{qual}: outside the subset ({type(e).__name__}: {e})'))
        return None

    # ---- numeric units -------------------------------------------------------------------------------------
    TK = None
    try:
        TK = _load_kernels()
        make_kernel_class(TK)
    except Exception as e:
        TK = None
        tk_err = f'{type(e).__name__}: {e}'

    def numeric(name, qual, ptypes, **kw):
        def build(fn):
            if TK is None:
                raise Refuse(qual, 'kernel front end unavailable: ' + tk_err)
            try:
                return TK.translate_function(qual, fn, ptypes, {}, qual, doc=f'`superpose.{qual}`', **kw)
            except TK.Refuse as r:
                raise Refuse(r.where, r.why)
        return do(name, qual, build)

    numeric('sup_get_rotation_matrix_quaternion', 'get_rotation_matrix_quaternion', [P, P])
    numeric('sup_get_rotation_matrix', 'get_rotation_matrix', [P, P, 'Str'],
            unit_ext={'get_rotation_matrix_Kabsh': (M3, True), 'get_rotation_matrix_quaternion': (M3, True)})

    # ---- database-level units ------------------------------------------------------------------------------
    registry = {}
    registry['get_intersection'] = do('sup_get_intersection', 'get_intersection', lambda fn: translate_db_function(
        'get_intersection', fn, ['Db', 'Db'], registry, 'get_intersection', doc='`superpose.get_intersection`',
        world_fixed=('many2sql', 'many2sql_call', 'many2sql_get_intersection')))
    U = ('Union', 'Src', 'Db')
    do('sup_superpose', 'superpose', lambda fn: translate_db_function(
        'superpose', fn, [U, U, 'Method', 'Bool', 'Bool'], registry, 'superpose', effects=True, doc='`superpose.superpose`',
        world_fixed=tuple(WORLD_ORDER)))
    out.append('end GenSup')
    return {FNAME: '\n'.join(out) + '\n'}, refused


if __name__ == '__main__':
    files, refused = generate()
    sys.stdout.write(files[FNAME])
    for u, why in refused:
        sys.stderr.write(f'REFUSED {u}: {why}\n')
