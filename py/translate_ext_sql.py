"""
translate_ext_sql.py -- translator plug-in: the statements of `pdb2sqlcore.get / _format_get_output / update /
update_column / add_column` that BUILD the SQL text and the bound values, translated into Gen/Sql.lean (namespace GenSql).

What is translated (one Lean `def` per unit, `let`s in source order, SSA renaming, the continuation of an `if` is
duplicated into both branches so that definitions are join-free):

  sql_to_sql_value        `_to_sql_value`
  sql_get_nokw            `get`, branch `len(kwargs) == 0`: the text handed to `self.c.execute`
  sql_get_cond            `get`: the body of the loop over `kwargs.items()` (strip `no_`, list / scalar, `int(v + 1)` on rowID
                          values, the condition text, accumulation of `vals`); the branch that recurses through `self.get`
                          (over-long list) is *opaque*: it becomes `Flow.ret ()`
  sql_get_query           `get`, generic branch from `query = ...` to `self.c.execute(query, vals)`: (text, values), the
                          combined-limit error included
  sql_get_rows_step       `get`, chunked path: one turn of the final loop, the (text, rowids) handed to `self.c.execute`
  sql_format_get_output   `_format_get_output`
  sql_update_exec         `update` from `query = 'UPDATE ...'` to `self.c.executemany(query, data)`: (text, data rows)
  sql_update_column_exec  `update_column`: (text, data rows)
  sql_add_column_exec     `add_column`: the text (Python's `str` is a parameter)
  sql_intersection_query  `many2sql.get_intersection` up to `self.conn.execute(query)`: the `select t.c, … from t1 INNER JOIN t2 … on
                          t1.a=t2.a and …;` text (nested loops over tables / columns / match attributes, `[:-2]`, `[:-5]` trimming)
  sql_intersection_ncol   `many2sql.get_intersection`: `ncol` (14 for `*`, else the number of comma-separated pieces)
  sql_intersection_split  `many2sql.get_intersection` after the query: the joined rows cut into one row list per structure

Subset.  Types Str | Int | Bool | Val | Arg | Kwargs | List T | Opt T | Tuple.  Expressions: literals, names, `self.<limit>`,
`+ - *` chosen by type (str / list concatenation, int arithmetic, `v + 1` on a value = fallible `Rt.addInt`), comparisons,
`in` on strings, `len int tuple list map(lambda) enumerate zip range str`, `.startswith .split(c) .index .join .format .items`,
`'..%s..' % (..)`, slices, subscripts (fallible), list comprehensions (`map` / `mapM`), list / tuple displays.
Statements: assignment, augmented assignment (also on `x[i][j]`), `.append`, `if/else` (`isinstance(v, list)` on a keyword
value = `match`, `x is None` on an optional = `match`), `for` (a fold over the variables it re-assigns), `return`, `raise`,
`print` / `warnings.warn` (dropped); in a block that ends with `raise` the diagnostic statements before it are dropped.
A fragment ends at the statement that calls `self.c.execute / executemany`; its value is the argument tuple of that call.

Anything else raises Refuse for that unit: it is reported and the unit's text is spliced from lean/gen_snapshot/Sql.lean.
Output is a pure function of the source text.  Standard library only.  Never raises.
"""
import ast, os, re, sys

sys.path.insert(0, os.path.dirname(os.path.abspath(__file__)))
from translate import parse_module, find_func, Refuse, unit, refused_unit, lean_str, lean_string  # noqa: E402

FNAME = 'Sql.lean'
LIMITS = ('max_sql_values', 'SQLITE_LIMIT_VARIABLE_NUMBER')          # attributes of self that are constants of Gen.Consts

LEAN_RESERVED = {'at', 'from', 'end', 'fun', 'let', 'do', 'then', 'else', 'if', 'in', 'have', 'show', 'by', 'match', 'with',
                 'open', 'section', 'namespace', 'variable', 'def', 'theorem', 'instance', 'class', 'structure', 'where',
                 'Type', 'Prop', 'Sort', 'import', 'export', 'mutual', 'deriving', 'macro', 'syntax', 'local', 'private',
                 'protected', 'universe', 'axiom', 'example', 'abbrev', 'opaque', 'attribute', 'for', 'unless', 'return',
                 'try', 'catch', 'finally', 'mut', 'nomatch', 'nofun', 'calc', 'using', 'extends', 'notation', 'prefix',
                 'infix', 'postfix', 'it', 'st', 'pure', 'throw', 'index', 'str'}


# ---------------------------------------------------------------------------------------------
# types
# ---------------------------------------------------------------------------------------------

class TVar:
    """element type of an empty display, fixed by its first use"""
    n = 0

    def __init__(self):
        TVar.n += 1
        self.id = TVar.n
        self.ref = None


def prune(t):
    while isinstance(t, TVar) and t.ref is not None:
        t = t.ref
    if isinstance(t, tuple) and t[0] in ('List', 'Opt'):
        return (t[0], prune(t[1]))
    if isinstance(t, tuple) and t[0] == 'Tuple':
        return ('Tuple', tuple(prune(x) for x in t[1]))
    return t


TVARS = {}


def lty(t):
    t = prune(t)
    if isinstance(t, TVar):
        TVARS[t.id] = t
        return f'⟦T{t.id}⟧'
    if isinstance(t, tuple):
        if t[0] == 'List':
            return 'List ' + lty_atom(t[1])
        if t[0] == 'Opt':
            return 'Option ' + lty_atom(t[1])
        if t[0] == 'Tuple':
            return ' × '.join(lty_atom(x) for x in t[1])
    return {'Str': 'Py.Str', 'Int': 'Int', 'Bool': 'Bool', 'Val': 'Val', 'Arg': 'Arg', 'Kwargs': 'List Kw', 'Unit': 'Unit',
            'Items': 'List Item'}[t]


def lty_atom(t):
    s = lty(t)
    return f'({s})' if (' ' in s and not s.startswith('⟦')) else s


def is_list(t):
    t = prune(t)
    return isinstance(t, tuple) and t[0] == 'List'


def same(a, b):
    return prune(a) == prune(b) and not isinstance(prune(a), TVar)


# ---------------------------------------------------------------------------------------------
# the statement / expression translator
# ---------------------------------------------------------------------------------------------

class Done(Exception):
    """the fragment's final statement (the execute call) was reached"""


class Tr:
    """one unit.  mode 'm': definitions in `Except Err` (do-notation); mode 'p': pure terms (only when nothing can fail)."""

    def __init__(self, where, mode, consts=None, units=None, str_param=False):
        self.where = where
        self.mode = mode
        self.lines = []
        self.counter = {}
        self.tmp = 0
        self.fallible = False
        self.units = units or {}          # python function name -> (lean name, [param types], ret type, fallible)
        self.uses_str = False
        self.opaque_if = None             # predicate: ast.If -> bool (the branch is not translated: Flow.ret ())
        self.loop_defs = {}               # id(ast.For) -> lean name of the separately generated body
        self.can_ret = False              # some loop of the fragment may `return`
        self.ret_ty = None

    # ---- helpers -------------------------------------------------------------------------------
    def refuse(self, why, node=None):
        loc = f' (line {node.lineno})' if node is not None and hasattr(node, 'lineno') else ''
        raise Refuse(self.where, why + loc)

    def fresh(self, base):
        b = base if base not in LEAN_RESERVED else base + '_'
        n = self.counter.get(b, 0)
        self.counter[b] = n + 1
        return b if n == 0 else f'{b}_{n}'

    def emit(self, ind, text):
        self.lines.append('  ' * ind + text)

    def bind(self, ind, code):
        """a fallible computation: `let t ← code`"""
        if self.mode == 'p':
            self.fallible = True
            raise NeedMonad()
        self.fallible = True
        self.tmp += 1
        t = f't{self.tmp}'
        self.emit(ind, f'let {t} ← {code}')
        return t

    def coerce(self, code, have, want, node=None):
        have, want = prune(have), prune(want)
        if isinstance(want, TVar):
            want.ref = have
            return code
        if isinstance(have, TVar):
            have.ref = want
            return code
        if have == want:
            return code
        if have == 'Int' and want == 'Val':
            return f'(Val.int {code})'
        if is_list(have) and is_list(want):
            h, w = prune(have[1]), prune(want[1])
            if isinstance(h, TVar):
                h.ref = w
                return code
            if isinstance(w, TVar):
                w.ref = h
                return code
            if h == 'Int' and w == 'Val':
                return f'(List.map Val.int {code})'
        self.refuse(f'a value of type {have} where {want} is expected', node)

    # ---- expressions ---------------------------------------------------------------------------
    def expr(self, e, env, ind):
        """-> (lean code, type); fallible parts are bound on lines emitted before"""
        if isinstance(e, ast.Constant):
            if isinstance(e.value, bool):
                return ('true' if e.value else 'false'), 'Bool'
            if isinstance(e.value, str):
                return lean_str(e.value), 'Str'
            if isinstance(e.value, int):
                return (f'({e.value} : Int)' if e.value >= 0 else f'(-{-e.value} : Int)'), 'Int'
            self.refuse(f'constant {e.value!r}', e)
        if isinstance(e, ast.Name):
            if e.id not in env:
                self.refuse(f'name `{e.id}` is not defined in the translated part', e)
            return env[e.id]
        if isinstance(e, ast.Attribute):
            if isinstance(e.value, ast.Name) and e.value.id == 'self' and e.attr in LIMITS:
                return f'(Gen.{e.attr} : Int)', 'Int'
            self.refuse(f'attribute {ast.unparse(e)}', e)
        if isinstance(e, (ast.Tuple, ast.List)):
            if not e.elts:
                return '[]', ('List', TVar())
            parts = [self.expr(x, env, ind) for x in e.elts]
            ty = parts[0][1]
            for _, t in parts[1:]:
                if prune(t) != prune(ty):
                    if {prune(t), prune(ty)} == {'Int', 'Val'}:
                        ty = 'Val'
                    else:
                        self.refuse('display with elements of different types', e)
            return '[' + ', '.join(self.coerce(c, t, ty, e) for c, t in parts) + ']', ('List', ty)
        if isinstance(e, ast.BinOp):
            return self.binop(e, env, ind)
        if isinstance(e, ast.Compare):
            return self.compare(e, env, ind)
        if isinstance(e, ast.BoolOp):
            parts = [self.expr(v, env, ind) for v in e.values]
            if any(t != 'Bool' for _, t in parts):
                self.refuse('and/or of non-booleans', e)
            op = ' ∧ ' if isinstance(e.op, ast.And) else ' ∨ '
            return '(' + op.join(c for c, _ in parts) + ')', 'Bool'
        if isinstance(e, ast.UnaryOp) and isinstance(e.op, ast.USub):
            c, t = self.expr(e.operand, env, ind)
            if t != 'Int':
                self.refuse('unary minus of a non-int', e)
            return f'(-{c})', 'Int'
        if isinstance(e, ast.UnaryOp) and isinstance(e.op, ast.Not):
            c, t = self.expr(e.operand, env, ind)
            if t != 'Bool':
                self.refuse('not of a non-boolean', e)
            return f'(¬ {c})', 'Bool'
        if isinstance(e, ast.Subscript):
            return self.subscript(e, env, ind)
        if isinstance(e, ast.ListComp):
            return self.listcomp(e, env, ind)
        if isinstance(e, ast.Call):
            return self.call(e, env, ind)
        self.refuse(f'expression {type(e).__name__}: {ast.unparse(e)[:60]}', e)

    def binop(self, e, env, ind):
        a, ta = self.expr(e.left, env, ind)
        if isinstance(e.op, ast.Mod):
            return self.percent(e, a, ta, env, ind)
        if isinstance(e.op, ast.Add) and is_list(ta) and isinstance(e.right, (ast.Tuple, ast.List)) and e.right.elts:
            # `xs + (a, b)`: the elements take the element type of xs
            parts = [self.expr(x, env, ind) for x in e.right.elts]
            et = prune(ta)[1]
            if isinstance(prune(et), TVar):
                prune(et).ref = prune(parts[0][1])
            return f'({a} ++ [' + ', '.join(self.coerce(c, t, et, e) for c, t in parts) + '])', ta
        b, tb = self.expr(e.right, env, ind)
        ta, tb = prune(ta), prune(tb)
        if isinstance(e.op, ast.Add):
            if ta == 'Str' and tb == 'Str':
                return f'({a} ++ {b})', 'Str'
            if is_list(ta) and is_list(tb):
                ea, eb = prune(ta[1]), prune(tb[1])
                if isinstance(ea, TVar) and not isinstance(eb, TVar):
                    ea.ref = eb
                    return f'({a} ++ {b})', ('List', eb)
                return f'({a} ++ {self.coerce(b, tb, ta, e)})', ta
            if ta == 'Int' and tb == 'Int':
                return f'({a} + {b})', 'Int'
            if ta == 'Val' and tb == 'Int':
                return self.bind(ind, f'Rt.addInt {a} {b}'), 'Val'
            self.refuse(f'`+` on {ta} and {tb}', e)
        if isinstance(e.op, ast.Sub):
            if ta == 'Int' and tb == 'Int':
                return f'({a} - {b})', 'Int'
            if ta == 'Val' and tb == 'Int':
                return self.bind(ind, f'Rt.subInt {a} {b}'), 'Val'
            self.refuse(f'`-` on {ta} and {tb}', e)
        if isinstance(e.op, ast.Mult):
            if ta == 'Str' and tb == 'Int':
                return f'(Py.rep {a} {b})', 'Str'
            if ta == 'Int' and tb == 'Int':
                return f'({a} * {b})', 'Int'
            self.refuse(f'`*` on {ta} and {tb}', e)
        self.refuse(f'operator {type(e.op).__name__}', e)

    def percent(self, e, fmt_code, tfmt, env, ind):
        """'..%s..' % (a, b, ..) with str arguments"""
        if not (isinstance(e.left, ast.Constant) and isinstance(e.left.value, str)):
            self.refuse('% with a non-literal format', e)
        fmt = e.left.value
        args = list(e.right.elts) if isinstance(e.right, ast.Tuple) else [e.right]
        pieces = re.split(r'(%.)', fmt)
        out, k = [], 0
        for p in pieces:
            if p == '%s':
                if k >= len(args):
                    self.refuse('% with too few arguments', e)
                c, t = self.expr(args[k], env, ind)
                k += 1
                if prune(t) != 'Str':
                    self.refuse(f'%s of a {prune(t)} (only str is translated; wrap other values in str())', e)
                out.append(c)
            elif p.startswith('%') and len(p) == 2:
                self.refuse(f'format directive {p}', e)
            elif p:
                out.append(lean_str(p))
        if k != len(args):
            self.refuse('% with too many arguments', e)
        return '(' + ' ++ '.join(out) + ')', 'Str'

    def compare(self, e, env, ind):
        if len(e.ops) != 1:
            self.refuse('chained comparison', e)
        op, r = e.ops[0], e.comparators[0]
        a, ta = self.expr(e.left, env, ind)
        b, tb = self.expr(r, env, ind)
        ta, tb = prune(ta), prune(tb)
        if isinstance(op, (ast.Eq, ast.NotEq)):
            if ta != tb or ta not in ('Str', 'Int'):
                self.refuse(f'== on {ta} and {tb}', e)
            return (f'({a} = {b})' if isinstance(op, ast.Eq) else f'({a} ≠ {b})'), 'Bool'
        if isinstance(op, (ast.Gt, ast.Lt, ast.GtE, ast.LtE)):
            if ta != 'Int' or tb != 'Int':
                self.refuse(f'order comparison on {ta} and {tb}', e)
            sym = {ast.Gt: '>', ast.Lt: '<', ast.GtE: '≥', ast.LtE: '≤'}[type(op)]
            return f'({a} {sym} {b})', 'Bool'
        if isinstance(op, (ast.In, ast.NotIn)):
            if ta == 'Str' and tb == 'Str':
                c = f'(Py.strIn {a} {b} = true)'
                return (c if isinstance(op, ast.In) else f'(¬ {c})'), 'Bool'
            self.refuse(f'`in` on {ta} and {tb}', e)
        self.refuse(f'comparison {type(op).__name__}', e)

    def subscript(self, e, env, ind):
        v, tv = self.expr(e.value, env, ind)
        tv = prune(tv)
        s = e.slice
        if isinstance(s, ast.Slice):
            if s.step is not None:
                self.refuse('slice with a step', e)
            if tv == 'Str' and s.upper is None and s.lower is not None:
                a, ta = self.expr(s.lower, env, ind)
                if ta != 'Int':
                    self.refuse('slice bound that is not an int', e)
                return f'(Py.sliceFrom {v} {a})', 'Str'
            if tv == 'Str' and s.lower is None and s.upper is not None:
                b, tb = self.expr(s.upper, env, ind)
                if tb != 'Int':
                    self.refuse('slice bound that is not an int', e)
                return f'(Py.slice {v} (0 : Int) {b})', 'Str'
            if is_list(tv) and s.lower is not None and s.upper is not None:
                a, ta = self.expr(s.lower, env, ind)
                b, tb = self.expr(s.upper, env, ind)
                if ta != 'Int' or tb != 'Int':
                    self.refuse('slice bound that is not an int', e)
                return f'(Rt.slice {v} {a} {b})', tv
            self.refuse(f'slice of a {tv}', e)
        i, ti = self.expr(s, env, ind)
        if ti != 'Int' or not is_list(tv):
            self.refuse(f'subscript of a {tv} by a {ti}', e)
        return self.bind(ind, f'Rt.getItem {v} {i}'), tv[1]

    def lam(self, params, ptys, body, env, ind):
        """`fun x .. => body` for map / comprehensions -> (code, result type, fallible)"""
        env2 = dict(env)
        names = []
        for p, t in zip(params, ptys):
            n = self.fresh(p)
            env2[p] = (n, t)
            names.append(n)
        sub = Tr(self.where, 'm', units=self.units)
        sub.counter, sub.tmp = self.counter, self.tmp
        c, t = sub.expr(body, env2, 0)
        self.tmp = sub.tmp
        self.uses_str = self.uses_str or sub.uses_str
        if sub.lines:
            steps = '; '.join(l.strip() for l in sub.lines)
            return names, f'do {steps}; pure {c}', t, True
        return names, c, t, False

    def map_over(self, names, body, fallible, it, ind):
        head = 'fun ' + ' '.join(names) + ' => '
        if fallible:
            return self.bind(ind, f'List.mapM ({head}{body}) {it}')
        return f'(List.map ({head}{body}) {it})'

    def listcomp(self, e, env, ind):
        if len(e.generators) != 1 or e.generators[0].ifs or e.generators[0].is_async:
            self.refuse('comprehension with a condition or several generators', e)
        g = e.generators[0]
        it, tit = self.expr(g.iter, env, ind)
        tit = prune(tit)
        if not is_list(tit):
            self.refuse(f'comprehension over a {tit}', e)
        elt_t = prune(tit[1])
        if isinstance(g.target, ast.Name):
            names, body, t, f = self.lam([g.target.id], [elt_t], e.elt, env, ind)
            return self.map_over(names, body, f, it, ind), ('List', t)
        if isinstance(g.target, ast.Tuple) and all(isinstance(x, ast.Name) for x in g.target.elts) and \
                isinstance(elt_t, tuple) and elt_t[0] == 'Tuple' and len(elt_t[1]) == len(g.target.elts) == 2:
            # `for a, b in pairs`: bind by projections
            p = self.fresh('p')
            env2 = dict(env)
            env2[g.target.elts[0].id] = (f'{p}.1', elt_t[1][0])
            env2[g.target.elts[1].id] = (f'{p}.2', elt_t[1][1])
            sub = Tr(self.where, 'm', units=self.units)
            sub.counter, sub.tmp = self.counter, self.tmp
            c, t = sub.expr(e.elt, env2, 0)
            self.tmp = sub.tmp
            if sub.lines:
                steps = '; '.join(l.strip() for l in sub.lines)
                return self.bind(ind, f'List.mapM (fun {p} => do {steps}; pure {c}) {it}'), ('List', t)
            return f'(List.map (fun {p} => {c}) {it})', ('List', t)
        self.refuse('comprehension target', e)

    def call(self, e, env, ind):
        f = e.func
        if e.keywords and not (isinstance(f, ast.Attribute) and f.attr == 'format'):
            self.refuse('keyword arguments in a call', e)
        if isinstance(f, ast.Name):
            name, args = f.id, e.args
            if name == 'len' and len(args) == 1:
                a, t = self.expr(args[0], env, ind)
                t = prune(t)
                if t == 'Str' or is_list(t):
                    return f'(Rt.len {a})', 'Int'
                self.refuse(f'len of a {t}', e)
            if name == 'int' and len(args) == 1:
                a, t = self.expr(args[0], env, ind)
                t = prune(t)
                if t == 'Int':
                    return a, 'Int'
                if t == 'Val':
                    return self.bind(ind, f'Rt.int {a}'), 'Int'
                self.refuse(f'int of a {t}', e)
            if name in ('tuple', 'list') and len(args) == 1:
                a, t = self.expr(args[0], env, ind)
                if not is_list(t):
                    self.refuse(f'{name}() of a {prune(t)}', e)
                return a, t
            if name == 'enumerate' and len(args) == 1:
                a, t = self.expr(args[0], env, ind)
                if not is_list(t):
                    self.refuse('enumerate of a non-list', e)
                return f'(Rt.enumerate {a})', ('List', ('Tuple', ('Int', prune(t)[1])))
            if name == 'zip' and len(args) == 2:
                a, ta = self.expr(args[0], env, ind)
                b, tb = self.expr(args[1], env, ind)
                if not (is_list(ta) and is_list(tb)):
                    self.refuse('zip of non-lists', e)
                return f'(List.zip {a} {b})', ('List', ('Tuple', (prune(ta)[1], prune(tb)[1])))
            if name == 'range' and len(args) == 1:
                a, t = self.expr(args[0], env, ind)
                if t != 'Int':
                    self.refuse('range of a non-int', e)
                return f'(Rt.range {a})', ('List', 'Int')
            if name == 'range' and len(args) == 2:
                a, ta = self.expr(args[0], env, ind)
                b, tb = self.expr(args[1], env, ind)
                if ta != 'Int' or tb != 'Int':
                    self.refuse('range of a non-int', e)
                return f'(Rt.range2 {a} {b})', ('List', 'Int')
            if name == 'map' and len(args) == 2 and isinstance(args[0], ast.Lambda):
                lam = args[0]
                if len(lam.args.args) != 1 or lam.args.defaults or lam.args.vararg or lam.args.kwarg:
                    self.refuse('lambda shape', e)
                it, tit = self.expr(args[1], env, ind)
                if not is_list(tit):
                    self.refuse('map over a non-list', e)
                names, body, t, fl = self.lam([lam.args.args[0].arg], [prune(tit)[1]], lam.body, env, ind)
                return self.map_over(names, body, fl, it, ind), ('List', t)
            if name == 'str' and len(args) == 1:
                a, t = self.expr(args[0], env, ind)
                if prune(t) == 'Str':
                    return a, 'Str'
                if prune(t) == 'Val':
                    self.uses_str = True
                    return f'(str {a})', 'Str'
                self.refuse(f'str of a {prune(t)}', e)
            if name in self.units and len(args) == len(self.units[name][1]):
                lname, ptys, rty, fl = self.units[name]
                cs = []
                for a, pt in zip(args, ptys):
                    c, t = self.expr(a, env, ind)
                    cs.append(self.coerce(c, t, pt, e))
                code = f'{lname} ' + ' '.join(cs)
                if fl:
                    return self.bind(ind, code), rty
                return f'({code})', rty
            self.refuse(f'call of `{name}`', e)
        if isinstance(f, ast.Attribute):
            m = f.attr
            if m == 'format' and isinstance(f.value, ast.Constant) and isinstance(f.value.value, str) and not e.args:
                return self.format(e, env, ind)
            if m == 'keys' and ast.unparse(f.value) == 'self.col' and not e.args:
                return '(List.map (fun p => p.1.toList) Gen.col)', ('List', 'Str')
            recv, tr = self.expr(f.value, env, ind)
            tr = prune(tr)
            if m == 'startswith' and tr == 'Str' and len(e.args) == 1:
                a, t = self.expr(e.args[0], env, ind)
                if t != 'Str':
                    self.refuse('startswith of a non-str', e)
                return f'(Py.startsWith {recv} {a} = true)', 'Bool'
            if m == 'split' and tr == 'Str' and len(e.args) == 1 and isinstance(e.args[0], ast.Constant) and \
                    isinstance(e.args[0].value, str) and len(e.args[0].value) == 1:
                from translate import lean_char
                return f'(Py.splitOn {lean_char(e.args[0].value)} {recv})', ('List', 'Str')
            if m == 'index' and is_list(tr) and len(e.args) == 1:
                a, t = self.expr(e.args[0], env, ind)
                return self.bind(ind, f'Rt.index {recv} {self.coerce(a, t, tr[1], e)}'), 'Int'
            if m == 'join' and tr == 'Str' and len(e.args) == 1:
                a, t = self.expr(e.args[0], env, ind)
                t = prune(t)
                if t == 'Str':
                    return f'(Rt.join {recv} (Rt.chars {a}))', 'Str'
                if is_list(t):
                    return f'(Rt.join {recv} {self.coerce(a, t, ("List", "Str"), e)})', 'Str'
                self.refuse(f'join over a {t}', e)
            if m == 'items' and tr == 'Kwargs' and not e.args:
                return f'(Rt.items {recv})', ('List', ('Tuple', ('Str', 'Arg')))
            if m == 'item' and tr == 'Val' and not e.args:
                return f'(Rt.item {recv})', 'Val'
            self.refuse(f'method .{m} of a {tr}', e)
        self.refuse(f'call {ast.unparse(e)[:60]}', e)

    def format(self, e, env, ind):
        fmt = e.func.value.value
        kws = {}
        for k in e.keywords:
            if k.arg is None:
                self.refuse('**kwargs in format', e)
            kws[k.arg] = k.value
        out, used = [], set()
        for p in re.split(r'(\{[^{}]*\})', fmt):
            if p.startswith('{') and p.endswith('}'):
                name = p[1:-1]
                if name not in kws:
                    self.refuse(f'format field {p}', e)
                c, t = self.expr(kws[name], env, ind)
                if prune(t) != 'Str':
                    self.refuse(f'format field {p} of type {prune(t)}', e)
                used.add(name)
                out.append(c)
            elif '{' in p or '}' in p:
                self.refuse('braces in a format string', e)
            elif p:
                out.append(lean_str(p))
        if used != set(kws):
            self.refuse('unused format arguments', e)
        return '(' + ' ++ '.join(out) + ')', 'Str'

    # ---- statements ----------------------------------------------------------------------------
    # ctx = ('fn', ret type) | ('loop', state names, state types[, 'flow']) | ('frag',)
    def finish_pure(self, ind, code):
        self.emit(ind, f'pure {code}' if self.mode == 'm' else code)

    def state_tuple(self, names):
        return names[0] if len(names) == 1 else '(' + ', '.join(names) + ')'

    def block(self, stmts, env, ind, ctx):
        """translate `stmts` (the rest of the enclosing block included by the caller)."""
        if not stmts:
            return self.fall_off(env, ind, ctx)
        s, rest = stmts[0], stmts[1:]
        # --- dropped statements
        if isinstance(s, ast.Expr) and isinstance(s.value, ast.Constant) and isinstance(s.value.value, str):
            return self.block(rest, env, ind, ctx)
        if isinstance(s, ast.Expr) and is_print(s.value):
            return self.block(rest, env, ind, ctx)
        if isinstance(s, ast.Pass):
            return self.block(rest, env, ind, ctx)
        # --- the final statement of a fragment
        ex = find_execute(s) if isinstance(s, (ast.Assign, ast.AugAssign, ast.Expr)) else None
        if ex is not None:
            if ctx[0] != 'frag':
                self.refuse('a database call inside a translated loop or function', s)
            parts = [self.expr(a, env, ind) for a in ex.args]
            if ex.keywords:
                self.refuse('keyword arguments of execute', s)
            code = parts[0][0] if len(parts) == 1 else '(' + ', '.join(c for c, _ in parts) + ')'
            ty = parts[0][1] if len(parts) == 1 else ('Tuple', tuple(t for _, t in parts))
            self.frag_ty = ty if self.frag_ty is None else self.frag_ty
            if not same(ty, self.frag_ty):
                self.refuse('execute calls with arguments of different types', s)
            self.frag_method = ex.func.attr
            if self.can_ret:
                code = f'(Flow.cont {code})'
            self.finish_pure(ind, code)
            return
        if isinstance(s, ast.Assign):
            if len(s.targets) != 1:
                self.refuse('multiple assignment', s)
            tg = s.targets[0]
            if isinstance(tg, ast.Name):
                c, t = self.expr(s.value, env, ind)
                return self.assign(tg.id, c, t, rest, env, ind, ctx)
            if isinstance(tg, ast.Tuple) and isinstance(s.value, ast.Tuple) and len(tg.elts) == len(s.value.elts) and \
                    all(isinstance(x, ast.Name) for x in tg.elts):
                # `a, b = x, y`: the right-hand sides are evaluated first
                vals = [self.expr(x, env, ind) for x in s.value.elts]
                env2 = dict(env)
                for x, (c, t) in zip(tg.elts, vals):
                    n = self.fresh(x.id)
                    self.emit(ind, f'let {n} := {c}')
                    env2[x.id] = (n, t)
                return self.block(rest, env2, ind, ctx)
            self.refuse(f'assignment to {ast.unparse(tg)}', s)
        if isinstance(s, ast.AugAssign):
            if isinstance(s.target, ast.Name):
                e = ast.BinOp(left=ast.Name(id=s.target.id, ctx=ast.Load()), op=s.op, right=s.value)
                ast.copy_location(e, s)
                ast.fix_missing_locations(e)
                c, t = self.expr(e, env, ind)
                return self.assign(s.target.id, c, t, rest, env, ind, ctx)
            if isinstance(s.target, ast.Subscript):
                return self.aug_subscript(s, rest, env, ind, ctx)
            self.refuse('augmented assignment target', s)
        if isinstance(s, ast.Expr) and isinstance(s.value, ast.Call) and isinstance(s.value.func, ast.Attribute) and \
                s.value.func.attr == 'append' and isinstance(s.value.func.value, ast.Name) and len(s.value.args) == 1:
            x = s.value.func.value.id
            if x not in env:
                self.refuse(f'append to undefined `{x}`', s)
            xc, xt = env[x]
            if not is_list(xt):
                self.refuse(f'append to a {prune(xt)}', s)
            a, ta = self.expr(s.value.args[0], env, ind)
            a = self.coerce(a, ta, prune(xt)[1], s)
            return self.assign(x, f'({xc} ++ [{a}])', xt, rest, env, ind, ctx)
        if isinstance(s, ast.Expr) and isinstance(s.value, ast.Call) and isinstance(s.value.func, ast.Attribute) and \
                s.value.func.attr == 'append' and isinstance(s.value.func.value, ast.Subscript) and \
                isinstance(s.value.func.value.value, ast.Name) and len(s.value.args) == 1 and \
                not isinstance(s.value.func.value.slice, ast.Slice):
            # `x[i].append(v)`: read the element, extend it, write it back
            sub = s.value.func.value
            x = sub.value.id
            if x not in env or not is_list(env[x][1]) or not is_list(prune(env[x][1])[1]):
                self.refuse(f'`{x}[i].append` on something that is not a list of lists', s)
            xc, xt = env[x]
            i, ti = self.expr(sub.slice, env, ind)
            if ti != 'Int':
                self.refuse('index that is not an int', s)
            a, ta = self.expr(s.value.args[0], env, ind)
            a = self.coerce(a, ta, prune(prune(xt)[1])[1], s)
            row = self.bind(ind, f'Rt.getItem {xc} {i}')
            new = self.bind(ind, f'Rt.setItem {xc} {i} ({row} ++ [{a}])')
            return self.assign(x, new, xt, rest, env, ind, ctx)
        if isinstance(s, ast.If):
            return self.if_(s, rest, env, ind, ctx)
        if isinstance(s, ast.For):
            return self.for_(s, rest, env, ind, ctx)
        if isinstance(s, ast.Return):
            if s.value is None:
                self.refuse('bare return', s)
            c, t = self.expr(s.value, env, ind)
            if ctx[0] == 'fn':
                want = ctx[1]
                if want == 'Items':                       # a list of rows or a flat list: one answer type
                    t = prune(t)
                    if same(t, ('List', ('List', 'Val'))):
                        c = f'(List.map Item.many {c})'
                    elif same(t, ('List', 'Val')):
                        c = f'(List.map Item.one {c})'
                    else:
                        self.refuse(f'return of a {t}', s)
                else:
                    c = self.coerce(c, t, want, s)
                self.finish_pure(ind, c)
                return
            self.refuse('return outside a function unit', s)
        if isinstance(s, ast.Raise):
            self.raise_(s, ind)
            return
        self.refuse(f'statement {type(s).__name__}: {ast.unparse(s)[:70]}', s)

    def assign(self, name, code, ty, rest, env, ind, ctx):
        n = self.fresh(name)
        env2 = dict(env)
        env2[name] = (n, ty)
        pt = prune(ty)
        ann = ''
        if is_list(pt) and code == '[]':
            ann = f' : {lty(pt)}'
        self.emit(ind, f'let {n}{ann} := {code}')
        return self.block(rest, env2, ind, ctx)

    def aug_subscript(self, s, rest, env, ind, ctx):
        """`x[i][j] -= c` / `x[i] -= c`: read, compute, write back (functional update)"""
        path, cur = [], s.target
        while isinstance(cur, ast.Subscript):
            if isinstance(cur.slice, ast.Slice):
                self.refuse('augmented assignment to a slice', s)
            path.append(cur.slice)
            cur = cur.value
        if not isinstance(cur, ast.Name) or cur.id not in env:
            self.refuse('augmented assignment base', s)
        path.reverse()
        base, tbase = env[cur.id]
        idx = []
        for p in path:
            c, t = self.expr(p, env, ind)
            if t != 'Int':
                self.refuse('index that is not an int', s)
            idx.append(c)
        # read down
        conts, ty = [(base, tbase)], tbase
        for c in idx:
            if not is_list(ty):
                self.refuse('subscript of a non-list', s)
            ty = prune(ty)[1]
            conts.append((self.bind(ind, f'Rt.getItem {conts[-1][0]} {c}'), ty))
        old, told = conts[-1]
        rc, rt = self.expr(s.value, env, ind)
        told = prune(told)
        if isinstance(s.op, ast.Sub) and told == 'Val' and rt == 'Int':
            new = self.bind(ind, f'Rt.subInt {old} {rc}')
        elif isinstance(s.op, ast.Add) and told == 'Val' and rt == 'Int':
            new = self.bind(ind, f'Rt.addInt {old} {rc}')
        elif isinstance(s.op, ast.Sub) and told == 'Int' and rt == 'Int':
            new = f'({old} - {rc})'
        elif isinstance(s.op, ast.Add) and told == 'Int' and rt == 'Int':
            new = f'({old} + {rc})'
        else:
            self.refuse(f'augmented assignment on {told} and {rt}', s)
        # write back up
        for k in range(len(idx) - 1, -1, -1):
            new = self.bind(ind, f'Rt.setItem {conts[k][0]} {idx[k]} {new}')
        return self.assign(cur.id, new, tbase, rest, env, ind, ctx)

    def raise_(self, s, ind):
        e = s.exc
        if isinstance(e, ast.Call) and isinstance(e.func, ast.Name):
            cls = e.func.id
            msg = ''
            if e.args and isinstance(e.args[0], ast.Constant) and isinstance(e.args[0].value, str):
                msg = e.args[0].value
        elif isinstance(e, ast.Name):
            cls, msg = e.id, ''
        else:
            self.refuse('raise of an unknown form', s)
        if self.mode == 'p':
            self.fallible = True
            raise NeedMonad()
        self.fallible = True
        if cls == 'ValueError':
            self.emit(ind, f'throw (Err.valueError {lean_string(msg)})')
        elif cls == 'TypeError':
            self.emit(ind, 'throw Err.typeError')
        elif cls == 'IndexError':
            self.emit(ind, 'throw Err.indexError')
        else:
            self.refuse(f'raise {cls}', s)

    def if_(self, s, rest, env, ind, ctx):
        # opaque branch (recursion through self.get): leaves the loop
        if self.opaque_if is not None and self.opaque_if(s):
            if ctx[0] != 'loop' or not ends_with_return(s.body):
                self.refuse('the recursive branch is not a returning branch of a loop body', s)
            c, t = self.expr(s.test, env, ind)
            self.can_ret = True
            self.emit(ind, f'if {c} then')
            self.emit(ind + 1, '-- the over-long list: the chunked path (recursion through `self.get`; its final queries are `get_rows_step`)')
            self.finish_pure(ind + 1, '(Flow.ret ())')
            self.emit(ind, 'else')
            return self.block(list(s.orelse) + rest, env, ind + 1, ctx)
        # a block that ends with `raise`: only the exception matters
        body = list(s.body)
        if body and isinstance(body[-1], ast.Raise):
            for d in body[:-1]:
                if not is_diagnostic(d):
                    self.refuse('statement before a raise that is not a diagnostic', d)
            body = body[-1:]
        t = s.test
        # isinstance(v, list) on a keyword value
        if isinstance(t, ast.Call) and isinstance(t.func, ast.Name) and t.func.id == 'isinstance' and len(t.args) == 2 and \
                isinstance(t.args[0], ast.Name) and t.args[0].id in env:
            v = t.args[0].id
            vc, vt = env[v]
            if prune(vt) == 'Arg' and isinstance(t.args[1], ast.Name) and t.args[1].id == 'list':
                self.emit(ind, f'match {vc} with')
                n1 = self.fresh(v)
                self.emit(ind, f'| .list {n1} =>')
                e1 = dict(env); e1[v] = (n1, ('List', 'Val'))
                self.block(body + rest_unless_exit(body, rest), e1, ind + 1, ctx)
                n2 = self.fresh(v)
                self.emit(ind, f'| .scalar {n2} =>')
                e2 = dict(env); e2[v] = (n2, 'Val')
                self.block(list(s.orelse) + rest_unless_exit(s.orelse, rest), e2, ind + 1, ctx)
                return
            if prune(vt) == 'Val' and ast.unparse(t.args[1]) == 'np.generic':
                c = f'(Rt.isNpGeneric {vc} = true)'
                return self.plain_if(c, body, list(s.orelse), rest, env, ind, ctx)
            self.refuse(f'isinstance test {ast.unparse(t)}', s)
        # x is None on an optional
        if isinstance(t, ast.Compare) and len(t.ops) == 1 and isinstance(t.ops[0], (ast.Is, ast.IsNot)) and \
                isinstance(t.left, ast.Name) and isinstance(t.comparators[0], ast.Constant) and t.comparators[0].value is None:
            v = t.left.id
            if v not in env or not (isinstance(prune(env[v][1]), tuple) and prune(env[v][1])[0] == 'Opt'):
                self.refuse(f'`is None` on `{v}` that is not an optional parameter', s)
            vc, vt = env[v]
            none_b, some_b = (body, list(s.orelse)) if isinstance(t.ops[0], ast.Is) else (list(s.orelse), body)
            self.emit(ind, f'match {vc} with')
            self.emit(ind, '| none =>')
            self.block(none_b + rest_unless_exit(none_b, rest), env, ind + 1, ctx)
            n1 = self.fresh(v)
            self.emit(ind, f'| some {n1} =>')
            e1 = dict(env); e1[v] = (n1, prune(vt)[1])
            self.block(some_b + rest_unless_exit(some_b, rest), e1, ind + 1, ctx)
            return
        c, ty = self.expr(t, env, ind)
        if ty != 'Bool':
            self.refuse(f'condition of type {ty}', s)
        oe = list(s.orelse)
        if len(body) == 1 and len(oe) == 1 and all(isinstance(b, ast.Assign) and len(b.targets) == 1 and isinstance(b.targets[0], ast.Name)
                                                   for b in (body[0], oe[0])) and body[0].targets[0].id == oe[0].targets[0].id:
            # both branches assign the same variable: one `let` with an `if` expression (no duplication of the continuation)
            n0, tmp0, cnt0 = len(self.lines), self.tmp, dict(self.counter)
            try:
                a, ta = self.expr(body[0].value, env, ind)
                b, tb = self.expr(oe[0].value, env, ind)
                joined = len(self.lines) == n0 and same(ta, tb)
            except NeedMonad:
                joined = False
            if joined:
                return self.assign(body[0].targets[0].id, f'(if {c} then {a} else {b})', ta, rest, env, ind, ctx)
            del self.lines[n0:]
            self.tmp = tmp0
            self.counter.clear(); self.counter.update(cnt0)
        return self.plain_if(c, body, oe, rest, env, ind, ctx)

    def plain_if(self, c, body, orelse, rest, env, ind, ctx):
        self.emit(ind, f'if {c} then')
        self.block(body + rest_unless_exit(body, rest), env, ind + 1, ctx)
        self.emit(ind, 'else')
        self.block(orelse + rest_unless_exit(orelse, rest), env, ind + 1, ctx)

    def for_(self, s, rest, env, ind, ctx):
        if s.orelse:
            self.refuse('for/else', s)
        it, tit = self.expr(s.iter, env, ind)
        tit = prune(tit)
        if not is_list(tit):
            self.refuse(f'loop over a {tit}', s)
        assigned = [v for v in assigned_names(s.body, self.opaque_if) if v in env]
        if not assigned:
            self.refuse('loop that changes no variable of the translated part', s)
        names = [env[v][0] for v in assigned]
        tys = [env[v][1] for v in assigned]
        if self.mode == 'p':
            self.fallible = True
            raise NeedMonad()
        self.fallible = True
        st_ty = tys[0] if len(tys) == 1 else ('Tuple', tuple(tys))
        item = self.fresh('it_')
        st = self.fresh('st_')
        # bind the loop target and the state by projections
        env_b = dict(env)
        binds = []
        self.bind_target(s.target, item, tit[1], env_b, binds, s)
        for k, v in enumerate(assigned):
            env_b[v] = (proj(st, k, len(assigned)), tys[k])
        if id(s) in self.loop_defs:
            lname, params = self.loop_defs[id(s)]
            args = []
            for p, pty in params:
                if p not in env_b:
                    self.refuse(f'loop body uses `{p}` which is not available', s)
                args.append(self.coerce(env_b[p][0], env_b[p][1], pty, s))
            if [p for p, _ in params][-len(assigned):] != assigned:
                self.refuse(f'the loop re-assigns {assigned}, its translated body carries {[p for p, _ in params]}', s)
            self.can_ret = True
            self.tmp += 1
            r = f'r{self.tmp}'
            self.emit(ind, f'let {r} ← Rt.forIn {it} {self.state_tuple(names)} (fun {item} {st} => {lname} ' + ' '.join(args) + ')')
            self.emit(ind, f'match {r} with')
            self.emit(ind, '| .ret r => pure (Flow.ret r)')
            self.emit(ind, f'| .cont {st} =>')
            ind2 = ind + 1
        else:
            sub = Tr(self.where, 'm', units=self.units)
            sub.counter, sub.tmp = self.counter, self.tmp
            sub.block(list(s.body), env_b, ind + 2, ('loop', assigned, tys))
            self.tmp = sub.tmp
            self.uses_str = self.uses_str or sub.uses_str
            if sub.can_ret:
                self.refuse('return inside an inline loop', s)
            self.tmp += 1
            r = f'r{self.tmp}'
            self.emit(ind, f'let {st} ← Rt.forM {it} {self.state_tuple(names)} (fun {item} {st} => do')
            self.lines += sub.lines
            self.lines[-1] += ')'
            ind2 = ind
        env2 = dict(env)
        for k, v in enumerate(assigned):
            n = self.fresh(v)
            self.emit(ind2, f'let {n} := {proj(st, k, len(assigned))}')
            env2[v] = (n, tys[k])
        return self.block(rest, env2, ind2, ctx)

    def bind_target(self, tg, code, ty, env, binds, node):
        ty = prune(ty)
        if isinstance(tg, ast.Name):
            if tg.id != '_':
                env[tg.id] = (code, ty)
            return
        if isinstance(tg, ast.Tuple) and isinstance(ty, tuple) and ty[0] == 'Tuple' and len(ty[1]) == len(tg.elts):
            for k, x in enumerate(tg.elts):
                self.bind_target(x, proj(code, k, len(tg.elts)), ty[1][k], env, binds, node)
            return
        self.refuse('loop target', node)

    def fall_off(self, env, ind, ctx):
        if ctx[0] == 'loop':
            names = [env[v][0] for v in ctx[1]]
            code = self.state_tuple(names)
            if self.can_ret or ctx[-1] == 'flow':
                code = f'(Flow.cont {code})'
            self.finish_pure(ind, code)
            return
        self.refuse('the translated part ends without a value')


class NeedMonad(Exception):
    pass


def proj(code, k, n):
    """k-th component of a right-nested n-tuple"""
    if n == 1:
        return code
    out = code
    for _ in range(k):
        out += '.2'
    if k < n - 1:
        out += '.1'
    return out


def is_print(v):
    if not isinstance(v, ast.Call):
        return False
    f = v.func
    return (isinstance(f, ast.Name) and f.id == 'print') or (isinstance(f, ast.Attribute) and ast.unparse(f) == 'warnings.warn')


def is_diagnostic(s):
    """statements that only feed `print` (allowed before a `raise`, dropped)"""
    if isinstance(s, ast.Expr) and is_print(s.value):
        return True
    if isinstance(s, (ast.Assign, ast.AugAssign)):
        tg = s.targets if isinstance(s, ast.Assign) else [s.target]
        if not all(isinstance(t, ast.Name) for t in tg):
            return False
        return all(isinstance(n, (ast.Name, ast.Constant, ast.BinOp, ast.IfExp, ast.Call, ast.operator, ast.expr_context, ast.Load))
                   and (not isinstance(n, ast.Call) or (isinstance(n.func, ast.Name) and n.func.id in ('len', 'isinstance')))
                   for n in ast.walk(s.value) if not isinstance(n, (ast.operator, ast.expr_context)))
    if isinstance(s, ast.For):
        return all(is_diagnostic(b) for b in s.body) and not s.orelse
    return False


def find_execute(s):
    """the call `self.c.execute(...)` / `self.c.executemany(...)` in a statement, if any"""
    for n in ast.walk(s):
        if isinstance(n, ast.Call) and isinstance(n.func, ast.Attribute) and n.func.attr in ('execute', 'executemany') and \
                ast.unparse(n.func.value) in ('self.c', 'self.conn'):
            return n
    return None


def ends_with_return(body):
    return bool(body) and isinstance(body[-1], (ast.Return, ast.Raise))


def rest_unless_exit(body, rest):
    return [] if ends_with_return(body) else rest


def assigned_names(stmts, skip=None):
    """names (re)assigned by the statements, in order of first assignment (targets of =, +=, .append, x[i] op=);
       the body of an `if` for which `skip` holds (the opaque branch) is not looked into"""
    out = []

    def add(n):
        if n not in out:
            out.append(n)

    def base(t):
        while isinstance(t, ast.Subscript):
            t = t.value
        return t.id if isinstance(t, ast.Name) else None

    def walk(ss):
        for s in ss:
            if isinstance(s, ast.Assign):
                for t in s.targets:
                    for n in ([t] if not isinstance(t, ast.Tuple) else t.elts):
                        b = base(n)
                        if b:
                            add(b)
            elif isinstance(s, ast.AugAssign):
                b = base(s.target)
                if b:
                    add(b)
            elif isinstance(s, ast.Expr) and isinstance(s.value, ast.Call) and isinstance(s.value.func, ast.Attribute) and \
                    s.value.func.attr == 'append' and isinstance(s.value.func.value, ast.Name):
                add(s.value.func.value.id)
            elif isinstance(s, ast.Expr) and isinstance(s.value, ast.Call) and isinstance(s.value.func, ast.Attribute) and \
                    s.value.func.attr == 'append' and isinstance(s.value.func.value, ast.Subscript):
                b = base(s.value.func.value)
                if b:
                    add(b)
            elif isinstance(s, ast.If):
                if not (skip is not None and skip(s)):
                    walk(s.body)
                walk(s.orelse)
            elif isinstance(s, ast.For):
                walk(s.body)
    walk(stmts)
    return out


# ---------------------------------------------------------------------------------------------
# units
# ---------------------------------------------------------------------------------------------

def comment_src(stmts, limit=40):
    src = []
    for s in stmts:
        src += ast.unparse(s).splitlines()
    if len(src) > limit:
        src = src[:limit] + ['...']
    return '\n'.join('--   ' + l for l in src)


def build_def(where, lname, params, doc, src, run, ret_ty_of, units, ret_hint=None):
    """params: [(python name, lean name, type)].  `run(tr, env)` translates into tr.lines; returns nothing.
       Tries a pure definition first; falls back to `Except Err`."""
    last = None
    for mode in ('p', 'm'):
        tr = Tr(where, mode, units=units)
        tr.frag_ty = None
        tr.frag_method = None
        env = {}
        for py, ln, ty in params:
            tr.counter[ln] = 1
            env[py] = (ln, ty)
        try:
            run(tr, env)
        except NeedMonad:
            continue
        last = tr
        break
    if last is None:
        raise Refuse(where, 'internal: neither pure nor monadic')
    tr = last
    ret = ret_ty_of(tr)
    rt = lty(ret)
    if tr.can_ret:
        rt = f'Flow ({rt}) Unit'
    sig_params = ''.join(f' ({ln} : {lty(ty)})' for _, ln, ty in params)
    if tr.uses_str:
        sig_params = ' (str : Val → Py.Str)' + sig_params
    if tr.mode == 'm':
        head = f'def {lname}{sig_params} :\n    Except Err ({rt}) := do'
    else:
        head = f'def {lname}{sig_params} :\n    {rt} :='
    body = [('  ' + l) for l in tr.lines]
    text = f'/-- {doc} -/\n' + (src + '\n' if src else '') + head + '\n' + '\n'.join(body)
    text = substitute_tvars(text)
    return text, tr


def substitute_tvars(text):
    def sub(m):
        tv = TVARS.get(int(m.group(1)))
        t = prune(tv) if tv is not None else None
        if t is None or isinstance(t, TVar):
            raise Refuse('types', 'an empty list whose element type is never fixed')
        return lty_atom(t)
    prev = None
    while prev != text:
        prev = text
        text = re.sub(r'⟦T(\d+)⟧', sub, text)
    return text


def generate():
    refused = []
    units_text = []
    known = {}                    # python function name -> (lean name, [param types], ret type, fallible)

    def do_unit(name, build):
        try:
            text = build()
            units_text.append(unit(name, text))
        except Refuse as r:
            units_text.append(refused_unit(FNAME, name, refused, str(r)))
        except Exception as e:                                      # never let the translator crash
            units_text.append(refused_unit(FNAME, name, refused, f'{type(e).__name__}: {e}'))

    try:
        mod = parse_module('pdb2sqlcore.py')
    except Exception as e:
        mod = None
        mod_err = f'{type(e).__name__}: {e}'

    def fn(qual):
        if mod is None:
            raise Refuse(qual, 'source not parsed: ' + mod_err)
        return find_func(mod, qual)

    def stmts_of(f):
        b = list(f.body)
        if b and isinstance(b[0], ast.Expr) and isinstance(b[0].value, ast.Constant) and isinstance(b[0].value.value, str):
            b = b[1:]
        return b

    # ---- runtime (fixed text) ------------------------------------------------------------------
    def runtime():
        return RUNTIME.strip('\n')

    # ---- _to_sql_value ---------------------------------------------------------------------------
    def to_sql_value():
        f = fn('_to_sql_value')
        if [a.arg for a in f.args.args] != ['v']:
            raise Refuse('_to_sql_value', 'parameters changed')
        text, tr = build_def('_to_sql_value', 'to_sql_value', [('v', 'v', 'Val')], '`_to_sql_value(v)`', comment_src(stmts_of(f)),
                             lambda tr, env: tr.block(stmts_of(f), env, 0, ('fn', 'Val')), lambda tr: 'Val', known)
        known['_to_sql_value'] = ('to_sql_value', ['Val'], 'Val', tr.mode == 'm')
        return text

    # ---- get -------------------------------------------------------------------------------------
    def get_parts():
        f = fn('pdb2sql.get')
        top = None
        for s in f.body:
            if isinstance(s, ast.If) and ast.unparse(s.test) == 'len(kwargs) == 0':
                top = s
        if top is None:
            raise Refuse('pdb2sql.get', '`if len(kwargs) == 0:` not found')
        gen = list(top.orelse)
        loop = None
        for s in gen:
            if isinstance(s, ast.For) and 'kwargs.items()' in ast.unparse(s.iter) and any(
                    isinstance(n, ast.Call) and ast.unparse(n.func) == 'self.get' for n in ast.walk(s)):
                loop = s
        if loop is None:
            raise Refuse('pdb2sql.get', 'the loop over kwargs.items() that builds the conditions was not found')
        start = None
        for k, s in enumerate(gen):
            if isinstance(s, ast.Assign) and len(s.targets) == 1 and isinstance(s.targets[0], ast.Name) and s.targets[0].id == 'query':
                start = k
                break
        if start is None or gen.index(loop) < start:
            raise Refuse('pdb2sql.get', '`query = ...` before the loop not found')
        # what precedes `query = ...` in the generic branch is the validation of the keys (modelled by hand: Model.keyOK)
        for s in gen[:start]:
            if not (isinstance(s, ast.For) and ast.unparse(s.iter) == 'keys'):
                raise Refuse('pdb2sql.get', 'unexpected statement before `query = ...`: ' + ast.unparse(s)[:60])
        return f, top, gen[start:], loop

    def has_get(s):
        return any(isinstance(n, ast.Call) and ast.unparse(n.func) == 'self.get' for n in ast.walk(s))

    def opaque(s):
        """the innermost returning `if` whose body calls self.get (the chunked path)"""
        if not (isinstance(s, ast.If) and ends_with_return(s.body) and any(has_get(b) for b in s.body)):
            return False
        return not any(isinstance(n, ast.If) and n is not s and ends_with_return(n.body) and any(has_get(b) for b in n.body)
                       for n in ast.walk(s))

    def get_all():
        f, top, gen, loop = get_parts()
        params = [('columns', 'columns', 'Str'), ('tablename', 'tablename', 'Str')]

        def run(tr, env):
            tr.block(list(top.body), env, 0, ('frag',))
        text, tr = build_def('pdb2sql.get', 'get_nokw', params,
                             '`get`, no keyword: the text handed to `self.c.execute`', comment_src(top.body), run,
                             lambda tr: tr.frag_ty, known)
        if tr.frag_ty != 'Str' or tr.frag_method != 'execute':
            raise Refuse('pdb2sql.get', 'the no-keyword branch does not end in self.c.execute(query)')
        return text

    COND_PARAMS = [('k', 'k', 'Str'), ('v', 'v', 'Arg'), ('conditions', 'conditions', ('List', 'Str')), ('vals', 'vals', ('List', 'Val'))]

    def get_cond():
        f, top, gen, loop = get_parts()
        before = set(assigned_names(gen[:gen.index(loop)])) | {'columns', 'tablename', 'kwargs'}
        # the loop-carried variables in the order in which the loop body assigns them
        order = [v for v in assigned_names(loop.body, opaque) if v in before]
        if sorted(order) != ['conditions', 'vals']:
            raise Refuse('pdb2sql.get', f'the loop re-assigns {order}, expected vals and conditions')
        params = [('k', 'k', 'Str'), ('v', 'v', 'Arg')] + [(v, v, ('List', 'Str') if v == 'conditions' else ('List', 'Val')) for v in order]

        def run(tr, env):
            tr.opaque_if = opaque
            tr.can_ret = True
            tr.block(list(loop.body), env, 0, ('loop', order, [env[v][1] for v in order], 'flow'))
        text, tr = build_def('pdb2sql.get', 'get_cond', params,
                             '`get`: the body of `for _, (k, v) in enumerate(kwargs.items())` on the loop-carried variables; '
                             '`Flow.ret ()` = the chunked path is taken', comment_src(loop.body, 70), run,
                             lambda tr: ('Tuple', tuple(('List', 'Str') if v == 'conditions' else ('List', 'Val') for v in order)), known)
        if tr.mode != 'm':
            raise Refuse('pdb2sql.get', 'loop body without a fallible step')
        get_cond.order = order
        return text

    def get_query():
        f, top, gen, loop = get_parts()
        order = getattr(get_cond, 'order', None)
        if order is None:
            raise Refuse('pdb2sql.get', 'the loop body was refused')
        params = [('columns', 'columns', 'Str'), ('tablename', 'tablename', 'Str'), ('kwargs', 'kwargs', 'Kwargs')]
        # the loop target must bind k and v
        bound = {n.id for n in ast.walk(loop.target) if isinstance(n, ast.Name)}
        if not {'k', 'v'} <= bound:
            raise Refuse('pdb2sql.get', 'loop target does not bind k and v')

        def run(tr, env):
            tr.loop_defs[id(loop)] = ('get_cond', [('k', 'Str'), ('v', 'Arg')] +
                                      [(v, ('List', 'Str') if v == 'conditions' else ('List', 'Val')) for v in order])
            tr.opaque_if = opaque
            tr.block(gen, env, 0, ('frag',))
        text, tr = build_def('pdb2sql.get', 'get_query', params,
                             '`get`, generic branch, from `query = ...` to `self.c.execute(query, vals)`: the text and the bound values '
                             '(`Flow.ret ()` = the chunked path was taken)', comment_src([s for s in gen if s is not loop], 60), run,
                             lambda tr: tr.frag_ty, known)
        if not same(tr.frag_ty, ('Tuple', ('Str', ('List', 'Val')))) or tr.frag_method != 'execute':
            raise Refuse('pdb2sql.get', 'the generic branch does not end in self.c.execute(query, vals)')
        return text

    def get_rows_step():
        f, top, gen, loop = get_parts()
        branch = None
        for n in ast.walk(loop):
            if isinstance(n, ast.If) and opaque(n):
                branch = n
        if branch is None:
            raise Refuse('pdb2sql.get', 'the chunked branch was not found')
        inner = None
        for s in branch.body:
            if isinstance(s, ast.For) and find_execute(s) is not None:
                inner = s
        if inner is None or not isinstance(inner.target, ast.Name):
            raise Refuse('pdb2sql.get', 'the final loop of the chunked branch was not found')
        # range(0, len(rows), chunck_size): the loop variable steps through the chunk starts
        it = inner.iter
        if not (isinstance(it, ast.Call) and isinstance(it.func, ast.Name) and it.func.id == 'range' and len(it.args) == 3 and
                ast.unparse(it.args[0]) == '0' and isinstance(it.args[2], ast.Name)):
            raise Refuse('pdb2sql.get', 'the final loop is not `for i in range(0, len(rows), chunck_size)`')
        size = it.args[2].id
        m = re.fullmatch(r'len\((\w+)\)', ast.unparse(it.args[1]))
        if not m:
            raise Refuse('pdb2sql.get', 'the final loop does not run over len(rows)')
        rows = m.group(1)
        i = inner.target.id
        params = [('columns', 'columns', 'Str'), ('tablename', 'tablename', 'Str'), (rows, rows, ('List', 'Int')), (i, i, 'Int'),
                  (size, size, 'Int')]

        def run(tr, env):
            tr.block(list(inner.body), env, 0, ('frag',))
        text, tr = build_def('pdb2sql.get', 'get_rows_step', params,
                             f'`get`, chunked path: one turn of `for {i} in range(0, len({rows}), {size})` — the text and the rowids handed '
                             'to `self.c.execute`', comment_src(inner.body), run, lambda tr: tr.frag_ty, known)
        if not same(tr.frag_ty, ('Tuple', ('Str', ('List', 'Int')))) or tr.frag_method != 'execute':
            raise Refuse('pdb2sql.get', 'the final loop does not end in self.c.execute(query, rowid)')
        # the rows must come back through _format_get_output
        last = branch.body[-1]
        if not (isinstance(last, ast.Return) and ast.unparse(last.value) == 'self._format_get_output(data, columns)'):
            raise Refuse('pdb2sql.get', 'the chunked branch does not return self._format_get_output(data, columns)')
        return text

    def format_get_output():
        f = fn('pdb2sql._format_get_output')
        if [a.arg for a in f.args.args] != ['data', 'columns']:
            raise Refuse('_format_get_output', 'parameters changed')
        params = [('data', 'data', ('List', ('List', 'Val'))), ('columns', 'columns', 'Str')]
        text, tr = build_def('pdb2sql._format_get_output', 'format_get_output', params,
                             '`_format_get_output(data, columns)`; the answer is a list of rows or, for one column, a flat list',
                             comment_src(stmts_of(f)), lambda tr, env: tr.block(stmts_of(f), env, 0, ('fn', 'Items')),
                             lambda tr: 'Items', known)
        return text

    # ---- update ----------------------------------------------------------------------------------
    def update_exec():
        f = fn('pdb2sql.update')
        body = stmts_of(f)
        start = None
        for k, s in enumerate(body):
            if isinstance(s, ast.Assign) and len(s.targets) == 1 and isinstance(s.targets[0], ast.Name) and s.targets[0].id == 'query':
                start = k
                break
        if start is None:
            raise Refuse('pdb2sql.update', '`query = ...` not found')
        frag = body[start:]
        params = [('tablename', 'tablename', 'Str'), ('columns', 'columns', ('List', 'Str')), ('values', 'values', ('List', ('List', 'Val'))),
                  ('rowID', 'rowID', ('List', 'Int'))]
        text, tr = build_def('pdb2sql.update', 'update_exec', params,
                             '`update`, from `query = ...` to `self.c.executemany(query, data)`: the statement text and the data rows '
                             '(`columns` is the list of names, `rowID` the answer of `get(\'rowID\', ...)`)', comment_src(frag),
                             lambda tr, env: tr.block(frag, env, 0, ('frag',)), lambda tr: tr.frag_ty, known)
        if not same(tr.frag_ty, ('Tuple', ('Str', ('List', ('List', 'Val'))))) or tr.frag_method != 'executemany':
            raise Refuse('pdb2sql.update', 'does not end in self.c.executemany(query, data)')
        return text

    def update_column_exec():
        f = fn('pdb2sql.update_column')
        if [a.arg for a in f.args.args] != ['self', 'colname', 'values', 'index', 'tablename']:
            raise Refuse('pdb2sql.update_column', 'parameters changed')
        body = stmts_of(f)
        params = [('colname', 'colname', 'Str'), ('values', 'values', ('List', 'Val')), ('index', 'index', ('Opt', ('List', 'Val'))),
                  ('tablename', 'tablename', 'Str')]
        text, tr = build_def('pdb2sql.update_column', 'update_column_exec', params,
                             '`update_column`: the statement text and the data rows handed to `self.c.executemany`', comment_src(body),
                             lambda tr, env: tr.block(body, env, 0, ('frag',)), lambda tr: tr.frag_ty, known)
        if not same(tr.frag_ty, ('Tuple', ('Str', ('List', ('List', 'Val'))))) or tr.frag_method != 'executemany':
            raise Refuse('pdb2sql.update_column', 'does not end in self.c.executemany(query, data)')
        return text

    def add_column_exec():
        f = fn('pdb2sql.add_column')
        if [a.arg for a in f.args.args] != ['self', 'colname', 'coltype', 'value', 'tablename']:
            raise Refuse('pdb2sql.add_column', 'parameters changed')
        body = stmts_of(f)
        params = [('colname', 'colname', 'Str'), ('coltype', 'coltype', 'Str'), ('value', 'value', 'Val'), ('tablename', 'tablename', 'Str')]
        text, tr = build_def('pdb2sql.add_column', 'add_column_exec', params,
                             '`add_column`: the statement text handed to `self.c.execute` (`str` = Python\'s `str` on values)', comment_src(body),
                             lambda tr, env: tr.block(body, env, 0, ('frag',)), lambda tr: tr.frag_ty, known)
        if tr.frag_ty != 'Str' or tr.frag_method != 'execute':
            raise Refuse('pdb2sql.add_column', 'does not end in self.c.execute(query)')
        return text

    # ---- many2sql.get_intersection -----------------------------------------------------------------
    def mod_many():
        try:
            return parse_module('many2sql.py')
        except Exception as e:
            raise Refuse('many2sql.py', f'source not parsed: {type(e).__name__}: {e}')

    def intersection_parts():
        f = find_func(mod_many(), 'many2sql.get_intersection')
        if [a.arg for a in f.args.args] != ['self', 'column', 'match']:
            raise Refuse('many2sql.get_intersection', 'parameters changed')
        body = stmts_of(f)
        if not body or ast.unparse(body[0]) != 'names = self._get_table_names()':
            raise Refuse('many2sql.get_intersection', 'does not start with `names = self._get_table_names()`')
        k = next((i for i, s in enumerate(body) if isinstance(s, (ast.Assign, ast.Expr)) and find_execute(s) is not None), None)
        if k is None or not (isinstance(body[k], ast.Assign) and isinstance(body[k].targets[0], ast.Name)):
            raise Refuse('many2sql.get_intersection', '`raw_data = self.conn.execute(query)` not found')
        return f, body[1:k + 1], body[k].targets[0].id, body[k + 1:]

    def intersection_query():
        f, frag, raw, tail = intersection_parts()
        params = [('names', 'names', ('List', 'Str')), ('column', 'column', 'Str'), ('match', 'match_', ('List', 'Str'))]
        text, tr = build_def('many2sql.get_intersection', 'intersection_query', params,
                             '`many2sql.get_intersection`, from `ntable = len(names)` to `self.conn.execute(query)`: the statement text '
                             '(`names` = `self._get_table_names()`)', comment_src(frag, 60),
                             lambda tr, env: tr.block(frag, env, 0, ('frag',)), lambda tr: tr.frag_ty, known)
        if tr.frag_ty != 'Str' or tr.frag_method != 'execute':
            raise Refuse('many2sql.get_intersection', 'does not end in self.conn.execute(query)')
        return text

    def intersection_ncol():
        f, frag, raw, tail = intersection_parts()
        k = next((i for i, s in enumerate(frag) if isinstance(s, ast.Assign) and len(s.targets) == 1 and
                  isinstance(s.targets[0], ast.Name) and s.targets[0].id == 'ncol'), None)
        if k is None:
            raise Refuse('many2sql.get_intersection', '`ncol = ...` not found before the query')
        ret = ast.Return(value=ast.Name(id='ncol', ctx=ast.Load()))
        ast.copy_location(ret, frag[k]); ast.fix_missing_locations(ret)
        part = frag[:k + 1] + [ret]
        params = [('names', 'names', ('List', 'Str')), ('column', 'column', 'Str')]
        text, tr = build_def('many2sql.get_intersection', 'intersection_ncol', params,
                             '`many2sql.get_intersection`: the number of columns per structure (`ncol`) that the cutting of the joined '
                             'rows uses', comment_src(frag[:k + 1]), lambda tr, env: tr.block(part, env, 0, ('fn', 'Int')),
                             lambda tr: 'Int', known)
        return text

    def intersection_split():
        f, frag, raw, tail = intersection_parts()
        used = {n.id for s in tail for n in ast.walk(s) if isinstance(n, ast.Name)}
        if not {raw, 'ntable', 'ncol'} <= used or used & {'names', 'column', 'match', 'query'}:
            raise Refuse('many2sql.get_intersection', 'the part after the query uses other variables than raw_data, ntable, ncol')
        params = [(raw, raw, ('List', ('List', 'Val'))), ('ntable', 'ntable', 'Int'), ('ncol', 'ncol', 'Int')]
        want = ('List', ('List', ('List', 'Val')))
        text, tr = build_def('many2sql.get_intersection', 'intersection_split', params,
                             '`many2sql.get_intersection`, after the query: the rows of the join cut into one row list per structure',
                             comment_src(tail), lambda tr, env: tr.block(tail, env, 0, ('fn', want)), lambda tr: want, known)
        return text

    do_unit('sql_runtime', runtime)
    do_unit('sql_to_sql_value', to_sql_value)
    do_unit('sql_get_nokw', get_all)
    do_unit('sql_get_cond', get_cond)
    do_unit('sql_get_query', get_query)
    do_unit('sql_get_rows_step', get_rows_step)
    do_unit('sql_format_get_output', format_get_output)
    do_unit('sql_update_exec', update_exec)
    do_unit('sql_update_column_exec', update_column_exec)
    do_unit('sql_add_column_exec', add_column_exec)
    do_unit('sql_intersection_query', intersection_query)
    do_unit('sql_intersection_ncol', intersection_ncol)
    do_unit('sql_intersection_split', intersection_split)

    text = ('/- GENERATED by /verif/py/translate_ext_sql.py from /repo/pdb2sql/pdb2sqlcore.py — do not edit.\n'
            '   The statements of get / _format_get_output / update / update_column / add_column that build the SQL text and the bound\n'
            '   values, translated statement by statement; the meaning of the Python operations on the value model is fixed in the\n'
            '   unit `sql_runtime`.  `Model/MicroSql.lean` says what the emitted text means; `Proofs/Sql*.lean` prove that text + meaning\n'
            '   = the hand model `Model/Table.lean` (re-exported in Props/C03K, C04K, C17K). -/\n'
            'import PdbVerif.Spec.C03\nimport PdbVerif.Gen.Consts\nimport PdbVerif.Py.List\nimport PdbVerif.Py.Num\n\n'
            'set_option linter.unusedVariables false\n\nnamespace GenSql\nopen Tbl\n\n'
            + '\n'.join(units_text) + '\nend GenSql\n')
    return {FNAME: text}, refused


RUNTIME = r'''
/-- exception classes the translated statements raise (`valueError` keeps the message: the caller tells
    'Too many SQL variables' from the other ValueErrors) -/
inductive Err
  | valueError (msg : String) | typeError | indexError
  deriving DecidableEq, Repr, Inhabited

/-- how a translated loop ends: it falls through with the loop-carried variables, or a `return` inside the
    body leaves the function -/
inductive Flow (σ ρ : Type)
  | cont (s : σ)
  | ret (r : ρ)
  deriving DecidableEq, Repr

/- what the Python operations of the translated subset mean on the value model (`Tbl.Val`: int, float as the
   exact rational, str).  Fixed text, not translated. -/
namespace Rt

/-- `for x in xs: body` where the body may `return` -/
def forIn {α σ ρ : Type} : List α → σ → (α → σ → Except Err (Flow σ ρ)) → Except Err (Flow σ ρ)
  | [], s, _ => .ok (.cont s)
  | x :: xs, s, body =>
    match body x s with
    | .error e => .error e
    | .ok (.ret r) => .ok (.ret r)
    | .ok (.cont s') => forIn xs s' body

/-- `for x in xs: body` without `return` -/
def forM {α σ : Type} : List α → σ → (α → σ → Except Err σ) → Except Err σ
  | [], s, _ => .ok s
  | x :: xs, s, body =>
    match body x s with
    | .error e => .error e
    | .ok s' => forM xs s' body

def len {α : Type} (l : List α) : Int := l.length

/-- `range(n)` -/
def range (n : Int) : List Int := (List.range n.toNat).map (fun (k : Nat) => (k : Int))

/-- `range(a, b)` -/
def range2 (a b : Int) : List Int := (List.range (b - a).toNat).map (fun (k : Nat) => a + (k : Int))

/-- `enumerate(xs)` -/
def enumerate {α : Type} (xs : List α) : List (Int × α) := xs.zipIdx.map (fun p => ((p.2 : Int), p.1))

/-- `kwargs.items()` (keyword order) -/
def items (kw : List Kw) : List (Py.Str × Arg) := kw.map (fun k => (k.key, k.arg))

/-- `int(x)` of a float truncates toward zero -/
def ratTrunc (q : Rat) : Int := if q ≥ 0 then q.floor else -((-q).floor)

/-- `v + n` (n an int) -/
def addInt (v : Val) (n : Int) : Except Err Val :=
  match v with
  | .int i => .ok (.int (i + n))
  | .real q => .ok (.real (q + n))
  | .text _ => .error .typeError

/-- `v - n` (n an int) -/
def subInt (v : Val) (n : Int) : Except Err Val :=
  match v with
  | .int i => .ok (.int (i - n))
  | .real q => .ok (.real (q - n))
  | .text _ => .error .typeError

/-- `int(v)` -/
def int (v : Val) : Except Err Int :=
  match v with
  | .int i => .ok i
  | .real q => .ok (ratTrunc q)
  | .text s => match Py.parseInt s with
    | .ok i => .ok i
    | .error _ => .error (.valueError "invalid literal for int()")

/-- `sep.join(parts)` -/
def join (sep : Py.Str) : List Py.Str → Py.Str
  | [] => []
  | [a] => a
  | a :: b :: t => a ++ sep ++ join sep (b :: t)

/-- iterating over a `str` yields its characters as one-character strings -/
def chars (s : Py.Str) : List Py.Str := s.map (fun c => [c])

/-- `l[i]` -/
def getItem {α : Type} (l : List α) (i : Int) : Except Err α :=
  let j : Int := if i < 0 then i + l.length else i
  if j < 0 then .error .indexError
  else match l[j.toNat]? with
    | some x => .ok x
    | none => .error .indexError

/-- `l[i] = x` -/
def setItem {α : Type} (l : List α) (i : Int) (x : α) : Except Err (List α) :=
  let j : Int := if i < 0 then i + l.length else i
  if j < 0 then .error .indexError
  else if j.toNat < l.length then .ok (l.set j.toNat x) else .error .indexError

/-- `l[a:b]` -/
def slice {α : Type} (l : List α) (a b : Int) : List α :=
  (l.take (Py.normIdx l.length b)).drop (Py.normIdx l.length a)

/-- `l.index(x)` -/
def index {α : Type} [BEq α] (l : List α) (x : α) : Except Err Int :=
  match l.idxOf? x with
  | some i => .ok (i : Int)
  | none => .error (.valueError "x not in list")

/-- `isinstance(v, np.generic)`: NumPy scalars are carriers of the same values and are outside the value
    model (the carrier is a dimension of the correspondence run) -/
def isNpGeneric (_ : Val) : Bool := false

/-- `v.item()` -/
def item (v : Val) : Val := v

end Rt
'''
