"""
translate_ext_d.py -- translator plug-in of cluster D (C06, C10, C18).

Emits Gen/MatD.lean: the *glue* statements of superpose.py / transform.py / align.py that the hand models
Model/{Superpose,Transform,Align}.lean follow, as text (`ast.unparse` of each statement).  Pins/D.lean
states the literal text each model was written against; a source edit to the glue makes that file fail to
build, which the check reports as `pin:PdbVerif.Pins.D` (tie #1 lost for the glue, correspondence only).
Pure `ast`; never raises (a missing function becomes a refusal).
"""
import ast, os

REPO = os.environ.get('PDB2SQL_REPO', '/repo')
SRC = os.path.join(REPO, 'pdb2sql')


def _lean_string(s):
    out = []
    for ch in s:
        if ch == '\\':
            out.append('\\\\')
        elif ch == '"':
            out.append('\\"')
        elif ch == '\n':
            out.append('\\n')
        elif ch == '\t':
            out.append('\\t')
        elif ord(ch) < 32 or ord(ch) > 126:
            out.append('\\u{%x}' % ord(ch))
        else:
            out.append(ch)
    return '"' + ''.join(out) + '"'


def _func(mod, name):
    for n in mod.body:
        if isinstance(n, ast.FunctionDef) and n.name == name:
            return n
    raise KeyError(name)


def _stmts(fn, keep=None):
    """unparsed statements of a function body, docstring dropped"""
    out = []
    for s in fn.body:
        if isinstance(s, ast.Expr) and isinstance(s.value, ast.Constant) and isinstance(s.value.value, str):
            continue
        if keep is not None and not keep(s):
            continue
        out.append(ast.unparse(s))
    return out


def _is_elem_assign(s):
    return isinstance(s, ast.Assign) and len(s.targets) == 1 and isinstance(s.targets[0], ast.Subscript)


def _list_def(name, items, doc):
    body = ',\n   '.join(_lean_string(t) for t in items)
    return f'/-- {doc} -/\ndef {name} : List String :=\n  [{body}]\n'


def generate():
    refused = []
    units = []

    def unit(name, build):
        try:
            text = build()
            units.append(f'-- «unit:{name}»\n{text.rstrip()}\n-- «end:{name}»\n')
        except Exception as e:                                  # never let the translator crash
            refused.append((name, f'{type(e).__name__}: {e}'))
            units.append(f'-- «unit:{name}»\n-- REFUSED: {type(e).__name__}: {e}\n-- «end:{name}»\n')

    def load(fname):
        with open(os.path.join(SRC, fname)) as f:
            return ast.parse(f.read())

    def superpose_glue():
        sup = load('superpose.py')
        kab = _stmts(_func(sup, 'get_rotation_matrix_Kabsh'))
        cut = next(i for i, t in enumerate(kab) if t.startswith('A = '))
        quat = _stmts(_func(sup, 'get_rotation_matrix_quaternion'), keep=lambda s: not _is_elem_assign(s))
        disp = _stmts(_func(sup, 'get_rotation_matrix'))
        return '\n'.join([
            _list_def('kabsch_guard_steps', kab[:cut], 'statements of `get_rotation_matrix_Kabsh` before the covariance is formed (the guards)'),
            _list_def('quat_glue_steps', quat, 'statements of `get_rotation_matrix_quaternion` other than the element assignments `F[i, j] = …`, `U[i, j] = …` (those are translated as `Gen.quat_F`, `Gen.quat_rot`)'),
            _list_def('dispatch_steps', disp, 'body of `get_rotation_matrix`')])

    def transform_glue():
        tf = load('transform.py')
        parts = []
        for fn, nm in (('translation', 'translation_steps'), ('rot_axis', 'rot_axis_steps'), ('rot_euler', 'rot_euler_steps'),
                       ('rot_mat', 'rot_mat_steps'), ('_get_xyz', 'get_xyz_steps'), ('_update', 'update_steps'),
                       ('rotate', 'rotate_steps'), ('get_rot_axis_angle', 'rot_axis_angle_steps')):
            parts.append(_list_def(nm, _stmts(_func(tf, fn)), f'body of `transform.{fn}`'))
        rx = _stmts(_func(tf, 'rot_xyz_around_axis'), keep=lambda s: not (isinstance(s, ast.Assign) and ast.unparse(s.targets[0]) == 'rot_mat'))
        parts.append(_list_def('rot_xyz_around_axis_glue', rx, 'statements of `rot_xyz_around_axis` other than the matrix literal (translated as `Gen.rodrigues`)'))
        re_ = _stmts(_func(tf, 'rotation_euler'), keep=lambda s: not (isinstance(s, ast.Assign) and ast.unparse(s.targets[0]) in ('rx', 'ry', 'rz', 'rot_mat')))
        parts.append(_list_def('rotation_euler_glue', re_, 'statements of `rotation_euler` other than the matrices (translated as `Gen.euler_*`)'))
        return '\n'.join(parts)

    def align_glue():
        al = load('align.py')
        parts = []
        for fn, nm in (('align', 'align_main_steps'), ('align_interface', 'align_interface_steps'),
                       ('align_pca_vect', 'align_pca_vect_steps'), ('export_aligned', 'export_aligned_steps')):
            parts.append(_list_def(nm, _stmts(_func(al, fn)), f'body of `align.{fn}`'))
        fn = _func(al, '_align_along_axis')
        top = next(s for s in fn.body if isinstance(s, ast.If))
        cur = top
        while len(cur.orelse) == 1 and isinstance(cur.orelse[0], ast.If):
            cur = cur.orelse[0]
        parts.append(_list_def('align_along_axis_else', [ast.unparse(s) for s in cur.orelse] + [ast.unparse(fn.body[-1])],
                               'the final `else` branch and the return of `_align_along_axis`'))
        return '\n'.join(parts)

    unit('superpose_glue', superpose_glue)
    unit('transform_glue', transform_glue)
    unit('align_glue', align_glue)
    text = ('/- GENERATED by /verif/py/translate_ext_d.py from /repo/pdb2sql — do not edit. -/\n\nnamespace GenD\n\n'
            + '\n'.join(units) + '\nend GenD\n')
    return {'MatD.lean': text}, refused
