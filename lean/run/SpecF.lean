import PdbVerif.Driver.MainSpecF
def main : IO Unit := Driver.mainSpecF
