import PdbVerif.Driver.MainZ
def main : IO Unit := Driver.mainBothZ
