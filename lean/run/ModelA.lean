import PdbVerif.Driver.MainA
def main : IO Unit := Driver.mainBothA
