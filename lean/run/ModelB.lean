import PdbVerif.Driver.MainB
def main : IO Unit := Driver.mainBothB
