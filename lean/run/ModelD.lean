import PdbVerif.Driver.MainD
def main : IO Unit := Driver.mainBothD
