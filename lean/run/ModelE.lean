import PdbVerif.Driver.MainE
def main : IO Unit := Driver.mainBothE
