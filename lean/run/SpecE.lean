import PdbVerif.Driver.MainSpecE
def main : IO Unit := Driver.mainSpecE
