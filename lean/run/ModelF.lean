import PdbVerif.Driver.MainF
def main : IO Unit := Driver.mainBothF
