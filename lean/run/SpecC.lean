import PdbVerif.Driver.MainSpecC
def main : IO Unit := Driver.mainSpecC
