import PdbVerif.Driver.MainSpecZ
def main : IO Unit := Driver.mainSpecZ
