import PdbVerif.Driver.MainSpecA
def main : IO Unit := Driver.mainSpecA
