import PdbVerif.Driver.MainSpecD
def main : IO Unit := Driver.mainSpecD
