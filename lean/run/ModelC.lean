import PdbVerif.Driver.MainC
def main : IO Unit := Driver.mainBothC
