import PdbVerif.Driver.MainSpecG
def main : IO Unit := Driver.mainSpecG
