import PdbVerif.Driver.MainG
def main : IO Unit := Driver.mainBothG
