import PdbVerif.Driver.MainSpecB
def main : IO Unit := Driver.mainSpecB
