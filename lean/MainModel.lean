import PdbVerif.Driver.Main
def main : IO Unit := Driver.mainBoth
