/-
  C09 — translated zone reader (tie #1).  `GenR.read_zone` (Gen/Rmsd.lean) is regenerated from the WHOLE function
  `StructureSimilarity.read_zone` on every run by py/translate_ext_rmsd.py (file test, `readlines`, the loop over the lines with
  the line parser `Gen.read_zone_line` of translate.py and the create-if-missing / append dictionary update); the theorem states
  that it IS the hand model `Model.Rmsd.readZone` the theorems of Props/C09.lean are about, on the lines of an existing file,
  and `FileNotFoundError` otherwise.  The file system is a parameter (`isfile`, `readlines`).
  Statements are those of Proofs/GenRmsdLines.lean, restated through `type_of%`.
-/
import PdbVerif.Proofs.GenRmsdLines

namespace Props.C09K
open Py Model Model.Rmsd

theorem genr_read_zone_eq_model : type_of% @Proofs.GenRmsd.genr_read_zone_eq_model := @Proofs.GenRmsd.genr_read_zone_eq_model

/-! non-vacuity: a zone file with positive, negative and repeated-chain lines -/
def exFile : List Str := ["zone A4-A4\n".toList, "zone B-12-B-12\n".toList, "zone A7-A7\n".toList]

example : (match GenR.read_zone (fun _ => true) (fun _ => .ok exFile) "x.izone".toList with
    | .ok z => z == [("A".toList, [4, 7]), ("B".toList, [-12])] | _ => false) = true := by decide +kernel
example : (match GenR.read_zone (fun _ => false) (fun _ => .ok exFile) "x.izone".toList with
    | .error .fileNotFound => true | _ => false) = true := by decide +kernel
/-- a line without a second word: `line.split()[1]` is an IndexError -/
example : (match GenR.read_zone (fun _ => true) (fun _ => .ok ["zone\n".toList]) [] with
    | .error .indexError => true | _ => false) = true := by decide +kernel

end Props.C09K
