/-
  C09 — alternative routes agree; zone files round-trip.  Property theorems only
  (the string-level proof of the zone round trip is in Proofs/Zone.lean, the route agreement in Proofs/RmsdRoutes.lean;
  Fnat fast = SQL is `Props.C08.fast_eq_sql_fnat`, svd = quaternion is `Props.C06.methods_agree`).
-/
import PdbVerif.Gen.Str
import PdbVerif.Proofs.Zone
import PdbVerif.Proofs.RmsdRoutes

namespace Props.C09
open Py Model Model.Rmsd Spec.Rmsd Proofs.Rmsd Proofs.Msd Proofs.Contacts Proofs.Routes

/-- The line written for one residue is `zone <chain><num>-<chain><num>` + newline, for every chain string and every
    integer (zero and negative included: the sign is part of the number's decimal form). -/
theorem zone_line_format (chain : Str) (num : Int) :
    Gen.zone_line chain num =
      .ok ("zone ".toList ++ chain ++ intStr num ++ ['-'] ++ chain ++ intStr num ++ ['\n']) := by
  rw [Proofs.Zone.zone_line_eq]; simp

/-- **Zone lines round-trip.**  For every one-character chain identifier other than `-` and whitespace and every
    residue number — zero and negative ones included — the line the library writes is read back, by the reader every
    routine uses (`read_zone`; `get_izone_rowID` calls it), as exactly the residue that was written. -/
theorem read_write_zone (c : Char) (n : Int) (hdash : c ≠ '-') (hsp : Py.isSpace c = false) :
    (Gen.zone_line [c] n >>= Gen.read_zone_line) = .ok ([c], n) :=
  Proofs.Zone.read_write_zone c n hdash hsp

/-- A whole zone: every residue of a written zone file is read back, in order. -/
theorem read_write_zone_file (zs : List (Char × Int))
    (h : ∀ z ∈ zs, z.1 ≠ '-' ∧ Py.isSpace z.1 = false) :
    zs.mapM (fun z => Gen.zone_line [z.1] z.2 >>= Gen.read_zone_line) = .ok (zs.map fun z => ([z.1], z.2)) := by
  induction zs with
  | nil => rfl
  | cons z zs ih =>
    have hz := h z (List.mem_cons_self ..)
    have ih' := ih (fun w hw => h w (List.mem_cons_of_mem _ hw))
    rw [List.mapM_cons, read_write_zone z.1 z.2 hz.1 hz.2, ih']
    rfl

example : (Gen.zone_line ['A'] (-3) >>= Gen.read_zone_line) = .ok (['A'], -3) :=
  read_write_zone 'A' (-3) (by decide) (by decide)

/-- The chain identifier `-` is NOT read back (the line format uses `-` as separator): recorded finding C09-F4. -/
theorem read_write_zone_dash_counterexample :
    (Gen.zone_line ['-'] 5 >>= Gen.read_zone_line) ≠ .ok (['-'], 5) :=
  Proofs.Zone.read_write_zone_dash_counterexample

/-! ### route agreement (proved by the RMSD cluster on top of the C07 pair theorems; restated here so that the
    statements stay visible in the property file) -/

/-- **zone_sources_agree.**  For a reference whose chain identifiers are single characters other than `-` and blanks,
    both fast routines return the same outcome — error class and ordered pair lists — whether the zone is computed in
    memory (`izone=None`), computed and written to an absent file, or read from the file such a run left behind. -/
theorem zone_sources_agree (dl rl : List Str) (tdec : Except Err (List Atom)) (ref : List Atom)
    (hw : TableChainsWritable ref) (c : Rat) (check enforce : Bool) :
    irmsdFast dl rl tdec (.ok ref) .write c check enforce = irmsdFast dl rl tdec (.ok ref) .compute c check enforce ∧
    lrmsdFast dl rl tdec (.ok ref) .write check enforce = lrmsdFast dl rl tdec (.ok ref) .compute check enforce ∧
    (∀ text, izoneFileText (.ok ref) c = .ok text →
      irmsdFast dl rl tdec (.ok ref) (.read text) c check enforce = irmsdFast dl rl tdec (.ok ref) .compute c check enforce) ∧
    (∀ text, lzoneFileText (.ok ref) = .ok text →
      lrmsdFast dl rl tdec (.ok ref) (.read text) check enforce = lrmsdFast dl rl tdec (.ok ref) .compute check enforce) :=
  Proofs.Routes.zone_sources_agree dl rl tdec ref hw c check enforce

/-- **zone_sources_agree (SQL i-RMSD).**  On a consistent pair whose reference chains can be written to a zone file, the SQL
    i-RMSD routine returns the same outcome from the zone file a fast run left behind as from the zone it computes itself. -/
theorem irmsdSql_zone_file (dec ref : List Atom) (hc : Consistent dec ref) (hw : TableChainsWritable ref) (c : Rat)
    (text : List Str) (htext : izoneFileText (.ok ref) c = .ok text) :
    irmsdSql (.ok dec) (.ok ref) (some text) c = irmsdSql (.ok dec) (.ok ref) none c :=
  Proofs.Routes.irmsdSql_zone_file dec ref hc hw c text htext

/-- **fast_eq_sql_irmsd.**  On a consistent two-chain pair (raw readers agreeing with the tables), whenever both i-RMSD
    routines return a value they were computed from the same pairs up to order — both lists are permutations of the
    definition's list —: the same deviation under every motion, the same minimum over rigid motions, and, with optimal
    kernels (any method on either side), the same radicand.  With enforcement off the fast routine returns a value exactly
    when the SQL routine does. -/
theorem fast_eq_sql_irmsd (dl rl : List Str) (dec ref : List Atom) (hd : RawAgrees dl dec) (hr : RawAgrees rl ref)
    (hc : Consistent dec ref) (src : ZoneSrc) (hsrc : src = .compute ∨ src = .write) (c : Rat) (enforce : Bool) :
    (∀ ff ef fs es, irmsdFast dl rl (.ok dec) (.ok ref) src c true enforce = .value ff ef →
      irmsdSql (.ok dec) (.ok ref) none c = .value fs es →
      ef = ff ∧ es = fs ∧ (ff.map idPair).Perm (fs.map idPair) ∧
      (∀ g : Motion ℝ, msd g (realPairs (coordsOf ff)) = msd g (realPairs (coordsOf fs))) ∧
      (∀ m : ℝ, IsMinMsd m (realPairs (coordsOf ff)) ↔ IsMinMsd m (realPairs (coordsOf fs))) ∧
      (∀ (rot rot' : List (Vec3 ℝ) → List (Vec3 ℝ) → Except Err (Mat3 ℝ)),
        KernelOptimalAt rot (realPairs (coordsOf ff)) → KernelOptimalAt rot' (realPairs (coordsOf fs)) →
        radicand rot (realPairs (coordsOf ff)) (realPairs (coordsOf ef)) =
          radicand rot' (realPairs (coordsOf fs)) (realPairs (coordsOf es)))) ∧
    (enforce = false →
      ((∃ ff ef, irmsdFast dl rl (.ok dec) (.ok ref) src c true enforce = .value ff ef) ↔
       (∃ fs es, irmsdSql (.ok dec) (.ok ref) none c = .value fs es))) :=
  Proofs.Routes.fast_eq_sql_irmsd dl rl dec ref hd hr hc src hsrc c enforce

/-- **fast_eq_sql_lrmsd.**  Likewise for the L-RMSD: both routines fit on permutations of the same list (common backbone
    atoms of the longer chain of the reference) and evaluate on permutations of the same list (shorter chain); hence the same
    deviations under every motion and the same fit-then-evaluate values; both check residues with the same backbone names, so
    they raise the enforced mismatch together, and they return a value on exactly the same inputs. -/
theorem fast_eq_sql_lrmsd (dl rl : List Str) (dec ref : List Atom) (hd : RawAgrees dl dec) (hr : RawAgrees rl ref)
    (hc : Consistent dec ref) (src : ZoneSrc) (hsrc : src = .compute ∨ src = .write) (enforce : Bool) :
    (∀ ff ef fs es, lrmsdFast dl rl (.ok dec) (.ok ref) src true enforce = .value ff ef →
      lrmsdSql (.ok dec) (.ok ref) enforce = .value fs es →
      (ff.map idPair).Perm (fs.map idPair) ∧ (ef.map idPair).Perm (es.map idPair) ∧
      (∀ g : Motion ℝ, msd g (realPairs (coordsOf ff)) = msd g (realPairs (coordsOf fs)) ∧
                        msd g (realPairs (coordsOf ef)) = msd g (realPairs (coordsOf es))) ∧
      (∀ m : ℝ, IsFitThenEval m (realPairs (coordsOf ff)) (realPairs (coordsOf ef)) ↔
                 IsFitThenEval m (realPairs (coordsOf fs)) (realPairs (coordsOf es)))) ∧
    ((∃ ff ef, lrmsdFast dl rl (.ok dec) (.ok ref) src true enforce = .value ff ef) ↔
     (∃ fs es, lrmsdSql (.ok dec) (.ok ref) enforce = .value fs es)) :=
  Proofs.Routes.fast_eq_sql_lrmsd dl rl dec ref hd hr hc src hsrc enforce

end Props.C09
