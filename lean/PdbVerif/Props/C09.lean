/-
  C09 — alternative routes agree; zone files round-trip.  Property theorems only.
  (The zone-file round trip is proved in Proofs/Zone.lean and re-exported here once it exists.)
-/
import PdbVerif.Gen.Str

namespace Props.C09
open Py

/-- The line written for one residue is `zone <chain><num>-<chain><num>` + newline, for every chain string and every
    integer (zero and negative included: the sign is part of the number's decimal form). -/
theorem zone_line_format (chain : Str) (num : Int) :
    Gen.zone_line chain num =
      .ok ("zone ".toList ++ chain ++ intStr num ++ ['-'] ++ chain ++ intStr num ++ ['\n']) := by
  simp [Gen.zone_line, pure, Except.pure]

end Props.C09
