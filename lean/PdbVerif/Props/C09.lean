/-
  C09 — alternative routes agree; zone files round-trip.  Property theorems only
  (the string-level proof of the zone round trip is in Proofs/Zone.lean).
-/
import PdbVerif.Gen.Str
import PdbVerif.Proofs.Zone

namespace Props.C09
open Py

/-- The line written for one residue is `zone <chain><num>-<chain><num>` + newline, for every chain string and every
    integer (zero and negative included: the sign is part of the number's decimal form). -/
theorem zone_line_format (chain : Str) (num : Int) :
    Gen.zone_line chain num =
      .ok ("zone ".toList ++ chain ++ intStr num ++ ['-'] ++ chain ++ intStr num ++ ['\n']) := by
  simp [Gen.zone_line, pure, Except.pure]

/-- **Zone lines round-trip.**  For every one-character chain identifier other than `-` and whitespace and every
    residue number — zero and negative ones included — the line the library writes is read back, by the reader every
    routine uses (`read_zone`; `get_izone_rowID` calls it), as exactly the residue that was written. -/
theorem read_write_zone (c : Char) (n : Int) (hdash : c ≠ '-') (hsp : Py.isSpace c = false) :
    (Gen.zone_line [c] n >>= Gen.read_zone_line) = .ok ([c], n) :=
  Proofs.Zone.read_write_zone c n hdash hsp

/-- A whole zone: every residue of a written zone file is read back, in order. -/
theorem read_write_zone_file (zs : List (Char × Int))
    (h : ∀ z ∈ zs, z.1 ≠ '-' ∧ Py.isSpace z.1 = false) :
    zs.mapM (fun z => Gen.zone_line [z.1] z.2 >>= Gen.read_zone_line) = .ok (zs.map fun z => ([z.1], z.2)) := by
  induction zs with
  | nil => rfl
  | cons z zs ih =>
    have hz := h z (List.mem_cons_self ..)
    have ih' := ih (fun w hw => h w (List.mem_cons_of_mem _ hw))
    rw [List.mapM_cons, read_write_zone z.1 z.2 hz.1 hz.2, ih']
    rfl

example : (Gen.zone_line ['A'] (-3) >>= Gen.read_zone_line) = .ok (['A'], -3) :=
  read_write_zone 'A' (-3) (by decide) (by decide)

/-- The chain identifier `-` is NOT read back (the line format uses `-` as separator): recorded finding C09-F4. -/
theorem read_write_zone_dash_counterexample :
    (Gen.zone_line ['-'] 5 >>= Gen.read_zone_line) ≠ .ok (['-'], 5) :=
  Proofs.Zone.read_write_zone_dash_counterexample

end Props.C09
