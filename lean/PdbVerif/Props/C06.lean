/-
  C06 — optimal superposition: a proper rotation attaining the minimum RMSD.  Property theorems only.

  `Model.kabsch`, `Model.quaternion` follow the glue code pinned in `Pins/D.lean`; `Gen.quat_F`,
  `Gen.quat_rot`, `Gen.kabsch_eps` are regenerated from /repo on every run.  `np.linalg.svd` /
  `np.linalg.eigh` are parameters whose contracts (`Model.SvdContract`, `Model.EigContract`) are explicit
  hypotheses.  All statements hold over every linearly ordered field (ℚ — what the driver executes —
  and ℝ); the ones needing a square root are over ℝ.
-/
import Mathlib.Analysis.SpecialFunctions.Pow.Real
import PdbVerif.Proofs.Kabsch
import PdbVerif.Proofs.Quat
import PdbVerif.Proofs.Residual
import PdbVerif.Proofs.Cert
import PdbVerif.Proofs.Guards
import PdbVerif.Spec.C06
import PdbVerif.Model.Superpose

set_option linter.unusedSectionVars false
set_option linter.unusedVariables false

namespace Props.C06
open Py Py.Mat3 Spec Model Proofs.Guards

section field
variable {α : Type} [Field α] [LinearOrder α] [IsStrictOrderedRing α]

/-- **Proper.**  Whatever passes the guards, the Kabsch kernel returns a proper rotation: orthogonal,
    determinant +1 — never a reflection — for every covariance (no rank or sign assumption). -/
theorem kabsch_proper (svd : Mat3 α → Mat3 α × Vec3 α × Mat3 α) (eps : α) (P Q : List (Vec3 α)) (U : Mat3 α)
    (hsvd : SvdOK svd P Q) (h : kabsch svd eps P Q = .ok U) : IsRotation U := by
  obtain ⟨_, rfl⟩ := (kabsch_ok_iff svd eps P Q U).1 h
  have R1 : IsRotation (Mat3.one : Mat3 α) := Proofs.M3.rot_one
  exact (Proofs.Kabsch.kabsch _ _ Mat3.one _ _ _ hsvd.orthV hsvd.orthW R1 hsvd.order.1 hsvd.order.2.1 hsvd.order.2.2).1

/-- **Optimal (trace form).**  `tr(R·A) ≤ tr(U·A)` for every proper rotation `R`, `A = PᵀQ/n`. -/
theorem kabsch_optimal (svd : Mat3 α → Mat3 α × Vec3 α × Mat3 α) (eps : α) (P Q : List (Vec3 α)) (U : Mat3 α)
    (hsvd : SvdOK svd P Q) (h : kabsch svd eps P Q = .ok U) :
    ∀ R : Mat3 α, IsRotation R → tr (R.mul (covariance P Q)) ≤ tr (U.mul (covariance P Q)) := by
  obtain ⟨_, rfl⟩ := (kabsch_ok_iff svd eps P Q U).1 h
  intro R hR
  have := (Proofs.Kabsch.kabsch _ _ R _ _ _ hsvd.orthV hsvd.orthW hR hsvd.order.1 hsvd.order.2.1 hsvd.order.2.2).2
  rw [← hsvd.factor] at this
  exact this

/-- `Σ‖U pₖ − qₖ‖² = Σ‖pₖ‖² + Σ‖qₖ‖² − 2·tr(U·PᵀQ)` for every orthogonal `U` and all equally long lists. -/
theorem residual_expand {U : Mat3 α} (hU : Orthogonal U) (P Q : List (Vec3 α)) (hlen : P.length = Q.length) :
    sqResidual U P Q = sumSq P + sumSq Q - 2 * tr (U.mul (dotPtQ P Q)) := by
  rw [Proofs.Residual.dotPtQ_eq]; exact Proofs.Residual.residual_expand hU P Q hlen

/-- **Minimal residual.**  The rotation returned by the Kabsch kernel minimises `Σ‖R pₖ − qₖ‖²` — hence
    the RMSD — over all proper rotations, for every input that passes the guards: planar, linear,
    single-point, identical and mirror-image sets included. -/
theorem rmsd_minimal (svd : Mat3 α → Mat3 α × Vec3 α × Mat3 α) (eps : α) (P Q : List (Vec3 α)) (U : Mat3 α)
    (hsvd : SvdOK svd P Q) (h : kabsch svd eps P Q = .ok U) : OptimalRotation U P Q := by
  have hU := kabsch_proper svd eps P Q U hsvd h
  have hopt := kabsch_optimal svd eps P Q U hsvd h
  obtain ⟨hg, _⟩ := (kabsch_ok_iff svd eps P Q U).1 h
  obtain ⟨hlen, hne, _, _⟩ := (guards_ok_iff eps P Q).1 hg
  have hn := npts_pos (α := α) hne
  refine Proofs.Residual.optimal_of_trace_max hU P Q hlen (fun R hR => ?_)
  have := hopt R hR
  unfold covariance at this
  rw [Proofs.Residual.tr_mul_divScalar, Proofs.Residual.tr_mul_divScalar, Proofs.Residual.dotPtQ_eq] at this
  exact (div_le_div_iff_of_pos_right hn).1 this

/-! ### quaternion kernel -/

/-- a unit quaternion gives a proper rotation (all nine translated entries) -/
theorem quat_proper (q : Vec4 α) (h : Vec4.dot q q = 1) : IsRotation (Gen.quat_rot q.w q.x q.y q.z) :=
  Proofs.Quat.quat_proper q h

/-- the objective of the rotation of `q` is the quadratic form of the translated key matrix: a sign
    error in any of the 16 + 9 translated entries breaks this identity -/
theorem quat_objective (q : Vec4 α) (R : Mat3 α) :
    tr ((Gen.quat_rot q.w q.x q.y q.z).mul R) = Mat4.quad (Gen.quat_F R) q :=
  Proofs.Quat.quat_objective q R

/-- **Quaternion optimal among unit quaternions** (named `_partial` in the design because by itself it
    speaks of rotations of the form `quat_rot r` only; `quat_surjective` below closes the gap over ℝ). -/
theorem quat_optimal_partial (F : Mat4 α) (lam : α) (q : Vec4 α) (R : Mat3 α) (hF : F = Gen.quat_F R)
    (hq : EigContract F lam q) (r : Vec4 α) (hr : Vec4.dot r r = 1) :
    tr ((Gen.quat_rot r.w r.x r.y r.z).mul R) ≤ tr ((Gen.quat_rot q.w q.x q.y q.z).mul R) := by
  rw [quat_objective, quat_objective, ← hF]
  exact Proofs.Quat.eig_max hq r hr

/-- the quaternion kernel returns a proper rotation -/
theorem quaternion_proper (eig : Mat4 α → List (α × Vec4 α)) (eps : α) (P Q : List (Vec3 α)) (U : Mat3 α)
    (heig : EigOK eig P Q) (h : quaternion eig eps P Q = .ok U) : IsRotation U := by
  obtain ⟨_, lq, h1, rfl⟩ := (quaternion_ok_iff eig eps P Q U).1 h
  obtain ⟨lq', h2, hc⟩ := heig
  rw [h1] at h2; cases h2
  exact quat_proper _ hc.unit

/-! ### guards -/

/-- unequally sized input is rejected with `ValueError` by both kernels -/
theorem size_mismatch_rejected (svd : Mat3 α → Mat3 α × Vec3 α × Mat3 α) (eig : Mat4 α → List (α × Vec4 α))
    (eps : α) (P Q : List (Vec3 α)) (h : P.length ≠ Q.length) :
    kabsch svd eps P Q = .error .valueError ∧ quaternion eig eps P Q = .error .valueError := by
  unfold kabsch quaternion guards; simp [h]

/-- **Rejected.**  For n ≥ 1 the kernels raise `ValueError` exactly on the inputs the property says must
    be rejected (unequal sizes, or a centroid coordinate farther than `eps` from 0), and return a matrix
    otherwise. -/
theorem rejected_iff (svd : Mat3 α → Mat3 α × Vec3 α × Mat3 α) (eps : α) (P Q : List (Vec3 α)) (hne : P.length ≠ 0) :
    kabsch svd eps P Q = .error .valueError ↔ MustReject eps P Q := by
  unfold kabsch MustReject
  rw [← uncentred_iff, ← uncentred_iff, guards_eq eps P Q hne]
  by_cases h : P.length ≠ Q.length ∨ uncentred eps P = true ∨ uncentred eps Q = true
  · rw [if_pos h]; simp only [true_iff]; exact h
  · rw [if_neg h]
    constructor
    · intro hh
      simp only at hh
      cases hh
    · intro hh; exact absurd hh h

theorem rejected_iff_quaternion (eig : Mat4 α → List (α × Vec4 α)) (eps : α) (P Q : List (Vec3 α))
    (hne : P.length ≠ 0) (hidx : ∀ F, ((eig F)[argmax ((eig F).map Prod.fst)]?).isSome) :
    quaternion eig eps P Q = .error .valueError ↔ MustReject eps P Q := by
  unfold quaternion MustReject
  rw [← uncentred_iff, ← uncentred_iff, guards_eq eps P Q hne]
  by_cases h : P.length ≠ Q.length ∨ uncentred eps P = true ∨ uncentred eps Q = true
  · rw [if_pos h]; simp only [true_iff]; exact h
  · rw [if_neg h]
    obtain ⟨lq, hlq⟩ := Option.isSome_iff_exists.1 (hidx (Gen.quat_F (dotPtQ P Q)))
    constructor
    · intro hh; simp [hlq] at hh
    · intro hh; exact absurd hh h

/-- uncentred input is rejected -/
theorem uncentred_rejected (svd : Mat3 α → Mat3 α × Vec3 α × Mat3 α) (eps : α) (P Q : List (Vec3 α))
    (hne : P.length ≠ 0) (h : ¬ Centred eps P ∨ ¬ Centred eps Q) : kabsch svd eps P Q = .error .valueError :=
  (rejected_iff svd eps P Q hne).2 (Or.inr h)

end field

/-- the tolerance in the source is the double `1E-6` in both kernels -/
theorem guard_eps : Gen.kabsch_eps = (4722366482869645 : Rat) / 4722366482869645213696 ∧ Gen.quat_eps = Gen.kabsch_eps := by
  unfold Gen.kabsch_eps Gen.quat_eps; exact ⟨rfl, rfl⟩

/-! ### over ℝ: the quaternion kernel is optimal over all proper rotations, both methods agree -/

/-- every proper rotation is the rotation of a unit quaternion -/
theorem quat_surjective (R : Mat3 ℝ) (hR : IsRotation R) :
    ∃ q : Vec4 ℝ, Vec4.dot q q = 1 ∧ Gen.quat_rot q.w q.x q.y q.z = R :=
  Proofs.Quat.quat_surjective R hR

/-- **Quaternion optimal.**  Under the eigenpair contract the quaternion kernel returns a proper rotation
    of minimal residual over *all* proper rotations. -/
theorem quat_optimal (eig : Mat4 ℝ → List (ℝ × Vec4 ℝ)) (eps : ℝ) (P Q : List (Vec3 ℝ)) (U : Mat3 ℝ)
    (heig : EigOK eig P Q) (h : quaternion eig eps P Q = .ok U) : OptimalRotation U P Q := by
  have hU := quaternion_proper eig eps P Q U heig h
  obtain ⟨hg, lq, h1, rfl⟩ := (quaternion_ok_iff eig eps P Q U).1 h
  obtain ⟨lq', h2, hc⟩ := heig
  rw [h1] at h2; cases h2
  obtain ⟨hlen, _, _, _⟩ := (guards_ok_iff eps P Q).1 hg
  refine Proofs.Residual.optimal_of_trace_max hU P Q hlen (fun R hR => ?_)
  obtain ⟨r, hr, rfl⟩ := quat_surjective R hR
  rw [← Proofs.Residual.dotPtQ_eq]
  exact quat_optimal_partial _ _ _ _ rfl hc r hr

/-- **The two methods attain the same minimum.** -/
theorem methods_agree (svd : Mat3 ℝ → Mat3 ℝ × Vec3 ℝ × Mat3 ℝ) (eig : Mat4 ℝ → List (ℝ × Vec4 ℝ))
    (eps eps' : ℝ) (P Q : List (Vec3 ℝ)) (Uk Uq : Mat3 ℝ)
    (hsvd : SvdOK svd P Q) (heig : EigOK eig P Q)
    (hk : kabsch svd eps P Q = .ok Uk) (hq : quaternion eig eps' P Q = .ok Uq) :
    sqResidual Uk P Q = sqResidual Uq P Q := by
  have h1 := rmsd_minimal svd eps P Q Uk hsvd hk
  have h2 := quat_optimal eig eps' P Q Uq heig hq
  exact le_antisymm (h1.2 Uq h2.1) (h2.2 Uk h1.1)

/-- the same statements for the RMSD `√(Σ‖U pₖ − qₖ‖² / n)` -/
theorem rmsd_minimal_sqrt (svd : Mat3 ℝ → Mat3 ℝ × Vec3 ℝ × Mat3 ℝ) (eps : ℝ) (P Q : List (Vec3 ℝ)) (U : Mat3 ℝ)
    (hsvd : SvdOK svd P Q) (h : kabsch svd eps P Q = .ok U) (R : Mat3 ℝ) (hR : IsRotation R) :
    Real.sqrt (sqResidual U P Q / P.length) ≤ Real.sqrt (sqResidual R P Q / P.length) := by
  apply Real.sqrt_le_sqrt
  exact div_le_div_of_nonneg_right ((rmsd_minimal svd eps P Q U hsvd h).2 R hR) (Nat.cast_nonneg _)

/-- **Certificate.**  What the Spec driver evaluates: if `U` is a proper rotation, `M = U·B` is symmetric
    and `tr(M)·I − M` is positive semidefinite, then `U` has minimal residual (B = Σ pₖqₖᵀ). -/
theorem certificate_sound (U : Mat3 ℝ) (P Q : List (Vec3 ℝ)) (hlen : P.length = Q.length) (hU : IsRotation U)
    (hsym : (U.mul (crossCov P Q)).T = U.mul (crossCov P Q))
    (hpsd : ∀ v : Vec3 ℝ, Vec3.dot v ((U.mul (crossCov P Q)).mulVec v) ≤ tr (U.mul (crossCov P Q)) * Vec3.dot v v) :
    OptimalRotation U P Q :=
  Proofs.Residual.optimal_of_trace_max hU P Q hlen (fun R hR => Proofs.Cert.cert_sound U R _ hU hR hsym hpsd)

/-! ### non-vacuity: a mirror-image configuration (`det(W·Vᵀ) = −1`) in exact rationals -/

def exP : List (Vec3 ℚ) := [⟨2,0,0⟩, ⟨-2,0,0⟩, ⟨0,1,0⟩, ⟨0,-1,0⟩, ⟨0,0,1/2⟩, ⟨0,0,-1/2⟩]
/-- the mirror image of `exP` in the xy-plane -/
def exQ : List (Vec3 ℚ) := [⟨2,0,0⟩, ⟨-2,0,0⟩, ⟨0,1,0⟩, ⟨0,-1,0⟩, ⟨0,0,-1/2⟩, ⟨0,0,1/2⟩]
def exSvd : Mat3 ℚ → Mat3 ℚ × Vec3 ℚ × Mat3 ℚ := fun _ => (Mat3.one, ⟨4/3, 1/3, 1/12⟩, Mat3.diag 1 1 (-1))

example : covariance exP exQ = Mat3.diag (4/3) (1/3) (-1/12) := by
  simp [covariance, exP, exQ, dotPtQ, divScalar, Mat3.add, Mat3.outer, Mat3.zero, Mat3.diag]; norm_num
example : Mat3.det (covariance exP exQ) < 0 := by
  simp [covariance, exP, exQ, dotPtQ, divScalar, Mat3.add, Mat3.outer, Mat3.zero, Mat3.det]; norm_num
/-- `det(W·Vᵀ) = −1`: the reflection branch of the code is the one taken -/
example : Mat3.det (Mat3.mul (exSvd (covariance exP exQ)).2.2.T (exSvd (covariance exP exQ)).1.T) = -1 := by
  simp [exSvd, Mat3.det, Mat3.mul, Mat3.T, Mat3.one, Mat3.diag]
example : SvdOK exSvd exP exQ := by
  unfold SvdOK
  refine ⟨?_, ⟨?_, ?_⟩, ⟨?_, ?_⟩, ?_⟩
  · simp [covariance, exP, exQ, dotPtQ, divScalar, Mat3.add, Mat3.outer, Mat3.zero, Mat3.diag, exSvd, Mat3.mul, Mat3.one]
    norm_num
  all_goals simp [exSvd, Mat3.mul, Mat3.T, Mat3.one, Mat3.diag]
  norm_num
/-- the kernel's answer on the mirror-image pair is a proper rotation (here the identity), not the reflection -/
example : kabsch exSvd Gen.kabsch_eps exP exQ = .ok Mat3.one := by
  rw [kabsch_ok_iff]
  refine ⟨?_, ?_⟩
  · rw [guards_ok_iff]
    refine ⟨rfl, by decide, ?_, ?_⟩ <;>
      (simp [uncentred, Model.mean, Model.vsum, exP, exQ, Vec3.add, Vec3.zero, absv, Gen.kabsch_eps]; norm_num)
  · simp [kabschCore, exSvd, Mat3.mul, Mat3.T, Mat3.one, Mat3.diag, Mat3.det]

end Props.C06
