/-
  C01 — the translation tie of the parser (tie #1 for `_create_table` and `read_pdb`).  `Gen/ParseLoop.lean` (namespace `GenP`) is a
  statement-by-statement translation of `pdb2sql._create_table` (table-name clean-up loop, header loop, the record loop with its
  inner loop over `self.col.items()`, the statements handed to the cursor) and of `pdb2sql.read_pdb`, regenerated from
  pdb2sqlcore.py on every run.  The theorems state that the hand model the theorems of Props/C01.lean are about
  (`Model.parseFields`, `Model.parseLines`, `Model.parse`, `Model.readPdb`) IS that translation, for every input, error branches
  inside the equations.  Statements and proofs are those of Proofs/GenParseLoop.lean / GenParseRead.lean, restated through `type_of%`.
-/
import PdbVerif.Proofs.GenParseLoop
import PdbVerif.Proofs.GenParseRead

namespace Props.C01K
open Py Proofs.GenParse

/-- the inner loop over `self.col.items()` = `Model.parseFields` (slice, strip, the four blank-field defaults, conversion by column
    type), for every padded line, every tuple built so far and every column table -/
theorem fields_nf : type_of% @Proofs.GenParse.fields_nf := @Proofs.GenParse.fields_nf
/-- **the record loop** = `Model.parseLines` for EVERY list of lines, start value of the model counter and rows collected so far -/
theorem create_table_for_line_nf : type_of% @Proofs.GenParse.create_table_for_line_nf := @Proofs.GenParse.create_table_for_line_nf
/-- **the rows of the record loop = `Model.parse lines`** (errors included) -/
theorem genp_create_table_rows_eq_model : type_of% @Proofs.GenParse.genp_create_table_rows_eq_model :=
  @Proofs.GenParse.genp_create_table_rows_eq_model
/-- the table-name clean-up loop cannot fail and is a fold of `str.replace` -/
theorem create_table_for_c_nf : type_of% @Proofs.GenParse.create_table_for_c_nf := @Proofs.GenParse.create_table_for_c_nf
/-- … which maps every listed punctuation character to `_` and keeps every other character -/
theorem cleanName_chars : type_of% @Proofs.GenParse.cleanName_chars := @Proofs.GenParse.cleanName_chars
/-- the header / placeholder loop on the column table of this tree -/
theorem header_loop_value : type_of% @Proofs.GenParse.header_loop_value := @Proofs.GenParse.header_loop_value
/-- **`_create_table` in closed form**: CREATE TABLE text on the cleaned name, `read_pdb`, ONE `executemany` of the INSERT text with
    the rows of `Model.parseLines`, `_nModel` = the ENDMDL count -/
theorem create_table_nf : type_of% @Proofs.GenParse.create_table_nf := @Proofs.GenParse.create_table_nf
/-- Python's non-overlapping `str.count` and the model's count of all occurrences agree on the needle `"\nATOM "` -/
theorem count_atom : type_of% @Proofs.GenParse.count_atom := @Proofs.GenParse.count_atom
/-- **`GenP.read_pdb` = `Model.readPdb`** for every input form and every file system -/
theorem genp_read_pdb_eq_model : type_of% @Proofs.GenParse.genp_read_pdb_eq_model := @Proofs.GenParse.genp_read_pdb_eq_model
/-- the input forms outside the model's `Input` type -/
theorem read_other : type_of% @Proofs.GenParse.read_other := @Proofs.GenParse.read_other
theorem read_listOther : type_of% @Proofs.GenParse.read_listOther := @Proofs.GenParse.read_listOther
theorem read_ndarrayOther : type_of% @Proofs.GenParse.read_ndarrayOther := @Proofs.GenParse.read_ndarrayOther

/-! ### non-vacuity: concrete inputs on the non-error branches -/

def l1 : Str := "ATOM      1  CA  ALA A   1       1.000   2.000   3.000  1.00  0.00           C  ".toList
def l2 : Str := "ATOM      2  N   GLY     2       1.500  -2.000   3.250                  SEG1    \n".toList

/-- two records around an ENDMDL: blank occ / temp / chain / element take their defaults, the second row is in model 1 -/
example : GenP._create_table_for_line 0 [] [l1, "REMARK".toList, "ENDMDL".toList, l2] =
    .ok (1, [[.int 1, .text "CA".toList, .text [], .text "ALA".toList, .text "A".toList, .int 1, .text [], .real 1, .real 2, .real 3,
              .real 1, .real 0, .text "C".toList, .int 0],
             [.int 2, .text "N".toList, .text [], .text "GLY".toList, .text "SEG1".toList, .int 2, .text [], .real (3/2), .real (-2),
              .real (13/4), .real 1, .real 10, .text "N".toList, .int 1]]) := by decide +kernel

/-- … and the model says the same -/
example : Model.parse [l1, "REMARK".toList, "ENDMDL".toList, l2] = (GenP._create_table_for_line 0 [] [l1, "REMARK".toList, "ENDMDL".toList, l2]).map (·.2) := by
  decide +kernel

/-- the error branch is inside the equation: an 81-column record is ValueError -/
example : GenP._create_table_for_line 0 [] [l1 ++ "      ".toList] = .error .valueError := by decide +kernel

/-- the clean-up loop on a name with punctuation -/
example : cleanName (GenP.Rt.chars punct) "at-om.1".toList = "at_om_1".toList := by decide +kernel

/-- a whole text with four `"\nATOM "` is accepted and split; with three it is a missing file -/
example : GenP.read_pdb (toFS (fun _ => none)) (.str "X\nATOM a\nATOM b\nATOM c\nATOM d".toList) =
    .ok ["X".toList, "ATOM a".toList, "ATOM b".toList, "ATOM c".toList, "ATOM d".toList] := by decide +kernel
example : GenP.read_pdb (toFS (fun _ => none)) (.str "X\nATOM a\nATOM b\nATOM c".toList) = .error .fileNotFound := by decide +kernel
/-- a file is read line by line (newlines kept), a directory is not a file -/
example : GenP.read_pdb (toFS (fun p => if p = "f".toList then some (.file "a\nb".toList) else none)) (.path "f".toList) =
    .ok ["a\n".toList, "b".toList] := by decide +kernel
example : GenP.read_pdb (toFS (fun p => if p = "d".toList then some .dir else none)) (.str "d".toList) = .error .fileNotFound := by
  decide +kernel
example : GenP.read_pdb (toFS (fun _ => none)) (.listBytes ["ATOM".toList]) = .ok ["ATOM".toList] := by decide +kernel

end Props.C01K
