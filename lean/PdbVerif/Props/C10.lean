/-
  C10 — transforms move exactly the selected atoms by exactly the stated isometry.  Property theorems only.

  `Gen.rodrigues`, `Gen.euler_rx/ry/rz`, `Gen.euler_mat` are regenerated from /repo on every run; the glue
  (`Model.rotate`, `Model.transform`, …) follows the statements pinned in `Pins/D.lean`.  An angle is a pair
  (c, s) with c² + s² = 1; `_real` versions instantiate with `Real.cos`, `Real.sin`.  The algebraic
  statements hold over every field (ℚ is what the driver executes), the order-dependent ones over every
  linearly ordered field.
-/
import Mathlib.Analysis.SpecialFunctions.Trigonometric.Basic
import PdbVerif.Proofs.Transform
import PdbVerif.Proofs.Residual
import PdbVerif.Spec.C10
import PdbVerif.Model.Transform

set_option linter.unusedSectionVars false
set_option linter.unusedVariables false

namespace Props.C10
open Py Py.Mat3 Spec Model Proofs.Rod Proofs.Tr Proofs.M3

section field
variable {α : Type} [Field α] [LinearOrder α] [IsStrictOrderedRing α]

/-! ### the axis–angle matrix -/

/-- the translated Rodrigues matrix is a proper rotation -/
theorem rodrigues_so3 (c s : α) (u : Vec3 α) (hcs : c * c + s * s = 1) (hu : Vec3.normSq u = 1) :
    IsRotation (Gen.rodrigues c s u.x u.y u.z) := rodrigues_rot c s u hcs hu

/-- it fixes its axis -/
theorem rodrigues_fixes_axis (c s : α) (u : Vec3 α) (hu : Vec3.normSq u = 1) :
    (Gen.rodrigues c s u.x u.y u.z).mulVec u = u := by
  rw [rodrigues_mulVec]; exact axisRotate_axis c s u hu

/-- **right-handed by the given angle**: a vector perpendicular to the axis goes to
    `cos·v + sin·(u × v)`.  Reversing the sense of rotation flips the sign of `s` and breaks this. -/
theorem rodrigues_right_handed (c s : α) (u v : Vec3 α) (hv : Vec3.dot u v = 0) :
    (Gen.rodrigues c s u.x u.y u.z).mulVec v = Vec3.add (Vec3.smul c v) (Vec3.smul s (Vec3.cross u v)) := by
  rw [rodrigues_mulVec]; exact axisRotate_perp c s u v hv

/-- on every vector the matrix is the vector form of the right-handed rotation (Spec.axisRotate) -/
theorem rodrigues_is_axisRotate (c s : α) (u p : Vec3 α) :
    (Gen.rodrigues c s u.x u.y u.z).mulVec p = axisRotate c s u p := rodrigues_mulVec c s u p

/-! ### Euler -/

/-- **Euler = z·y·x.**  The translated Euler matrix is `Rz(γ)·(Ry(β)·Rx(α))`, each factor being the
    right-handed Rodrigues rotation about the coordinate axis; so it rotates about x by α, then about y by
    β, then about z by γ (`Spec.eulerRotate`), and it is a proper rotation. -/
theorem euler_is_zyx (ca sa cb sb cg sg : α) :
    Gen.euler_mat ca sa cb sb cg sg =
        (Gen.rodrigues cg sg 0 0 1).mul ((Gen.rodrigues cb sb 0 1 0).mul (Gen.rodrigues ca sa 1 0 0)) ∧
    ∀ p, (Gen.euler_mat ca sa cb sb cg sg).mulVec p = eulerRotate ca sa cb sb cg sg p := by
  refine ⟨?_, euler_mulVec ca sa cb sb cg sg⟩
  unfold Gen.euler_mat
  rw [euler_rx_eq, euler_ry_eq, euler_rz_eq]

theorem euler_so3 (ca sa cb sb cg sg : α) (ha : ca * ca + sa * sa = 1) (hb : cb * cb + sb * sb = 1)
    (hg : cg * cg + sg * sg = 1) : IsRotation (Gen.euler_mat ca sa cb sb cg sg) :=
  euler_rot ca sa cb sb cg sg ha hb hg

/-! ### `rotate` / `translation` on coordinate arrays -/

/-- the centre `rotate` uses -/
def centreOf (center : Option (Vec3 α)) (X : List (Vec3 α)) : Vec3 α :=
  match center with | none => mean X | some c => c

/-- `rotate` applies one point map `p ↦ M(p − c) + c` to every row -/
theorem rotate_pointwise (M : Mat3 α) (center : Option (Vec3 α)) (X : List (Vec3 α)) :
    rotate M center X = X.map (fun p => Vec3.add (M.mulVec (Vec3.sub p (centreOf center X))) (centreOf center X)) := by
  unfold rotate centreOf rotateAbout; cases center <;> rfl

/-- **distances preserved** within the moved set, for a proper rotation and any centre -/
theorem rotate_isometry {M : Mat3 α} (hM : IsRotation M) (c p q : Vec3 α) :
    dist2 (Vec3.add (M.mulVec (Vec3.sub p c)) c) (Vec3.add (M.mulVec (Vec3.sub q c)) c) = dist2 p q :=
  (rigid_about hM c).1 p q

/-- **handedness preserved**: the signed volume of any four moved points is unchanged -/
theorem rotate_preserves_orientation {M : Mat3 α} (hM : IsRotation M) (c o p q r : Vec3 α) :
    orient (Vec3.add (M.mulVec (Vec3.sub o c)) c) (Vec3.add (M.mulVec (Vec3.sub p c)) c)
        (Vec3.add (M.mulVec (Vec3.sub q c)) c) (Vec3.add (M.mulVec (Vec3.sub r c)) c) = orient o p q r :=
  (rigid_about hM c).2 o p q r

/-- **inverse restores**: rotating with the transpose about the same centre gives the original array -/
theorem rotate_inverse {M : Mat3 α} (hM : Orthogonal M) (c : Vec3 α) (X : List (Vec3 α)) :
    rotate M.T (some c) (rotate M (some c) X) = X := rotateAbout_inv hM c X

/-- the default centre — the centroid — is a fixed point of the rotation … -/
theorem centroid_fixed (M : Mat3 α) (X : List (Vec3 α)) (hX : X ≠ []) :
    mean (rotate M none X) = mean X := Proofs.Tr.centroid_fixed M X hX

/-- … so the inverse with the default centre restores too -/
theorem rotate_inverse_default {M : Mat3 α} (hM : Orthogonal M) (X : List (Vec3 α)) (hX : X ≠ []) :
    rotate M.T none (rotate M none X) = X := rotate_default_inv hM X hX

theorem translate_inverse (v : Vec3 α) (X : List (Vec3 α)) : translate (Vec3.neg v) (translate v X) = X :=
  translate_inv v X

theorem translate_rigid (v : Vec3 α) : Rigid (fun p : Vec3 α => Vec3.add p v) := rigid_translate v

/-- **closure under finite composition**: any finite sequence of rigid point maps (translations, proper
    rotations about any centres) composes to a rigid map — distances and handedness are preserved. -/
theorem composition_rigid (gs : List (Vec3 α → Vec3 α)) (h : ∀ g ∈ gs, Rigid g) :
    Rigid (gs.foldl (fun acc g => g ∘ acc) id) := by
  suffices H : ∀ (acc : Vec3 α → Vec3 α), Rigid acc → Rigid (gs.foldl (fun acc g => g ∘ acc) acc) from H id rigid_id
  induction gs with
  | nil => intro acc ha; exact ha
  | cons g gs ih =>
    intro acc ha
    simp only [List.foldl_cons]
    exact ih (fun g' hg' => h g' (List.mem_cons_of_mem _ hg')) _ (rigid_comp (h g (List.mem_cons_self ..)) ha)

/-! ### random axis and angle -/

/-- the axis formula of `get_rot_axis_angle` gives a unit vector -/
theorem random_axis_unit (ct st cp sp : α) (ht : ct * ct + st * st = 1) (hp : cp * cp + sp * sp = 1) :
    Vec3.normSq (randAxis ct st cp sp) = 1 := by
  simp only [randAxis, Vec3.normSq, Vec3.dot]
  linear_combination (sp * sp) * ht + hp

/-- `2π·u ∈ [0, 2π)` for `u ∈ [0, 1)` -/
theorem random_angle_range (twoPi u : α) (hpi : 0 < twoPi) (h0 : 0 ≤ u) (h1 : u < 1) :
    0 ≤ randAngle twoPi u ∧ randAngle twoPi u < twoPi := by
  unfold randAngle
  constructor
  · exact mul_nonneg hpi.le h0
  · calc twoPi * u < twoPi * 1 := mul_lt_mul_of_pos_left h1 hpi
      _ = twoPi := _root_.mul_one _

end field

/-! ### instantiation with real angles -/

theorem rodrigues_right_handed_real (θ : ℝ) (u v : Vec3 ℝ) (hv : Vec3.dot u v = 0) :
    (Gen.rodrigues (Real.cos θ) (Real.sin θ) u.x u.y u.z).mulVec v =
      Vec3.add (Vec3.smul (Real.cos θ) v) (Vec3.smul (Real.sin θ) (Vec3.cross u v)) :=
  rodrigues_right_handed _ _ u v hv

theorem rodrigues_so3_real (θ : ℝ) (u : Vec3 ℝ) (hu : Vec3.normSq u = 1) :
    IsRotation (Gen.rodrigues (Real.cos θ) (Real.sin θ) u.x u.y u.z) :=
  rodrigues_so3 _ _ u (by have := Real.cos_sq_add_sin_sq θ; nlinarith) hu

/-- the random axis of `get_rot_axis_angle` is a unit vector and the angle lies in [0, 2π) -/
theorem random_axis_angle_real (θ φ u : ℝ) (h0 : 0 ≤ u) (h1 : u < 1) :
    Vec3.normSq (randAxis (Real.cos θ) (Real.sin θ) (Real.cos φ) (Real.sin φ)) = 1 ∧
    0 ≤ randAngle (2 * Real.pi) u ∧ randAngle (2 * Real.pi) u < 2 * Real.pi :=
  ⟨random_axis_unit _ _ _ _ (by have := Real.cos_sq_add_sin_sq θ; nlinarith) (by have := Real.cos_sq_add_sin_sq φ; nlinarith),
   random_angle_range _ _ (by positivity) h0 h1⟩

/-! ### the database statement -/

/-- the isometry a transform is stated to be -/
def iso : Transform → Isometry
  | .translation v => .translation v
  | .rotAxis ct st u => .axisAngle ct st u
  | .rotEuler ca sa cb sb cg sg => .euler ca sa cb sb cg sg
  | .rotMat M => .matrix M

/-- what each transform does to the array of selected coordinates is the stated isometry, row by row -/
theorem onXYZ_is_isometry (t : Transform) (X : List (Vec3 ℚ)) : t.onXYZ X = X.map ((iso t).pointMap X) := by
  cases t with
  | translation v => rfl
  | rotAxis ct st u =>
    simp only [Transform.onXYZ, Model.rotAxis, rotate, rotateAbout, iso, Isometry.pointMap, Proofs.Residual.mean_eq]
    apply List.map_congr_left; intro p _
    rw [about_comm]; unfold about; rw [rodrigues_mulVec]
  | rotEuler ca sa cb sb cg sg =>
    simp only [Transform.onXYZ, Model.rotEuler, rotate, rotateAbout, iso, Isometry.pointMap, Proofs.Residual.mean_eq]
    apply List.map_congr_left; intro p _
    rw [about_comm]; unfold about; rw [euler_mulVec]
  | rotMat M =>
    simp only [Transform.onXYZ, rotate, rotateAbout, iso, Isometry.pointMap, Proofs.Residual.mean_eq]
    apply List.map_congr_left; intro p _
    rw [about_comm]

/-- on a non-empty selection the modelled code produces exactly the table the property describes -/
theorem transform_eq_spec (t : Transform) (sel : Sel) (db : List Atom) (hne : (getXYZ sel db).length ≠ 0) :
    transform t sel db = .ok (applyIsometry (iso t) sel db) := by
  unfold transform applyIsometry
  simp only [if_neg hne]
  rw [onXYZ_is_isometry, update_get sel _ db hne, getXYZ_eq]

/-- **moves exactly the selection.**  If the transform returns, the table has the same rows in the same
    order; every unselected row is identical; every selected row keeps all its non-coordinate attributes
    and its coordinates are the image under the stated isometry (through the centroid of the selection). -/
theorem moves_exactly_selection (t : Transform) (sel : Sel) (db db' : List Atom) (h : transform t sel db = .ok db') :
    MovesExactly sel ((iso t).pointMap (selectedXYZ sel db)) db db' := by
  by_cases hne : (getXYZ sel db).length = 0
  · unfold transform at h; simp [hne] at h
  · rw [transform_eq_spec t sel db hne] at h
    cases h
    exact moveSelected_moves sel _ db

/-- on a non-empty selection the transform does return (no spurious error) -/
theorem transform_total (t : Transform) (sel : Sel) (db : List Atom) (hne : (getXYZ sel db).length ≠ 0) :
    ∃ db', transform t sel db = .ok db' := ⟨_, transform_eq_spec t sel db hne⟩

/-- on an empty selection the transform raises before writing anything -/
theorem transform_empty (t : Transform) (sel : Sel) (db : List Atom) (he : (getXYZ sel db).length = 0) :
    transform t sel db = .error t.emptyErr := by
  unfold transform; simp [he]

/-- the stated isometry of each transform is rigid when its parameters are what the property says
    (c² + s² = 1, unit axis, proper matrix) -/
theorem pointMap_rigid (t : Transform) (X : List (Vec3 ℚ))
    (hp : match t with
      | .translation _ => True
      | .rotAxis ct st u => ct * ct + st * st = 1 ∧ Vec3.normSq u = 1
      | .rotEuler ca sa cb sb cg sg => ca * ca + sa * sa = 1 ∧ cb * cb + sb * sb = 1 ∧ cg * cg + sg * sg = 1
      | .rotMat M => IsRotation M) :
    Rigid ((iso t).pointMap X) := by
  cases t with
  | translation v => exact rigid_translate v
  | rotAxis ct st u =>
    have := rigid_about (rodrigues_rot ct st u hp.1 hp.2) (centroid X)
    simp only [iso, Isometry.pointMap]
    convert this using 2 with p
    rw [about_comm]; unfold about; rw [rodrigues_mulVec]
  | rotEuler ca sa cb sb cg sg =>
    have := rigid_about (euler_rot ca sa cb sb cg sg hp.1 hp.2.1 hp.2.2) (centroid X)
    simp only [iso, Isometry.pointMap]
    convert this using 2 with p
    rw [about_comm]; unfold about; rw [euler_mulVec]
  | rotMat M =>
    have := rigid_about hp (centroid X)
    simp only [iso, Isometry.pointMap]
    convert this using 2 with p
    rw [about_comm]

/-- **finite compositions** of transforms with arbitrary selections: if the sequence returns, the table
    has the same rows in the same order and every row keeps all its non-coordinate attributes. -/
theorem sequence_frame (ts : List (Transform × Sel)) (db db' : List Atom) (h : transformSeq ts db = .ok db') :
    db'.length = db.length ∧
    ∀ (i : Nat) (a a' : Atom), db[i]? = some a → db'[i]? = some a' → SameAttrs a a' := by
  induction ts generalizing db with
  | nil =>
    simp only [transformSeq, Except.ok.injEq] at h; subst h
    exact ⟨rfl, fun i a a' h1 h2 => by rw [h1] at h2; cases h2; exact sameAttrs_refl a⟩
  | cons ts rest ih =>
    obtain ⟨t, sel⟩ := ts
    simp only [transformSeq] at h
    cases h1 : transform t sel db with
    | error e => rw [h1] at h; cases h
    | ok db1 =>
      rw [h1] at h
      obtain ⟨hl, hm⟩ := moves_exactly_selection t sel db db1 h1
      obtain ⟨hl2, hm2⟩ := ih db1 h
      refine ⟨by rw [hl2, hl], fun i a a' ha ha' => ?_⟩
      have hi : i < db1.length := by
        rw [hl]; by_contra hc
        rw [List.getElem?_eq_none (by omega)] at ha; cases ha
      obtain ⟨a1, ha1⟩ : ∃ a1, db1[i]? = some a1 := ⟨db1[i], List.getElem?_eq_getElem hi⟩
      refine sameAttrs_trans ?_ (hm2 i a1 a' ha1 ha')
      obtain ⟨hu, hs⟩ := hm i a a1 ha ha1
      cases hsel : sel i a with
      | false => rw [hu hsel]; exact sameAttrs_refl a
      | true => rw [hs hsel]; rfl

/-- no step of the sequence meets an empty selection -/
def NonEmptySeq : List (Transform × Sel) → List Atom → Prop
  | [], _ => True
  | (t, sel) :: rest, db => (getXYZ sel db).length ≠ 0 ∧ NonEmptySeq rest (applyIsometry (iso t) sel db)

/-- the whole sequence produces exactly the table obtained by applying the stated isometries one after
    the other, as long as no selection is empty -/
theorem sequence_eq_spec (ts : List (Transform × Sel)) (db : List Atom) (h : NonEmptySeq ts db) :
    transformSeq ts db = .ok (applyIsometries (ts.map (fun p => (iso p.1, p.2))) db) := by
  induction ts generalizing db with
  | nil => rfl
  | cons ts rest ih =>
    obtain ⟨t, sel⟩ := ts
    obtain ⟨h1, h2⟩ := h
    simp only [transformSeq, transform_eq_spec t sel db h1, List.map_cons, applyIsometries]
    exact ih _ h2

/-! ### non-vacuity -/

def exAtom (serial : Int) (chain : String) (x y z : ℚ) : Atom :=
  { serial := serial, name := "CA".toList, altLoc := [], resName := "ALA".toList, chainID := chain.toList,
    resSeq := serial, iCode := [], x := x, y := y, z := z, occ := 1, temp := 0, element := "C".toList, model := 0 }

def exDb : List Atom := [exAtom 1 "A" 1 0 0, exAtom 2 "B" 5 5 5, exAtom 3 "A" 3 0 0]
def exSel : Sel := fun _ a => a.chainID == "A".toList

/-- a quarter turn about z (c = 0, s = 1) of chain A about its centroid (2,0,0): (1,0,0) ↦ (2,−1,0),
    (3,0,0) ↦ (2,1,0) — counter-clockwise seen from +z; chain B untouched -/
example : transform (.rotAxis 0 1 ⟨0, 0, 1⟩) exSel exDb =
    .ok [exAtom 1 "A" 2 (-1) 0, exAtom 2 "B" 5 5 5, exAtom 3 "A" 2 1 0] := by decide +kernel

example : Vec3.dot (⟨0, 0, 1⟩ : Vec3 ℚ) ⟨1, 0, 0⟩ = 0 := by decide +kernel

end Props.C10
