/-
  C06 — translated kernels (tie #1).  `GenK.*` (Gen/Kernels.lean) is regenerated from the NumPy glue code of the source on
  every run by py/translate_ext_kernels.py; each theorem below states that the regenerated definition IS the hand model the
  theorems of Props/C06.lean are about (or transfers such a theorem), so those theorems hold of the code as it is now.
  Statements are those of Proofs/GenKernels.lean (shown by `#check` in the audit); restated through `type_of%`.
-/
import PdbVerif.Proofs.GenKernels

namespace Props.C06K

theorem genk_kabsch_core_eq_model : type_of% @Proofs.GenKernels.genk_kabsch_core_eq_model := @Proofs.GenKernels.genk_kabsch_core_eq_model
theorem genk_get_rotation_matrix_Kabsh_eq_model : type_of% @Proofs.GenKernels.genk_get_rotation_matrix_Kabsh_eq_model := @Proofs.GenKernels.genk_get_rotation_matrix_Kabsh_eq_model
theorem genk_get_rotation_matrix_Kabsh_lits : type_of% @Proofs.GenKernels.genk_get_rotation_matrix_Kabsh_lits := @Proofs.GenKernels.genk_get_rotation_matrix_Kabsh_lits
theorem genk_kabsch_proper : type_of% @Proofs.GenKernels.genk_kabsch_proper := @Proofs.GenKernels.genk_kabsch_proper
theorem genk_kabsch_optimal : type_of% @Proofs.GenKernels.genk_kabsch_optimal := @Proofs.GenKernels.genk_kabsch_optimal

end Props.C06K
