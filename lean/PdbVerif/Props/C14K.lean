/-
  C14 — `interface.get_contact_residues` (and the residue extension of `get_contact_atoms`) decide contacts with the same
  binary64 test as C05, `np.sqrt(np.sum((xyz2 - x0)**2, 1)) <= cutoff` (interface.py:125; default cutoff 8.5): it equals the exact test
  `d² ≤ c²` of Model / Spec (Props/C14.lean) outside an explicit margin.
  Statements and proofs are those of Proofs/FloatMargin.lean (read its header for what is assumed of the rounding `fl`); restated
  through `type_of%`.  Beside each theorem: a concrete input meeting its hypotheses.
-/
import PdbVerif.Proofs.FloatMargin
import PdbVerif.Proofs.GenContacts

namespace Props.C14K
open Proofs.FloatMargin

/-- `d² ≤ c²(1 − 5u) → r ≤ c` -/
theorem contact_inside : type_of% @Proofs.FloatMargin.contact_inside := @Proofs.FloatMargin.contact_inside
/-- `d² > c²(1 + 8u) → c < r` -/
theorem contact_outside : type_of% @Proofs.FloatMargin.contact_outside := @Proofs.FloatMargin.contact_outside
/-- `|d² − c²| > 8u·c² → (r ≤ c ↔ d² ≤ c²)` -/
theorem contact_decision_eq : type_of% @Proofs.FloatMargin.contact_decision_eq := @Proofs.FloatMargin.contact_decision_eq
/-- binary64, PDB columns, text coordinates: margin `2⁻⁵³·c·(8c + 10⁵)` -/
theorem pdb_decision_eq : type_of% @Proofs.FloatMargin.pdb_decision_eq := @Proofs.FloatMargin.pdb_decision_eq
/-- three-decimal coordinates, decimal cutoff `n/1000`: float decision = integer comparison `Σ Δ² ≤ n²` unless `Σ Δ² = n²` -/
theorem pdb_lattice_decision_eq : type_of% @Proofs.FloatMargin.pdb_lattice_decision_eq := @Proofs.FloatMargin.pdb_lattice_decision_eq

/-! ### non-vacuity -/

example : RoundOK id Set.univ u53 := roundOK_id u53_pos.le

/-- cutoff 8.5: (0,0,0) – (8.5, 0, 2⁻²⁰) is `2⁻⁴⁰ Å²` outside and decided -/
example : 8 * u53 * (17 / 2 : ℝ) ^ 2 < |d2 ⟨0, 0, 0⟩ ⟨17 / 2, 0, 1 / 2 ^ 20⟩ - (17 / 2 : ℝ) ^ 2| := by
  rw [abs_of_pos] <;> norm_num [d2, u53]

/-- text coordinates (-1.000, 2.000, 3.000) – (2.000, 6.000, 3.001), cutoff 5.0: `|D² − c²| = 10⁻⁶ > pdbMargin 5` -/
example : pdbMargin 5 < |d2 (ofMilli (-1000) 2000 3000) (ofMilli 2000 6000 3001) - (5 : ℝ) ^ 2| := by
  rw [pdbMargin_eq, abs_of_pos] <;> norm_num [d2, ofMilli]

example : InBox 10000 (ofMilli (-1000) 2000 3000) := inBox_ofMilli (by decide) (by decide) (by decide)

/-- a cutoff that is NOT a binary64 number, 4.3: `c` is its double, `n = 4300`; the hypothesis on `c` holds of the double of 4.3 -/
example : |(4841369599423283 / 2 ^ 50 : ℝ) - ((4300 : ℤ) : ℝ) / 1000| ≤ u53 * (((4300 : ℤ) : ℝ) / 1000) := by
  rw [abs_le]; constructor <;> norm_num [u53]

end Props.C14K

/-! --------------------------------------------------------------------------------------------------------------------
  APPENDED SECTION — translated residue code (tie #1 for C14).
  `GenC._extend_contact_to_residue` and `GenC.get_contact_residues` (Gen/Contacts.lean) are regenerated from interface.py on every
  run by py/translate_ext_contacts.py.  `list(set(dataA))` has an unspecified order in Python: the generated definitions take the
  iteration order of sets as a PARAMETER `setOrder`, and the theorems hold for every order that keeps the elements (`SetOrderOK`;
  every permutation does) — the result does not depend on it.  The regenerated definitions equal the hand models
  `Model.extendToResidue`, `Model.contactResidueSets`, `Model.contactResiduePairs` the theorems of Props/C14.lean are about, for every
  table and every argument combination.  Statements are those of Proofs/GenContacts.lean, restated through `type_of%`.
-------------------------------------------------------------------------------------------------------------------- -/

namespace Props.C14K
open Proofs.GenContacts

/-- `_extend_contact_to_residue(index1, only_backbone_atoms)` = `Model.extendToResidue`, for every admissible set order -/
theorem genc_extend_contact_to_residue_eq_model : type_of% @Proofs.GenContacts.genc_extend_contact_to_residue_eq_model := @Proofs.GenContacts.genc_extend_contact_to_residue_eq_model
/-- the result does not depend on the iteration order of `set(dataA)` -/
theorem genc_extend_order_irrelevant : type_of% @Proofs.GenContacts.genc_extend_order_irrelevant := @Proofs.GenContacts.genc_extend_order_irrelevant
/-- `extension_is_closure` of Props/C14.lean, for the generated function -/
theorem genc_extend_is_closure : type_of% @Proofs.GenContacts.genc_extend_is_closure := @Proofs.GenContacts.genc_extend_is_closure
/-- `get_contact_atoms(...)` (the call `get_contact_residues` makes, and `extend_to_residue=True`) = `Model.contactAtoms` -/
theorem genc_get_contact_atoms_eq_model : type_of% @Proofs.GenContacts.genc_get_contact_atoms_eq_model := @Proofs.GenContacts.genc_get_contact_atoms_eq_model
/-- `get_contact_residues(...)` = `Model.contactResiduePairs` / `Model.contactResidueSets` (both return forms) -/
theorem genc_get_contact_residues_eq_model : type_of% @Proofs.GenContacts.genc_get_contact_residues_eq_model := @Proofs.GenContacts.genc_get_contact_residues_eq_model
/-- every permutation is an admissible iteration order of a set -/
theorem setOrderOK_of_perm : type_of% @Proofs.GenContacts.setOrderOK_of_perm := @Proofs.GenContacts.setOrderOK_of_perm
/-- the accessor the translation uses for `self.get(cols, rowID=[...])` is the C03 selection (`Spec.selected`) with that condition -/
theorem select_rowID_is_c03 : type_of% @Proofs.GenContacts.select_rowID_is_c03 := @Proofs.GenContacts.select_rowID_is_c03
/-- … and for `self.get(cols, chainID=c, resName=n, resSeq=s)` -/
theorem select_residue_is_c03 : type_of% @Proofs.GenContacts.select_residue_is_c03 := @Proofs.GenContacts.select_residue_is_c03

/-! ### non-vacuity: residues sharing a number but differing in name or chain (kernel evaluation, exact rationals) -/

def gAtom (name res ch : String) (seq : Int) (x y z : Rat) : Py.Atom :=
  { serial := 0, name := name.toList, altLoc := [], resName := res.toList, chainID := ch.toList, resSeq := seq, iCode := [],
    x := x, y := y, z := z, occ := 1, temp := 0, element := [], model := 0 }

/-- residue number 7 four times: ALA 7 of chain A (atoms 0, 1), GLY 7 of chain A (atom 2), ALA 7 of chain B (atoms 3, 4);
    atom 5 is ALA -7 of chain B; atoms 0 and 3 are 3 A apart, everything else is far away -/
def gExRes : List Py.Atom :=
  [ gAtom "CA" "ALA" "A" 7 0 0 0, gAtom "CB" "ALA" "A" 7 40 0 0, gAtom "CA" "GLY" "A" 7 80 0 0,
    gAtom "CA" "ALA" "B" 7 3 0 0, gAtom "O"  "ALA" "B" 7 90 0 0, gAtom "N"  "ALA" "B" (-7) 95 0 0 ]

def gArgsRes : Model.ContactArgs :=
  { cutoff := 3, allchains := false, chain1 := "A".toList, chain2 := "B".toList, extend := false, bb := false, noH := false, retPairs := true }

example : SetOrderOK List.reverse := setOrderOK_reverse
/-- the closure of {atom 0, atom 3}: ALA 7 of chain A and ALA 7 of chain B, not GLY 7 — for both iteration orders of the set -/
example : (match GenC._extend_contact_to_residue id gExRes [0, 3] false with | .ok l => l == [0, 1, 3, 4] | _ => false) = true := by
  decide +kernel
example : (match GenC._extend_contact_to_residue List.reverse gExRes [0, 3] false with | .ok l => l == [0, 1, 3, 4] | _ => false) = true := by
  decide +kernel
/-- … only backbone atoms when contacts are restricted to the backbone -/
example : (match GenC._extend_contact_to_residue id gExRes [0, 3] true with | .ok l => l == [0, 3, 4] | _ => false) = true := by
  decide +kernel
/-- residue pair map at 3 A: ALA 7 of A against ALA 7 of B -/
example : (match GenC.get_contact_residues id gExRes 3 false "A".toList "B".toList false false true with
    | .ok (.inl d) => d == [(("A".toList, 7, "ALA".toList), [("B".toList, 7, "ALA".toList)])] | _ => false) = true := by decide +kernel
/-- per-chain residues -/
example : (match GenC.get_contact_residues id gExRes 3 false "A".toList "B".toList false false false with
    | .ok (.inr d) => d == [("A".toList, [("A".toList, 7, "ALA".toList)]), ("B".toList, [("B".toList, 7, "ALA".toList)])] | _ => false) = true := by
  decide +kernel
/-- … equal to the model's (an instance of the theorem) -/
example : GenC.get_contact_residues id gExRes 3 false "A".toList "B".toList false false true =
    (Model.contactResiduePairs gExRes gArgsRes).map Sum.inl :=
  genc_get_contact_residues_eq_model id setOrderOK_id gExRes gArgsRes

end Props.C14K
