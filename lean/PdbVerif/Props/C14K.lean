/-
  C14 — `interface.get_contact_residues` (and the residue extension of `get_contact_atoms`) decide contacts with the same
  binary64 test as C05, `np.sqrt(np.sum((xyz2 - x0)**2, 1)) <= cutoff` (interface.py:125; default cutoff 8.5): it equals the exact test
  `d² ≤ c²` of Model / Spec (Props/C14.lean) outside an explicit margin.
  Statements and proofs are those of Proofs/FloatMargin.lean (read its header for what is assumed of the rounding `fl`); restated
  through `type_of%`.  Beside each theorem: a concrete input meeting its hypotheses.
-/
import PdbVerif.Proofs.FloatMargin

namespace Props.C14K
open Proofs.FloatMargin

/-- `d² ≤ c²(1 − 5u) → r ≤ c` -/
theorem contact_inside : type_of% @Proofs.FloatMargin.contact_inside := @Proofs.FloatMargin.contact_inside
/-- `d² > c²(1 + 8u) → c < r` -/
theorem contact_outside : type_of% @Proofs.FloatMargin.contact_outside := @Proofs.FloatMargin.contact_outside
/-- `|d² − c²| > 8u·c² → (r ≤ c ↔ d² ≤ c²)` -/
theorem contact_decision_eq : type_of% @Proofs.FloatMargin.contact_decision_eq := @Proofs.FloatMargin.contact_decision_eq
/-- binary64, PDB columns, text coordinates: margin `2⁻⁵³·c·(8c + 10⁵)` -/
theorem pdb_decision_eq : type_of% @Proofs.FloatMargin.pdb_decision_eq := @Proofs.FloatMargin.pdb_decision_eq
/-- three-decimal coordinates, decimal cutoff `n/1000`: float decision = integer comparison `Σ Δ² ≤ n²` unless `Σ Δ² = n²` -/
theorem pdb_lattice_decision_eq : type_of% @Proofs.FloatMargin.pdb_lattice_decision_eq := @Proofs.FloatMargin.pdb_lattice_decision_eq

/-! ### non-vacuity -/

example : RoundOK id Set.univ u53 := roundOK_id u53_pos.le

/-- cutoff 8.5: (0,0,0) – (8.5, 0, 2⁻²⁰) is `2⁻⁴⁰ Å²` outside and decided -/
example : 8 * u53 * (17 / 2 : ℝ) ^ 2 < |d2 ⟨0, 0, 0⟩ ⟨17 / 2, 0, 1 / 2 ^ 20⟩ - (17 / 2 : ℝ) ^ 2| := by
  rw [abs_of_pos] <;> norm_num [d2, u53]

/-- text coordinates (-1.000, 2.000, 3.000) – (2.000, 6.000, 3.001), cutoff 5.0: `|D² − c²| = 10⁻⁶ > pdbMargin 5` -/
example : pdbMargin 5 < |d2 (ofMilli (-1000) 2000 3000) (ofMilli 2000 6000 3001) - (5 : ℝ) ^ 2| := by
  rw [pdbMargin_eq, abs_of_pos] <;> norm_num [d2, ofMilli]

example : InBox 10000 (ofMilli (-1000) 2000 3000) := inBox_ofMilli (by decide) (by decide) (by decide)

/-- a cutoff that is NOT a binary64 number, 4.3: `c` is its double, `n = 4300`; the hypothesis on `c` holds of the double of 4.3 -/
example : |(4841369599423283 / 2 ^ 50 : ℝ) - ((4300 : ℤ) : ℝ) / 1000| ≤ u53 * (((4300 : ℤ) : ℝ) / 1000) := by
  rw [abs_le]; constructor <;> norm_num [u53]

end Props.C14K
