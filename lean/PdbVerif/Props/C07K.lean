/-
  C07 — translated kernels (tie #1).  `GenK.*` (Gen/Kernels.lean) is regenerated from the NumPy glue code of the source on
  every run by py/translate_ext_kernels.py; each theorem below states that the regenerated definition IS the hand model the
  theorems of Props/C07.lean are about (or transfers such a theorem), so those theorems hold of the code as it is now.
  Statements are those of Proofs/GenKernels.lean (shown by `#check` in the audit); restated through `type_of%`.
-/
import PdbVerif.Proofs.GenKernels
import PdbVerif.Proofs.GenRmsdLines
import PdbVerif.Proofs.GenRmsdFast

namespace Props.C07K

theorem genk_get_rmsd_radicand_eq_model : type_of% @Proofs.GenKernels.genk_get_rmsd_radicand_eq_model := @Proofs.GenKernels.genk_get_rmsd_radicand_eq_model
theorem genk_get_rmsd_wrappers : type_of% @Proofs.GenKernels.genk_get_rmsd_wrappers := @Proofs.GenKernels.genk_get_rmsd_wrappers

/-! non-vacuity of the zone computations and the fast routes: a two-chain table (chain A: two residues, chain B: one) -/
def exAtom (serial : Int) (name : String) (chain : String) (resSeq : Int) (x : Rat) : Py.Atom :=
  { serial := serial, name := name.toList, altLoc := [], resName := "ALA".toList, chainID := chain.toList, resSeq := resSeq, iCode := [],
    x := x, y := 0, z := 0, occ := 1, temp := 0, element := "C".toList, model := 0 }
def exTable : List Py.Atom := [exAtom 1 "N" "A" 1 0, exAtom 2 "CA" "A" 1 1, exAtom 3 "CA" "A" 2 2, exAtom 4 "CA" "B" 5 3]

/-- the long chain is A (3 atoms against 1); with `save_file` the zone file of the model's text is the returned effect -/
example : (match GenR.compute_lzone (fun _ => .ok exTable) "ref.pdb".toList true none with
    | .ok (z, w) => z == [("A".toList, [1, 2])] && w == [("ref.lzone".toList, ["zone A1-A1\n".toList, "zone A2-A2\n".toList])]
    | _ => false) = true := by decide +kernel
example : (match GenR.compute_lzone (fun _ => .ok exTable) "ref.pdb".toList false none with
    | .ok (z, w) => z == [("A".toList, [1, 2])] && w == [] | _ => false) = true := by decide +kernel
/-- three chains: ValueError -/
example : (match GenR.compute_lzone (fun _ => .ok (exTable ++ [exAtom 5 "CA" "C" 1 9])) [] false none with
    | .error .valueError => true | _ => false) = true := by decide +kernel
example : (match GenR.compute_izone (fun _ => .ok exTable) (fun _ _ _ _ => .ok [("A".toList, [1, 2]), ("B".toList, [3])]) "r.pdb".toList 10 true (some "z".toList) with
    | .ok (z, w) => z == [("A".toList, [1, 2]), ("B".toList, [5])] && w == [("z".toList, ["zone A1-A1\n".toList, "zone A2-A2\n".toList, "zone B5-B5\n".toList])]
    | _ => false) = true := by decide +kernel

end Props.C07K

/-! --------------------------------------------------------------------------------------------------------------------
  APPENDED SECTION — translated raw-line readers and fast routes (tie #1 for the data flow of C07).
  `GenR.*` (Gen/Rmsd.lean) is regenerated from StructureSimilarity.py on every run by py/translate_ext_rmsd.py; each theorem
  states that the regenerated definition IS the hand model of Model/RmsdCommon.lean / RmsdFast.lean the theorems of
  Props/C07.lean are about — for every list of lines, zone, name list and flag, error branches included.  The models parse all
  ATOM lines first and filter afterwards and keep identity keys beside the coordinates; the equalities are between the
  RETURNED values (keys dropped: `dropKeys`, `map (·.2)`; Python sets: `Rt.set` of the model's list, see `dataRet`).
  Statements are those of Proofs/GenRmsdLines.lean, restated through `type_of%`.
-------------------------------------------------------------------------------------------------------------------- -/

namespace Props.C07K
open Py Model Model.Rmsd Proofs.GenRmsd

/-- `get_data_zone_backbone` (both return forms) = `Model.Rmsd.dataZoneBackbone` -/
theorem genr_get_data_zone_backbone_eq_model : type_of% @Proofs.GenRmsd.genr_get_data_zone_backbone_eq_model := @Proofs.GenRmsd.genr_get_data_zone_backbone_eq_model
/-- `get_xyz_zone_backbone` (both return forms) = `Model.Rmsd.xyzZoneBackbone` -/
theorem genr_get_xyz_zone_backbone_eq_model : type_of% @Proofs.GenRmsd.genr_get_xyz_zone_backbone_eq_model := @Proofs.GenRmsd.genr_get_xyz_zone_backbone_eq_model
/-- `_get_xyz` = `Model.Rmsd.getXyz` (stable sort by identity key) -/
theorem genr_get_xyz_eq_model : type_of% @Proofs.GenRmsd.genr_get_xyz_eq_model := @Proofs.GenRmsd.genr_get_xyz_eq_model

/-- `compute_lzone` = `Model.Rmsd.computeLzone` + `zoneOfResidues`; the file written is the model's `zoneText` -/
theorem genr_compute_lzone_eq_model : type_of% @Proofs.GenRmsd.genr_compute_lzone_eq_model := @Proofs.GenRmsd.genr_compute_lzone_eq_model
/-- `compute_izone` = `computeIzoneWith` (contact routine a parameter) + `zoneOfResidues`; the file written is `zoneText` -/
theorem genr_compute_izone_eq_model : type_of% @Proofs.GenRmsd.genr_compute_izone_eq_model := @Proofs.GenRmsd.genr_compute_izone_eq_model
/-- … and `computeIzoneWith` at the contact model with the arguments of `compute_izone` is `Model.Rmsd.computeIzone` -/
theorem computeIzoneWith_model : type_of% @Proofs.GenRmsd.computeIzoneWith_model := @Proofs.GenRmsd.computeIzoneWith_model
/-- `compute_lrmsd_fast` = zone stage, then the MODEL's list stage (`lrmsdLists`), then the translated kernel -/
theorem genr_compute_lrmsd_fast_stages : type_of% @Proofs.GenRmsd.genr_compute_lrmsd_fast_stages := @Proofs.GenRmsd.genr_compute_lrmsd_fast_stages
/-- `compute_irmsd_fast` likewise (`irmsdLists`) -/
theorem genr_compute_irmsd_fast_stages : type_of% @Proofs.GenRmsd.genr_compute_irmsd_fast_stages := @Proofs.GenRmsd.genr_compute_irmsd_fast_stages
/-- the hand models are `zone stage >>= the same list stage >>= kernelLists` -/
theorem lrmsdFast_model_stages : type_of% @Proofs.GenRmsd.lrmsdFast_model_stages := @Proofs.GenRmsd.lrmsdFast_model_stages
theorem irmsdFast_model_stages : type_of% @Proofs.GenRmsd.irmsdFast_model_stages := @Proofs.GenRmsd.irmsdFast_model_stages

/-! non-vacuity: the generated readers evaluated on concrete records — a blank chain column with a segID (line 2), a negative
    and a four-digit residue number, a non-ATOM record, a short line with free-format numbers, a line too short for column 22 -/
def exL1 : Str := "ATOM      1  N   ALA A   1      11.104   6.134  -6.504  1.00  0.00           N  ".toList
def exL2 : Str := "ATOM      2  CA  ALA     2      11.639   6.071  -5.147  1.00  0.00      B    C  ".toList
def exL3 : Str := "ATOM      3  CB  ALA A  -3      12.000   6.000  -5.000  1.00  0.00           C  ".toList
def exL4 : Str := "HETATM    4  O   HOH A   9      12.000   6.000  -5.000".toList
def exL5 : Str := "ATOM      5  C   GLY A1234       1.5    -2.25     3e0".toList
def exL6 : Str := "ATOM      6  O   GLY A  -3       0.0      0.0     0.0".toList
def exRd (ls : List Str) : Str → Except Err (List Str) := fun _ => .ok ls
def exZone : Zone := [("A".toList, [1, 1234, -3])]
def exNames : List Str := ["C".toList, "CA".toList, "N".toList, "O".toList]

example : (match GenR.get_data_zone_backbone (exRd [exL1, exL2, exL3, exL4, exL5, exL6]) [] exZone true exNames with
    | .ok (.inl p) => p == ([("A".toList, 1, "N".toList), ("A".toList, 1234, "C".toList), ("A".toList, -3, "O".toList)],
                            [("B".toList, 2, "CA".toList)])
    | _ => false) = true := by decide +kernel
example : (match GenR.get_data_zone_backbone (exRd [exL1, exL2]) [] exZone false exNames with
    | .ok (.inr p) => p == [("A".toList, 1, "N".toList)] | _ => false) = true := by decide +kernel
/-- `line[21]` on a short ATOM line is an IndexError, `int('    ')` a ValueError -/
example : (match GenR.get_data_zone_backbone (exRd [exL1, "ATOM  ".toList]) [] exZone true exNames with
    | .error .indexError => true | _ => false) = true := by decide +kernel
example : (match GenR.get_data_zone_backbone (exRd ["ATOM      1  N   ALA A          11.104   6.134  -6.504".toList]) [] exZone true exNames with
    | .error .valueError => true | _ => false) = true := by decide +kernel
example : (match GenR.get_xyz_zone_backbone (exRd [exL1, exL2, exL3, exL4, exL5]) [] exZone true exNames with
    | .ok (.inl p) => p == ([⟨11104/1000, 6134/1000, -6504/1000⟩, ⟨3/2, -9/4, 3⟩], [⟨11639/1000, 6071/1000, -5147/1000⟩])
    | _ => false) = true := by decide +kernel
/-- `_get_xyz` orders by identity key, not by file position -/
example : (match GenR._get_xyz (exRd [exL5, exL1, exL6]) [] [("A".toList, 1234, "C".toList), ("A".toList, -3, "O".toList), ("A".toList, 1, "N".toList)] with
    | .ok l => l == [⟨0, 0, 0⟩, ⟨11104/1000, 6134/1000, -6504/1000⟩, ⟨3/2, -9/4, 3⟩] | _ => false) = true := by decide +kernel
/-- an instance of the theorem -/
example : GenR.get_data_zone_backbone (exRd [exL1, exL2]) [] exZone true exNames =
    exRd [exL1, exL2] [] >>= fun lines => dataZoneBackbone lines exZone exNames >>= fun p => Except.ok (dataRet true p) :=
  genr_get_data_zone_backbone_eq_model _ _ _ _ _

end Props.C07K
