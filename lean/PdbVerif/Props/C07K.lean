/-
  C07 — translated kernels (tie #1).  `GenK.*` (Gen/Kernels.lean) is regenerated from the NumPy glue code of the source on
  every run by py/translate_ext_kernels.py; each theorem below states that the regenerated definition IS the hand model the
  theorems of Props/C07.lean are about (or transfers such a theorem), so those theorems hold of the code as it is now.
  Statements are those of Proofs/GenKernels.lean (shown by `#check` in the audit); restated through `type_of%`.
-/
import PdbVerif.Proofs.GenKernels

namespace Props.C07K

theorem genk_get_rmsd_radicand_eq_model : type_of% @Proofs.GenKernels.genk_get_rmsd_radicand_eq_model := @Proofs.GenKernels.genk_get_rmsd_radicand_eq_model
theorem genk_get_rmsd_wrappers : type_of% @Proofs.GenKernels.genk_get_rmsd_wrappers := @Proofs.GenKernels.genk_get_rmsd_wrappers

end Props.C07K
