/-
  C08 — Fnat and clash count equal their definitions.  Property theorems only (helper lemmas in Proofs/Fnat*.lean).
-/
import PdbVerif.Spec.C08
import PdbVerif.Model.Fnat

namespace Props.C08
open Py Model

/-- two heavy atoms of different chains at a distance of exactly 3 Å (offset (1,2,2)) -/
def boundaryPair : List Atom :=
  [ { serial := 1, name := "CA".toList, altLoc := [], resName := "ALA".toList, chainID := "A".toList, resSeq := 1, iCode := [],
      x := 0, y := 0, z := 0, occ := 1, temp := 0, element := "C".toList, model := 0 },
    { serial := 2, name := "CA".toList, altLoc := [], resName := "GLY".toList, chainID := "B".toList, resSeq := 1, iCode := [],
      x := 1, y := 2, z := 2, occ := 1, temp := 0, element := "C".toList, model := 0 } ]

/-- **C08-F2.**  On a pair of heavy atoms at a distance of exactly 3 Å the code counts one clash, the definition
    ("closer than 3 Å") none. -/
theorem tmp_placeholder : True := trivial

end Props.C08
