/-
  C08 — Fnat and clash count equal their definitions; Fnat is a fraction in [0,1].  Property theorems only
  (helper lemmas in Proofs/Fnat*.lean, built on cluster C's closed forms of the contact routines).

  Model: `Model.Fnat.fnatFast` (reference table × raw decoy lines), `Model.Fnat.fnatSql` (two tables, `_fix_chainID` included),
  `Model.Fnat.clashes`.  Spec: `Spec.C08.fnat`, `Spec.C08.clashes` (residue = (chain, number); hydrogen = name starts with H).
  `Model.Fnat.orZeroDiv` turns the Spec's "undefined" (no reference contact) into the `ZeroDivisionError` both routines raise.

  Side conditions the proofs force, all decidable and reported per case by the drivers:
    * `IsTwoChain ref X Y`               the reference is a two-chain complex (chains X < Y);
    * `IsTwoChain dec X Y`  (SQL route)  the decoy has the same two chain identifiers (`_fix_chainID` renames by rank);
    * `NamesConsistent (ref ++ dec)`     a residue (chain, number) carries one residue name throughout both files
                                         (the code's residue keys contain the name, the property's residues do not);
    * `RawAgrees lines dec` (fast route) the raw-column reader sees the rows of the decoy table (false e.g. for a chain given
                                         by a multi-character segID).
-/
import PdbVerif.Proofs.FnatDomain

set_option linter.unusedSectionVars false
set_option linter.unusedVariables false

namespace Props.C08
open Py Model Model.Fnat
open Spec.C08 (IsTwoChain NamesConsistent contacts inContact resOf)
open Proofs.Fnat (RawAgrees NoBoundaryPair)

/-- **Fast route = definition.**  For every reference/decoy pair in the domain and every cutoff, `compute_fnat_fast` returns
    the definition's value (six decimals), and raises `ZeroDivisionError` exactly when there is no reference contact. -/
theorem fnat_fast_eq_def {ref dec : List Atom} {lines : List Str} {X Y : Str} (c : Rat)
    (href : IsTwoChain ref X Y) (hnames : NamesConsistent (ref ++ dec)) (hraw : RawAgrees lines dec) :
    fnatFast ref lines c = orZeroDiv (Spec.C08.fnat c ref dec) :=
  Proofs.Fnat.fnatFast_eq c (Proofs.Fnat.getChains_of_twoChain href) hnames hraw

/-- **SQL route = definition**, `fix_chainID=True` included. -/
theorem fnat_sql_eq_def {ref dec : List Atom} {X Y : Str} (c : Rat)
    (href : IsTwoChain ref X Y) (hdec : IsTwoChain dec X Y) (hnames : NamesConsistent (ref ++ dec)) :
    fnatSql ref dec c = orZeroDiv (Spec.C08.fnat c ref dec) :=
  Proofs.Fnat.fnatSql_eq c (Proofs.Fnat.getChains_of_twoChain href) (Proofs.Fnat.getChains_of_twoChain hdec) hnames

/-- **The two routes agree** wherever both theorems apply. -/
theorem fast_eq_sql_fnat {ref dec : List Atom} {lines : List Str} {X Y : Str} (c : Rat)
    (href : IsTwoChain ref X Y) (hdec : IsTwoChain dec X Y) (hnames : NamesConsistent (ref ++ dec)) (hraw : RawAgrees lines dec) :
    fnatFast ref lines c = fnatSql ref dec c := by
  rw [fnat_fast_eq_def c href hnames hraw, fnat_sql_eq_def c href hdec hnames]

/-- **Fnat ∈ [0,1]** — for EVERY input on which a route returns a value (no side condition at all: the counters of the
    code satisfy `nCommon ≤ nTotal` by construction). -/
theorem fnat_in_unit_interval :
    (∀ (ref : List Atom) (lines : List Str) (c v : Rat), fnatFast ref lines c = .ok v → 0 ≤ v ∧ v ≤ 1) ∧
    (∀ (ref dec : List Atom) (c v : Rat), fnatSql ref dec c = .ok v → 0 ≤ v ∧ v ≤ 1) :=
  ⟨fun _ _ _ _ h => Proofs.Fnat.fnatFast_unit h, fun _ _ _ _ h => Proofs.Fnat.fnatSql_unit h⟩

/-- the definition itself is a fraction in [0,1] -/
theorem spec_fnat_in_unit_interval (c : Rat) (ref dec : List Atom) (v : Rat) (h : Spec.C08.fnat c ref dec = some v) :
    0 ≤ v ∧ v ≤ 1 := by
  have := Proofs.Fnat.spec_fnat_eq c ref dec
  rw [h] at this
  refine Proofs.Fnat.ratio_unit this.symm ?_
  unfold Spec.C08.preserved
  exact List.length_filter_le _ _

/-- **Fnat = 1 when the decoy is the reference** (both routes), as soon as there is a reference contact. -/
theorem fnat_self_one {ref : List Atom} {lines : List Str} {X Y : Str} (c : Rat)
    (href : IsTwoChain ref X Y) (hnames : NamesConsistent ref) (hraw : RawAgrees lines ref) (hc : contacts c ref ≠ []) :
    fnatFast ref lines c = .ok 1 ∧ fnatSql ref ref c = .ok 1 := by
  have hn2 := Proofs.Fnat.namesConsistent_self hnames
  rw [fnat_fast_eq_def c href hn2 hraw, fnat_sql_eq_def c href href hn2, Proofs.Fnat.spec_fnat_self c ref hc]
  exact ⟨rfl, rfl⟩

/-- **A contact whose residue is absent from the decoy is not preserved** (it stays in the denominator: `contacts c ref` does
    not depend on the decoy). -/
theorem absent_residue_not_preserved (c : Rat) (dec : List Atom) (r₁ r₂ : Spec.C08.Res)
    (h : (∀ a ∈ dec, resOf a ≠ r₁) ∨ (∀ a ∈ dec, resOf a ≠ r₂)) : inContact c dec r₁ r₂ = false := by
  cases hc : inContact c dec r₁ r₂ with
  | false => rfl
  | true =>
    obtain ⟨_, a, ha, b, hb, hra, hrb, _⟩ := Proofs.Fnat.inContact_iff.1 hc
    rcases h with h | h
    · exact absurd hra (h a ha)
    · exact absurd hrb (h b hb)

/-- **Clash count = definition (partial).**  On a two-chain structure, called with its two chains, `compute_clashes` returns
    the number of inter-chain pairs of non-hydrogen atoms closer than 3 Å — PROVIDED no such pair is at a distance of exactly
    3 Å.  (Full property: without that proviso.  It is false then: the code tests `≤ 3.0`, see the counterexample below.) -/
theorem clashes_eq_def_partial {t : List Atom} {X Y : Str} (ht : IsTwoChain t X Y) (hb : NoBoundaryPair t) :
    clashes t X Y = .ok (Spec.C08.clashes t) :=
  Proofs.Fnat.clashes_eq (Proofs.Fnat.getChains_of_twoChain ht) hb

def exAtom (serial : Int) (name : String) (chain : String) (resName : String) (resSeq : Int) (x y z : Rat) : Atom :=
  { serial := serial, name := name.toList, altLoc := [], resName := resName.toList, chainID := chain.toList, resSeq := resSeq,
    iCode := [], x := x, y := y, z := z, occ := 1, temp := 0, element := "C".toList, model := 0 }

/-- two heavy atoms of different chains at a distance of exactly 3 Å (offset (1,2,2)) -/
def boundaryPair : List Atom := [exAtom 1 "CA" "A" "ALA" 1 0 0 0, exAtom 2 "CA" "B" "GLY" 1 1 2 2]

open Proofs.Fnat in
/-- **C08-F2.**  On a pair of heavy atoms at a distance of exactly 3 Å the code counts one clash, the definition
    ("closer than 3 Å") none. -/
theorem clashes_boundary_counterexample :
    clashes boundaryPair "A".toList "B".toList = .ok 1 ∧ Spec.C08.clashes boundaryPair = 0 ∧
      IsTwoChain boundaryPair "A".toList "B".toList := by
  refine ⟨by decide +kernel, by decide +kernel, ⟨by decide +kernel, by decide +kernel,
    ⟨exAtom 1 "CA" "A" "ALA" 1 0 0 0, by decide +kernel, rfl⟩, ⟨exAtom 2 "CA" "B" "GLY" 1 1 2 2, by decide +kernel, rfl⟩⟩⟩

/-! ### non-vacuity: a concrete reference/decoy pair satisfying every hypothesis above

  reference: chain A residues 1 (N, CA, H) and 2 (CA); chain B residues 7 (CA, CB) and 8 (CA).  Contacts at 5 Å: (A1,B7) — CA–CA at
  distance exactly 5 (offset (3,4,0)) — and (A2,B8).  decoy: residue B8 is missing and B7's CA moved away, its CB moved in. -/

def exRef : List Atom :=
  [exAtom 1 "N" "A" "ALA" 1 0 0 0, exAtom 2 "CA" "A" "ALA" 1 1 0 0, exAtom 3 "H" "A" "ALA" 1 1 1 0, exAtom 4 "CA" "A" "GLY" 2 20 0 0,
   exAtom 5 "CA" "B" "SER" 7 4 4 0, exAtom 6 "CB" "B" "SER" 7 9 9 9, exAtom 7 "CA" "B" "LEU" 8 20 3 0]

def exDecLines : List Str := [
  "ATOM      1  N   ALA A   1       0.000   0.000   0.000  1.00  0.00           C  \n".toList,
  "ATOM      2  CA  ALA A   1       1.000   0.000   0.000  1.00  0.00           C  \n".toList,
  "REMARK a record the readers skip\n".toList,
  "ATOM      4  CA  GLY A   2      20.000   0.000   0.000  1.00  0.00           C  \n".toList,
  "ATOM      5  CA  SER B   7      14.000   4.000   0.000  1.00  0.00           C  \n".toList,
  "ATOM      6  CB  SER B   7       2.500   2.000   1.000  1.00  0.00           C  \n".toList]

/-- the decoy table -/
def exDec : List Atom :=
  [exAtom 1 "N" "A" "ALA" 1 0 0 0, exAtom 2 "CA" "A" "ALA" 1 1 0 0, exAtom 4 "CA" "A" "GLY" 2 20 0 0,
   exAtom 5 "CA" "B" "SER" 7 14 4 0, exAtom 6 "CB" "B" "SER" 7 (5/2) 2 1]

open Proofs.Fnat in
/-- it is what the parser makes of `exDecLines`, and what the raw-column reader of the fast route sees -/
example : tableOfLines exDecLines = .ok exDec ∧ RawAgrees exDecLines exDec := by
  constructor
  · decide +kernel
  · unfold RawAgrees; decide +kernel
open Proofs.Fnat in
example : IsTwoChain exRef "A".toList "B".toList ∧ IsTwoChain exDec "A".toList "B".toList :=
  ⟨⟨by decide +kernel, by decide +kernel, ⟨exAtom 1 "N" "A" "ALA" 1 0 0 0, by decide +kernel, rfl⟩, ⟨exAtom 5 "CA" "B" "SER" 7 4 4 0, by decide +kernel, rfl⟩⟩,
   Proofs.Fnat.twoChain_of_getChains (by decide +kernel)⟩
example : NamesConsistent (exRef ++ exDec) := by decide +kernel
example : contacts 5 exRef = [(("A".toList, 1), ("B".toList, 7)), (("A".toList, 2), ("B".toList, 8))] := by decide +kernel
/-- one of the two reference contacts is preserved (through another atom pair), the other lost its residue: Fnat = 0.5 -/
example : Spec.C08.fnat 5 exRef exDec = some (1/2) := by decide +kernel
open Proofs.Fnat in
example : fnatFast exRef exDecLines 5 = .ok (1/2) ∧ fnatSql exRef exDec 5 = .ok (1/2) := by
  constructor <;> decide +kernel
example : NoBoundaryPair exDec := by unfold NoBoundaryPair; decide +kernel

end Props.C08
