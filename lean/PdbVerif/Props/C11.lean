/-
  C11 — invariances of the scores.  Property theorems only.
-/
import PdbVerif.Spec.C11

namespace Props.C11
open Py

theorem ignored_columns_are_the_documented_ones (i : Nat) :
    Spec.Inv.ignoredColumn i = true ↔ (7 ≤ i + 1 ∧ i + 1 ≤ 11) ∨ (55 ≤ i + 1 ∧ i + 1 ≤ 66) ∨ (77 ≤ i + 1 ∧ i + 1 ≤ 78) := by
  simp [Spec.Inv.ignoredColumn]; omega

end Props.C11
