/-
  C11 — scores are invariant under changes that do not alter the structural relation.  Property theorems only
  (helper lemmas: Proofs/Rmsd*.lean).

  Metamorphic statements about the definitions (`Spec.Rmsd.*` of C07, `Spec.C08.fnat / clashes`) and about the
  hand-written models of the routines (`Model.Rmsd.*`, and cluster C's `Model.contactRun` = `get_contact_atoms`), which
  are tied to the code by the correspondence checks of C05 / C07 / C08 / C11.  The implementation itself is run on every
  generated pair and on its transformed copy by py/props/c11.py.

  A model run returns the ordered coordinate pairs it hands to the kernel; `mapOutcome mD mR` moves the decoy points of
  an outcome by `mD` and the reference points by `mR` and leaves identities, order and error class untouched.  The value
  is a function of the pairs (C07: `irmsd_is_min`, `lrmsd_is_fit_then_eval`), and `IsMinMsd` / `IsFitThenEval` do not
  notice a rigid motion of either side (`rigid_invariant_value`).
-/
import PdbVerif.Proofs.RmsdScores
import PdbVerif.Proofs.RmsdDemo
import PdbVerif.Props.C07

set_option linter.unusedVariables false
set_option linter.unusedSectionVars false
set_option linter.unusedTactic false
set_option linter.unusedSimpArgs false

namespace Props.C11
open Py Model Model.Rmsd Spec.Rmsd Spec.Inv Proofs.Rmsd Proofs.Msd Proofs.Motion Proofs.Scores

theorem ignored_columns_are_the_documented_ones (i : Nat) :
    ignoredColumn i = true ↔ (7 ≤ i + 1 ∧ i + 1 ≤ 11) ∨ (55 ≤ i + 1 ∧ i + 1 ≤ 66) ∨ (77 ≤ i + 1 ∧ i + 1 ≤ 78) := by
  simp [ignoredColumn]; omega

/-! ### 1. rigid motion of the decoy, or of decoy and reference together -/

/-- **The definition's pairs.**  Moving the decoy by ANY motion `g` moves the decoy point of every pair and changes nothing
    else (which atoms, which order); moving decoy and reference together by a RIGID motion moves both points of every
    pair — in particular the interface (defined through distances) is the same. -/
theorem rigid_invariant_pairs (g : Motion Rat) (dec ref : List Atom) (c : Rat) :
    interfacePairs (move g dec) ref c = (interfacePairs dec ref c).map (moveDecoy g) ∧
    ligandFitPairs (move g dec) ref = (ligandFitPairs dec ref).map (moveDecoy g) ∧
    ligandEvalPairs (move g dec) ref = (ligandEvalPairs dec ref).map (moveDecoy g) ∧
    (g.IsRigid →
      interfacePairs (move g dec) (move g ref) c = (interfacePairs dec ref c).map (moveBoth g) ∧
      ligandFitPairs (move g dec) (move g ref) = (ligandFitPairs dec ref).map (moveBoth g) ∧
      ligandEvalPairs (move g dec) (move g ref) = (ligandEvalPairs dec ref).map (moveBoth g)) :=
  ⟨interfacePairs_moveDecoy g dec ref c, (ligandPairs_moveDecoy g dec ref).1, (ligandPairs_moveDecoy g dec ref).2,
   fun hg => ⟨interfacePairs_moveBoth hg dec ref c, (ligandPairs_moveBoth g dec ref).1, (ligandPairs_moveBoth g dec ref).2⟩⟩

/-- **The value.**  The minimum over all rigid motions of the mean squared deviation (i-RMSD), and the deviation of the
    evaluation pairs after an optimal superposition of the fitting pairs (L-RMSD), are unchanged when every decoy point is
    moved by one rigid motion `h`, and when every reference point is moved by one rigid motion `k` (so also when both are
    moved together).  Over any linearly ordered field. -/
theorem rigid_invariant_value {α : Type} [Field α] [LinearOrder α] [IsStrictOrderedRing α]
    {h k : Motion α} (hh : h.IsRigid) (hk : k.IsRigid) (m : α) (fit ev : List (Vec3 α × Vec3 α)) :
    (IsMinMsd m (fit.map (fun pq => (h.apply pq.1, pq.2))) ↔ IsMinMsd m fit) ∧
    (IsMinMsd m (fit.map (fun pq => (pq.1, k.apply pq.2))) ↔ IsMinMsd m fit) ∧
    (IsFitThenEval m (fit.map (fun pq => (h.apply pq.1, pq.2))) (ev.map (fun pq => (h.apply pq.1, pq.2))) ↔ IsFitThenEval m fit ev) ∧
    (IsFitThenEval m (fit.map (fun pq => (pq.1, k.apply pq.2))) (ev.map (fun pq => (pq.1, k.apply pq.2))) ↔ IsFitThenEval m fit ev) :=
  ⟨isMinMsd_moveDecoy hh m fit, isMinMsd_moveRef hk m fit, isFitThenEval_moveDecoy hh m fit ev, isFitThenEval_moveRef hk m fit ev⟩

/-- a quarter turn about z followed by a translation is rigid (non-vacuity of the hypotheses above) -/
example : (⟨⟨0, -1, 0, 1, 0, 0, 0, 0, 1⟩, ⟨1/2, -3, 20⟩⟩ : Motion ℚ).IsRigid := by
  refine ⟨⟨?_, ?_⟩, ?_⟩ <;> simp [Mat3.mul, Mat3.T, Mat3.one, Mat3.det]

/-- **The models.**  With the decoy moved by any motion `g` (tables: `move g dec`; files: the raw readers see the same
    identities and the moved coordinates), every routine takes the same path — same error class, same atoms in the same
    order — and hands over the moved decoy points.  With decoy and reference moved together by a RIGID motion the same
    holds with both points moved (the zone, defined by distances in the reference, is the same). -/
theorem rigid_invariant_models (g : Motion Rat) (dec ref : List Atom) (dl dl' rl rl' : List Str) (c : Rat)
    (src : ZoneSrc) (check enforce : Bool) :
    -- decoy alone
    irmsdSql (.ok (move g dec)) (.ok ref) none c = mapOutcome g.apply id (irmsdSql (.ok dec) (.ok ref) none c) ∧
    lrmsdSql (.ok (move g dec)) (.ok ref) enforce = mapOutcome g.apply id (lrmsdSql (.ok dec) (.ok ref) enforce) ∧
    (RawMoved dl dl' g.apply → RawMoved rl rl' id →
      irmsdFast dl' rl' (.ok (move g dec)) (.ok ref) src c check enforce =
        mapOutcome g.apply id (irmsdFast dl rl (.ok dec) (.ok ref) src c check enforce) ∧
      lrmsdFast dl' rl' (.ok (move g dec)) (.ok ref) src check enforce =
        mapOutcome g.apply id (lrmsdFast dl rl (.ok dec) (.ok ref) src check enforce)) ∧
    -- decoy and reference together
    (g.IsRigid →
      irmsdSql (.ok (move g dec)) (.ok (move g ref)) none c = mapOutcome g.apply g.apply (irmsdSql (.ok dec) (.ok ref) none c) ∧
      lrmsdSql (.ok (move g dec)) (.ok (move g ref)) enforce = mapOutcome g.apply g.apply (lrmsdSql (.ok dec) (.ok ref) enforce) ∧
      (RawMoved dl dl' g.apply → RawMoved rl rl' g.apply →
        irmsdFast dl' rl' (.ok (move g dec)) (.ok (move g ref)) src c check enforce =
          mapOutcome g.apply g.apply (irmsdFast dl rl (.ok dec) (.ok ref) src c check enforce) ∧
        lrmsdFast dl' rl' (.ok (move g dec)) (.ok (move g ref)) src check enforce =
          mapOutcome g.apply g.apply (lrmsdFast dl rl (.ok dec) (.ok ref) src check enforce))) := by
  have hid : IdPreserving (id : Atom → Atom) := ⟨fun _ => rfl, fun _ => rfl, fun _ => rfl, fun _ => rfl⟩
  have hmid : MovesBy (id : Atom → Atom) id := fun _ => rfl
  have hcid : KeepsCutoff (id : Atom → Atom) c := fun _ _ => rfl
  refine ⟨?_, ?_, fun h1 h2 => ⟨?_, ?_⟩, fun hg => ⟨?_, ?_, fun h1 h2 => ⟨?_, ?_⟩⟩⟩
  · have := irmsdSql_map (moveAtom_id g) hid (moveAtom_moves g) hmid c hcid dec ref
    simpa [move] using this
  · have := lrmsdSql_map (moveAtom_id g) hid (moveAtom_moves g) hmid enforce dec ref
    simpa [move] using this
  · have := irmsdFast_map (moveAtom_id g) hid h1 h2 c hcid dec ref src check enforce
    simpa [move] using this
  · have := lrmsdFast_map (moveAtom_id g) hid h1 h2 dec ref src check enforce
    simpa [move] using this
  · exact irmsdSql_map (moveAtom_id g) (moveAtom_id g) (moveAtom_moves g) (moveAtom_moves g) c (moveAtom_keepsCutoff hg c) dec ref
  · exact lrmsdSql_map (moveAtom_id g) (moveAtom_id g) (moveAtom_moves g) (moveAtom_moves g) enforce dec ref
  · exact irmsdFast_map (moveAtom_id g) (moveAtom_id g) h1 h2 c (moveAtom_keepsCutoff hg c) dec ref src check enforce
  · exact lrmsdFast_map (moveAtom_id g) (moveAtom_id g) h1 h2 dec ref src check enforce

/-! ### 2. contacts depend on distances only -/

/-- `get_contact_atoms` (cluster C's model, every option, every chain selection) returns the same row numbers for a
    structure and for its image under a rigid motion; Fnat and the clash count of the definition (Spec/C08) are unchanged
    when the decoy, or decoy and reference, are moved rigidly. -/
theorem isometry_invariant_contacts {g : Motion Rat} (hg : g.IsRigid) (t : List Atom) (a : ContactArgs)
    (ref dec : List Atom) (c : Rat) :
    contactRun (move g t) a = contactRun t a ∧
    Spec.C08.fnat c ref (move g dec) = Spec.C08.fnat c ref dec ∧
    Spec.C08.fnat c (move g ref) (move g dec) = Spec.C08.fnat c ref dec ∧
    Spec.C08.clashCount c (move g dec) = Spec.C08.clashCount c dec := by
  refine ⟨contactRun_map (moveAtom_id g) a (moveAtom_keepsCutoff hg a.cutoff) t, ?_,
    fnat_map (keeps_moveAtom hg) (keeps_moveAtom hg) rfl c ref dec, clashCount_map (keeps_moveAtom hg) c dec⟩
  have hid : Keeps (id : Atom → Atom) :=
    ⟨Function.injective_id, fun _ => rfl, fun _ => rfl, fun _ => rfl, fun _ => rfl, fun _ _ _ => rfl, fun _ _ _ => rfl⟩
  have := fnat_map hid (keeps_moveAtom hg) rfl c ref dec
  rw [List.map_id] at this
  exact this

/-! ### 3. serial number, occupancy, B-factor, element -/

/-- **The record text.**  Everything a raw-column reader extracts from a record — whether it is an ATOM record, the
    identity (chain from column 22 or 73, residue number from 23–26, name from 13–16) and the coordinates (31–54) — is the
    same for two texts that agree outside columns 7–11, 55–66 and 77–78; hence two files that differ in those columns only
    are read identically by all raw readers. -/
theorem ignores_serial_occ_temp_element_text (l l' : Str) (h : LineSameButIgnored l l') :
    isAtomLine l = isAtomLine l' ∧ rawKey l = rawKey l' ∧ rawXyz l = rawXyz l' :=
  raw_ignores h

example : LineSameButIgnored
    "ATOM      1  N   ALA A   1       0.000   0.000   0.000  1.00  0.00           N  ".toList
    "ATOM  98765  N   ALA A   1       0.000   0.000   0.000  0.25 77.10          FE  ".toList := by
  exact lineSame_of_check (by decide) (by decide)

/-- **The tables and the routines.**  When decoy and reference change in serial numbers, occupancies, B-factors and
    element fields only (record for record), `get_contact_atoms`, the residue check and all four routines return exactly
    the same thing, and so do the definitions (pairs, Fnat, clash count). -/
theorem ignores_serial_occ_temp_element (dec dec' ref ref' : List Atom) (dl dl' rl rl' : List Str)
    (hd : SameButIgnored dec dec') (hr : SameButIgnored ref ref')
    (hdl : List.Forall₂ LineSameButIgnored dl dl') (hrl : List.Forall₂ LineSameButIgnored rl rl')
    (a : ContactArgs) (c : Rat) (src : ZoneSrc) (check enforce : Bool) (names : Option (List Str)) :
    contactRun ref' a = contactRun ref a ∧
    checkResidues dec' ref' names enforce = checkResidues dec ref names enforce ∧
    irmsdSql (.ok dec') (.ok ref') none c = irmsdSql (.ok dec) (.ok ref) none c ∧
    lrmsdSql (.ok dec') (.ok ref') enforce = lrmsdSql (.ok dec) (.ok ref) enforce ∧
    irmsdFast dl' rl' (.ok dec') (.ok ref') src c check enforce = irmsdFast dl rl (.ok dec) (.ok ref) src c check enforce ∧
    lrmsdFast dl' rl' (.ok dec') (.ok ref') src check enforce = lrmsdFast dl rl (.ok dec) (.ok ref) src check enforce ∧
    interfacePairs dec' ref' c = interfacePairs dec ref c ∧
    Spec.C08.fnat c ref' dec' = Spec.C08.fnat c ref dec ∧ Spec.C08.clashCount c dec' = Spec.C08.clashCount c dec := by
  have sd := map_strip_of_same hd
  have sr := map_strip_of_same hr
  refine ⟨?_, ?_, ?_, ?_, ?_, ?_, ?_, ?_, ?_⟩
  · rw [← contactRun_map strip_id a (strip_cutoff a.cutoff) ref', ← contactRun_map strip_id a (strip_cutoff a.cutoff) ref, sr]
  · rw [← checkResidues_map strip_id strip_id dec' ref', ← checkResidues_map strip_id strip_id dec ref, sd, sr]
  · have h1 := irmsdSql_map strip_id strip_id strip_moves strip_moves c (strip_cutoff c) dec' ref'
    have h2 := irmsdSql_map strip_id strip_id strip_moves strip_moves c (strip_cutoff c) dec ref
    rw [mapOutcome_id] at h1 h2
    rw [← h1, ← h2, sd, sr]
  · have h1 := lrmsdSql_map strip_id strip_id strip_moves strip_moves enforce dec' ref'
    have h2 := lrmsdSql_map strip_id strip_id strip_moves strip_moves enforce dec ref
    rw [mapOutcome_id] at h1 h2
    rw [← h1, ← h2, sd, sr]
  · exact irmsdFast_ignores hdl hrl sd sr src c check enforce
  · exact lrmsdFast_ignores hdl hrl sd sr src check enforce
  · exact (pairs_ignores sd sr c).1
  · rw [← fnat_map keeps_strip keeps_strip rfl c ref' dec', ← fnat_map keeps_strip keeps_strip rfl c ref dec, sd, sr]
  · rw [← clashCount_map keeps_strip c dec', ← clashCount_map keeps_strip c dec, sd]

/-! ### 4. the same constant added to all residue numbers of both structures -/

/-- Identities are mapped bijectively (`shiftKey δ` is injective), the pairs are the same pairs under the shifted
    identities — same coordinates, same order — and Fnat and the clash count are unchanged. -/
theorem renumber_invariant (δ : Int) (dec ref : List Atom) (c : Rat) :
    Function.Injective (shiftKey δ) ∧
    interfacePairs (renumber δ dec) (renumber δ ref) c = (interfacePairs dec ref c).map (shiftPair δ) ∧
    ligandFitPairs (renumber δ dec) (renumber δ ref) = (ligandFitPairs dec ref).map (shiftPair δ) ∧
    ligandEvalPairs (renumber δ dec) (renumber δ ref) = (ligandEvalPairs dec ref).map (shiftPair δ) ∧
    (∀ l : List IdPair, coords (l.map (shiftPair δ)) = coords l) ∧
    Spec.C08.fnat c (renumber δ ref) (renumber δ dec) = Spec.C08.fnat c ref dec ∧
    Spec.C08.clashCount c (renumber δ dec) = Spec.C08.clashCount c dec :=
  ⟨shiftKey_inj δ, interfacePairs_renumber δ dec ref c, (ligandPairs_renumber δ dec ref).1, (ligandPairs_renumber δ dec ref).2,
   fun l => by simp [coords, shiftPair, List.map_map, Function.comp_def],
   fnat_map (keeps_shift δ) (keeps_shift δ) rfl c ref dec, clashCount_map (keeps_shift δ) c dec⟩

/-! ### 5. hydrogens (Fnat, clash count) -/

/-- Adding hydrogen records (names starting with `H`) anywhere in decoy and reference — the other records staying as they
    are, in the same order — changes neither Fnat nor the clash count. -/
theorem hydrogens_ignored (c : Rat) (ref ref' dec dec' : List Atom)
    (hr : HydrogensAdded ref ref') (hd : HydrogensAdded dec dec') :
    Spec.C08.fnat c ref' dec' = Spec.C08.fnat c ref dec ∧ Spec.C08.clashCount c dec' = Spec.C08.clashCount c dec :=
  ⟨fnat_hydrogens c (by simpa [HydrogensAdded, heavy_eq] using hr) (by simpa [HydrogensAdded, heavy_eq] using hd),
   clashCount_hydrogens c (by simpa [HydrogensAdded, heavy_eq] using hd)⟩

example : HydrogensAdded Demo.ref (Demo.mkAtom 77 "HA" "ALA" "A" 1 1 1 1 1 0 "H" :: Demo.ref) := by
  unfold HydrogensAdded; decide +kernel

/-! ### 6. reordering the records: the same value or an explicit error -/

/-- For every reordering of the records of decoy and reference (files `dl'`, `rl'` with tables `dec'`, `ref'`): if the
    routine returned a value on the original files, then on the reordered files it either raises, or returns a value
    computed from the SAME multiset of pairs — hence the same number (`Props.C07.rmsd_perm_invariant`).  Fnat and the clash
    count of the definition do not depend on the order at all. -/
theorem permutation_same_or_error (dl rl dl' rl' : List Str) (dec ref dec' ref' : List Atom)
    (hc : Consistent dec ref) (hpd : dec'.Perm dec) (hpr : ref'.Perm ref)
    (hd : RawAgrees dl dec) (hr : RawAgrees rl ref) (hd' : RawAgrees dl' dec') (hr' : RawAgrees rl' ref')
    (c : Rat) (enforce : Bool) :
    (∀ fit ev, irmsdFast dl rl (.ok dec) (.ok ref) .compute c true enforce = .value fit ev →
      match irmsdFast dl' rl' (.ok dec') (.ok ref') .compute c true enforce with
      | .value fit' ev' => (fit'.map idPair).Perm (fit.map idPair) ∧ (ev'.map idPair).Perm (ev.map idPair)
      | .err _ => True) ∧
    (∀ fit ev, irmsdSql (.ok dec) (.ok ref) none c = .value fit ev →
      match irmsdSql (.ok dec') (.ok ref') none c with
      | .value fit' ev' => (fit'.map idPair).Perm (fit.map idPair) ∧ (ev'.map idPair).Perm (ev.map idPair)
      | .err _ => True) ∧
    (∀ fit ev, lrmsdFast dl rl (.ok dec) (.ok ref) .compute true enforce = .value fit ev →
      match lrmsdFast dl' rl' (.ok dec') (.ok ref') .compute true enforce with
      | .value fit' ev' => (fit'.map idPair).Perm (fit.map idPair) ∧ (ev'.map idPair).Perm (ev.map idPair)
      | .err _ => True) ∧
    (∀ fit ev, lrmsdSql (.ok dec) (.ok ref) enforce = .value fit ev →
      match lrmsdSql (.ok dec') (.ok ref') enforce with
      | .value fit' ev' => (fit'.map idPair).Perm (fit.map idPair) ∧ (ev'.map idPair).Perm (ev.map idPair)
      | .err _ => True) ∧
    Spec.C08.fnat c ref' dec' = Spec.C08.fnat c ref dec ∧ Spec.C08.clashCount c dec' = Spec.C08.clashCount c dec := by
  obtain ⟨p1, p2, p3, p4⟩ := Props.C07.paired_by_identity_not_position dl' rl' dec ref dec' ref' hc hpd hpr hd' hr' c enforce
  refine ⟨?_, ?_, ?_, ?_, fnat_perm hpr hpd c, clashCount_perm hpd c⟩
  · intro fit ev hv
    have b := Props.C07.irmsd_pairs_fast dl rl dec ref hd hr hc .compute (Or.inl rfl) c enforce
    rw [hv] at b
    split at p1
    · rename_i fit' ev' heq
      rw [heq]
      simp only
      obtain ⟨h1, h2, h3⟩ := p1
      refine ⟨h3.trans b.2.2.2.symm, ?_⟩
      rw [h1, b.2.1]; exact h3.trans b.2.2.2.symm
    · rename_i e heq; rw [heq]; trivial
  · intro fit ev hv
    have b := Props.C07.irmsd_pairs_sql dec ref hc c
    rw [hv] at b
    split at p2
    · rename_i fit' ev' heq
      rw [heq]
      simp only
      obtain ⟨h1, h2, h3⟩ := p2
      refine ⟨h3.trans b.2.2.2.symm, ?_⟩
      rw [h1, b.2.1]; exact h3.trans b.2.2.2.symm
    · rename_i e heq; rw [heq]; trivial
  · intro fit ev hv
    have b := Props.C07.lrmsd_pairs_fast dl rl dec ref hd hr hc .compute (Or.inl rfl) enforce
    rw [hv] at b
    split at p3
    · rename_i fit' ev' heq
      rw [heq]
      simp only
      exact ⟨p3.2.1.trans b.2.2.2.1.symm, p3.2.2.trans b.2.2.2.2.symm⟩
    · rename_i e heq; rw [heq]; trivial
  · intro fit ev hv
    have b := Props.C07.lrmsd_pairs_sql dec ref hc enforce
    rw [hv] at b
    split at p4
    · rename_i fit' ev' heq
      rw [heq]
      simp only
      exact ⟨p4.2.1.trans b.2.2.2.1.symm, p4.2.2.trans b.2.2.2.2.symm⟩
    · rename_i e heq; rw [heq]; trivial

/-- non-vacuity: a reordering of the demo decoy (hypotheses `Consistent`, `RawAgrees`: examples of Props/C07.lean) -/
example : Demo.dec.reverse.Perm Demo.dec := List.reverse_perm _

end Props.C11
