/-
  C17 — the chunked branch of `pdb2sqlcore.get` translated WHOLE (Gen/Get.lean: `get_for_k_v_if_chunck_size` and its two loops,
  regenerated on every run by py/translate_ext_get.py): the slices of the over-long list, the recursion through `self.get` with
  `new_kwargs[key] = vc`, `rows = index / &= / |=`, `sorted`, the final loop over slices of the rows and `_format_get_output`.
  Proved here: the closed form of each of the three generated units — the final loop's turn IS the fragment
  `GenSql.get_rows_step` that `Props/C17K.rows_step_eq_model` gives its meaning —, the slices `v[i:i+950]` at
  `range(0, len(v), 950)` = `Model.chunks`, the chunk loop = `Model.chunkLoop`, the row loop = the summands of `Model.fetchRows`,
  `_format_get_output` on them = `Model.finish`, and the whole function for EVERY list length, positive or negated, several
  over-long lists (recursion): **`GenG.get = Model.get`** (`get_eq_model`; the recursion is `getF (fuel+1) = get_body (getF fuel)`
  on both sides with the same fuel `len(kwargs) + 3`, so the model's termination argument is the translation's).
-/
import PdbVerif.Proofs.GenGetT

namespace Props.C17K2

/-- one turn of `for vc in vchunck`: the recursive call on `kwargs` with `key` set to the chunk, `rows = index`, `&=` for a negated key, `|=` otherwise -/
theorem get_for_vc_nf : type_of% @GenGetProofs.get_for_vc_nf := @GenGetProofs.get_for_vc_nf
/-- one turn of the final loop: the text and rowids of the translated fragment `get_rows_step`, handed to the engine, rows appended -/
theorem get_for_rows_nf : type_of% @GenGetProofs.get_for_rows_nf := @GenGetProofs.get_for_rows_nf
/-- the chunked branch in closed form: chunk loop over `v[i:i+950]`, `sorted` (TypeError on `None`), row loop, `_format_get_output` -/
theorem get_chunked_nf : type_of% @GenGetProofs.get_chunked_nf := @GenGetProofs.get_chunked_nf
/-- the loop over the keywords leaves through the chunked branch exactly where the fragment `GenSql.get_cond` returns -/
theorem get_for_k_v_nf : type_of% @GenGetProofs.get_for_k_v_nf := @GenGetProofs.get_for_k_v_nf

/-- `[v[i:i+950] for i in range(0, len(v), 950)]` = `Model.chunks 950 v`, for every list -/
theorem range3_chunks : type_of% @GenGetProofs.range3_chunks := @GenGetProofs.range3_chunks
/-- `new_kwargs[key] = vc` on a dictionary (distinct keys) = the model's replacement at the position of the over-long list -/
theorem setKw_idx : type_of% @GenGetProofs.setKw_idx := @GenGetProofs.setKw_idx
/-- the translated loop over the chunks (`rows = index`, `&=`, `|=`) = `Model.chunkLoop`, given what the recursive calls answer -/
theorem chunkLoop_eq : type_of% @GenGetProofs.chunkLoop_eq := @GenGetProofs.chunkLoop_eq
/-- after at least one chunk `rows` is a set: `sorted(rows)` never sees `None` -/
theorem chunkLoop_some : type_of% @GenGetProofs.chunkLoop_some := @GenGetProofs.chunkLoop_some
/-- the translated loop over the slices of the selected rows, run by MicroSql, fetches the summands of `Model.fetchRows` in order -/
theorem rowsLoop_eq : type_of% @GenGetProofs.rowsLoop_eq := @GenGetProofs.rowsLoop_eq
/-- the translated `_format_get_output` on the fetched rows = `Model.finish` -/
theorem finish_fetch : type_of% @GenGetProofs.finish_fetch := @GenGetProofs.finish_fetch
/-- valid column names resolve (the chunked branch of the model asks for the columns even when no row is selected) -/
theorem sqlCols_ok : type_of% @GenGetProofs.sqlCols_ok := @GenGetProofs.sqlCols_ok
/-- `GenG.getF = Model.getF` one level up when a list is over-long, given agreement one level down -/
theorem getF_long : type_of% @GenGetProofs.getF_long := @GenGetProofs.getF_long
/-- **`GenG.getF = Model.getF` at every recursion depth**, every list length -/
theorem getF_eq_model : type_of% @GenGetProofs.getF_eq_model := @GenGetProofs.getF_eq_model
/-- **`GenG.get = Model.get`**, every list length -/
theorem get_eq_model : type_of% @GenGetProofs.get_eq_model := @GenGetProofs.get_eq_model

/-- with `(number of over-long lists) + (1 if dispatched) + 1` levels `Model.getF` never answers with the fuel error — any input -/
theorem modelF_no_fuel : type_of% @GenGetProofs.modelF_no_fuel := @GenGetProofs.modelF_no_fuel
/-- `len(kwargs) + 3` is at least that -/
theorem need_le_fuel : type_of% @GenGetProofs.need_le_fuel := @GenGetProofs.need_le_fuel
/-- **the recursion of the translated `get` through `self.get` never runs out**: `GenG.get ≠ .error .fuel`, every list length -/
theorem get_no_fuel : type_of% @GenGetProofs.get_no_fuel := @GenGetProofs.get_no_fuel

/-- the contract clause for the catalogue at the exact text the library emits: the table names in creation order, one row each -/
theorem connExecute_master : type_of% @GenGetProofs.connExecute_master := @GenGetProofs.connExecute_master
/-- **which tables there are, in which order**: the translated `_get_table_names` answers `db.tabs.map (·.name)` — creation order,
    not alphabetical (`names[0]` is the first structure: what `get_colnames`, `__call__` and many2sql address) -/
theorem get_table_names_eq : type_of% @GenGetProofs.get_table_names_eq := @GenGetProofs.get_table_names_eq

/-- non-vacuity: three tables whose names are not in alphabetical order come back in creation order; a query over the catalogue
    with an ORDER BY is given no meaning -/
example : GenG._get_table_names { tabs := [⟨"s2".toList, []⟩, ⟨"ATOM".toList, []⟩, ⟨"mol_1".toList, []⟩] } =
      .ok ["s2".toList, "ATOM".toList, "mol_1".toList] ∧
    GenG.E.connExecute { tabs := [⟨"s2".toList, []⟩, ⟨"ATOM".toList, []⟩] } "SELECT name FROM sqlite_master WHERE type='table' ORDER BY name;".toList [] =
      .error (.unmodelled "a query over sqlite_master other than the table-name query") := by decide +kernel

/-- non-vacuity of `get_eq_model` on an over-long list: 951 rowID values (negated) and a second condition -/
example : SqlProofs.PlainNames "rowID".toList "ATOM".toList [⟨"no_rowID".toList, .list ((List.range 951).map (fun n => Tbl.Val.int n))⟩, ⟨"name".toList, .scalar (.text "CA".toList)⟩] ∧
    Model.isLong (.list ((List.range 951).map (fun n => Tbl.Val.int n))) = true := by
  refine ⟨by decide +kernel, by decide +kernel⟩

/-- non-vacuity: `range(0, n, step)` and the slices, `&` / `|` / `sorted` on the set representation -/
example : GenG.E.range3 0 5 2 = [0, 2, 4] ∧ (GenG.E.range3 0 5 2).map (fun i => GenSql.Rt.slice [10, 11, 12, 13, 14] i (i + 2)) = [[10, 11], [12, 13], [14]] ∧
    GenG.E.sortedOpt (some (GenG.E.setOr [3, 1] [2, 1])) = .ok [1, 2, 3] ∧ GenG.E.setAnd [3, 1, 2] [2, 3] = [3, 2] ∧
    GenG.E.sortedOpt none = .error .typeError := by decide +kernel

end Props.C17K2
