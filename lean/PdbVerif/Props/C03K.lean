/-
  C03 — the SQL text tie (tie #1 for `pdb2sqlcore.get`).  `GenSql.*` (Gen/Sql.lean) is regenerated on every run by
  py/translate_ext_sql.py from the statements of `get` / `_format_get_output` that build the query text and the bound values;
  `MicroSql` (Model/MicroSql.lean) is the SQLite contract: what that text means on a table.  The theorems below state that the
  hand model `Model.get` the theorems of Props/C03.lean are about IS "translated builder → MicroSql → translated
  `_format_get_output`" (`SqlProofs.getViaSql`), for every database, column string and keyword list on the non-chunked path —
  error branches included.  Statements are those of Proofs/Sql*.lean, restated through `type_of%`.
-/
import PdbVerif.Proofs.SqlMain

namespace Props.C03K

/-- the translated loop body of `get` in closed form (strip `no_`, list / scalar, `int(v + 1)` on rowID values, the condition text) -/
theorem get_cond_nf : type_of% @SqlProofs.get_cond_nf := @SqlProofs.get_cond_nf
/-- the translated generic branch in closed form: text = head + ` WHERE ` + conditions joined by ` AND `, values in order, the combined-limit error -/
theorem get_query_nf : type_of% @SqlProofs.get_query_nf := @SqlProofs.get_query_nf
/-- the translated `_format_get_output` in closed form -/
theorem format_get_output_nf : type_of% @SqlProofs.format_get_output_nf := @SqlProofs.format_get_output_nf
/-- the text of the generic query parses (MicroSql) to `SELECT cols FROM t WHERE conds` with exactly the conditions of the keyword list -/
theorem parse_selectText : type_of% @SqlProofs.parse_selectText := @SqlProofs.parse_selectText
/-- MicroSql's SELECT on that statement with the positional values = the model's `sqlSelect` (unknown table / column errors included) -/
theorem execSelect_eq : type_of% @SqlProofs.execSelect_eq := @SqlProofs.execSelect_eq
/-- the translated loop over the keywords = the model's `scan` (conditions, value count, TypeError on a text rowID value) -/
theorem scan_eq_specs : type_of% @SqlProofs.scan_eq_specs := @SqlProofs.scan_eq_specs
/-- the translated `_format_get_output` on what a SELECT returns = the model's `finish` (−1 on rowID, flattening, ValueError of `.index`) -/
theorem finish_select : type_of% @SqlProofs.finish_select := @SqlProofs.finish_select
/-- generic branch: `scan` + `runQuery` of the model = translated text run by MicroSql + translated post-processing -/
theorem generic_eq_sql : type_of% @SqlProofs.generic_eq_sql := @SqlProofs.generic_eq_sql
/-- no keyword: `SELECT cols FROM t` -/
theorem nokw_eq_sql : type_of% @SqlProofs.nokw_eq_sql := @SqlProofs.nokw_eq_sql
/-- **`Model.get` = MicroSql on the translated text** (any recursion depth left) -/
theorem getF_eq_sql : type_of% @SqlProofs.getF_eq_sql := @SqlProofs.getF_eq_sql
/-- **`Model.get` = MicroSql on the translated text** -/
theorem get_eq_sql : type_of% @SqlProofs.get_eq_sql := @SqlProofs.get_eq_sql
/-- on a well-formed database `rowID` resolves to the rowid (discharges the hypothesis `sqlCol db rowIDName = some .rowID`) -/
theorem rowid_of_wf : type_of% @SqlProofs.rowid_of_wf := @SqlProofs.rowid_of_wf

end Props.C03K
