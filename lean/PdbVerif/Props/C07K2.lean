/-
  C07 — the translated SQL-route helpers of the RMSD routines ARE the hand models the C07 theorems are stated about.
    `GenS.get_identical_atoms` (Gen/Sim.lean, regenerated from StructureSimilarity.py on every run by py/translate_ext_sim.py; the statement
    text `SELECT x,y,z from ATOM WHERE chainID=? AND resSeq=? and name=?` is parsed by the translator) = the look-up of
    `Model.Rmsd.identicalAtoms` (Model/RmsdSql.lean) over the shared keys, in the iteration order of the Python set (a parameter): equal
    to the model when that order is the key order the model chose as representative, and for EVERY order the model's look-up over a
    permutation of the model's key list; errors (no row: IndexError) included.
  Statements and proofs: Proofs/GenSimIdent.lean (and Proofs/GenSimRmsd.lean for the two routes); restated through `type_of%`.
-/
import PdbVerif.Proofs.GenSimIdent
import PdbVerif.Proofs.GenSimRmsd
import PdbVerif.Proofs.GenSimIzone
import PdbVerif.Proofs.GenSimIrmsd
import PdbVerif.Proofs.GenSimIrmsdPair
import PdbVerif.Proofs.GenSimExport
import PdbVerif.Proofs.GenSimExportFiles
import PdbVerif.Proofs.GenSimOrder

namespace Props.C07K2

def fxAtom (serial : Int) (name : String) (chain : String) (resSeq : Int) (x : Rat) : Py.Atom :=
  { serial := serial, name := name.toList, altLoc := [], resName := "ALA".toList, chainID := chain.toList, resSeq := resSeq, iCode := [],
    x := x, y := 0, z := 0, occ := 1, temp := 0, element := "C".toList, model := 0 }

/-- normal form: the model's look-up over the shared keys in set order, split into the two coordinate lists -/
theorem gens_get_identical_atoms_nf : type_of% @Proofs.GenSim.gens_get_identical_atoms_nf := @Proofs.GenSim.gens_get_identical_atoms_nf
/-- the hand model is the same look-up over its (sorted) key list -/
theorem identicalAtoms_eq_lookup : type_of% @Proofs.GenSim.identicalAtoms_eq_lookup := @Proofs.GenSim.identicalAtoms_eq_lookup
/-- the generated loop runs over a permutation of the model's key list, whatever the set order -/
theorem sharedKeys_perm : type_of% @Proofs.GenSim.sharedKeys_perm := @Proofs.GenSim.sharedKeys_perm
/-- generated = model when the set is iterated in key order -/
theorem gens_get_identical_atoms_eq_model : type_of% @Proofs.GenSim.gens_get_identical_atoms_eq_model := @Proofs.GenSim.gens_get_identical_atoms_eq_model
/-- generated = the model's look-up over a permutation of the model's keys, for every admissible order -/
theorem gens_get_identical_atoms_perm_model : type_of% @Proofs.GenSim.gens_get_identical_atoms_perm_model := @Proofs.GenSim.gens_get_identical_atoms_perm_model

/-- `pdb2sql_base.get_residues(**kwargs)`, translated = `Model.Rmsd.getResidues` -/
theorem gens_get_residues_eq_model : type_of% @Proofs.GenSim.gens_get_residues_eq_model := @Proofs.GenSim.gens_get_residues_eq_model
/-- `check_residues(**kwargs)`, translated = `Model.Rmsd.checkResidues` on the two parsed tables: True / False / ValueError under enforcement -/
theorem gens_check_residues_eq_model : type_of% @Proofs.GenSim.gens_check_residues_eq_model := @Proofs.GenSim.gens_check_residues_eq_model
/-- `compute_lrmsd_pdb2sql` (exportpath=None), translated = stage A (`lrmsdSqlLists`) then the translated kernel glue (`sqlKernel`) -/
theorem gens_compute_lrmsd_pdb2sql_stages : type_of% @Proofs.GenSim.gens_compute_lrmsd_pdb2sql_stages := @Proofs.GenSim.gens_compute_lrmsd_pdb2sql_stages
/-- generated route = the MODEL's stage A (`checkResidues`, `identicalAtoms`; keys dropped) then the translated kernel glue, when the
    shared-atom sets are iterated in key order -/
theorem gens_compute_lrmsd_pdb2sql_eq_model_stages : type_of% @Proofs.GenSim.gens_compute_lrmsd_pdb2sql_eq_model_stages := @Proofs.GenSim.gens_compute_lrmsd_pdb2sql_eq_model_stages
/-- the hand model `lrmsdSql` = the same stage A (its own components) then the shape classification `kernelSql` -/
theorem lrmsdSql_model_stages : type_of% @Proofs.GenSim.lrmsdSql_model_stages := @Proofs.GenSim.lrmsdSql_model_stages

/-- `get_izone_rowID(sql, izone)`, translated = `GenR.read_zone` then `Model.Rmsd.izoneRowID`; missing file: FileNotFoundError -/
theorem gens_get_izone_rowID_eq_model : type_of% @Proofs.GenSim.gens_get_izone_rowID_eq_model := @Proofs.GenSim.gens_get_izone_rowID_eq_model

/-- `compute_irmsd_pdb2sql` (exportpath=None), translated = chains compared, index stage, pairing stage, then the translated kernel glue -/
theorem gens_compute_irmsd_pdb2sql_stages : type_of% @Proofs.GenSim.gens_compute_irmsd_pdb2sql_stages := @Proofs.GenSim.gens_compute_irmsd_pdb2sql_stages
/-- the index stage of the generated route (translated contact routine, any set order / zone file) is `irmsdIndex` -/
theorem index_stage : type_of% @Proofs.GenSim.index_stage := @Proofs.GenSim.index_stage
/-- the hand model `irmsdSql` = chains compared, the same index stage, then `pairByIndex` -/
theorem irmsdSql_model_stages : type_of% @Proofs.GenSim.irmsdSql_model_stages := @Proofs.GenSim.irmsdSql_model_stages
theorem irmsdIndex_eq_model_none : type_of% @Proofs.GenSim.irmsdIndex_eq_model_none := @Proofs.GenSim.irmsdIndex_eq_model_none
theorem irmsdIndex_eq_model_file : type_of% @Proofs.GenSim.irmsdIndex_eq_model_file := @Proofs.GenSim.irmsdIndex_eq_model_file
/-- the loop body is the model's pairing step (first decoy record with the label; the coordinate look-up cannot fail) -/
theorem pairStep_eq_find : type_of% @Proofs.GenSim.pairStep_eq_find := @Proofs.GenSim.pairStep_eq_find

/-- the `try / except` loop as a whole (positional invariant of the `None` marking) -/
theorem fold_pair : type_of% @Proofs.GenSim.fold_pair := @Proofs.GenSim.fold_pair
/-- stage A2 (loop, clean-up, the two tests) = the model's `pairByIndex`, `ValueError` when no pair is left — for index lists made of rowIDs -/
theorem irmsdPairing_eq_model : type_of% @Proofs.GenSim.irmsdPairing_eq_model := @Proofs.GenSim.irmsdPairing_eq_model
theorem irmsdIndex_valid : type_of% @Proofs.GenSim.irmsdIndex_valid := @Proofs.GenSim.irmsdIndex_valid
/-- GENERATED i-RMSD ROUTE = the hand model's stage A (chains, index stage, `pairByIndex`) then the translated kernel glue -/
theorem gens_compute_irmsd_pdb2sql_eq_model_stages : type_of% @Proofs.GenSim.gens_compute_irmsd_pdb2sql_eq_model_stages := @Proofs.GenSim.gens_compute_irmsd_pdb2sql_eq_model_stages
/-- exporting does not change the score: `compute_lrmsd_pdb2sql(exportpath=dir)` returns the value of `compute_lrmsd_pdb2sql()` -/
theorem gens_lrmsd_export_value : type_of% @Proofs.GenSim.gens_lrmsd_export_value := @Proofs.GenSim.gens_lrmsd_export_value
/-- … and whenever `compute_irmsd_pdb2sql(exportpath=dir)` returns, it returns the value of `compute_irmsd_pdb2sql()` -/
theorem gens_irmsd_export_value : type_of% @Proofs.GenSim.gens_irmsd_export_value := @Proofs.GenSim.gens_irmsd_export_value

/-- WHAT the L-RMSD export writes: stage A, the kernel, then the radicand and the two tables (whole decoy superposed, whole reference centred) -/
theorem gens_lrmsd_export_stages : type_of% @Proofs.GenSim.gens_lrmsd_export_stages := @Proofs.GenSim.gens_lrmsd_export_stages
/-- with one value per row, `update_column` replaces the column row by row -/
theorem updateColumn_zipWith : type_of% @Proofs.GenSim.updateColumn_zipWith := @Proofs.GenSim.updateColumn_zipWith

/-! ### any admissible set order: the value (Proofs/GenSimOrder.lean) -/

/-- the translated kernel glue of the SQL routes is `Model.Rmsd.radicand` on the pair lists -/
theorem sqlKernel_eq_radicand : type_of% @Proofs.GenSim.sqlKernel_eq_radicand := @Proofs.GenSim.sqlKernel_eq_radicand
/-- look-ups over a permutation of the keys succeed together, results permuted the same way -/
theorem mapM_perm : type_of% @Proofs.GenSim.mapM_perm := @Proofs.GenSim.mapM_perm
/-- L-RMSD, every `OrderOK` order: the kernel receives a simultaneous permutation of the model's pair lists -/
theorem gens_lrmsd_pairs_any_order : type_of% @Proofs.GenSim.gens_lrmsd_pairs_any_order := @Proofs.GenSim.gens_lrmsd_pairs_any_order
/-- … and with an optimal kernel the value is a fit-then-evaluate value of the model's pairs -/
theorem gens_lrmsd_value_any_order : type_of% @Proofs.GenSim.gens_lrmsd_value_any_order := @Proofs.GenSim.gens_lrmsd_value_any_order
/-- … of the DEFINITION's pairs on a consistent pair -/
theorem gens_lrmsd_value_is_definition : type_of% @Proofs.GenSim.gens_lrmsd_value_is_definition := @Proofs.GenSim.gens_lrmsd_value_is_definition
/-- i-RMSD, every `OrderOK` order: generated = the model's radicand on the model's pairs -/
theorem gens_irmsd_radicand_any_order : type_of% @Proofs.GenSim.gens_irmsd_radicand_any_order := @Proofs.GenSim.gens_irmsd_radicand_any_order
/-- … the minimum over rigid motions with an optimal kernel -/
theorem gens_irmsd_value_any_order : type_of% @Proofs.GenSim.gens_irmsd_value_any_order := @Proofs.GenSim.gens_irmsd_value_any_order

/-- non-vacuity: the model returns pair lists for the two-chain structure against itself (one fitting pair, one evaluation pair), and the
    identity kernel is optimal on identical points (`kernelOptimalAt_of_equal`, over `Rat`) -/
example : (match Model.Rmsd.lrmsdSql (.ok [fxAtom 1 "CA" "A" 1 0, fxAtom 2 "CA" "B" 1 3]) (.ok [fxAtom 1 "CA" "A" 1 0, fxAtom 2 "CA" "B" 1 3]) true with
    | .value f e => f.length == 1 && e.length == 1 | _ => false) = true := by decide +kernel
example : Proofs.Msd.KernelOptimalAt (fun _ _ => .ok Py.Mat3.one) [((⟨1, 2, 3⟩ : Py.Vec3 Rat), (⟨1, 2, 3⟩ : Py.Vec3 Rat)), (⟨0, 1, 0⟩, ⟨0, 1, 0⟩)] :=
  Proofs.Msd.kernelOptimalAt_of_equal _ (by simp)

/-- non-vacuity of the route: two chains 3 Å apart, identical decoy, identity rotation from the kernel parameter → radicand 0; a decoy that
    lacks chain B's atom (different chain sets) → ValueError; a decoy whose B atom has another NAME (not found by `index`) → the handler strikes
    it out and one pair is left -/
def fxC (nameB : String) : List Py.Atom := [fxAtom 1 "CA" "A" 1 0, fxAtom 2 nameB "B" 1 3]
def fxRot : List (Py.Vec3 Rat) → List (Py.Vec3 Rat) → Unit → Except Py.Err (Py.Mat3 Rat) := fun _ _ _ => .ok Py.Mat3.one
example : (match GenS.compute_irmsd_pdb2sql (fun {_} l => l) (fun _ => false) (fun _ => .ok []) (fun _ => .ok (fxC "CA")) fxRot [] [] ⟨0, 0, 0⟩ 10 () none with
    | .ok v => v == 0 | _ => false) = true := by decide +kernel
example : (match GenS.compute_irmsd_pdb2sql (fun {_} l => l) (fun _ => false) (fun _ => .ok [])
      (fun n => if n = "d".toList then .ok [fxAtom 1 "CA" "A" 1 0] else .ok (fxC "CA")) fxRot "d".toList "r".toList ⟨0, 0, 0⟩ 10 () none with
    | .error .valueError => true | _ => false) = true := by decide +kernel
example : (match GenS.compute_irmsd_pdb2sql (fun {_} l => l.reverse) (fun _ => false) (fun _ => .ok [])
      (fun n => if n = "d".toList then .ok (fxC "C") else .ok (fxC "CA")) fxRot "d".toList "r".toList ⟨0, 0, 0⟩ 10 () none with
    | .ok v => v == 0 | _ => false) = true := by decide +kernel

/-- the export variants on the same input: the value is the route's, two files each; the L-RMSD decoy file holds the whole (centred) decoy -/
example : (match GenS.compute_lrmsd_pdb2sql_export (fun {_} l => l) (fun _ => .ok (fxC "CA")) fxRot [] [] true ⟨0, 0, 0⟩ "d".toList () none with
    | .ok (v, fl) => v == 0 && fl.map (·.1) == ["d/lrmsd_decoy.pdb".toList, "d/lrmsd_ref.pdb".toList] && fl.map (·.2.length) == [2, 2] | _ => false) = true := by
  decide +kernel
example : (match GenS.compute_irmsd_pdb2sql_export (fun {_} l => l) (fun _ => false) (fun _ => .ok []) (fun _ => .ok (fxC "CA")) fxRot [] [] ⟨0, 0, 0⟩ 10 ()
      none "d".toList with
    | .ok (v, fl) => v == 0 && fl.map (·.1) == ["d/irmsd_decoy.pdb".toList, "d/irmsd_ref.pdb".toList] && fl.map (·.2.map (·.x)) == [[-3/2, 3/2], [-3/2, 3/2]]
    | _ => false) = true := by decide +kernel

/-- WHAT THE EXPORT BRANCH DOES when the decoy lists the atoms of a residue in another order than the reference (reported as an observation,
    not covered by a property): `update_xyz(xyz_contact_decoy, rowID=index_contact_decoy)` hands the coordinates, which are in REFERENCE order,
    to the selected rows in decoy TABLE order.  Decoy = reference with `N` before `CA` in residue A1, identity rotation: the value is 0, but in the
    exported decoy the `N` record carries the centred coordinate of `CA` (−4/3) and `CA` that of `N` (−1/3). -/
example : (match GenS.compute_irmsd_pdb2sql_export (fun {_} l => l) (fun _ => false) (fun _ => .ok [])
      (fun n => if n = "d".toList then .ok [fxAtom 2 "N" "A" 1 1, fxAtom 1 "CA" "A" 1 0, fxAtom 3 "CA" "B" 1 3]
                else .ok [fxAtom 1 "CA" "A" 1 0, fxAtom 2 "N" "A" 1 1, fxAtom 3 "CA" "B" 1 3]) fxRot "d".toList "r".toList ⟨0, 0, 0⟩ 10 () none "o".toList with
    | .ok (v, [(_, dec), _]) => v == 0 && dec.map (fun a => (String.ofList a.name, a.x)) == [("N", -4/3), ("CA", -1/3), ("CA", 5/3)]
    | _ => false) = true := by decide +kernel

/-- non-vacuity: the zone file `zone A1-A1` selects the backbone rows of residue A1 (rowIDs 0 and 1 of `fxDec` below; CB is left out) -/
example : (match GenS.get_izone_rowID (fun _ => true) (fun _ => .ok ["zone A1-A1\n".toList])
    [fxAtom 1 "CA" "A" 1 1, fxAtom 2 "N" "A" 1 2, fxAtom 3 "CB" "A" 1 9, fxAtom 4 "CA" "A" 2 5] [] true with
    | .ok l => l == [0, 1] | _ => false) = true := by decide +kernel
example : (match GenS.get_izone_rowID (fun _ => false) (fun _ => .ok []) [] [] true with
    | .error .fileNotFound => true | _ => false) = true := by decide +kernel

/-- non-vacuity of the residue check: same residues and atom names → True; an atom missing in the decoy → ValueError when enforced, False otherwise -/
example : (match GenS.check_residues (fun _ => .ok [fxAtom 1 "CA" "A" 1 0]) [] [] true none with | .ok b => b | _ => false) = true := by decide +kernel
example : (match GenS.check_residues (fun n => if n = "d".toList then .ok [fxAtom 1 "CA" "A" 1 0] else .ok [fxAtom 1 "CA" "A" 1 0, fxAtom 2 "N" "A" 1 1])
    "d".toList "r".toList true none with | .error .valueError => true | _ => false) = true := by decide +kernel
example : (match GenS.check_residues (fun n => if n = "d".toList then .ok [fxAtom 1 "CA" "A" 1 0] else .ok [fxAtom 1 "CA" "A" 1 0, fxAtom 2 "N" "A" 1 1])
    "d".toList "r".toList false none with | .ok b => !b | _ => false) = true := by decide +kernel

/-! non-vacuity: decoy and reference list the two backbone atoms of chain A in opposite order; the pairs come out by identity -/
def fxDec : List Py.Atom := [fxAtom 1 "CA" "A" 1 1, fxAtom 2 "N" "A" 1 2, fxAtom 3 "CB" "A" 1 9]
def fxRef : List Py.Atom := [fxAtom 1 "N" "A" 1 20, fxAtom 2 "CA" "A" 1 10]
def fxNames : List Py.Str := ["CA".toList, "N".toList]

/-- the hypothesis of `gens_get_identical_atoms_eq_model` holds for the identity order here (keys already in key order) -/
example : Proofs.GenSim.sharedKeys fxDec fxRef "A".toList (some fxNames) = Proofs.GenSim.modelKeys fxDec fxRef "A".toList fxNames := by
  decide +kernel
example : (match GenS.get_identical_atoms (fun {_} l => l) fxDec fxRef "A".toList (some fxNames) with
    | .ok p => p.1.map (·.x) == [1, 2] && p.2.map (·.x) == [10, 20] | _ => false) = true := by decide +kernel
/-- reversed set order: the same pairs in the other order -/
example : (match GenS.get_identical_atoms (fun {_} l => l.reverse) fxDec fxRef "A".toList (some fxNames) with
    | .ok p => p.1.map (·.x) == [2, 1] && p.2.map (·.x) == [20, 10] | _ => false) = true := by decide +kernel

end Props.C07K2
