/-
  C12 — DockQ follows its formula; the CAPRI class is total and equals the published table.
  Property theorems only.  `Gen.*` is regenerated from /repo on every run.
-/
import Mathlib.Order.Defs.LinearOrder
import Mathlib.Order.Basic
import Mathlib.Tactic.Linarith
import Mathlib.Tactic.NormNum
import PdbVerif.Gen.Score
import PdbVerif.Spec.C12
import PdbVerif.Proofs.Num
import PdbVerif.Proofs.Float

set_option linter.unusedVariables false
set_option linter.unusedTactic false
set_option linter.unreachableTactic false

namespace Props.C12
open Spec

section capri
variable {α : Type} [LinearOrder α]

/-- The translated cascade with the published thresholds substituted at the positions where the
    source has its literals (`capri_lits_positions` below shows the source's literals are these). -/
def capriCode (f₁ f₃ f₅ l₁ l₅ l₁₀ i₁ i₂ i₄ : α) (f l i : α) (sys : Py.Str) : Except Py.Err Py.Str :=
  Gen.compute_CapriClass_gen f₁ l₁₀ i₄ f₁ f₃ l₁₀ i₄ f₃ l₅ i₂ f₃ f₅ l₅ i₂ f₅ l₁ i₁ f₅ l₁ i₁ f l i sys

/-- The code is the published table, criterion by criterion, in the order incorrect → high;
    where no criterion holds the code fails (it never returns a wrong or stale label). -/
theorem capri_eq_table (f₁ f₃ f₅ l₁ l₅ l₁₀ i₁ i₂ i₄ f l i : α) :
    capriCode f₁ f₃ f₅ l₁ l₅ l₁₀ i₁ i₂ i₄ f l i Gen.compute_CapriClass_system_default =
      match capriTable f₁ f₃ f₅ l₁ l₅ l₁₀ i₁ i₂ i₄ f l i with
      | some c => .ok c.name
      | none => .error .unboundLocal := by
  unfold capriCode Gen.compute_CapriClass_gen capriTable isIncorrect isAcceptable isMedium isHigh
    Gen.compute_CapriClass_system_default
  simp only [pure, Except.pure, ↓reduceIte, ge_iff_le, gt_iff_lt, throw, throwThe, MonadExceptOf.throw]
  split_ifs <;> first | rfl | (exfalso; grind)

/-- Totality: with ordered thresholds some criterion always holds — on thresholds included. -/
theorem capri_total (f₁ f₃ f₅ l₁ l₅ l₁₀ i₁ i₂ i₄ : α)
    (hf : f₁ < f₃ ∧ f₃ < f₅) (hl : l₁ < l₅ ∧ l₅ < l₁₀) (hi : i₁ < i₂ ∧ i₂ < i₄) (f l i : α) :
    capriTable f₁ f₃ f₅ l₁ l₅ l₁₀ i₁ i₂ i₄ f l i ≠ none := by
  unfold capriTable isIncorrect isAcceptable isMedium isHigh
  grind

/-- The table equals "the best class whose requirement is met". -/
theorem capri_eq_best_class (f₁ f₃ f₅ l₁ l₅ l₁₀ i₁ i₂ i₄ : α)
    (hf : f₁ < f₃ ∧ f₃ < f₅) (hl : l₁ < l₅ ∧ l₅ < l₁₀) (hi : i₁ < i₂ ∧ i₂ < i₄) (f l i : α) :
    capriTable f₁ f₃ f₅ l₁ l₅ l₁₀ i₁ i₂ i₄ f l i = some (capriBest f₁ f₃ f₅ l₁ l₅ l₁₀ i₁ i₂ i₄ f l i) := by
  unfold capriTable capriBest isIncorrect isAcceptable isMedium isHigh
  grind

/-- The class never gets worse when one measure improves (Fnat up, either RMSD down). -/
theorem capri_monotone (f₁ f₃ f₅ l₁ l₅ l₁₀ i₁ i₂ i₄ : α)
    (hf : f₁ < f₃ ∧ f₃ < f₅) (hl : l₁ < l₅ ∧ l₅ < l₁₀) (hi : i₁ < i₂ ∧ i₂ < i₄)
    (f l i f' l' i' : α) (h1 : f ≤ f') (h2 : l' ≤ l) (h3 : i' ≤ i) :
    (capriBest f₁ f₃ f₅ l₁ l₅ l₁₀ i₁ i₂ i₄ f l i).rank ≤ (capriBest f₁ f₃ f₅ l₁ l₅ l₁₀ i₁ i₂ i₄ f' l' i').rank := by
  unfold capriBest
  split_ifs <;> simp [Capri.rank] <;> grind

end capri

/-- the doubles 0.1 and 0.3 -/
def d01 : Rat := (3602879701896397 : Rat) / 36028797018963968
def d03 : Rat := (5404319552844595 : Rat) / 18014398509481984

/-- The literals in the source are the published thresholds, at the positions `capriCode` assumes. -/
theorem capri_lits_positions :
    Gen.compute_CapriClass_lits =
      [d01, 10, 4, d01, d03, 10, 4, d03, 5, 2, d03, 1/2, 5, 2, 1/2, 1, 1, 1/2, 1, 1] := by
  unfold Gen.compute_CapriClass_lits d01 d03
  norm_num

/-- `compute_CapriClass` on doubles (exact rationals) is `capriCode` at the published thresholds. -/
theorem capri_concrete_is_code (f l i : Rat) (sys : Py.Str) :
    Gen.compute_CapriClass f l i sys = capriCode d01 d03 (1/2) 1 5 10 1 2 4 f l i sys := by
  unfold Gen.compute_CapriClass capriCode d01 d03
  norm_num

/-- Hence for every triple of doubles the code returns the best class whose requirement holds. -/
theorem capri_concrete (f l i : Rat) :
    Gen.compute_CapriClass f l i Gen.compute_CapriClass_system_default =
      .ok (capriBest d01 d03 (1/2) 1 5 10 1 2 4 f l i).name := by
  rw [capri_concrete_is_code, capri_eq_table]
  have h := capri_eq_best_class d01 d03 (1/2 : Rat) 1 5 10 1 2 4
    (by unfold d01 d03; norm_num) (by norm_num) (by norm_num) f l i
  rw [h]


/-! ### DockQ -/

/-- What the theorems assume of the rounding applied after every float operation.  `id` (real
    arithmetic) satisfies it (`flok_id`), and so does IEEE binary64 round-to-nearest-even as modelled by
    `Py.toDouble` (`flok_toDouble`, proved in Proofs/Float.lean; subnormals and overflow are outside that model). -/
structure FlOK (fl : ℚ → ℚ) : Prop where
  mono : ∀ {x y : ℚ}, x ≤ y → fl x ≤ fl y
  fix0 : fl 0 = 0
  fix1 : fl 1 = 1
  fix2 : fl 2 = 2
  fix3 : fl 3 = 3

theorem flok_id : FlOK id := ⟨fun h => h, rfl, rfl, rfl, rfl⟩

/-- the double `1./3` the source computes (constant-folded by the translator) -/
def third : ℚ := (6004799503160661 : ℚ) / 18014398509481984

theorem third_close : |third - 1/3| ≤ 1 / 2^55 := by unfold third; norm_num [abs_le]
theorem third_pos : 0 < third := by unfold third; norm_num
theorem third_le : 3 * third ≤ 1 := by unfold third; norm_num

/-- `1/(1+(r/d)²)` with every operation rounded by `fl` -/
def scaleV (fl : ℚ → ℚ) (r d : ℚ) : ℚ := fl (1 / fl (1 + fl (fl (r / d) * fl (r / d))))

theorem scaleV_den_ge_one {fl : ℚ → ℚ} (h : FlOK fl) {r d : ℚ} (hr : 0 ≤ r) (hd : 0 < d) :
    1 ≤ fl (1 + fl (fl (r / d) * fl (r / d))) := by
  have h0 : 0 ≤ fl (r / d) := by rw [← h.fix0]; exact h.mono (div_nonneg hr hd.le)
  have h1 : 0 ≤ fl (fl (r / d) * fl (r / d)) := by rw [← h.fix0]; exact h.mono (mul_nonneg h0 h0)
  rw [← h.fix1]; apply h.mono; rw [h.fix1]; linarith

theorem scaleV_range {fl : ℚ → ℚ} (h : FlOK fl) {r d : ℚ} (hr : 0 ≤ r) (hd : 0 < d) :
    0 ≤ scaleV fl r d ∧ scaleV fl r d ≤ 1 := by
  have hden := scaleV_den_ge_one h hr hd
  unfold scaleV
  constructor
  · rw [← h.fix0]; apply h.mono; positivity
  · rw [← h.fix1]; apply h.mono; rw [h.fix1, div_le_one (by linarith)]; exact hden

/-- the scaled term does not increase when the RMSD grows -/
theorem scaleV_anti {fl : ℚ → ℚ} (h : FlOK fl) {r r' d : ℚ} (hr' : 0 ≤ r') (hrr : r' ≤ r) (hd : 0 < d) :
    scaleV fl r d ≤ scaleV fl r' d := by
  have hr : 0 ≤ r := le_trans hr' hrr
  have hden := scaleV_den_ge_one h hr hd
  have hden' := scaleV_den_ge_one h hr' hd
  have a0 : 0 ≤ fl (r' / d) := by rw [← h.fix0]; exact h.mono (div_nonneg hr' hd.le)
  have a1 : fl (r' / d) ≤ fl (r / d) := h.mono (div_le_div_of_nonneg_right hrr hd.le)
  have a2 : fl (fl (r' / d) * fl (r' / d)) ≤ fl (fl (r / d) * fl (r / d)) :=
    h.mono (mul_le_mul a1 a1 a0 (le_trans a0 a1))
  have a3 : fl (1 + fl (fl (r' / d) * fl (r' / d))) ≤ fl (1 + fl (fl (r / d) * fl (r / d))) :=
    h.mono (by linarith)
  unfold scaleV
  apply h.mono
  exact one_div_le_one_div_of_le (by linarith) a3

theorem scale_rms_value {fl : ℚ → ℚ} (h : FlOK fl) {r d : ℚ} (hr : 0 ≤ r) (hd : 0 < d) :
    Gen.scale_rms fl r d = .ok (scaleV fl r d) := by
  have hden := scaleV_den_ge_one h hr hd
  have hd' : d ≠ 0 := ne_of_gt hd
  have hden' : fl (1 + fl (fl (r / d) * fl (r / d))) ≠ 0 := by intro hc; rw [hc] at hden; linarith
  unfold Gen.scale_rms Py.fdiv scaleV
  simp [hd', hden', bind, Except.bind, pure, Except.pure]

/-- The value the translated `compute_DockQScore` returns, for any rounding `fl`. -/
theorem dockq_value {fl : ℚ → ℚ} (h : FlOK fl) (f : ℚ) {l i d1 d2 : ℚ}
    (hl : 0 ≤ l) (hi : 0 ≤ i) (hd1 : 0 < d1) (hd2 : 0 < d2) :
    Gen.compute_DockQScore fl f l i d1 d2 =
      .ok (fl (Py.round (fl (third * fl (fl (f + scaleV fl l d1) + scaleV fl i d2))) 6)) := by
  unfold Gen.compute_DockQScore
  rw [scale_rms_value h hl hd1, scale_rms_value h hi hd2]
  simp [bind, Except.bind, pure, Except.pure, third]

/-- **Formula.**  In real arithmetic (`fl = id`) DockQ is
    `round6 (c · (Fnat + 1/(1+(L/d₁)²) + 1/(1+(i/d₂)²)))` with `c` the double nearest to 1/3
    (`third_close`: within 2⁻⁵⁵ of 1/3). -/
theorem dockq_formula (f : ℚ) {l i d1 d2 : ℚ} (hl : 0 ≤ l) (hi : 0 ≤ i) (hd1 : 0 < d1) (hd2 : 0 < d2) :
    Gen.compute_DockQScore id f l i d1 d2 =
      .ok (Py.round (third * (f + 1 / (1 + (l / d1) * (l / d1)) + 1 / (1 + (i / d2) * (i / d2)))) 6) := by
  rw [dockq_value flok_id f hl hi hd1 hd2]
  simp [scaleV]

/-- a zero scale parameter is rejected (Python raises `ZeroDivisionError`), never a silent value -/
theorem dockq_zero_scale (fl : ℚ → ℚ) (f l i d2 : ℚ) :
    Gen.compute_DockQScore fl f l i 0 d2 = .error .zeroDiv := by
  unfold Gen.compute_DockQScore Gen.scale_rms Py.fdiv
  simp [bind, Except.bind]

/-- **Range.**  For Fnat ∈ [0,1] and non-negative RMSDs the score lies in [0,1], for every rounding. -/
theorem dockq_range {fl : ℚ → ℚ} (h : FlOK fl) {f l i d1 d2 : ℚ}
    (hf0 : 0 ≤ f) (hf1 : f ≤ 1) (hl : 0 ≤ l) (hi : 0 ≤ i) (hd1 : 0 < d1) (hd2 : 0 < d2) :
    ∃ v, Gen.compute_DockQScore fl f l i d1 d2 = .ok v ∧ 0 ≤ v ∧ v ≤ 1 := by
  refine ⟨_, dockq_value h f hl hi hd1 hd2, ?_, ?_⟩
  all_goals
    obtain ⟨s1a, s1b⟩ := scaleV_range h hl hd1
    obtain ⟨s2a, s2b⟩ := scaleV_range h hi hd2
    have b1 : 0 ≤ fl (f + scaleV fl l d1) := by rw [← h.fix0]; exact h.mono (by linarith)
    have b2 : 0 ≤ fl (fl (f + scaleV fl l d1) + scaleV fl i d2) := by
      rw [← h.fix0]; exact h.mono (by linarith)
    have b3 : 0 ≤ fl (third * fl (fl (f + scaleV fl l d1) + scaleV fl i d2)) := by
      rw [← h.fix0]; exact h.mono (mul_nonneg third_pos.le b2)
  · have : (0 : ℚ) ≤ Py.round (fl (third * fl (fl (f + scaleV fl l d1) + scaleV fl i d2))) 6 := by
      have := Py.round_mono 6 b3
      rwa [show (0 : ℚ) = ((0 : ℤ) : ℚ) by norm_num, Py.round_intCast] at this
    rw [← h.fix0]; exact h.mono this
  · have c1 : fl (f + scaleV fl l d1) ≤ 2 := by rw [← h.fix2]; exact h.mono (by linarith)
    have c2 : fl (fl (f + scaleV fl l d1) + scaleV fl i d2) ≤ 3 := by
      rw [← h.fix3]; exact h.mono (by linarith)
    have c3 : fl (third * fl (fl (f + scaleV fl l d1) + scaleV fl i d2)) ≤ 1 := by
      rw [← h.fix1]; apply h.mono
      calc third * fl (fl (f + scaleV fl l d1) + scaleV fl i d2) ≤ third * 3 :=
            mul_le_mul_of_nonneg_left c2 third_pos.le
        _ ≤ 1 := by linarith [third_le]
    have : Py.round (fl (third * fl (fl (f + scaleV fl l d1) + scaleV fl i d2))) 6 ≤ 1 := by
      have := Py.round_mono 6 c3
      rwa [show (1 : ℚ) = ((1 : ℤ) : ℚ) by norm_num, Py.round_intCast] at this
    rw [← h.fix1]; exact h.mono this

/-- **Perfect model.**  Fnat = 1 and both RMSDs 0 score exactly 1 (real arithmetic). -/
theorem dockq_perfect {d1 d2 : ℚ} (hd1 : 0 < d1) (hd2 : 0 < d2) :
    Gen.compute_DockQScore id 1 0 0 d1 d2 = .ok 1 := by
  rw [dockq_formula 1 (le_refl 0) (le_refl 0) hd1 hd2]
  have : third * (1 + 1 / (1 + 0 / d1 * (0 / d1)) + 1 / (1 + 0 / d2 * (0 / d2))) = third * 3 := by
    simp; norm_num
  rw [this]
  congr 1
  -- round6 (3·third) = 1 : 3·third = 1 − 2⁻⁵⁴·… lies within half a unit of the sixth decimal of 1
  rw [Py.round_eq]
  have hval : Py.roundHE (third * 3 * ((Py.pow10 6 : ℕ) : ℚ)) = 1000000 := by
    apply le_antisymm
    · apply Py.roundHE_le_of_le; unfold third Py.pow10; norm_num
    · have : (1000000 : ℤ) = 999999 + 1 := by norm_num
      rw [Py.roundHE_def]
      have hfl : ⌊third * 3 * ((Py.pow10 6 : ℕ) : ℚ)⌋ = 999999 := by
        rw [Int.floor_eq_iff]; unfold third Py.pow10; norm_num
      rw [hfl]
      have h1 : ¬ (third * 3 * ((Py.pow10 6 : ℕ) : ℚ) - ((999999 : ℤ) : ℚ) < 1 / 2) := by
        unfold third Py.pow10; norm_num
      have h2 : (1 / 2 : ℚ) < third * 3 * ((Py.pow10 6 : ℕ) : ℚ) - ((999999 : ℤ) : ℚ) := by
        unfold third Py.pow10; norm_num
      simp only [h1, h2, if_true, if_false]; norm_num
  rw [hval]; unfold Py.pow10; norm_num

/-- **Monotone.**  The score never decreases when Fnat grows or an RMSD shrinks, for every rounding. -/
theorem dockq_monotone {fl : ℚ → ℚ} (h : FlOK fl) {f f' l l' i i' d1 d2 : ℚ}
    (hf : f ≤ f') (hl' : 0 ≤ l') (hl : l' ≤ l) (hi' : 0 ≤ i') (hi : i' ≤ i) (hd1 : 0 < d1) (hd2 : 0 < d2) :
    ∃ v v', Gen.compute_DockQScore fl f l i d1 d2 = .ok v ∧
            Gen.compute_DockQScore fl f' l' i' d1 d2 = .ok v' ∧ v ≤ v' := by
  refine ⟨_, _, dockq_value h f (le_trans hl' hl) (le_trans hi' hi) hd1 hd2,
    dockq_value h f' hl' hi' hd1 hd2, ?_⟩
  have s1 := scaleV_anti h hl' hl hd1
  have s2 := scaleV_anti h hi' hi hd2
  apply h.mono
  apply Py.round_mono
  apply h.mono
  apply mul_le_mul_of_nonneg_left _ third_pos.le
  apply h.mono
  have : fl (f + scaleV fl l d1) ≤ fl (f' + scaleV fl l' d1) := h.mono (by linarith)
  linarith

/-- Non-vacuity: concrete arguments meet every hypothesis above and evaluate. -/
example : Gen.compute_DockQScore id (1/2) 2 1 (17/2) (3/2) =
    .ok (Py.round (third * ((1/2 : ℚ) + 1 / (1 + (2 / (17/2)) * (2 / (17/2))) + 1 / (1 + (1 / (3/2)) * (1 / (3/2))))) 6) :=
  dockq_formula (1/2) (by norm_num) (by norm_num) (by norm_num) (by norm_num)

/-! ### DockQ in IEEE binary64 -/

/-- IEEE binary64 round-to-nearest-even (`Py.toDouble`, the function the driver executes and the
    harness validates bit-exactly against CPython) meets every assumption of `FlOK`: it is monotone
    on the whole of ℚ and exact on 0, 1, 2, 3 (`Proofs/Float.lean`).  So the binary64 instance is
    proved, not trusted (subnormals/overflow are outside `Py.toDouble`, as stated in `Py/Float.lean`). -/
theorem flok_toDouble : FlOK Py.toDouble :=
  ⟨fun h => Py.toDouble_mono h, Py.toDouble_zero, Py.toDouble_one, Py.toDouble_two, Py.toDouble_three⟩

/-- **Range, binary64.**  With every operation rounded to the nearest double the score lies in [0,1]. -/
theorem dockq_range_binary64 {f l i d1 d2 : ℚ}
    (hf0 : 0 ≤ f) (hf1 : f ≤ 1) (hl : 0 ≤ l) (hi : 0 ≤ i) (hd1 : 0 < d1) (hd2 : 0 < d2) :
    ∃ v, Gen.compute_DockQScore Py.toDouble f l i d1 d2 = .ok v ∧ 0 ≤ v ∧ v ≤ 1 :=
  dockq_range flok_toDouble hf0 hf1 hl hi hd1 hd2

/-- **Monotone, binary64.**  With every operation rounded to the nearest double the score never
    decreases when Fnat grows or an RMSD shrinks. -/
theorem dockq_monotone_binary64 {f f' l l' i i' d1 d2 : ℚ}
    (hf : f ≤ f') (hl' : 0 ≤ l') (hl : l' ≤ l) (hi' : 0 ≤ i') (hi : i' ≤ i) (hd1 : 0 < d1) (hd2 : 0 < d2) :
    ∃ v v', Gen.compute_DockQScore Py.toDouble f l i d1 d2 = .ok v ∧
            Gen.compute_DockQScore Py.toDouble f' l' i' d1 d2 = .ok v' ∧ v ≤ v' :=
  dockq_monotone flok_toDouble hf hl' hl hi' hi hd1 hd2

/-- Non-vacuity: concrete arguments meet the hypotheses of both binary64 theorems. -/
example : ∃ v v', Gen.compute_DockQScore Py.toDouble (1/2) 2 1 (17/2) (3/2) = .ok v ∧
    Gen.compute_DockQScore Py.toDouble (3/5) 1 (1/2) (17/2) (3/2) = .ok v' ∧ v ≤ v' :=
  dockq_monotone_binary64 (by norm_num) (by norm_num) (by norm_num) (by norm_num) (by norm_num)
    (by norm_num) (by norm_num)

example : ∃ v, Gen.compute_DockQScore Py.toDouble (1/2) 2 1 (17/2) (3/2) = .ok v ∧ 0 ≤ v ∧ v ≤ 1 :=
  dockq_range_binary64 (by norm_num) (by norm_num) (by norm_num) (by norm_num) (by norm_num) (by norm_num)

end Props.C12
