/-
  C09 — "zone file or not" for the TRANSLATED SQL i-RMSD route (Gen/Sim.lean: `GenS.compute_irmsd_pdb2sql`, regenerated from
  StructureSimilarity.py on every run by py/translate_ext_sim.py).  On a consistent pair whose reference chains can be written to a zone
  file, the generated route run with the zone file the library writes (`izoneFileText`) returns exactly what it returns when it computes
  the zone itself: same exception or same radicand, for every rotation kernel and every admissible iteration order of Python sets.
  The proof goes through the tie of the generated route to the hand model's stage A (chains compared, index stage, `pairByIndex`) and the
  model-level theorem `Props.C09.irmsdSql_zone_file`.  Statements: Proofs/GenSimRoutes.lean, restated through `type_of%`.
-/
import PdbVerif.Proofs.GenSimRoutes

namespace Props.C09K2

/-- generated route = the model's pair stage (`irmsdPairsM`), then the translated kernel glue -/
theorem gens_irmsd_via_pairs : type_of% @Proofs.GenSim.gens_irmsd_via_pairs := @Proofs.GenSim.gens_irmsd_via_pairs
/-- the hand model's outcome is an injective image of its pair stage -/
theorem irmsdSql_eq_pairs : type_of% @Proofs.GenSim.irmsdSql_eq_pairs := @Proofs.GenSim.irmsdSql_eq_pairs
/-- zone file or not: the generated SQL i-RMSD route agrees with itself -/
theorem gens_irmsd_zone_file_agrees : type_of% @Proofs.GenSim.gens_irmsd_zone_file_agrees := @Proofs.GenSim.gens_irmsd_zone_file_agrees

/-! non-vacuity: two chains 3 Å apart; the zone file the library writes for cutoff 10, and the generated route with and without it -/
def fxAtom (serial : Int) (name : String) (chain : String) (resSeq : Int) (x : Rat) : Py.Atom :=
  { serial := serial, name := name.toList, altLoc := [], resName := "ALA".toList, chainID := chain.toList, resSeq := resSeq, iCode := [],
    x := x, y := 0, z := 0, occ := 1, temp := 0, element := "C".toList, model := 0 }
def fxT : List Py.Atom := [fxAtom 1 "CA" "A" 1 0, fxAtom 2 "CA" "B" 1 3]
def fxText : List Py.Str := ["zone A1-A1\n".toList, "zone B1-B1\n".toList]
def fxRot : List (Py.Vec3 Rat) → List (Py.Vec3 Rat) → Unit → Except Py.Err (Py.Mat3 Rat) := fun _ _ _ => .ok Py.Mat3.one

example : (match Model.Rmsd.izoneFileText (.ok fxT) 10 with | .ok t => t == fxText | _ => false) = true := by decide +kernel
example : (match GenS.compute_irmsd_pdb2sql (fun {_} l => l) (fun _ => true) (fun _ => .ok fxText) (fun _ => .ok fxT) fxRot [] [] ⟨0, 0, 0⟩ 10 ()
      (some "z".toList),
    GenS.compute_irmsd_pdb2sql (fun {_} l => l) (fun _ => true) (fun _ => .ok fxText) (fun _ => .ok fxT) fxRot [] [] ⟨0, 0, 0⟩ 10 () none with
    | .ok a, .ok b => a == b && a == 0 | _, _ => false) = true := by decide +kernel

end Props.C09K2
