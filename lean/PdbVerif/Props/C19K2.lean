/-
  C19 — the translation tie for `many2sql.intersect` and `many2sql.get_all`: both are translated from the source on every run
  (py/translate_ext_many.py -> Gen/Many.lean, namespace GenM).  The generated `intersect` asks `get_intersection('*', match)` through
  the TRANSLATED statement text (Gen/Sql.lean -> MicroSql -> translated cutting; Props/C19K), writes every structure's rows with
  `data2pdb` and builds the new object with the `first` / `new_db` loop.  The theorems state that, on the hand model's side of the PDB
  text methods, it IS `Model.intersect` — the function the theorems of Props/C19.lean are about — and read "one table per structure
  with the aligned rows" off the generated code; `get_all` IS `Model.get_all`.
-/
import PdbVerif.Proofs.GenManyCons

namespace Props.C19K2
open Tbl GenM

/-- `many2sql.intersect` in closed form (any instance of the external methods) -/
theorem intersect_nf : type_of% @Proofs.GenMany.intersect_nf := @Proofs.GenMany.intersect_nf
/-- the generated `intersect` queries through the translated statement text of Gen/Sql.lean -/
theorem get_intersection_eq : type_of% @Proofs.GenMany.get_intersection_eq := @Proofs.GenMany.get_intersection_eq
/-- `GenM.intersect = Model.intersect` for known match attributes (plain names, no added columns, at least one structure) -/
theorem intersect_eq_model_of_match : type_of% @Proofs.GenMany.intersect_eq_model_of_match := @Proofs.GenMany.intersect_eq_model_of_match
/-- **`GenM.intersect = Model.intersect` for EVERY match list**: known attributes, an unknown one with two or more structures (OperationalError
    on both sides), anything at all with one structure (no ON clause, both succeed) -/
theorem intersect_eq_model : type_of% @Proofs.GenMany.intersect_eq_model := @Proofs.GenMany.intersect_eq_model
/-- one structure, ANY match list: `Model.getIntersection` = translated text → MicroSql → translated cutting (complements `Props.C19K.getIntersection_eq_sql`) -/
theorem getIntersection_eq_sql_single : type_of% @Proofs.GenMany.getIntersection_eq_sql_single := @Proofs.GenMany.getIntersection_eq_sql_single
/-- an unknown match attribute with two or more structures: OperationalError on both sides -/
theorem intersect_bad_match : type_of% @Proofs.GenMany.intersect_bad_match := @Proofs.GenMany.intersect_bad_match
/-- **one table per structure with the aligned rows**, read off the generated function (`Props.C19.intersect_tables`) -/
theorem intersect_tables_gen : type_of% @Proofs.GenMany.intersect_tables_gen := @Proofs.GenMany.intersect_tables_gen
/-- **`GenM.get_all = Model.get_all`**: per structure, in input order, that structure's own answer; the first failing table raises -/
theorem get_all_eq_model : type_of% @Proofs.GenMany.get_all_eq_model := @Proofs.GenMany.get_all_eq_model

/-! ### non-vacuity -/

def rowA (serial : Int) (name : String) (x : Rat) : Row :=
  { atom := { serial := serial, name := name.toList, altLoc := [], resName := "ALA".toList, chainID := "A".toList, resSeq := 1, iCode := [],
              x := x, y := 2, z := 3, occ := 1, temp := 0, element := "C".toList, model := 0 } }
def two : Db := { tabs := [⟨"wt".toList, [rowA 1 "CA" 1, rowA 2 "N" 5]⟩, ⟨"mut".toList, [rowA 7 "N" 6, rowA 8 "O" 0]⟩] }

/-- the generated `intersect` on two structures sharing the atom `N`: one table per structure, each with its own row of that atom -/
example : GenM.intersect (Ext.model id) two ["name".toList, "resSeq".toList] =
    .ok { tabs := [⟨"wt".toList, [rowA 2 "N" 5]⟩, ⟨"mut".toList, [rowA 7 "N" 6]⟩] } := by decide +kernel
/-- an empty intersection cannot become a database -/
example : GenM.intersect (Ext.model id) two ["serial".toList] = .error .indexError := by decide +kernel
/-- the hypotheses of `intersect_eq_model` / `intersect_eq_model_of_match` hold of this database and match list -/
example : SqlProofs.JoinDb two ∧ two.tabs ≠ [] ∧ (∀ t ∈ two.tabs, MicroSql.isName t.name = true) ∧
    (∀ a ∈ ["name".toList, "resSeq".toList], MicroSql.isName a = true ∧ SqlProofs.NoAlias a) ∧
    ["name".toList, "resSeq".toList].mapM Model.matchCol = some [.name, .resSeq] ∧ (∀ t ∈ two.tabs, ∀ r ∈ t.rows, r.extra = []) :=
  ⟨SqlProofs.joinDb_of_check two (by decide), by decide, by decide, by decide, by decide, by decide⟩
/-- one structure and an unknown match attribute: generated function and hand model both succeed (no ON clause) -/
example : GenM.intersect (Ext.model id) { tabs := [⟨"wt".toList, [rowA 1 "CA" 1]⟩] } ["foo".toList] =
      .ok { tabs := [⟨"wt".toList, [rowA 1 "CA" 1]⟩] } ∧
    Model.intersect id { tabs := [⟨"wt".toList, [rowA 1 "CA" 1]⟩] } ["foo".toList] = .ok { tabs := [⟨"wt".toList, [rowA 1 "CA" 1]⟩] } := by
  decide +kernel
/-- `get_all('x')` -/
example : GenM.get_all (Ext.model id) two "x".toList [] = .ok [.data [.one (.real 1), .one (.real 5)], .data [.one (.real 6), .one (.real 0)]] := by
  decide +kernel

end Props.C19K2
