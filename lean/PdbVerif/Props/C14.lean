/-
  C14 — contact residues and residue extension are exact projections / closures of the contact atoms.
  Property theorems only (helper lemmas: Proofs/Contacts*.lean).

  A residue is the triple (chain, residue number, residue name) — `resOf`; residues that share a number but differ in name
  or chain are different keys.  `Model.contactResidueSets` / `Model.contactResiduePairs` follow `get_contact_residues`
  (both modes), `Model.extendToResidue` follows `_extend_contact_to_residue`.  Every theorem holds for every structure,
  cutoff and option combination (errors of the underlying `get_contact_atoms` call propagate unchanged).
-/
import PdbVerif.Proofs.ContactsSpec
import PdbVerif.Props.C05

set_option linter.unusedVariables false

namespace Props.C14
open Model Py Proofs.Contacts
open Spec.Contact

/-! ### residues are projections -/

/-- The contact residues of every chain are the sorted distinct (chain, number, name) triples of that chain's contact atoms
    — for the result of the very `get_contact_atoms` call that `get_contact_residues` makes, whatever it is. -/
theorem residues_are_projection (t : List Atom) (a : ContactArgs) :
    contactResidueSets t a = (contactSets t (residueArgs a)).map (residueSets t) :=
  contactResidueSets_eq t a

/-- What "the distinct triples of the atoms `S`" means: strictly ascending (sorted, no repetition), and `k` is listed iff
    some position of `S` holds an atom whose triple is `k`. -/
theorem spec_residues_meaning (t : List Atom) (S : List Nat) :
    Asc ltRes (residuesOf t S) ∧
    ∀ k, k ∈ residuesOf t S ↔ ∃ s ∈ S, ∃ x, t[s]? = some x ∧ resOf x = k :=
  spec_residuesOf t S

/-- Together with C05: for two different chains of the structure the contact residues are the projections of the Spec's
    contact atoms. -/
theorem residues_two_chain (t : List Atom) (a : ContactArgs) (hall : a.allchains = false) (hne : a.chain1 ≠ a.chain2)
    (h1 : a.chain1 ∈ getChains t) (h2 : a.chain2 ∈ getChains t) :
    contactResidueSets t a = .ok
      [(a.chain1, residuesOf t (Spec.Contact.contactAtoms (params a) t a.chain1 a.chain2)),
       (a.chain2, residuesOf t (Spec.Contact.contactAtoms (params a) t a.chain2 a.chain1))] := by
  rw [residues_are_projection, contactSets_two_chain t (residueArgs a) hall hne h1 h2 rfl]
  rfl

/-- The residue pair map is the projection of the atom pair map of the same call onto residues. -/
theorem residue_pairs_are_projection (t : List Atom) (a : ContactArgs) :
    contactResiduePairs t a = (contactPairs t (residueArgs a)).map (residuePairMap t) :=
  contactResiduePairs_eq t a

/-- What "projection of the atom pair map `m`" means: every residue of a key atom is a key exactly once; under `K` exactly
    the residues of the partners of the atoms of `K` are listed, sorted and without repetition. -/
theorem spec_residue_pairs_meaning (t : List Atom) (m : List (Nat × List Nat)) :
    ((residuePairMap t m).map (fun e => e.1)).Nodup ∧
    (∀ K, K ∈ (residuePairMap t m).map (fun e => e.1) ↔ ∃ e ∈ m, ∃ x, t[e.1]? = some x ∧ resOf x = K) ∧
    ∀ K L, (K, L) ∈ residuePairMap t m →
      Asc ltRes L ∧ ∀ K', K' ∈ L ↔
        ∃ e ∈ m, (∃ x, t[e.1]? = some x ∧ resOf x = K) ∧ ∃ j ∈ e.2, ∃ y, t[j]? = some y ∧ resOf y = K' :=
  spec_residuePairMap t m

/-- Together with C05: for two different chains the residue pair map is the projection of the Spec's pair map. -/
theorem residue_pairs_two_chain (t : List Atom) (a : ContactArgs) (hall : a.allchains = false) (hne : a.chain1 ≠ a.chain2)
    (h1 : a.chain1 ∈ getChains t) (h2 : a.chain2 ∈ getChains t) :
    contactResiduePairs t a = .ok (residuePairMap t (pairMap (params a) t a.chain1 a.chain2)) := by
  rw [residue_pairs_are_projection, contactPairs_two_chain t (residueArgs a) hall hne h1 h2]
  rfl

/-- Unknown chains are rejected by `get_contact_residues` too (both modes). -/
theorem residues_unknown_chain_rejected (t : List Atom) (a : ContactArgs) (hall : a.allchains = false)
    (h : a.chain1 ∉ getChains t ∨ a.chain2 ∉ getChains t) :
    contactResidueSets t a = .error Err.valueError ∧ contactResiduePairs t a = .error Err.valueError := by
  have := Props.C05.unknown_chain_rejected t (residueArgs a) hall h
  rw [residues_are_projection, residue_pairs_are_projection, this.2.1, this.2.2]
  exact ⟨rfl, rfl⟩

/-! ### extension to whole residues is a closure -/

/-- `_extend_contact_to_residue(S, bb)` returns exactly the Spec's closure of `S` … -/
theorem extension_is_closure (t : List Atom) (S : List Nat) (bb : Bool) :
    extendToResidue t S bb = extension Model.backbone t S bb :=
  extendToResidue_eq t S bb

/-- … which is: strictly ascending positions; position `i` is in it iff the residue (chain, number, name) of the atom at
    `i` owns an atom of `S`, and — when contacts are restricted to the backbone — the atom at `i` is a backbone atom.
    Nothing missing, nothing foreign. -/
theorem spec_extension_meaning (bbNames : List Str) (t : List Atom) (S : List Nat) (bb : Bool) :
    Asc ltNat (extension bbNames t S bb) ∧
    ∀ i : Nat, i ∈ extension bbNames t S bb ↔
      ∃ x, t[i]? = some x ∧ (∃ s ∈ S, ∃ y, t[s]? = some y ∧ resOf y = resOf x) ∧ (bb = true → x.name ∈ bbNames) :=
  ⟨asc_positions t _, fun _ => mem_extension⟩

/-- `get_contact_atoms(extend_to_residue=True)` returns, for every chain, the closure of what the same call returns
    without the option — for all chains, or two different chains (errors propagate). -/
theorem extension_of_call (t : List Atom) (a : ContactArgs) (h : a.allchains = true ∨ a.chain1 ≠ a.chain2) :
    contactSets t { a with extend := true } =
      (contactSets t { a with extend := false }).map
        (fun d => d.map (fun e => (e.1, extension Model.backbone t e.2 a.bb))) := by
  apply contactSets_extend
  unfold callChains
  rcases h with h | h
  · simp only [h, if_true]
    exact asc_nodup strictTotal_ltStr (asc_getChains t)
  · cases hall : a.allchains with
    | true => simp only [if_true]; exact asc_nodup strictTotal_ltStr (asc_getChains t)
    | false => simp [h]

/-- Together with C05: for two different chains of the structure, `extend_to_residue=True` returns the closures of the Spec's
    contact atoms. -/
theorem extension_two_chain (t : List Atom) (a : ContactArgs) (hall : a.allchains = false) (hne : a.chain1 ≠ a.chain2)
    (h1 : a.chain1 ∈ getChains t) (h2 : a.chain2 ∈ getChains t) (hext : a.extend = true) :
    contactSets t a = .ok
      [(a.chain1, extension Model.backbone t (Spec.Contact.contactAtoms (params a) t a.chain1 a.chain2) a.bb),
       (a.chain2, extension Model.backbone t (Spec.Contact.contactAtoms (params a) t a.chain2 a.chain1) a.bb)] :=
  contactSets_two_chain_extended t a hall hne h1 h2 hext

/-- The pair map is returned unextended. -/
theorem extension_leaves_pairs (t : List Atom) (a : ContactArgs) (h : a.allchains = true ∨ a.chain1 ≠ a.chain2)
    (hok : ∃ d, contactSets t { a with extend := true } = .ok d) :
    contactPairs t { a with extend := true } = contactPairs t { a with extend := false } := by
  obtain ⟨d, hd⟩ := hok
  have h2 := extension_of_call t a h
  rw [hd] at h2
  unfold contactSets contactPairs at *
  cases h1 : contactRun t { a with extend := true } with
  | error e => rw [h1] at hd; simp [Except.map] at hd
  | ok r1 =>
    cases h0 : contactRun t { a with extend := false } with
    | error e => rw [h0] at h2; simp [Except.map] at h2
    | ok r0 =>
      have e1 := contactPairs_ok (t := t) (a := { a with extend := true }) (m := r1.2) (by simp [contactPairs, h1, Except.map])
      have e0 := contactPairs_ok (t := t) (a := { a with extend := false }) (m := r0.2) (by simp [contactPairs, h0, Except.map])
      simp only [Except.map]
      rw [e1, e0]
      rfl

/-! ### non-vacuity: residues sharing a number but differing in name or chain are distinct keys -/

open Props.C05 (mkAtom)

/-- residue number 7 four times: ALA 7 of chain A (atoms 0, 1), GLY 7 of chain A (atom 2), ALA 7 of chain B (atoms 3, 4);
    atom 5 is ALA -7 of chain B -/
def exRes : List Atom :=
  [ mkAtom "CA" "ALA" "A" 7 0 0 0,
    mkAtom "CB" "ALA" "A" 7 40 0 0,
    mkAtom "CA" "GLY" "A" 7 80 0 0,
    mkAtom "CA" "ALA" "B" 7 3 0 0,
    mkAtom "O"  "ALA" "B" 7 90 0 0,
    mkAtom "N"  "ALA" "B" (-7) 95 0 0 ]

/-- the closure of {atom 0} is ALA 7 of chain A only: neither GLY 7 of the same chain nor ALA 7 of chain B join -/
example : extension Model.backbone exRes [0] false = [0, 1] := by decide
/-- … and only its backbone atoms when contacts are restricted to the backbone -/
example : extension Model.backbone exRes [0] true = [0] := by decide
example : extendToResidue exRes [0, 3] false = [0, 1, 3, 4] := by rw [extension_is_closure]; decide
/-- the three residues numbered 7 (and -7) are four different keys, listed in tuple order -/
example : residuesOf exRes [0, 2, 3, 5] =
    [("A".toList, 7, "ALA".toList), ("A".toList, 7, "GLY".toList), ("B".toList, -7, "ALA".toList), ("B".toList, 7, "ALA".toList)] := by
  decide
/-- projection of a pair map: atoms 0 and 1 are one residue, their partners' residues are merged -/
example : residuePairMap exRes [(0, [3]), (1, [5, 3]), (2, [4])] =
    [(("A".toList, 7, "ALA".toList), [("B".toList, -7, "ALA".toList), ("B".toList, 7, "ALA".toList)]),
     (("A".toList, 7, "GLY".toList), [("B".toList, 7, "ALA".toList)])] := by
  decide
/-- the hypotheses of the two-chain theorems hold for the example -/
example : (["A".toList, "B".toList] : List Str) = getChains exRes := by decide

end Props.C14
