/-
  C18 — translated database-level glue of align.py (tie #1).  `GenA.*` (Gen/Align.lean) is regenerated from `align.align`,
  `align_interface`, `align_pca_vect`, `export_aligned`, `get_max_pca_vect`, `get_min_pca_vect`, `pca` on every run by
  py/translate_ext_align.py (statement by statement; the kernels `_align_along_axis`, `get_rotation_angle` are the `GenK.*` of
  Gen/Kernels.lean, `get_contact_atoms` is `GenC.get_contact_atoms` of Gen/Contacts.lean; `np.cov`, `np.linalg.eigh`, the trig
  functions, the constructors / `isinstance` tests of the objects and the iteration order of sets are parameters).
  The theorems below say that the regenerated definitions ARE the composition of hand models the theorems of Props/C18.lean are
  about, for every argument, and restate the C18 database statement about the generated code.  Statements are those of
  Proofs/GenAlign*.lean (shown by `#check` in the audit); restated through `type_of%`.  Beside each: a concrete input.
-/
import PdbVerif.Proofs.GenAlignSpectral

set_option linter.style.nameCheck false
set_option linter.overlappingInstances false

namespace Props.C18K2
open Py Model Proofs.GenAlign

/-! ### one normal form per generated unit -/
theorem gena_pca_nf : type_of% @Proofs.GenAlign.gena_pca_nf := @Proofs.GenAlign.gena_pca_nf
theorem gena_get_max_pca_vect_nf : type_of% @Proofs.GenAlign.gena_get_max_pca_vect_nf := @Proofs.GenAlign.gena_get_max_pca_vect_nf
theorem gena_get_min_pca_vect_nf : type_of% @Proofs.GenAlign.gena_get_min_pca_vect_nf := @Proofs.GenAlign.gena_get_min_pca_vect_nf
theorem gena_export_aligned_nf : type_of% @Proofs.GenAlign.gena_export_aligned_nf := @Proofs.GenAlign.gena_export_aligned_nf
theorem gena_align_pca_vect_nf : type_of% @Proofs.GenAlign.gena_align_pca_vect_nf := @Proofs.GenAlign.gena_align_pca_vect_nf

/-! ### generated = hand model -/
/-- `align` = open the object, `Model.getXYZ` of the selection, `eigh(cov(centred))`, `Model.argmax`, `Model.alignPcaVect`, export -/
theorem gena_align_eq_model : type_of% @Proofs.GenAlign.gena_align_eq_model := @Proofs.GenAlign.gena_align_eq_model
/-- `align_interface` = open the object, `Model.contactAtoms`, the contact rows, first minimal eigenvalue, `Model.planeAxis`, … -/
theorem gena_align_interface_eq_model : type_of% @Proofs.GenAlign.gena_align_interface_eq_model := @Proofs.GenAlign.gena_align_interface_eq_model
/-- `align_pca_vect` = `Model.alignPcaVect` on the table (non-empty structure) -/
theorem gena_align_pca_vect_eq_model : type_of% @Proofs.GenAlign.gena_align_pca_vect_eq_model := @Proofs.GenAlign.gena_align_pca_vect_eq_model
theorem gena_export_aligned_eq_model : type_of% @Proofs.GenAlign.gena_export_aligned_eq_model := @Proofs.GenAlign.gena_export_aligned_eq_model
theorem gena_get_max_pca_vect_eq_model : type_of% @Proofs.GenAlign.gena_get_max_pca_vect_eq_model := @Proofs.GenAlign.gena_get_max_pca_vect_eq_model
theorem gena_get_min_pca_vect_eq_model : type_of% @Proofs.GenAlign.gena_get_min_pca_vect_eq_model := @Proofs.GenAlign.gena_get_min_pca_vect_eq_model
/-- the selected column belongs to a largest / smallest eigenvalue -/
theorem gena_get_max_pca_vect_extreme : type_of% @Proofs.GenAlign.gena_get_max_pca_vect_extreme := @Proofs.GenAlign.gena_get_max_pca_vect_extreme
theorem gena_get_min_pca_vect_extreme : type_of% @Proofs.GenAlign.gena_get_min_pca_vect_extreme := @Proofs.GenAlign.gena_get_min_pca_vect_extreme
/-- the kernel under the pointwise trig laws (the global laws of C18K are unsatisfiable over ℚ together with `cos² + sin² = 1`) -/
theorem genk__align_along_axis_at : type_of% @Proofs.GenAlign.genk__align_along_axis_at := @Proofs.GenAlign.genk__align_along_axis_at
theorem trigAt_of_contract : type_of% @Proofs.GenAlign.trigAt_of_contract := @Proofs.GenAlign.trigAt_of_contract
theorem dict_plane_eq : type_of% @Proofs.GenAlign.dict_plane_eq := @Proofs.GenAlign.dict_plane_eq
theorem rstripChars_pdb : type_of% @Proofs.GenAlign.rstripChars_pdb := @Proofs.GenAlign.rstripChars_pdb
theorem argmax3_eq_model : type_of% @Proofs.GenAlign.argmax3_eq_model := @Proofs.GenAlign.argmax3_eq_model

/-! ### the C18 database statement, about the generated code -/
theorem gena_align_returns : type_of% @Proofs.GenAlign.gena_align_returns := @Proofs.GenAlign.gena_align_returns
theorem gena_align_interface_returns : type_of% @Proofs.GenAlign.gena_align_interface_returns := @Proofs.GenAlign.gena_align_interface_returns
theorem gena_align_no_file_unless_export : type_of% @Proofs.GenAlign.gena_align_no_file_unless_export := @Proofs.GenAlign.gena_align_no_file_unless_export

/-! ### non-vacuity: the generated functions run on a concrete world and take the non-error branch -/

def exAtom (serial : Int) (chain : Str) (x y z : Rat) : Atom :=
  { serial := serial, name := ['C', 'A'], altLoc := [], resName := ['A', 'L', 'A'], chainID := chain, resSeq := serial, iCode := [],
    x := x, y := y, z := z, occ := 1, temp := 0, element := ['C'], model := 0 }

/-- two chains, four atoms -/
def exTable : List Atom := [exAtom 1 ['A'] 0 0 0, exAtom 2 ['A'] 2 0 0, exAtom 3 ['B'] 0 2 1, exAtom 4 ['B'] 2 2 1]
def exDb : GenA.Rt.Db := ⟨some ['m', '.', 'p', 'd', 'b'], exTable⟩

/-- the world: the argument already is an object; `eigh` returns eigenvalues (1, 3, 2) with the identity as eigenvectors; the angles
    extracted are φ = 1, θ = 5 with (cos φ, sin φ) = (0, 1), (cos θ, sin θ) = (0, -1); π is 3; cos / sin are tables on the seven angles -/
def exCast : Unit → Option GenA.Rt.Db := fun _ => some exDb
def exCtor : Unit → Except Err GenA.Rt.Db := fun _ => .error .fileNotFound
def exCov : Np.PointsT Rat → Except Err (Mat3 Rat) := fun _ => .ok Mat3.one
def exEigh : Mat3 Rat → Except Err (Vec3 Rat × Mat3 Rat) := fun _ => .ok (⟨1, 3, 2⟩, Mat3.one)
def exNorm : Vec3 Rat → Rat := fun _ => 1
def exAtan : Rat → Rat → Rat := fun _ _ => 1
def exAcos : Rat → Rat := fun _ => 5
def exCos (x : Rat) : Rat := if x = -7 / 2 then -1 else if x = 1 / 2 then 1 else if x = 7 / 2 then -1 else 0
def exSin (x : Rat) : Rat := if x = 1 then 1 else if x = -1 then -1 else if x = 5 then -1 else if x = -5 then 1 else 0

theorem exTrig : ∀ v, TrigAt exCos exSin 3 (phiOf exAtan v) (thetaOf exNorm exAcos v) := by
  intro v
  constructor <;> simp only [phiOf, thetaOf, exAtan, exAcos, exCos, exSin] <;> norm_num

theorem exUnit : ∀ v, UnitAt exCos exSin (phiOf exAtan v) (thetaOf exNorm exAcos v) := by
  intro v
  constructor <;> simp only [phiOf, thetaOf, exAtan, exAcos, exCos, exSin] <;> norm_num

/-- the table after a half turn about the x-direction through the centroid (1, 1, 1/2) -/
def exTable' : List Atom := [exAtom 1 ['A'] 0 2 1, exAtom 2 ['A'] 2 2 1, exAtom 3 ['B'] 0 0 0, exAtom 4 ['B'] 2 0 0]
def exAligned : Str := ['m', '_', 'a', 'l', 'i', 'g', 'n', 'e', 'd', '.', 'p', 'd', 'b']

/-- `align(db, axis='y', export=True, chainID='A')`: the eigenvalues (1, 3, 2) select the column e₂; the whole table is moved; one file
    `m_aligned.pdb` (`'m.pdb'.rstrip('.pdb')` = `'m'`) with the new table -/
example : GenA.align exCast exCtor exCov exEigh exNorm exAtan exAcos exCos exSin 3 () "y" true (fun r => decide (r.1.chainID = ['A'])) =
    .ok (⟨some ['m', '.', 'p', 'd', 'b'], exTable'⟩, [(exAligned, exTable')]) := by decide +kernel

/-- the same call satisfies the hypotheses of `gena_align_returns` -/
example : ∃ sql, openDb exCast exCtor () = .ok sql ∧ AlignedFrom sql ⟨some ['m', '.', 'p', 'd', 'b'], exTable'⟩ true [(exAligned, exTable')] :=
  let ⟨sql, h1, h2, _⟩ := gena_align_returns exCast exCtor exCov exEigh exNorm exAtan exAcos exTrig exUnit () "y" true
    (fun r => decide (r.1.chainID = ['A'])) ⟨some ['m', '.', 'p', 'd', 'b'], exTable'⟩ [(exAligned, exTable')] (by decide +kernel)
  ⟨sql, h1, h2⟩

def exKw : GenA.Rt.ContactKw := ⟨3, false, ['A'], ['B'], false, false, false, false⟩

/-- `align_interface(db, plane='xz', export=False, cutoff=3)`: all four atoms are in contact, the eigenvalues (1, 3, 2) select the
    column e₁ (first minimum), `dict_plane['xz']` = `'y'`; no file -/
example : GenA.align_interface exCast exCtor id exCov exEigh exNorm exAtan exAcos exCos exSin 3 () "xz" false exKw =
    .ok (⟨some ['m', '.', 'p', 'd', 'b'], exTable'⟩, []) := by decide +kernel

/-- an unknown plane is a KeyError, an unknown axis a ValueError, an empty selection a ValueError (nothing is written) -/
example : GenA.align_interface exCast exCtor id exCov exEigh exNorm exAtan exAcos exCos exSin 3 () "zz" true exKw = .error .keyError := by decide +kernel
example : GenA.align exCast exCtor exCov exEigh exNorm exAtan exAcos exCos exSin 3 () "w" true (fun _ => true) = .error .valueError := by decide +kernel
example : GenA.align exCast exCtor exCov exEigh exNorm exAtan exAcos exCos exSin 3 () "x" true (fun _ => false) = .error .valueError := by decide +kernel

/-- the selection of the extreme column, with a tie: (2, 2, 1) -> first maximum = column 0, minimum = column 2 -/
example : GenA.get_max_pca_vect exCov (fun _ => .ok ((⟨2, 2, 1⟩ : Vec3 Rat), ⟨1, 2, 3, 4, 5, 6, 7, 8, 9⟩)) [⟨1, 2, 3⟩] = .ok ⟨1, 4, 7⟩ := by decide +kernel
example : GenA.get_min_pca_vect exCov (fun _ => .ok ((⟨2, 2, 1⟩ : Vec3 Rat), ⟨1, 2, 3, 4, 5, 6, 7, 8, 9⟩)) [⟨1, 2, 3⟩] = .ok ⟨3, 6, 9⟩ := by decide +kernel

/-- `'a.b.pdb'.rstrip('.pdb')` is `'a'`; an object built from lines exports to `aligned_structure.pdb` -/
example : GenA.export_aligned ⟨some ['a', '.', 'b', '.', 'p', 'd', 'b'], exTable⟩ =
    .ok ((), [(['a', '_', 'a', 'l', 'i', 'g', 'n', 'e', 'd', '.', 'p', 'd', 'b'], exTable)]) := by decide +kernel
example : (GenA.export_aligned ⟨none, exTable⟩).map (fun p => p.2.map (·.1)) =
    .ok [['a', 'l', 'i', 'g', 'n', 'e', 'd', '_', 's', 't', 'r', 'u', 'c', 't', 'u', 'r', 'e', '.', 'p', 'd', 'b']] := by decide +kernel

/-- `align_pca_vect` on the non-empty table -/
example : GenA.align_pca_vect exNorm exAtan exAcos exCos exSin 3 exDb ⟨0, 1, 0⟩ "y" = .ok ⟨some ['m', '.', 'p', 'd', 'b'], exTable'⟩ := by decide +kernel

/-! --------------------------------------------------------------------------------------------------------------------
  APPENDED SECTION — the spectral step (Proofs/GenAlignSpectral.lean): from the contract of `np.linalg.eigh` (orthonormal columns,
  `C vᵢ = uᵢ vᵢ`) the Rayleigh bound, hence the column `get_max_pca_vect` / `get_min_pca_vect` returns is a direction of largest /
  least variance (`heig`, `hdom` of `Props.C18.principal_axis_aligned(_min)` discharged), and the composed statement about the
  GENERATED `align` / `align_interface`: when the call returns, the requested axis (the normal of the plane) carries the largest
  (least) variance of the selected (contact) atoms of the RESULT table.
-/
open Spec

/-- `C = V diag(u) Vᵀ` -/
theorem eigh_decomp : type_of% @Proofs.GenAlign.eigh_decomp := @Proofs.GenAlign.eigh_decomp
/-- `wᵀCw = Σ uᵢ cᵢ²`, `Σ cᵢ² = ‖w‖²`, `c = Vᵀw` -/
theorem quadForm_eigenbasis : type_of% @Proofs.GenAlign.quadForm_eigenbasis := @Proofs.GenAlign.quadForm_eigenbasis
/-- Rayleigh bound -/
theorem rayleigh_upper : type_of% @Proofs.GenAlign.rayleigh_upper := @Proofs.GenAlign.rayleigh_upper
theorem rayleigh_lower : type_of% @Proofs.GenAlign.rayleigh_lower := @Proofs.GenAlign.rayleigh_lower
/-- for every unit vector `min λ ≤ uᵀCu ≤ max λ` -/
theorem rayleigh_unit : type_of% @Proofs.GenAlign.rayleigh_unit := @Proofs.GenAlign.rayleigh_unit
theorem eigh_col : type_of% @Proofs.GenAlign.eigh_col := @Proofs.GenAlign.eigh_col
theorem max_column_principal : type_of% @Proofs.GenAlign.max_column_principal := @Proofs.GenAlign.max_column_principal
theorem min_column_principal : type_of% @Proofs.GenAlign.min_column_principal := @Proofs.GenAlign.min_column_principal
theorem covContract_scatter : type_of% @Proofs.GenAlign.covContract_scatter := @Proofs.GenAlign.covContract_scatter
/-- the returned column is a direction of largest / least variance of the points handed over -/
theorem gena_get_max_pca_vect_principal : type_of% @Proofs.GenAlign.gena_get_max_pca_vect_principal := @Proofs.GenAlign.gena_get_max_pca_vect_principal
theorem gena_get_min_pca_vect_principal : type_of% @Proofs.GenAlign.gena_get_min_pca_vect_principal := @Proofs.GenAlign.gena_get_min_pca_vect_principal
theorem alignPcaVect_ok : type_of% @Proofs.GenAlign.alignPcaVect_ok := @Proofs.GenAlign.alignPcaVect_ok
theorem getXYZ_moveSelected : type_of% @Proofs.GenAlign.getXYZ_moveSelected := @Proofs.GenAlign.getXYZ_moveSelected
/-- **the generated `align`: the axis carries the largest variance of the selected atoms of the result table** -/
theorem gena_align_principal_axis : type_of% @Proofs.GenAlign.gena_align_principal_axis := @Proofs.GenAlign.gena_align_principal_axis
/-- **the generated `align_interface`: the normal of the plane carries the least variance of the contact rows of the result table** -/
theorem gena_align_interface_principal_axis : type_of% @Proofs.GenAlign.gena_align_interface_principal_axis := @Proofs.GenAlign.gena_align_interface_principal_axis

/-! ### non-vacuity: a world in which every contract hypothesis of `gena_align_principal_axis` holds, on which the call returns -/

/-- `np.cov` up to its factor: the scatter matrix of what `pca` hands over (meets `CovContract`: `covContract_scatter`) -/
def ex2Cov : Np.PointsT Rat → Except Err (Mat3 Rat) := fun Y => .ok (scatterAbout Vec3.zero Y.cols)
/-- the scatter matrix of the chain-A atoms (0,0,0), (2,0,0) -/
def ex2C : Mat3 Rat := ⟨2, 0, 0, 0, 0, 0, 0, 0, 0⟩
/-- `eigh`: defined on that matrix only; eigenvalues (0, 0, 2), eigenvectors e₂, e₃, e₁ as columns -/
def ex2Eigh : Mat3 Rat → Except Err (Vec3 Rat × Mat3 Rat) :=
  fun C => if C = ex2C then .ok (⟨0, 0, 2⟩, ⟨0, 0, 1, 1, 0, 0, 0, 1, 0⟩) else .error .valueError
/-- φ = 1 with (cos, sin) = (1, 0), θ = 5 with (0, 1): the spherical angles of e₁; π = 3 -/
def ex2Cos (x : Rat) : Rat := if x = 1 ∨ x = -1 ∨ x = -7 / 2 ∨ x = 7 / 2 then 1 else 0
def ex2Sin (x : Rat) : Rat := if x = 1 / 2 ∨ x = 5 then 1 else if x = -5 then -1 else 0
def ex2Sel : Tbl.IRow → Bool := fun r => decide (r.1.chainID = ['A'])

theorem ex2EighContract : EighContract ex2Eigh := by
  intro C u V h
  unfold ex2Eigh at h
  split_ifs at h with hC
  simp only [Except.ok.injEq, Prod.mk.injEq] at h
  obtain ⟨rfl, rfl⟩ := h
  subst hC
  refine ⟨⟨?_, ?_⟩, ?_⟩ <;> decide +kernel

theorem ex2Trig : ∀ v, TrigAt ex2Cos ex2Sin 3 (phiOf exAtan v) (thetaOf exNorm exAcos v) := by
  intro v
  constructor <;> simp only [phiOf, thetaOf, exAtan, exAcos, ex2Cos, ex2Sin] <;> norm_num

theorem ex2Angles : ∀ sql v, openDb exCast exCtor () = .ok sql →
    GenA.get_max_pca_vect ex2Cov ex2Eigh (getXYZ (selOf ex2Sel) sql.atoms) = .ok v → AnglesAt exNorm exAtan exAcos ex2Cos ex2Sin v := by
  intro sql v ho hv
  have hs : sql = exDb := by
    have : openDb exCast exCtor () = .ok exDb := rfl
    rw [this] at ho
    exact (Except.ok.inj ho).symm
  subst hs
  have hmax : GenA.get_max_pca_vect ex2Cov ex2Eigh (getXYZ (selOf ex2Sel) exDb.atoms) = .ok ⟨1, 0, 0⟩ := by decide +kernel
  rw [hmax] at hv
  cases hv
  refine ⟨by simp [exNorm], ?_⟩
  constructor <;> simp only [phiOf, thetaOf, exAtan, exAcos, exNorm, ex2Cos, ex2Sin] <;> norm_num

/-- the table after `align(db, axis='y', export=False, chainID='A')` in that world -/
def ex2Table' : List Atom := [exAtom 1 ['A'] 2 0 0, exAtom 2 ['A'] 2 2 0, exAtom 3 ['B'] 0 0 1, exAtom 4 ['B'] 0 2 1]

/-- the call returns, every hypothesis of `gena_align_principal_axis` holds, and so e₂ carries the largest variance of the chain-A
    atoms of the result (they lie at (2,0,0), (2,2,0)) -/
example : LargestVarianceAlong (getXYZ (selOf ex2Sel) ex2Table') (e2 : Vec3 Rat) :=
  (gena_align_principal_axis exCast exCtor ex2Cov ex2Eigh exNorm exAtan exAcos covContract_scatter ex2EighContract ex2Trig
    () "y" false ex2Sel (fun _ _ _ _ _ => rfl) ex2Angles ⟨some ['m', '.', 'p', 'd', 'b'], ex2Table'⟩ [] (by decide +kernel)
    e2 (by decide)).1

/-- the Rayleigh bound on a concrete decomposition: C = diag(2, 0, 0) with eigenvalues (0, 0, 2) -/
example : ∀ w : Vec3 Rat, Vec3.normSq w = 1 → 0 ≤ quadForm ex2C w ∧ quadForm ex2C w ≤ 2 :=
  fun w hw => rayleigh_unit (ex2EighContract ex2C ⟨0, 0, 2⟩ ⟨0, 0, 1, 1, 0, 0, 0, 1, 0⟩ (by decide +kernel)) (lo := 0) (hi := 2)
    ⟨le_refl _, le_refl _, by norm_num⟩ ⟨by norm_num, by norm_num, le_refl _⟩ w hw

/-! --------------------------------------------------------------------------------------------------------------------
  APPENDED SECTION — the contact atoms are those of the RESULT table; keyword selections.
  `get_contact_atoms` returns the same rows for a table and for its image under a rigid motion (C11 `isometry_invariant_contacts`),
  and what `Model.alignPcaVect` returns is such an image, so the statement about `align_interface` reads on the result table alone.
  For `align`, a `**kwargs` that denotes C03 keyword conditions naming none of x, y, z does not look at coordinates.
-/
theorem alignPcaVect_rigid : type_of% @Proofs.GenAlign.alignPcaVect_rigid := @Proofs.GenAlign.alignPcaVect_rigid
theorem contactAtoms_move : type_of% @Proofs.GenAlign.contactAtoms_move := @Proofs.GenAlign.contactAtoms_move
/-- **the generated `align_interface`: the normal of the plane carries the least variance of the contact atoms recomputed on the result table** -/
theorem gena_align_interface_principal_axis_result : type_of% @Proofs.GenAlign.gena_align_interface_principal_axis_result :=
  @Proofs.GenAlign.gena_align_interface_principal_axis_result
theorem coordBlind_of_keywords : type_of% @Proofs.GenAlign.coordBlind_of_keywords := @Proofs.GenAlign.coordBlind_of_keywords
/-- **the generated `align`, selection by keywords that do not name x, y, z** -/
theorem gena_align_principal_axis_keywords : type_of% @Proofs.GenAlign.gena_align_principal_axis_keywords :=
  @Proofs.GenAlign.gena_align_principal_axis_keywords

/-! ### non-vacuity -/

/-- `chainID='A'` as C03 conditions: names no coordinate column, and is what `ex2Sel` tests -/
def ex2Q : List Spec.Cond := [⟨.std .chainID, false, [.text ['A']]⟩]
theorem ex2Q_noXYZ : NoXYZ ex2Q := by
  intro c hc
  simp only [ex2Q, List.mem_singleton] at hc
  subst hc
  exact ⟨by decide, by decide, by decide⟩
theorem ex2Q_sel : ∀ a i, ex2Sel (a, i) = Spec.sat [] ex2Q ({ atom := a }, i) := by
  intro a i
  simp only [ex2Sel, ex2Q, Spec.sat, List.all_cons, List.all_nil, Bool.and_true, Proofs.GenContacts.holds_chainID]

example : LargestVarianceAlong (getXYZ (selOf ex2Sel) ex2Table') (e2 : Vec3 Rat) :=
  (gena_align_principal_axis_keywords exCast exCtor ex2Cov ex2Eigh exNorm exAtan exAcos covContract_scatter ex2EighContract ex2Trig
    () "y" false ex2Sel ex2Q ex2Q_noXYZ ex2Q_sel ex2Angles ⟨some ['m', '.', 'p', 'd', 'b'], ex2Table'⟩ [] (by decide +kernel)
    e2 (by decide)).1

/-- a flat interface: chains A and B in the plane z = 0, every atom in contact at cutoff 3 -/
def ex3Table : List Atom := [exAtom 1 ['A'] 0 0 0, exAtom 2 ['A'] 2 0 0, exAtom 3 ['B'] 0 2 0, exAtom 4 ['B'] 2 2 0]
def ex3Db : GenA.Rt.Db := ⟨none, ex3Table⟩
def ex3Cast : Unit → Option GenA.Rt.Db := fun _ => some ex3Db
/-- `eigh` on the scatter matrix diag(4, 4, 0) of those atoms: eigenvalues (4, 4, 0), the identity -/
def ex3Eigh : Mat3 Rat → Except Err (Vec3 Rat × Mat3 Rat) :=
  fun C => if C = ⟨4, 0, 0, 0, 4, 0, 0, 0, 0⟩ then .ok (⟨4, 4, 0⟩, Mat3.one) else .error .valueError
/-- φ = 1 with (cos, sin) = (1, 0), θ = 5 with (1, 0): the spherical angles of e₃; π = 3 -/
def ex3Cos (x : Rat) : Rat := if x = 1 ∨ x = -1 ∨ x = 5 ∨ x = -5 then 1 else 0
def ex3Sin (x : Rat) : Rat := if x = -7 / 2 ∨ x = 1 / 2 then 1 else if x = 7 / 2 then -1 else 0

theorem ex3EighContract : EighContract ex3Eigh := by
  intro C u V h
  unfold ex3Eigh at h
  split_ifs at h with hC
  simp only [Except.ok.injEq, Prod.mk.injEq] at h
  obtain ⟨rfl, rfl⟩ := h
  subst hC
  refine ⟨⟨?_, ?_⟩, ?_⟩ <;> decide +kernel

theorem ex3Trig : ∀ v, TrigAt ex3Cos ex3Sin 3 (phiOf exAtan v) (thetaOf exNorm exAcos v) := by
  intro v
  constructor <;> simp only [phiOf, thetaOf, exAtan, exAcos, ex3Cos, ex3Sin] <;> norm_num

theorem ex3Angles : ∀ sql out v, openDb ex3Cast exCtor () = .ok sql → Model.contactAtoms sql.atoms (kwArgs exKw) = .ok out →
    GenA.get_min_pca_vect ex2Cov ex3Eigh (getXYZ (fun i _ => decide (i ∈ rowIds out)) sql.atoms) = .ok v →
    AnglesAt exNorm exAtan exAcos ex3Cos ex3Sin v := by
  intro sql out v ho hc hv
  have hs : sql = ex3Db := by
    have : openDb ex3Cast exCtor () = .ok ex3Db := rfl
    rw [this] at ho
    exact (Except.ok.inj ho).symm
  subst hs
  have hrun : Model.contactRun ex3Db.atoms (kwArgs exKw) =
      .ok ([(['A'], [0, 1]), (['B'], [2, 3])], [(0, [2, 3]), (1, [2, 3])]) := by decide +kernel
  have hout : out = .chains [(['A'], [0, 1]), (['B'], [2, 3])] := by
    unfold Model.contactAtoms at hc
    rw [hrun] at hc
    exact (Except.ok.inj hc).symm
  subst hout
  have hmin : GenA.get_min_pca_vect ex2Cov ex3Eigh
      (getXYZ (fun i _ => decide (i ∈ rowIds (.chains [(['A'], [0, 1]), (['B'], [2, 3])]))) ex3Db.atoms) = .ok ⟨0, 0, 1⟩ := by
    decide +kernel
  rw [hmin] at hv
  cases hv
  refine ⟨by simp [exNorm], ?_⟩
  constructor <;> simp only [phiOf, thetaOf, exAtan, exAcos, exNorm, ex3Cos, ex3Sin] <;> norm_num

/-- `align_interface(db, plane='xy', export=False, cutoff=3)` returns (the interface already lies in the plane), every contract
    hypothesis holds, so e₃ carries the least variance of the contact atoms recomputed on the result table -/
example : ∃ out', Model.contactAtoms ex3Table (kwArgs exKw) = .ok out' ∧
    LeastVarianceAlong (getXYZ (fun i _ => decide (i ∈ rowIds out')) ex3Table) (e3 : Vec3 Rat) :=
  let ⟨out', h1, h2, _⟩ := gena_align_interface_principal_axis_result id Proofs.GenContacts.setOrderOK_id ex3Cast exCtor ex2Cov ex3Eigh
    exNorm exAtan exAcos covContract_scatter ex3EighContract ex3Trig () "xy" false exKw ex3Angles ⟨none, ex3Table⟩ []
    (by decide +kernel) e3 (by decide)
  ⟨out', h1, h2⟩

end Props.C18K2
