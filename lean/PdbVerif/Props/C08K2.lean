/-
  C08 — the translated SQL route of Fnat and the translated clash count ARE the hand models the C08 theorems are stated about.
    `GenS.compute_fnat_pdb2sql`, `GenS.compute_clashes` (Gen/Sim.lean, regenerated from StructureSimilarity.py on every run by
    py/translate_ext_sim.py; they call the translated contact routines `GenC.get_contact_residues` / `GenC.get_contact_atoms` of
    Gen/Contacts.lean; the parser, `_fix_chainID` and the iteration order of Python sets are parameters)
      = `Model.Fnat.fnatSql` / `Model.Fnat.clashes` (Model/Fnat.lean) for every table, cutoff, chain pair — errors included.
    `GenR.compute_fnat_fast` (Gen/Rmsd.lean) = `Model.Fnat.fnatFast` (left over from the previous round; Proofs/GenSimFnatFast.lean).
  `compute_clashes` is translated as the code is (`<=`, known finding C08-F2): the example below counts a pair at exactly 3 Å.
  Statements and proofs: Proofs/GenSimFnat.lean, Proofs/GenSimFnatFast.lean; restated through `type_of%`.
-/
import PdbVerif.Proofs.GenSimFnat
import PdbVerif.Proofs.GenSimFnatFast

namespace Props.C08K2

/-- `compute_clashes(pdb, chain1, chain2)`, translated = `Model.Fnat.clashes` on the parsed table, whatever the set order -/
theorem gens_compute_clashes_eq_model : type_of% @Proofs.GenSim.gens_compute_clashes_eq_model := @Proofs.GenSim.gens_compute_clashes_eq_model
/-- `compute_fnat_pdb2sql(cutoff)`, translated = `Model.Fnat.fnatSql` on the two parsed tables (`_fix_chainID` = its model) -/
theorem gens_fnat_pdb2sql_core : type_of% @Proofs.GenSim.gens_fnat_pdb2sql_core := @Proofs.GenSim.gens_fnat_pdb2sql_core
/-- a file that does not parse: the parser's exception is the routine's -/
theorem gens_fnat_pdb2sql_decoy_error : type_of% @Proofs.GenSim.gens_fnat_pdb2sql_decoy_error := @Proofs.GenSim.gens_fnat_pdb2sql_decoy_error
/-- `compute_fnat_fast(cutoff)`, translated: reference pairs, then the model's route on the decoy lines — for every world -/
theorem genr_compute_fnat_fast_nf : type_of% @Proofs.GenSim.genr_compute_fnat_fast_nf := @Proofs.GenSim.genr_compute_fnat_fast_nf
/-- `GenR.compute_fnat_fast` (contact routine = the contact model) = `Model.Fnat.fnatFast` -/
theorem genr_compute_fnat_fast_eq_model : type_of% @Proofs.GenSim.genr_compute_fnat_fast_eq_model := @Proofs.GenSim.genr_compute_fnat_fast_eq_model
/-- the same with the translated contact routine `GenC.get_contact_residues`, any admissible set order -/
theorem genr_compute_fnat_fast_eq_model_genc : type_of% @Proofs.GenSim.genr_compute_fnat_fast_eq_model_genc := @Proofs.GenSim.genr_compute_fnat_fast_eq_model_genc
theorem genr_compute_fnat_fast_ref_error : type_of% @Proofs.GenSim.genr_compute_fnat_fast_ref_error := @Proofs.GenSim.genr_compute_fnat_fast_ref_error
/-- the generated decoy loop simulates the model's (`readDecoy`) under the same-keys invariant -/
theorem foldlM_stepG_sim : type_of% @Proofs.GenSim.foldlM_stepG_sim := @Proofs.GenSim.foldlM_stepG_sim
theorem orderOK_id : type_of% @Proofs.GenSim.orderOK_id := @Proofs.GenSim.orderOK_id
theorem orderOK_reverse : type_of% @Proofs.GenSim.orderOK_reverse := @Proofs.GenSim.orderOK_reverse

/-! non-vacuity: two CA atoms of chains A and B at exactly 3 Å -/
def fxAtom (serial : Int) (name : String) (chain : String) (resSeq : Int) (x : Rat) : Py.Atom :=
  { serial := serial, name := name.toList, altLoc := [], resName := "ALA".toList, chainID := chain.toList, resSeq := resSeq, iCode := [],
    x := x, y := 0, z := 0, occ := 1, temp := 0, element := "C".toList, model := 0 }
def fxT (d : Rat) : List Py.Atom := [fxAtom 1 "CA" "A" 1 0, fxAtom 2 "CA" "B" 1 d]

/-- exactly 3 Å: ONE clash (the code's `<=`; C08-F2), 3.5 Å: none; unknown chain: ValueError -/
example : (match GenS.compute_clashes (fun {_} l => l) (fun _ => .ok (fxT 3)) [] "A".toList "B".toList with
    | .ok n => n == 1 | _ => false) = true := by decide +kernel
example : (match GenS.compute_clashes (fun {_} l => l) (fun _ => .ok (fxT (7 / 2))) [] "A".toList "B".toList with
    | .ok n => n == 0 | _ => false) = true := by decide +kernel
example : (match GenS.compute_clashes (fun {_} l => l) (fun _ => .ok (fxT 3)) [] "A".toList "Q".toList with
    | .error .valueError => true | _ => false) = true := by decide +kernel
/-- Fnat by the SQL route: contact kept (decoy 4 Å ≤ 5 Å) 1.0; lost (9 Å) 0.0; no reference contact (reference 9 Å): ZeroDivisionError -/
example : (match GenS.compute_fnat_pdb2sql (fun {_} l => l.reverse) (fun n => if n = "d".toList then .ok (fxT 4) else .ok (fxT 3))
    Model.Fnat.fixChainID "d".toList "r".toList 5 with | .ok v => v == 1 | _ => false) = true := by decide +kernel
example : (match GenS.compute_fnat_pdb2sql (fun {_} l => l) (fun n => if n = "d".toList then .ok (fxT 9) else .ok (fxT 3))
    Model.Fnat.fixChainID "d".toList "r".toList 5 with | .ok v => v == 0 | _ => false) = true := by decide +kernel
example : (match GenS.compute_fnat_pdb2sql (fun {_} l => l) (fun n => if n = "d".toList then .ok (fxT 4) else .ok (fxT 9))
    Model.Fnat.fixChainID "d".toList "r".toList 5 with | .error .zeroDiv => true | _ => false) = true := by decide +kernel

/-- the fast route, whole generated stack (translated contact routine): decoy lines with the partner at 4 Å → 1.0, at 9 Å (a hydrogen at
    1 Å does not count) → 0.0; reference without contact → ZeroDivisionError -/
def fxLines (xB : String) : List Py.Str :=
  ["ATOM      1  CA  ALA A   1       0.000   0.000   0.000".toList, ("ATOM      2  CA  ALA B   1    " ++ xB ++ "   0.000   0.000").toList,
   "ATOM      3  H   ALA B   1       1.000   0.000   0.000".toList]
def fxGcr (t : List Py.Atom) (c : Rat) (c1 c2 : Py.Str) :=
  GenC.get_contact_residues (fun l => l) t c false c1 c2 true false true >>= fun s => Py.Rt.asLeft s
example : (match GenR.compute_fnat_fast (fun _ => .ok (fxLines "   4.000")) (fun _ => .ok (fxT 3)) fxGcr [] [] 5 with
    | .ok v => v == 1 | _ => false) = true := by decide +kernel
example : (match GenR.compute_fnat_fast (fun _ => .ok (fxLines "   9.000")) (fun _ => .ok (fxT 3)) fxGcr [] [] 5 with
    | .ok v => v == 0 | _ => false) = true := by decide +kernel
example : (match GenR.compute_fnat_fast (fun _ => .ok (fxLines "   4.000")) (fun _ => .ok (fxT 9)) fxGcr [] [] 5 with
    | .error .zeroDiv => true | _ => false) = true := by decide +kernel

end Props.C08K2
