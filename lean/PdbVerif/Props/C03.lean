/-
  C03 — selection: `get()` returns exactly the rows satisfying AND-of-keys, OR-of-values.
  Property theorems only (helper lemmas: Proofs/Table*.lean).  `Model.get` is the hand-written model of
  `pdb2sqlcore.get` (Model/Table.lean, tied to the code by the correspondence run); `Spec.get` is the property.

  Hypotheses that recur:
  * `WF db`         — well-formed database (added column names are new, one cell per added column, cells normalised)
  * `ColsOK`        — every requested name is a listed attribute; `rowID` is written once and without blanks
  * `KeysOK`        — every condition name (after `no_`) is a listed attribute
  * `RowIDInts`     — rowID conditions list integers
-/
import PdbVerif.Proofs.TableGet

set_option linter.unusedVariables false
set_option linter.unusedSimpArgs false

namespace Props.C03
open Tbl Model TableProofs

/-- the queries the basic theorem speaks about: no per-model answer, conditions together within the limit -/
def Small (db : Db) (kw : List Kw) : Prop :=
  db.nModel = 0 ∧ Spec.tooMany Gen.max_sql_values Gen.SQLITE_LIMIT_VARIABLE_NUMBER kw = false

/-- the standard attributes of the model are those of the source (`pdb2sql_base.col`, regenerated on every run) -/
theorem std_columns_are_the_source's :
    StdCol.all.map (fun c => (String.ofList c.pyName, match c.kind with | .int => "INT" | .real => "REAL" | .text => "TEXT")) = Gen.col := by
  decide

/-- **get = filter.**  For valid attribute and condition names, any table, any conjunction: the model of `get`
    returns the enumerated table filtered by "every keyword condition holds", each atom projected on the
    requested attributes in the requested order (a single attribute flattened). -/
theorem get_eq_filter (db : Db) (hwf : WF db) (tn : Py.Str) (tab : Tab) (htab : findTab db tn = some tab)
    (columns : Py.Str) (hcols : ColsOK db.extraNames columns = true) (kw : List Kw)
    (hkeys : KeysOK db kw) (hrow : RowIDInts kw) (hsmall : Small db kw) :
    ∃ cs q, Spec.colsOf db.extraNames columns = some cs ∧ kw.mapM (Spec.condOf db.extraNames) = some q ∧
      Model.get db columns tn kw =
        .ok (.data ((tab.rows.zipIdx.filter (Spec.sat db.extra q)).map (Spec.project cs))) := by
  obtain ⟨_, cs, c1, _⟩ := cols_ok db hwf columns hcols
  obtain ⟨q, hq⟩ := mapM_condOf_ok db kw hkeys
  refine ⟨cs, q, c1, hq, ?_⟩
  rw [get_full db hwf tn tab htab columns hcols kw hkeys hrow]
  have htable : db.table? tn = some tab.rows := by rw [findTab_table?, htab]; rfl
  have hget := spec_get_eq db tab.rows columns kw cs q c1 hq
  simp only [Spec.getOn, htable, hsmall.1, Nat.lt_irrefl, decide_false, Bool.and_false, Bool.false_eq_true,
    if_false, Spec.answerOne, hget, hsmall.2, toResult]
  rfl

/-- the same statement through the property's own function -/
theorem get_eq_spec (db : Db) (hwf : WF db) (tn : Py.Str) (tab : Tab) (htab : findTab db tn = some tab)
    (columns : Py.Str) (hcols : ColsOK db.extraNames columns = true) (kw : List Kw)
    (hkeys : KeysOK db kw) (hrow : RowIDInts kw) (hsmall : Small db kw) :
    ∃ items, Spec.get db.extra tab.rows columns kw = some items ∧ Model.get db columns tn kw = .ok (.data items) := by
  obtain ⟨cs, q, c1, hq, hg⟩ := get_eq_filter db hwf tn tab htab columns hcols kw hkeys hrow hsmall
  exact ⟨_, spec_get_eq db tab.rows columns kw cs q c1 hq, hg⟩

/-- the selected atoms: exactly those satisfying every condition, each with its own position -/
theorem selected_exact (xd : List ColDef) (T : Table) (q : List Spec.Cond) (rp : Row × Nat) :
    rp ∈ Spec.selected xd T q ↔ (rp.2 < T.length ∧ T[rp.2]? = some rp.1) ∧ Spec.sat xd q rp = true := by
  unfold Spec.selected
  rw [List.mem_filter]
  constructor
  · rintro ⟨h1, h2⟩
    have := List.mem_zipIdx' (x := rp.1) (i := rp.2) h1
    exact ⟨⟨this.1, by rw [List.getElem?_eq_getElem this.1]; exact congrArg some this.2.symm⟩, h2⟩
  · rintro ⟨⟨h1, h2⟩, h3⟩
    refine ⟨?_, h3⟩
    have e : rp = (T[rp.2], rp.2) := by
      rw [List.getElem?_eq_getElem h1] at h2; injection h2 with h2; rw [h2]
    rw [e]; exact List.mem_zipIdx_iff_getElem?.2 (by simp [h1])

/-- each matching atom once -/
theorem get_nodup (xd : List ColDef) (T : Table) (q : List Spec.Cond) : ((Spec.selected xd T q).map (·.2)).Nodup := by
  have h := posInts_pairwise ⟨[], xd, 0⟩ T q
  unfold posInts at h
  rw [List.pairwise_map] at h
  rw [List.nodup_iff_pairwise_ne, List.pairwise_map]
  exact h.imp (by intro a b hab; simp only [intLt, decide_eq_true_eq] at hab; intro e; rw [e] at hab; omega)

/-- in input order -/
theorem get_in_input_order (xd : List ColDef) (T : Table) (q : List Spec.Cond) :
    ((Spec.selected xd T q).map (·.2)).Pairwise (· < ·) := by
  have h := posInts_pairwise ⟨[], xd, 0⟩ T q
  unfold posInts at h
  rw [List.pairwise_map] at h
  rw [List.pairwise_map]
  exact h.imp (by intro a b hab; simp only [intLt, decide_eq_true_eq] at hab; omega)

/-- exactly the requested attributes in the requested order; a single attribute flattened -/
theorem get_columns_in_requested_order (cs : List Col) (rp : Row × Nat) :
    Spec.project cs rp = (match cs with
      | [c] => Item.one (cell c rp.2 rp.1)
      | _ => Item.many (cs.map (fun c => cell c rp.2 rp.1))) := rfl

/-- rowID requested as an attribute is the zero-based position of the atom in the input -/
theorem rowID_means_position (db : Db) (hwf : WF db) (tn : Py.Str) (tab : Tab) (htab : findTab db tn = some tab)
    (kw : List Kw) (hkeys : KeysOK db kw) (hrow : RowIDInts kw) (hsmall : Small db kw) :
    ∃ q, kw.mapM (Spec.condOf db.extraNames) = some q ∧
      Model.get db rowIDName tn kw =
        .ok (.data ((Spec.selected db.extra tab.rows q).map (fun rp => Item.one (.int (rp.2 : Nat))))) := by
  obtain ⟨cs, q, c1, hq, hg⟩ := get_eq_filter db hwf tn tab htab rowIDName (colsOK_rowID _) kw hkeys hrow hsmall
  rw [colsOf_rowID] at c1
  injection c1 with c1; subst c1
  refine ⟨q, hq, ?_⟩
  rw [hg]
  rfl

/-- rowID used as a condition addresses the rows at the listed positions (in table order) -/
theorem rowID_as_condition (xd : List ColDef) (I : List Int) (p : Nat) (r : Row) :
    Spec.Cond.holds xd ⟨.rowID, false, I.map Val.int⟩ p r = I.contains (p : Int) := by
  simp only [Spec.Cond.holds, Spec.isNumeric, cell, Bool.bne_false]
  induction I with
  | nil => rfl
  | cons a t ih => simp only [List.map_cons, List.any_cons, ih, List.contains_cons]; rfl

/-- an unknown attribute name is rejected with an error, by the code and by the property -/
theorem unknown_column_rejected (db : Db) (tn columns : Py.Str) (kw : List Kw) (hne : columns ≠ "*".toList)
    (p : Py.Str) (hp : p ∈ Py.splitOn ',' columns) (hunk : Py.strip p ∉ db.colnames) :
    Model.get db columns tn kw = .error .valueError := by
  have hv : validCols db columns = false := by
    simp only [validCols, hne, decide_false, Bool.false_or]
    rw [Bool.eq_false_iff]
    intro hall
    rw [List.all_eq_true] at hall
    have := hall p hp
    simp only [List.contains_iff_mem] at this
    exact hunk this
  unfold Model.get getFuel
  show getF (kw.length + 2 + 1) db columns tn kw = _
  unfold getF
  simp [hv]

/-- an unknown condition name is rejected with an error, never ignored -/
theorem unknown_key_rejected (db : Db) (hwf : WF db) (tn columns : Py.Str)
    (hcols : ColsOK db.extraNames columns = true) (kw : List Kw) (hne : kw ≠ [])
    (hm : hasModelKey kw = true ∨ db.nModel = 0)
    (k : Kw) (hk : k ∈ kw) (hunk : sqlCol db (stripNo k.key).2 = none) :
    Model.get db columns tn kw = .error .valueError := by
  obtain ⟨v1, _⟩ := cols_ok db hwf columns hcols
  have hdisp : (!hasModelKey kw && decide (db.nModel > 0)) = false := by
    rcases hm with hm | hm <;> simp [hm]
  have hkeys : kw.all (fun k => keyOK db tn (stripNo k.key).2) = false := by
    rw [Bool.eq_false_iff]
    intro hall
    rw [List.all_eq_true] at hall
    have := hall k hk
    simp [keyOK, hunk] at this
  have hemp : kw.isEmpty = false := by cases kw <;> simp_all
  unfold Model.get getFuel
  show getF (kw.length + 2 + 1) db columns tn kw = _
  unfold getF
  simp [v1, hdisp, hemp, hkeys]

/-- the property rejects the same names: a name that SQLite cannot resolve is not a listed attribute -/
theorem unknown_key_not_listed (db : Db) (hwf : WF db) (name : Py.Str) (hunk : sqlCol db name = none) :
    name ∉ db.colnames ∧ resolve db.extraNames name = none := by
  have h1 : name ∉ db.colnames := by
    intro hmem
    obtain ⟨c, hc⟩ := resolve_of_mem db.extraNames name hmem
    rw [sqlCol_eq_resolve db hwf name hmem, hc] at hunk
    cases hunk
  refine ⟨h1, ?_⟩
  cases hres : resolve db.extraNames name with
  | none => rfl
  | some c =>
    exfalso; apply h1
    unfold resolve at hres
    by_cases h0 : name = rowIDName
    · subst h0; simp [Db.colnames, Tbl.colnames]
    · simp only [h0, if_false] at hres
      cases hf : StdCol.all.find? (fun c => c.pyName = name) with
      | some s =>
        have := List.find?_some hf
        simp only [decide_eq_true_eq] at this
        rw [← this]
        simp only [Db.colnames, Tbl.colnames, List.mem_cons, List.mem_append]
        exact Or.inr (Or.inl (mem_stdNames s))
      | none =>
        rw [hf] at hres
        simp only [Option.map_eq_some_iff] at hres
        obtain ⟨i, hi, _⟩ := hres
        have : name ∈ db.extraNames := by
          unfold List.idxOf? at hi
          have := List.findIdx?_eq_some_iff_getElem.1 hi
          obtain ⟨hlt, hx, _⟩ := this
          simp only [beq_iff_eq] at hx
          rw [← hx]; exact List.getElem_mem _
        simp only [Db.colnames, Tbl.colnames, List.mem_cons, List.mem_append]
        exact Or.inr (Or.inr this)

/-- `get_residues` = distinct (chainID, resName, resSeq) of the selected atoms, in order of first occurrence -/
theorem get_residues_eq (db : Db) (hwf : WF db) (tn : Py.Str) (tab : Tab) (htab : findTab db tn = some tab)
    (kw : List Kw) (hkeys : KeysOK db kw) (hrow : RowIDInts kw) (hsmall : Small db kw) :
    ∃ q, kw.mapM (Spec.condOf db.extraNames) = some q ∧
      Model.get_residues db tn kw = .ok (Spec.residues db.extra tab.rows q) := by
  have hok : ColsOK db.extraNames "chainID,resName,resSeq".toList = true := colsOK_mono _ _ (by decide)
  obtain ⟨cs, q, c1, hq, hg⟩ := get_eq_filter db hwf tn tab htab _ hok kw hkeys hrow hsmall
  have hcs : cs = [.std .chainID, .std .resName, .std .resSeq] := by
    have e0 : "chainID,resName,resSeq".toList ≠ "*".toList := by decide
    have e2 : Py.splitOn ',' "chainID,resName,resSeq".toList = ["chainID".toList, "resName".toList, "resSeq".toList] := by decide
    rw [Spec.colsOf, if_neg e0, e2] at c1
    have r1 : resolve db.extraNames (Py.strip "chainID".toList) = some (.std .chainID) := by
      have : Py.strip "chainID".toList = StdCol.chainID.pyName := by decide
      rw [this]; simp [resolve, (stdNames_facts).2.2.1, (stdNames_facts).2.2.2.1]
    have r2 : resolve db.extraNames (Py.strip "resName".toList) = some (.std .resName) := by
      have : Py.strip "resName".toList = StdCol.resName.pyName := by decide
      rw [this]; simp [resolve, (stdNames_facts).2.2.1, (stdNames_facts).2.2.2.1]
    have r3 : resolve db.extraNames (Py.strip "resSeq".toList) = some (.std .resSeq) := by
      have : Py.strip "resSeq".toList = StdCol.resSeq.pyName := by decide
      rw [this]; simp [resolve, (stdNames_facts).2.2.1, (stdNames_facts).2.2.2.1]
    simp only [List.mapM_cons, List.mapM_nil, r1, r2, r3] at c1
    injection c1 with c1; exact c1.symm
  subst hcs
  refine ⟨q, hq, ?_⟩
  unfold Model.get_residues
  have hm : (List.map (Spec.project [Col.std StdCol.chainID, Col.std StdCol.resName, Col.std StdCol.resSeq])
        (List.filter (Spec.sat db.extra q) tab.rows.zipIdx)).mapM itemRow =
      .ok ((List.filter (Spec.sat db.extra q) tab.rows.zipIdx).map
        (fun ri => [ri.1.std .chainID, ri.1.std .resName, ri.1.std .resSeq])) := by
    rw [List.mapM_map]
    apply except_mapM_ok
    intro rp _
    simp [Spec.project, cell, itemRow]
  simp only [hg, hm]
  simp only [Spec.residues, Spec.selected]
  congr 1
  -- `sorted(set(res), key=res.index)` and "distinct, in order of first occurrence" are the same function
  generalize (List.filter (Spec.sat db.extra q) tab.rows.zipIdx).map
    (fun ri => [ri.1.std .chainID, ri.1.std .resName, ri.1.std .resSeq]) = l
  induction l with
  | nil => rfl
  | cons a t ih => simp only [firstOcc, Spec.firstOccurrences, ih]

/-- `get_chains` = the sorted distinct chain identifiers of the selected atoms -/
theorem get_chains_eq (db : Db) (hwf : WF db) (tn : Py.Str) (tab : Tab) (htab : findTab db tn = some tab)
    (kw : List Kw) (hkeys : KeysOK db kw) (hrow : RowIDInts kw) (hsmall : Small db kw) :
    ∃ q l, kw.mapM (Spec.condOf db.extraNames) = some q ∧ Model.get_chains db tn kw = .ok l ∧
      l.Pairwise (· < ·) ∧ ∀ c, c ∈ l ↔ ∃ rp ∈ Spec.selected db.extra tab.rows q, rp.1.atom.chainID = c := by
  have hok : ColsOK db.extraNames "chainID".toList = true := colsOK_mono _ _ (by decide)
  obtain ⟨cs, q, c1, hq, hg⟩ := get_eq_filter db hwf tn tab htab _ hok kw hkeys hrow hsmall
  have hcs : cs = [.std .chainID] := by
    have e0 : "chainID".toList ≠ "*".toList := by decide
    have e2 : Py.splitOn ',' "chainID".toList = ["chainID".toList] := by decide
    rw [Spec.colsOf, if_neg e0, e2] at c1
    have r1 : resolve db.extraNames (Py.strip "chainID".toList) = some (.std .chainID) := by
      have : Py.strip "chainID".toList = StdCol.chainID.pyName := by decide
      rw [this]; simp [resolve, (stdNames_facts).2.2.1, (stdNames_facts).2.2.2.1]
    simp only [List.mapM_cons, List.mapM_nil, r1] at c1
    injection c1 with c1; exact c1.symm
  subst hcs
  have hm : (List.map (Spec.project [Col.std StdCol.chainID])
        (List.filter (Spec.sat db.extra q) tab.rows.zipIdx)).mapM itemText =
      .ok ((List.filter (Spec.sat db.extra q) tab.rows.zipIdx).map (fun ri => ri.1.atom.chainID)) := by
    rw [List.mapM_map]
    apply except_mapM_ok
    intro rp _
    simp [Spec.project, cell, Row.std, itemText]
  have hstrict := strLt_strict
  refine ⟨q, sortDedup strLt ((List.filter (Spec.sat db.extra q) tab.rows.zipIdx).map (fun ri => ri.1.atom.chainID)), hq, ?_, ?_, ?_⟩
  · unfold Model.get_chains
    simp only [hg, hm]
  · exact (pairwise_sortDedup hstrict _).imp (by intro a b hab; simpa [strLt] using hab)
  · intro c
    rw [mem_sortDedup]
    simp [Spec.selected]

/-- non-vacuity: a concrete table and a conjunction of a text list, a negated numeric condition given in string
    form and a rowID list satisfy every hypothesis of `get_eq_filter` (whose conclusion then gives the answer) -/
def exAtom : Py.Atom :=
  { serial := 1, name := "CA".toList, altLoc := [], resName := "ALA".toList, chainID := "A".toList
    resSeq := 5, iCode := [], x := 1/2, y := 0, z := 0, occ := 1, temp := 0, element := "C".toList, model := 0 }
def exAtom2 : Py.Atom := { exAtom with serial := 2, name := "N".toList, x := 3/2 }
def exAtom3 : Py.Atom := { exAtom with serial := 3, resSeq := 6 }
def exTable : Table := [⟨exAtom, []⟩, ⟨exAtom2, []⟩, ⟨exAtom3, []⟩]
def exDb : Db := { tabs := [⟨"ATOM".toList, exTable⟩] }
def exKw : List Kw := [⟨"name".toList, .list [.text "CA".toList, .text "N".toList]⟩, ⟨"no_resSeq".toList, .scalar (.text "6.0".toList)⟩,
  ⟨"rowID".toList, .list [.int 1, .int 0, .int 7]⟩]

example : WF exDb ∧ findTab exDb "atom".toList = some ⟨"ATOM".toList, exTable⟩ ∧ ColsOK exDb.extraNames "x,rowID".toList = true ∧
    KeysOK exDb exKw ∧ RowIDInts exKw ∧ Small exDb exKw :=
  ⟨⟨by decide, by
      intro t ht r hr
      refine ⟨?_, fun k hk => absurd hk (by simp [exDb])⟩
      simp only [exDb, List.mem_singleton] at ht; subst ht
      simp only [exTable, List.mem_cons, List.not_mem_nil, or_false] at hr
      rcases hr with rfl | rfl | rfl <;> rfl⟩,
   List.find?_cons_of_pos (by decide), by decide, by unfold KeysOK; decide, rowIDInts_of_check _ (by decide), rfl, by decide⟩

end Props.C03
