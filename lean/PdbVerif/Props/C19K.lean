/-
  C19 — the SQL text tie for `many2sql.get_intersection` / `intersect`.  The statement text (`select t.c, … from t1 INNER JOIN t2 …
  on t1.a=t2.a and …;`), the number of columns per structure and the cutting of the joined rows are translated on every run
  (Gen/Sql.lean: `intersection_query`, `intersection_ncol`, `intersection_split`); MicroSql (Model/MicroSql.lean) says what the
  statement means.  The theorems state that the hand model `Model.getIntersection` / `Model.joinRows` of Props/C19.lean IS the
  translated text run by MicroSql and cut by the translated post-processing.  Row ORDER: model and MicroSql both list the joined
  tuples in nested-loop order (first table outermost); SQLite does not promise an order, the theorems of Props/C19.lean
  (aligned, sound and complete, once, own values) do not depend on it, and the correspondence run compares sorted tuples.
-/
import PdbVerif.Proofs.SqlJoinMain

namespace Props.C19K

/-- the translated query builder in closed form: fields `t.c` for every table and column piece, tables joined by ` INNER JOIN `, ON conditions for every match attribute and every pair of tables (`[:-2]`, `[:-5]` trimming included) -/
theorem intersection_query_nf : type_of% @SqlProofs.intersection_query_nf := @SqlProofs.intersection_query_nf
/-- the translated cutting in closed form: structure `it` gets the columns `[it·ncol, (it+1)·ncol)` of every joined row -/
theorem intersection_split_nf : type_of% @SqlProofs.intersection_split_nf := @SqlProofs.intersection_split_nf
/-- the statement text parses (MicroSql) to the join statement with exactly these fields, tables and ON conditions -/
theorem parse_joinText : type_of% @SqlProofs.parse_joinText := @SqlProofs.parse_joinText
/-- MicroSql's evaluation of that statement = `Model.joinRows` (nested loops + ON clause), projected table by table -/
theorem execJoin_eq : type_of% @SqlProofs.execJoin_eq := @SqlProofs.execJoin_eq
/-- **`Model.getIntersection` = translated text → MicroSql → translated cutting** (unknown column = OperationalError included) -/
theorem getIntersection_eq_sql : type_of% @SqlProofs.getIntersection_eq_sql := @SqlProofs.getIntersection_eq_sql
/-- an unknown match attribute is an OperationalError on both sides (two or more structures) -/
theorem getIntersection_bad_match : type_of% @SqlProofs.getIntersection_bad_match := @SqlProofs.getIntersection_bad_match
/-- `intersect`: the `*` query through the translated text returns, per structure, the values of `Model.component (joinRows …) k` — the rows `Model.intersect` round-trips -/
theorem intersect_data_via_sql : type_of% @SqlProofs.intersect_data_via_sql := @SqlProofs.intersect_data_via_sql
/-- the database hypotheses are decidable -/
theorem joinDb_of_check : type_of% @SqlProofs.joinDb_of_check := @SqlProofs.joinDb_of_check

end Props.C19K
