/-
  C11 — the translated fast routes (tie #1).  The invariance theorems of Props/C11.lean are stated about the hand models
  `Model.Rmsd.lrmsdFast` / `irmsdFast`; the theorems below (Proofs/GenRmsdFast.lean, restated through `type_of%`) state that the
  routines regenerated from StructureSimilarity.py on every run (`GenR.compute_lrmsd_fast`, `GenR.compute_irmsd_fast`,
  Gen/Rmsd.lean) select and pair the records exactly as those models do: zone stage, then the MODEL's list stage
  (`lrmsdLists` / `irmsdLists`), then the translated kernel — and that the hand models are the same two stages followed by
  `kernelLists`.  What a transformation of the files does to the lists of the model it therefore does to the lists of the code.
-/
import PdbVerif.Proofs.GenRmsdFast

namespace Props.C11K

theorem genr_compute_lrmsd_fast_stages : type_of% @Proofs.GenRmsd.genr_compute_lrmsd_fast_stages := @Proofs.GenRmsd.genr_compute_lrmsd_fast_stages
theorem genr_compute_irmsd_fast_stages : type_of% @Proofs.GenRmsd.genr_compute_irmsd_fast_stages := @Proofs.GenRmsd.genr_compute_irmsd_fast_stages
theorem lrmsdFast_model_stages : type_of% @Proofs.GenRmsd.lrmsdFast_model_stages := @Proofs.GenRmsd.lrmsdFast_model_stages
theorem irmsdFast_model_stages : type_of% @Proofs.GenRmsd.irmsdFast_model_stages := @Proofs.GenRmsd.irmsdFast_model_stages

/-- non-vacuity: an instance of the stage theorem on concrete files (decoy = reference = two records of chain A, zone read from a file) -/
example : GenR.compute_irmsd_fast (μ := Unit) (fun _ => .ok []) (fun _ => true) (fun _ => .ok []) (fun _ => .ok []) (fun _ => .ok true)
      (fun _ _ _ _ => .ok []) (fun _ _ _ => .error .valueError) [] [] false (some []) () 10 true =
    Proofs.GenRmsd.zoneStage (fun _ => true) (fun _ => .ok []) (GenR.compute_izone (fun _ => .ok []) (fun _ _ _ _ => .ok []) [] 10) (some []) >>= fun zw =>
      Proofs.GenRmsd.irmsdLists [] [] zw.1 (true || false) (fun _ => .ok true) >>= fun q =>
      GenK.superpose_selection (fun _ _ _ => .error .valueError) (Proofs.GenRmsd.coords q.1) (Proofs.GenRmsd.coords q.1) (Proofs.GenRmsd.coords q.2) () >>= fun x =>
      Except.ok (GenK.get_rmsd_radicand x (Proofs.GenRmsd.coords q.2), zw.2) :=
  genr_compute_irmsd_fast_stages _ _ _ _ _ _ _ _ _ _ _ _ _ _ [] [] rfl rfl

end Props.C11K
