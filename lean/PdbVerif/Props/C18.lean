/-
  C18 — align(): the chosen principal axis ends up on the requested Cartesian axis.  Property theorems only.

  `Gen.align_steps` (the axis vector and angle expression of each successive rotation of
  `_align_along_axis`) and `Gen.rodrigues` are regenerated from /repo on every run; `Model.alignMats`
  reads them.  `np.linalg.eigh`, `np.arctan2`, `np.arccos` enter through contracts:
  `S v = λ v` with `λ` extreme, and `Model.SphericalContract` (x = r sinθ cosφ, y = r sinθ sinφ, z = r cosθ),
  which `spherical_contract_holds` derives from Mathlib's `Complex.arg` (= arctan2) and `Real.arccos`.
-/
import Mathlib.Analysis.SpecialFunctions.Trigonometric.Basic
import Mathlib.Analysis.SpecialFunctions.Trigonometric.Inverse
import Mathlib.Analysis.SpecialFunctions.Complex.Arg
import PdbVerif.Proofs.Align
import PdbVerif.Spec.C18
import PdbVerif.Model.Align

set_option linter.unusedSectionVars false
set_option linter.unusedVariables false

namespace Props.C18
open Py Py.Mat3 Spec Model Proofs.M3 Proofs.Rod Proofs.Tr Proofs.Align

section field
variable {α : Type} [Field α] [LinearOrder α] [IsStrictOrderedRing α]

/-- **the vector is mapped onto the axis** (algebraic form).  For each target axis the product of the
    successive rotations read from the source maps the vector with spherical angles (φ, θ) and length `r`
    onto `r·e_axis`. -/
theorem align_maps_vector {v : Vec3 α} {r cp sp ct st : α} (h : SphericalContract v r cp sp ct st) :
    (∃ mats, alignMats cp sp ct st "x" = some mats ∧ (composeMats mats).mulVec v = Vec3.smul r e1) ∧
    (∃ mats, alignMats cp sp ct st "y" = some mats ∧ (composeMats mats).mulVec v = Vec3.smul r e2) ∧
    (∃ mats, alignMats cp sp ct st "z" = some mats ∧ (composeMats mats).mulVec v = Vec3.smul r e3) := by
  refine ⟨⟨_, mats_x cp sp ct st, ?_⟩, ⟨_, mats_y cp sp ct st, ?_⟩, ⟨_, mats_z cp sp ct st, ?_⟩⟩
  · rw [compose_two, maps_x h]; ext <;> simp [Vec3.smul, e1]
  · rw [compose_two, maps_y h]; ext <;> simp [Vec3.smul, e2]
  · rw [compose_two, maps_z h]; ext <;> simp [Vec3.smul, e3]

/-- the same, for any of the three axis names at once -/
theorem align_maps_vector_axis {v : Vec3 α} {r cp sp ct st : α} (h : SphericalContract v r cp sp ct st)
    (axis : String) (e : Vec3 α) (he : axisVec axis = some e) :
    ∃ mats, alignMats cp sp ct st axis = some mats ∧ (composeMats mats).mulVec v = Vec3.smul r e := by
  obtain ⟨hx, hy, hz⟩ := align_maps_vector h
  unfold axisVec at he
  split_ifs at he with h1 h2 h3
  · cases he; subst h1; exact hx
  · cases he; subst h2; exact hy
  · cases he; subst h3; exact hz

/-- every matrix of the sequence is a proper rotation, and so is their product -/
theorem align_mats_rotations (cp sp ct st : α) (hp : cp * cp + sp * sp = 1) (ht : ct * ct + st * st = 1)
    (axis : String) (mats : List (Mat3 α)) (h : alignMats cp sp ct st axis = some mats) :
    (∀ M ∈ mats, IsRotation M) ∧ IsRotation (composeMats mats) := by
  have key : ∀ M ∈ mats, IsRotation M := by
    have hcases : axis = "x" ∨ axis = "y" ∨ axis = "z" := by
      by_contra hc
      push Not at hc
      have : alignSteps axis = none := by
        unfold alignSteps Gen.align_steps
        simp [List.find?, Ne.symm hc.1, Ne.symm hc.2.1, Ne.symm hc.2.2]
      simp [alignMats, this] at h
    have rz1 := rodrigues_rot (α := α)
    rcases hcases with rfl | rfl | rfl
    · rw [mats_x] at h; cases h
      intro M hM
      simp only [List.mem_cons, List.mem_nil_iff, or_false] at hM
      rcases hM with rfl | rfl
      · exact rodrigues_rot cp (-sp) ⟨0, 0, 1⟩ (by linear_combination hp) (by simp [Vec3.normSq, Vec3.dot])
      · exact rodrigues_rot st ct ⟨0, 1, 0⟩ (by linear_combination ht) (by simp [Vec3.normSq, Vec3.dot])
    · rw [mats_y] at h; cases h
      intro M hM
      simp only [List.mem_cons, List.mem_nil_iff, or_false] at hM
      rcases hM with rfl | rfl
      · exact rodrigues_rot sp cp ⟨0, 0, 1⟩ (by linear_combination hp) (by simp [Vec3.normSq, Vec3.dot])
      · exact rodrigues_rot st (-ct) ⟨1, 0, 0⟩ (by linear_combination ht) (by simp [Vec3.normSq, Vec3.dot])
    · rw [mats_z] at h; cases h
      intro M hM
      simp only [List.mem_cons, List.mem_nil_iff, or_false] at hM
      rcases hM with rfl | rfl
      · exact rodrigues_rot cp (-sp) ⟨0, 0, 1⟩ (by linear_combination hp) (by simp [Vec3.normSq, Vec3.dot])
      · exact rodrigues_rot ct (-st) ⟨0, 1, 0⟩ (by linear_combination ht) (by simp [Vec3.normSq, Vec3.dot])
  exact ⟨key, composeMats_rot mats key⟩

/-- **covariance is equivariant**: rotating every point about any centre turns the scatter matrix `S` of a
    point set into `M S Mᵀ` -/
theorem cov_equivariant (M : Mat3 α) (c : Vec3 α) (X : List (Vec3 α)) (hX : X ≠ []) :
    scatter (rotateAbout M c X) = (M.mul (scatter X)).mul M.T := scatter_map M c X hX

/-- **one rigid rotation about the centroid**: the successive default-centre rotations of
    `_align_along_axis` move the whole array by the single proper rotation `composeMats mats` about the
    centroid of the array -/
theorem single_rigid_rotation_about_centroid (cp sp ct st : α) (hp : cp * cp + sp * sp = 1)
    (ht : ct * ct + st * st = 1) (axis : String) (mats : List (Mat3 α)) (h : alignMats cp sp ct st axis = some mats)
    (X : List (Vec3 α)) (hX : X ≠ []) :
    RigidAboutCentroid X (applyMats mats X) := by
  refine ⟨composeMats mats, (align_mats_rotations cp sp ct st hp ht axis mats h).2, ?_⟩
  rw [applyMats_eq mats X hX, ← Proofs.Residual.mean_eq]
  unfold rotateAbout
  apply List.map_congr_left
  intro p _
  ext <;> simp only [Vec3.add] <;> ring

/-- **the principal axis is aligned** (largest variance, `align`).  Let `v` be an eigenvector of the scatter
    matrix of the selected atoms whose eigenvalue dominates the quadratic form (the `eigh`/`argmax`
    contract), with spherical angles (φ, θ).  After the whole structure `Xall` has been moved by
    `_align_along_axis`, the selected atoms `Xsel` (moved along with it) have their largest variance along
    the requested axis, which is an eigenvector for the same eigenvalue; with a strict gap it is the only
    such direction. -/
theorem principal_axis_aligned {v : Vec3 α} {r lam cp sp ct st : α} (hsph : SphericalContract v r cp sp ct st)
    (hr : r ≠ 0) (Xall Xsel : List (Vec3 α)) (hsel : Xsel ≠ [])
    (heig : (scatter Xsel).mulVec v = Vec3.smul lam v)
    (hdom : ∀ w, quadForm (scatter Xsel) w ≤ lam * Vec3.normSq w)
    (axis : String) (e : Vec3 α) (he : axisVec axis = some e) :
    ∃ mats, alignMats cp sp ct st axis = some mats ∧
      let g := fun p => Vec3.add ((composeMats mats).mulVec (Vec3.sub p (mean Xall))) (mean Xall)
      LargestVarianceAlong (Xsel.map g) e ∧
      (scatter (Xsel.map g)).mulVec e = Vec3.smul lam e ∧
      ((∀ w, Vec3.dot w v = 0 → 0 < Vec3.normSq w → quadForm (scatter Xsel) w < lam * Vec3.normSq w) →
        ∀ w, Vec3.dot w e = 0 → 0 < Vec3.normSq w → quadForm (scatter (Xsel.map g)) w < lam * Vec3.normSq w) := by
  obtain ⟨mats, hm, hv⟩ := align_maps_vector_axis hsph axis e he
  have hrot := (align_mats_rotations cp sp ct st hsph.phi_unit hsph.theta_unit axis mats hm).2
  have he1 : Vec3.normSq e = 1 := by
    unfold axisVec at he
    split_ifs at he <;> cases he <;> simp [Vec3.normSq, Vec3.dot, e1, e2, e3]
  refine ⟨mats, hm, ?_⟩
  intro g
  have hS : scatter (Xsel.map g) = ((composeMats mats).mul (scatter Xsel)).mul (composeMats mats).T :=
    scatter_map _ _ Xsel hsel
  obtain ⟨hE, hQ⟩ := eigen_transfer hrot.1 hr hv he1 heig
  refine ⟨?_, ?_, ?_⟩
  · intro w
    rw [hS, hQ, he1, _root_.mul_one]
    exact dominance_transfer hrot.1 hdom w
  · rw [hS]; exact hE
  · intro hgap w hw hw0
    rw [hS]; exact gap_transfer hrot.1 hr hv hgap w hw hw0

/-- **the least-variance direction is normal to the plane** (`align_interface`): the same with the minimal
    eigenvalue; `planeNormal plane` is the axis the code aligns to (`Model.planeAxis`). -/
theorem principal_axis_aligned_min {v : Vec3 α} {r lam cp sp ct st : α} (hsph : SphericalContract v r cp sp ct st)
    (hr : r ≠ 0) (Xall Xsel : List (Vec3 α)) (hsel : Xsel ≠ [])
    (heig : (scatter Xsel).mulVec v = Vec3.smul lam v)
    (hdom : ∀ w, lam * Vec3.normSq w ≤ quadForm (scatter Xsel) w)
    (plane axis : String) (hax : planeAxis plane = some axis) (e : Vec3 α) (he : planeNormal plane = some e) :
    axisVec axis = some e ∧
    ∃ mats, alignMats cp sp ct st axis = some mats ∧
      let g := fun p => Vec3.add ((composeMats mats).mulVec (Vec3.sub p (mean Xall))) (mean Xall)
      LeastVarianceAlong (Xsel.map g) e ∧ (scatter (Xsel.map g)).mulVec e = Vec3.smul lam e := by
  have hae : axisVec axis = some e := by
    unfold planeAxis at hax; unfold planeNormal at he; unfold axisVec
    split_ifs at hax with h1 h2 h3 <;> cases hax <;> simp_all
  refine ⟨hae, ?_⟩
  obtain ⟨mats, hm, hv⟩ := align_maps_vector_axis hsph axis e hae
  have hrot := (align_mats_rotations cp sp ct st hsph.phi_unit hsph.theta_unit axis mats hm).2
  have he1 : Vec3.normSq e = 1 := by
    unfold axisVec at hae
    split_ifs at hae <;> cases hae <;> simp [Vec3.normSq, Vec3.dot, e1, e2, e3]
  refine ⟨mats, hm, ?_⟩
  intro g
  have hS : scatter (Xsel.map g) = ((composeMats mats).mul (scatter Xsel)).mul (composeMats mats).T :=
    scatter_map _ _ Xsel hsel
  obtain ⟨hE, hQ⟩ := eigen_transfer hrot.1 hr hv he1 heig
  refine ⟨?_, ?_⟩
  · intro w
    rw [hS, hQ, he1, _root_.mul_one]
    exact dominance_transfer_min hrot.1 hdom w
  · rw [hS]; exact hE

end field

/-! ### the database statement -/

/-- **nothing but coordinates changes**, and the whole structure is moved by one rigid rotation about its
    centroid: if `align_pca_vect` returns, the table has the same rows in the same order with all
    non-coordinate attributes untouched, and the coordinate array is the image of the old one under a single
    proper rotation about the centroid of all atoms. -/
theorem only_xyz_changes (cp sp ct st : ℚ) (hp : cp * cp + sp * sp = 1) (ht : ct * ct + st * st = 1)
    (axis : String) (db db' : List Atom) (h : alignPcaVect cp sp ct st axis db = .ok db') :
    ∃ R : Mat3 ℚ, IsRotation R ∧
      MovesExactly selAll (fun p => Vec3.add (R.mulVec (Vec3.sub p (mean (getXYZ selAll db)))) (mean (getXYZ selAll db))) db db' := by
  unfold alignPcaVect at h
  cases hm : alignMats cp sp ct st axis with
  | none => rw [hm] at h; cases h
  | some mats =>
    rw [hm] at h
    simp only at h
    by_cases hne : (getXYZ selAll db).length = 0
    · rw [if_pos hne] at h; cases h
    · rw [if_neg hne] at h
      have hX : getXYZ selAll db ≠ [] := fun hc => hne (by rw [hc]; rfl)
      refine ⟨composeMats mats, (align_mats_rotations cp sp ct st hp ht axis mats hm).2, ?_⟩
      rw [applyMats_eq mats _ hX] at h
      unfold rotateAbout at h
      rw [update_get selAll _ db hne] at h
      cases h
      exact moveSelected_moves selAll _ db

/-! ### real angles -/

/-- **the vector is mapped onto the axis** (real angles).  With `x = ρ cos φ`, `y = ρ sin φ`, `ρ = r sin θ`,
    `z = r cos θ` the composed rotation with the real angles −φ, π/2 − θ, … read from the source maps
    `(x, y, z)` onto `r·e_axis`, for x, y and z. -/
theorem align_maps_vector_real (φ θ r ρ : ℝ) (v : Vec3 ℝ) (hx : v.x = ρ * Real.cos φ) (hy : v.y = ρ * Real.sin φ)
    (hρ : ρ = r * Real.sin θ) (hz : v.z = r * Real.cos θ) (axis : String) (e : Vec3 ℝ) (he : axisVec axis = some e) :
    ∃ steps, alignSteps axis = some steps ∧ (composeMats (steps.map (stepMatReal φ θ))).mulVec v = Vec3.smul r e := by
  have hs : SphericalContract v r (Real.cos φ) (Real.sin φ) (Real.cos θ) (Real.sin θ) :=
    ⟨by rw [hx, hρ], by rw [hy, hρ], hz,
     by have := Real.cos_sq_add_sin_sq φ; nlinarith, by have := Real.cos_sq_add_sin_sq θ; nlinarith⟩
  obtain ⟨mats, hm, hv⟩ := align_maps_vector_axis hs axis e he
  unfold alignMats at hm
  cases hst : alignSteps axis with
  | none => rw [hst] at hm; cases hm
  | some steps =>
    rw [hst] at hm
    simp only [Option.map_some, Option.some.injEq] at hm
    refine ⟨steps, rfl, ?_⟩
    have : steps.map (stepMatReal φ θ) = mats := by
      rw [← hm]; apply List.map_congr_left; intro s _; exact stepMatReal_eq φ θ s
    rw [this]; exact hv

/-- **the contract of `get_rotation_angle` holds** for `phi = arctan2(y, x)` (`Complex.arg (x + iy)`) and
    `theta = arccos(z / r)`, `r = ‖v‖ > 0`. -/
theorem spherical_contract_holds (v : Vec3 ℝ) (r : ℝ) (hr : 0 < r) (hr2 : r * r = Vec3.normSq v) :
    SphericalContract v r (Real.cos (Complex.arg ⟨v.x, v.y⟩)) (Real.sin (Complex.arg ⟨v.x, v.y⟩))
      (Real.cos (Real.arccos (v.z / r))) (Real.sin (Real.arccos (v.z / r))) := by
  simp only [Vec3.normSq, Vec3.dot] at hr2
  have hzr : -1 ≤ v.z / r ∧ v.z / r ≤ 1 := by
    constructor
    · rw [le_div_iff₀ hr]; nlinarith [sq_nonneg (v.z + r), sq_nonneg v.x, sq_nonneg v.y]
    · rw [div_le_iff₀ hr]; nlinarith [sq_nonneg (v.z - r), sq_nonneg v.x, sq_nonneg v.y]
  have hcos : Real.cos (Real.arccos (v.z / r)) = v.z / r := Real.cos_arccos hzr.1 hzr.2
  have hsin : Real.sin (Real.arccos (v.z / r)) = Real.sqrt (1 - (v.z / r) ^ 2) := Real.sin_arccos _
  -- ρ = √(x² + y²) = r · sin θ
  have hρ : r * Real.sqrt (1 - (v.z / r) ^ 2) = Real.sqrt (v.x * v.x + v.y * v.y) := by
    have h1 : 1 - (v.z / r) ^ 2 = (v.x * v.x + v.y * v.y) / (r * r) := by
      field_simp; linear_combination hr2
    rw [h1, Real.sqrt_div' _ (by positivity), Real.sqrt_mul_self hr.le]
    field_simp
  have hnorm : ‖(⟨v.x, v.y⟩ : ℂ)‖ = Real.sqrt (v.x * v.x + v.y * v.y) := by
    rw [Complex.norm_def, Complex.normSq_mk]
  refine ⟨?_, ?_, ?_, ?_, ?_⟩
  · rw [hsin, hρ]
    by_cases h0 : (⟨v.x, v.y⟩ : ℂ) = 0
    · have hx0 : v.x = 0 := by simpa using congrArg Complex.re h0
      have hy0 : v.y = 0 := by simpa using congrArg Complex.im h0
      simp [hx0, hy0]
    · rw [Complex.cos_arg h0, hnorm]
      have : Real.sqrt (v.x * v.x + v.y * v.y) ≠ 0 := by rw [← hnorm]; exact norm_ne_zero_iff.2 h0
      generalize Real.sqrt (v.x * v.x + v.y * v.y) = s at this ⊢
      simp only [Complex.re]
      field_simp
  · rw [hsin, hρ, Complex.sin_arg, hnorm]
    by_cases h0 : Real.sqrt (v.x * v.x + v.y * v.y) = 0
    · have : v.x * v.x + v.y * v.y = 0 := by
        have := Real.sqrt_eq_zero'.1 h0
        nlinarith [sq_nonneg v.x, sq_nonneg v.y]
      have hy0 : v.y = 0 := by nlinarith [sq_nonneg v.x, sq_nonneg v.y]
      simp [hy0]
    · generalize Real.sqrt (v.x * v.x + v.y * v.y) = s at h0 ⊢
      simp only [Complex.im]
      field_simp
  · rw [hcos]; field_simp
  · have := Real.cos_sq_add_sin_sq (Complex.arg ⟨v.x, v.y⟩); nlinarith
  · have := Real.cos_sq_add_sin_sq (Real.arccos (v.z / r)); nlinarith

/-! ### non-vacuity -/

/-- a vector with rational spherical data: φ with (cos, sin) = (3/5, 4/5), θ with (4/5, 3/5), r = 25 -/
example : SphericalContract (⟨9, 12, 20⟩ : Vec3 ℚ) 25 (3/5) (4/5) (4/5) (3/5) := by
  constructor <;> norm_num

example : ∃ mats, alignMats (3/5 : ℚ) (4/5) (4/5) (3/5) "y" = some mats ∧
    (composeMats mats).mulVec (⟨9, 12, 20⟩ : Vec3 ℚ) = ⟨0, 25, 0⟩ := by
  have h : SphericalContract (⟨9, 12, 20⟩ : Vec3 ℚ) 25 (3/5) (4/5) (4/5) (3/5) := by constructor <;> norm_num
  obtain ⟨_, hy, _⟩ := align_maps_vector h
  obtain ⟨mats, h1, h2⟩ := hy
  exact ⟨mats, h1, by rw [h2]; ext <;> simp [Vec3.smul, e2]⟩

end Props.C18
