/-
  C17 — query results do not depend on condition list length or on which table is used.
  Property theorems only.  The limits are the constants of the source (`Gen.max_sql_values`,
  `Gen.SQLITE_LIMIT_VARIABLE_NUMBER`, regenerated on every run).

  The model `Model.getF` follows the recursion of `pdb2sqlcore.get` as written (per-model dispatch; one recursive
  call per chunk of the first over-long list); every recursive call consumes one unit of `fuel`.  `Model.get`
  starts with `len(kwargs) + 3` units; the theorem below shows that this is never used up — the termination
  argument: the number of over-long lists decreases with every level — and that the answer is the row-by-row
  evaluation on the addressed table.
-/
import PdbVerif.Proofs.TableAssign
import PdbVerif.Props.C03

set_option linter.unusedVariables false
set_option linter.unusedSimpArgs false

namespace Props.C17
open Tbl Model TableProofs

/-- the limits in the source are the ones the property statement names -/
theorem limits_are_950_999 : Gen.max_sql_values = 950 ∧ Gen.SQLITE_LIMIT_VARIABLE_NUMBER = 999 := by decide

/-- **get for every list length.**  For EVERY value-list length (no bound), positive or negated conditions,
    with or without duplicates, on every table `tn` of a (multi-table) database, with or without several
    models: the answer is `Spec.getOn` — the row-by-row evaluation of the conditions on *that* table, each
    matching row once, in table order — or the documented error exactly when the conditions together exceed the
    limit (`Spec.tooMany`: every condition weighs `min(count, 950)`).  Never `.fuel` (no unbounded recursion),
    never another table's rows. -/
theorem get_any_length (db : Db) (hwf : WF db) (tn : Py.Str) (tab : Tab) (htab : findTab db tn = some tab)
    (columns : Py.Str) (hcols : ColsOK db.extraNames columns = true) (kw : List Kw)
    (hkeys : KeysOK db kw) (hrow : RowIDInts kw) :
    Model.get db columns tn kw =
      toResult (Spec.getOn Gen.max_sql_values Gen.SQLITE_LIMIT_VARIABLE_NUMBER db columns tn kw) :=
  get_full db hwf tn tab htab columns hcols kw hkeys hrow

/-- the same, spelled out for a single-model file: rows of the addressed table, or the documented error -/
theorem get_any_length_rows (db : Db) (hwf : WF db) (tn : Py.Str) (tab : Tab) (htab : findTab db tn = some tab)
    (columns : Py.Str) (hcols : ColsOK db.extraNames columns = true) (kw : List Kw)
    (hkeys : KeysOK db kw) (hrow : RowIDInts kw) (hnm : db.nModel = 0) :
    ∃ items, Spec.get db.extra tab.rows columns kw = some items ∧
      Model.get db columns tn kw =
        (if Spec.tooMany Gen.max_sql_values Gen.SQLITE_LIMIT_VARIABLE_NUMBER kw then .error .tooManyVars
         else .ok (.data items)) := by
  obtain ⟨_, cs, c1, _⟩ := cols_ok db hwf columns hcols
  obtain ⟨q, hq⟩ := mapM_condOf_ok db kw hkeys
  refine ⟨_, spec_get_eq db tab.rows columns kw cs q c1 hq, ?_⟩
  rw [get_full db hwf tn tab htab columns hcols kw hkeys hrow]
  have htable : db.table? tn = some tab.rows := by rw [findTab_table?, htab]; rfl
  simp only [Spec.getOn, htable, hnm, Nat.lt_irrefl, decide_false, Bool.and_false, Bool.false_eq_true, if_false,
    Spec.answerOne, spec_get_eq db tab.rows columns kw cs q c1 hq]
  split_ifs <;> rfl

/-- **the chunking lemma** behind it: the rowID sets selected by the chunks of a list, combined by union (by
    intersection for a negated list) and sorted, are the positions selected by the whole list -/
theorem chunking (db : Db) (T : Table) (q1 q2 : List Spec.Cond) (col : Col) (neg : Bool)
    (c0 : List Val) (rest : List (List Val)) :
    sortDedup intLt ((foldChunks neg ((c0 :: rest).map (fun c => posInts db T (q1 ++ ⟨col, neg, c⟩ :: q2))) none).getD []) =
      posInts db T (q1 ++ ⟨col, neg, (c0 :: rest).flatten⟩ :: q2) :=
  chunks_combine db T q1 q2 col neg c0 rest

/-- **the table name is respected**: the answer depends on the addressed table only — two databases that agree
    on that table (and on the added columns and the number of models) give the same answer, whatever their
    other tables hold -/
theorem table_name_respected (db db' : Db) (hwf : WF db) (hwf' : WF db') (tn : Py.Str) (tab tab' : Tab)
    (htab : findTab db tn = some tab) (htab' : findTab db' tn = some tab') (hrows : tab.rows = tab'.rows)
    (hextra : db.extra = db'.extra) (hnm : db.nModel = db'.nModel)
    (columns : Py.Str) (hcols : ColsOK db.extraNames columns = true) (kw : List Kw)
    (hkeys : KeysOK db kw) (hrow : RowIDInts kw) :
    Model.get db columns tn kw = Model.get db' columns tn kw := by
  have hn : db'.extraNames = db.extraNames := by unfold Db.extraNames; rw [hextra]
  have hc : db'.colnames = db.colnames := by unfold Db.colnames; rw [hn]
  rw [get_full db hwf tn tab htab columns hcols kw hkeys hrow,
    get_full db' hwf' tn tab' htab' columns (by rw [hn]; exact hcols) kw (by intro k hk; rw [hc]; exact hkeys k hk) hrow]
  have h1 : db.table? tn = some tab.rows := by rw [findTab_table?, htab]; rfl
  have h2 : db'.table? tn = some tab.rows := by rw [findTab_table?, htab', hrows]; rfl
  congr 1
  unfold Spec.getOn Spec.answerOne
  rw [h1, h2, hnm, hextra]

/-- **update for every list length**: the rows `update` addresses are the property's selection on the addressed
    table whatever the length of the value lists (or the call stops with the documented error before anything is
    modified), and no other table can change -/
theorem update_any_length (db : Db) (hwf : WF db) (hS : Shape db) (tn : Py.Str) (tab : Tab) (htab : findTab db tn = some tab)
    (columns : Py.Str) (values : List (List Val)) (kw : List Kw) (hkeys : KeysOK db kw) (hrow : RowIDInts kw)
    (hnm : db.nModel = 0) :
    (∃ q, kw.mapM (Spec.condOf db.extraNames) = some q ∧
      updIds db tn kw =
        (if Spec.tooMany Gen.max_sql_values Gen.SQLITE_LIMIT_VARIABLE_NUMBER kw then .error .tooManyVars
         else .ok (List.map (fun (p : Nat) => (p : Int)) (Spec.positions db.extra tab.rows q)))) ∧
    (Spec.tooMany Gen.max_sql_values Gen.SQLITE_LIMIT_VARIABLE_NUMBER kw = true →
      (Model.update db columns values tn kw).1 = db ∧ ∃ e, (Model.update db columns values tn kw).2 = .error e) ∧
    ∀ j p c, ¬ Addresses db j tn → cellAt (Model.update db columns values tn kw).1 j p c = cellAt db j p c := by
  obtain ⟨q, hq⟩ := mapM_condOf_ok db kw hkeys
  have hids : updIds db tn kw =
      (if Spec.tooMany Gen.max_sql_values Gen.SQLITE_LIMIT_VARIABLE_NUMBER kw then .error .tooManyVars
       else .ok (List.map (fun (p : Nat) => (p : Int)) (Spec.positions db.extra tab.rows q))) := by
    by_cases hm : Spec.tooMany Gen.max_sql_values Gen.SQLITE_LIMIT_VARIABLE_NUMBER kw = true
    · unfold updIds
      rw [get_full db hwf tn tab htab rowIDName (colsOK_rowID _) kw hkeys hrow]
      have htable : db.table? tn = some tab.rows := by rw [findTab_table?, htab]; rfl
      have hget := spec_get_eq db tab.rows rowIDName kw [Col.rowID] q (colsOf_rowID _) hq
      simp only [Spec.getOn, htable, hnm, Nat.lt_irrefl, decide_false, Bool.and_false, Bool.false_eq_true,
        if_false, Spec.answerOne, hget, hm, if_true, toResult]
      rfl
    · have hm' : Spec.tooMany Gen.max_sql_values Gen.SQLITE_LIMIT_VARIABLE_NUMBER kw = false := by simpa using hm
      rw [updIds_eq db hwf tn tab htab kw hkeys hrow hnm hm' q hq, posInts_eq_positions]
      simp [hm']
  refine ⟨⟨q, hq, hids⟩, ?_, ?_⟩
  · intro hm
    rw [hm] at hids
    simp only [if_true] at hids
    have hdisp : (!hasModelKey kw && decide (db.nModel > 0)) = false := by simp [hnm]
    unfold Model.update
    simp only [hdisp, Bool.false_eq_true, if_false]
    split_ifs with h1
    · exact ⟨rfl, _, rfl⟩
    · unfold updateCore
      cases values with
      | nil => exact ⟨rfl, _, rfl⟩
      | cons v0 vs =>
        simp only
        split_ifs with h2
        · exact ⟨rfl, _, rfl⟩
        · have : (Model.get db rowIDName tn kw >>= asInts) = .error .tooManyVars := hids
          rw [this]
          exact ⟨rfl, _, rfl⟩
  · intro j p c hA
    exact update_frame db hS columns values tn kw j p c (fun hh => hA hh.1)

/-- non-vacuity: a negated rowID list of 1000 arbitrary positions together with a scalar condition satisfies the
    hypotheses of `get_any_length`; the list is over-long (chunked path) and the conditions do not exceed the
    combined limit -/
example (ns : List Int) (hn : ns.length = 1000) :
    let kw : List Kw := [⟨"no_rowID".toList, .list (ns.map Val.int)⟩, ⟨"name".toList, .scalar (.text "CA".toList)⟩]
    KeysOK Props.C03.exDb kw ∧ RowIDInts kw ∧ (kw.any (fun k => isLong k.arg)) = true ∧
    Spec.tooMany Gen.max_sql_values Gen.SQLITE_LIMIT_VARIABLE_NUMBER kw = false := by
  have s1 : stripNo "no_rowID".toList = (true, rowIDName) := by decide
  have s2 : stripNo "name".toList = (false, "name".toList) := by decide
  have m1 : rowIDName ∈ Props.C03.exDb.colnames := by decide
  have m2 : "name".toList ∈ Props.C03.exDb.colnames := by decide
  have n2 : "name".toList ≠ rowIDName := by decide
  refine ⟨?_, ?_, ?_, ?_⟩
  · intro k hk
    simp only [List.mem_cons, List.not_mem_nil, or_false] at hk
    rcases hk with rfl | rfl
    · rw [s1]; exact m1
    · rw [s2]; exact m2
  · intro k hk h0 v hv
    simp only [List.mem_cons, List.not_mem_nil, or_false] at hk
    rcases hk with rfl | rfl
    · simp only [Arg.vals, List.mem_map] at hv
      obtain ⟨i, _, rfl⟩ := hv
      exact ⟨i, rfl⟩
    · rw [s2] at h0; exact absurd h0 n2
  · have : isLong (Arg.list (ns.map Val.int)) = true := by
      simp only [isLong, List.length_map, hn]; decide
    show (isLong (Arg.list (ns.map Val.int)) || _) = true
    rw [this]; rfl
  · show decide (Spec.weight Gen.max_sql_values _ > Gen.SQLITE_LIMIT_VARIABLE_NUMBER) = false
    simp only [Spec.weight, List.map_cons, List.map_nil, List.sum_cons, List.sum_nil, Spec.Arg.count, List.length_map, hn]
    decide

end Props.C17
