/-
  C01 — parsing.  Property theorems only (helper lemmas in Proofs/).
-/
import PdbVerif.Gen.Consts
import PdbVerif.Gen.Str
import PdbVerif.Model.Parse
import PdbVerif.Spec.C01
import PdbVerif.Proofs.Str
import PdbVerif.Proofs.Parse
import PdbVerif.Proofs.ParseRows

set_option linter.unusedVariables false

namespace Props.C01
open Py

/-- The column table of the source is the wwPDB table of the property statement
    (serial 7–11, name 13–16, altLoc 17, resName 18–20, chainID 22, resSeq 23–26, iCode 27,
     x 31–38, y 39–46, z 47–54, occupancy 55–60, B-factor 61–66, element 77–78). -/
theorem delimiter_is_wwpdb : Gen.delimiter = Spec.wwpdbHalfOpen := by decide

/-- The column list of the source is the fourteen standard attributes, in the order of `Py.Atom`. -/
theorem col_order : Gen.col.map (·.1) = Py.Atom.fieldNames := by decide

/-- numeric columns are converted, text columns kept -/
theorem col_types : Gen.col.map (·.2) =
    ["INT", "TEXT", "TEXT", "TEXT", "TEXT", "INT", "TEXT", "REAL", "REAL", "REAL", "REAL", "REAL", "TEXT", "INT"] := by decide

/-- the documented defaults: occupancy 1.00, B-factor 10.00, chain from segID, element from the atom name -/
theorem blank_defaults_documented : Gen.blank_defaults =
    [("chainID", .chainFromSegID), ("occ", .num 1), ("temp", .num 10), ("element", .elementFromName)] := by decide

/-- only `ATOM` records produce rows; `ENDMDL` separates models -/
theorem record_prefixes : Gen.atom_prefix = "ATOM".toList ∧ Gen.endmdl_prefix = "ENDMDL".toList := by decide

/-! ### 1. the 80-column guard -/

/-- a record of at most 80 columns is read as if padded with blanks to exactly 80 -/
theorem linelength_spec (t : Str) (h : t.length ≤ 80) :
    Gen._format_pdb_linelength t = .ok (Spec.pad80 t) ∧ (Spec.pad80 t).length = 80 :=
  ⟨Proofs.Parse.linelength_ok t h, Proofs.Parse.pad80_length t h⟩

/-- a record longer than 80 columns is refused -/
theorem linelength_too_long_raises (t : Str) (h : t.length > 80) :
    Gen._format_pdb_linelength t = .error .valueError :=
  Proofs.Parse.linelength_err t h

example : ("ATOM      1  CA  ALA A   1".toList).length ≤ 80 := by decide
example : (List.replicate 81 'x').length > 80 := by decide

/-! ### 2. every slice of the source's table is the wwPDB column range of the statement -/

/-- For every entry `(name, a, b)` of the source's table, `line[a:b].strip()` is the content of the
    1-based inclusive columns `a+1 … b`, and these are the columns printed in the property
    (`delimiter_is_wwpdb`).  True for every line (80 columns after padding in particular). -/
theorem slice_is_columns (l : Str) (name : String) (a b : Nat) (h : (name, a, b) ∈ Gen.delimiter) :
    Py.strip (Py.slice l (a : Int) (b : Int)) = Spec.cols l (a + 1) b ∧ (name, a + 1, b) ∈ Spec.wwpdbColumns := by
  refine ⟨Proofs.Parse.strip_slice_cols l a b, ?_⟩
  rw [delimiter_is_wwpdb] at h
  simp only [Spec.wwpdbHalfOpen, Spec.wwpdbColumns, List.map_cons, List.map_nil, List.mem_cons,
    Prod.mk.injEq, List.not_mem_nil, or_false] at h
  rcases h with h | h | h | h | h | h | h | h | h | h | h | h | h <;>
    (obtain ⟨rfl, rfl, rfl⟩ := h; decide)

example : ("x", 30, 38) ∈ Gen.delimiter := by decide

/-! ### 3. the two fallbacks -/

/-- blank chain: the chain is the content of the segID columns 73–76, and a blank segID is an error -/
theorem get_chainID_spec (l : Str) :
    Gen._get_chainID l = if Spec.cols l 73 76 = [] then .error .valueError else .ok (Spec.cols l 73 76) :=
  Proofs.Parse.get_chainID_eq l

/-- blank element: the element is the documented function of the atom-name columns 13–16 -/
theorem get_element_spec (l : Str) (h : l.length = 80) :
    Gen._get_element l = .ok (Spec.elementOfName (Spec.rawCols l 13 16)) :=
  Proofs.Parse.get_element_eq l (by omega)

/-- The element depends on columns 13–16 only. -/
theorem get_element_only_name_columns (l l' : Str) (h : l.length = 80) (h' : l'.length = 80)
    (hn : Spec.rawCols l 13 16 = Spec.rawCols l' 13 16) : Gen._get_element l = Gen._get_element l' := by
  rw [get_element_spec l h, get_element_spec l' h', hn]

/-- The four documented situations, and in each the result is free of blanks (no padding):
    ` CA `-like names (column 13 blank) and names with a leading digit give column 14; a four-character
    hydrogen `H???` gives `H`; otherwise the first two columns with a blank second column dropped. -/
theorem element_unpadded (c1 c2 c3 c4 : Char) :
    (isSpace c1 = true → Spec.elementOfName [c1, c2, c3, c4] = [c2]) ∧
    (isSpace c1 = false → Spec.isDigitChar c1 = true → Spec.elementOfName [c1, c2, c3, c4] = [c2]) ∧
    (c1 = 'H' → isSpace c4 = false → Spec.elementOfName [c1, c2, c3, c4] = ['H']) ∧
    (isSpace c1 = false → Spec.isDigitChar c1 = false → ¬ (c1 = 'H' ∧ isSpace c4 = false) →
        Spec.elementOfName [c1, c2, c3, c4] = if isSpace c2 then [c1] else [c1, c2]) ∧
    ((isSpace c1 = true ∨ Spec.isDigitChar c1 = true → isSpace c2 = false) →
        ∀ c ∈ Spec.elementOfName [c1, c2, c3, c4], isSpace c = false) := by
  unfold Spec.elementOfName
  refine ⟨?_, ?_, ?_, ?_, ?_⟩
  · intro h; simp [h]
  · intro h d; simp [h, d]
  · intro h s; subst h
    have : isSpace 'H' = false := by decide
    have d : Spec.isDigitChar 'H' = false := by decide
    simp [this, d, s]
  · intro h d hh
    have hh' : ¬ (c1 = 'H' ∧ ¬ isSpace c4 = true) := by simpa using hh
    simp only [h, d, hh', Bool.false_eq_true, if_false, strip_pair_of_not_space c1 c2 h]
  · intro h2 c hc
    dsimp only at hc
    split_ifs at hc with s1 d hh
    · simp only [List.mem_singleton] at hc; subst hc; exact h2 (Or.inl s1)
    · simp only [List.mem_singleton] at hc; subst hc; exact h2 (Or.inr d)
    · simp only [List.mem_singleton] at hc; subst hc; decide
    · have s1' : isSpace c1 = false := by simpa using s1
      rw [strip_pair_of_not_space c1 c2 s1'] at hc
      split_ifs at hc with s2
      · simp only [List.mem_singleton] at hc; subst hc; exact s1'
      · simp only [List.mem_cons, List.not_mem_nil, or_false] at hc
        rcases hc with hc | hc <;> subst hc <;> simp_all

example : Spec.elementOfName " CA ".toList = "C".toList ∧ Spec.elementOfName "1HG ".toList = "H".toList ∧
    Spec.elementOfName "HE21".toList = "H".toList ∧ Spec.elementOfName "FE  ".toList = "FE".toList ∧
    Spec.elementOfName "C   ".toList = "C".toList := by decide

/-! ### 4. one record -/

/-- The central statement: for EVERY string `raw` and model number `n` the record loop's row (or error)
    is the property's: each field = its wwPDB columns (of the text up to the end of the line, padded to 80)
    with surrounding blanks removed and numbers converted, the documented defaults for blank occupancy,
    B-factor, chain and element; more than 80 columns, a non-numeric numeric field, or blank chain with
    blank segID are errors. -/
theorem parse_fields (raw : Str) (n : Int) : Model.parseAtomLine raw n = Spec.parseRecord raw n :=
  Proofs.Parse.parseAtomLine_eq raw n

example : Model.parseAtomLine "ATOM  99999  CA BALA A-999C     11.104   6.134  -6.504  1.00  0.00           C  \n".toList 2 =
    .ok [.int 99999, .text "CA".toList, .text "B".toList, .text "ALA".toList, .text "A".toList, .int (-999),
         .text "C".toList, .real (mkRat 11104 1000), .real (mkRat 6134 1000), .real (mkRat (-6504) 1000),
         .real 1, .real 0, .text "C".toList, .int 2] := by decide +kernel

/-! ### 5. the record loop -/

/-- One row per ATOM record, in input order, nothing from any other record, the model number being the
    number of ENDMDL records before it: the code's loop is the property's `Spec.parse` on EVERY list of lines
    (results and errors alike). -/
theorem parse_rows (ls : List Str) : Model.parse ls = Spec.parse ls :=
  Proofs.ParseRows.parse_eq parse_fields ls

/-- `Spec.parse` spelled out: the rows are the readings of the ATOM records, each with its model number … -/
theorem parse_rows_explicit (ls : List Str) :
    Model.parse ls = (Proofs.ParseRows.atomsFrom ls 0).mapM (fun p => Spec.parseRecord p.1 p.2) := by
  rw [parse_rows]; exact Proofs.ParseRows.parseFrom_eq_mapM ls 0

/-- … the records read are exactly the ATOM records, in input order … -/
theorem atom_records_in_order (ls : List Str) :
    (Proofs.ParseRows.atomsFrom ls 0).map (·.1) = ls.filter Spec.isAtomRecord :=
  Proofs.ParseRows.atomsFrom_map_fst ls 0

/-- … and the model number of an ATOM record is the number of ENDMDL records before it. -/
theorem model_number (pre post : List Str) (l : Str) (h : Spec.isAtomRecord l = true) :
    Proofs.ParseRows.atomsFrom (pre ++ l :: post) 0 =
      Proofs.ParseRows.atomsFrom pre 0 ++ (l, ((pre.countP Spec.isEndmdl : Nat) : Int)) ::
        Proofs.ParseRows.atomsFrom post ((pre.countP Spec.isEndmdl : Nat) : Int) := by
  have := Proofs.ParseRows.atomsFrom_model pre post 0 h
  simpa using this

/-- number of rows = number of ATOM records -/
theorem rows_count (ls : List Str) (t : List Row) (h : Model.parse ls = .ok t) :
    t.length = (ls.filter Spec.isAtomRecord).length := by
  rw [parse_rows] at h; exact Proofs.ParseRows.rows_count h

/-- a record that is neither ATOM nor ENDMDL (HETATM, TER, ANISOU, REMARK, END, blank …), inserted anywhere,
    changes nothing -/
theorem other_records_ignored (pre post : List Str) (x : Str)
    (ha : Spec.isAtomRecord x = false) (he : Spec.isEndmdl x = false) :
    Model.parse (pre ++ x :: post) = Model.parse (pre ++ post) := by
  rw [parse_rows, parse_rows]; exact Proofs.ParseRows.other_records_ignored pre post 0 ha he

example : Spec.isAtomRecord "HETATM    3  O   HOH A   2".toList = false ∧
    Spec.isEndmdl "HETATM    3  O   HOH A   2".toList = false := by decide

/-! ### 6. what cannot be represented raises -/

/-- an ATOM record longer than 80 columns anywhere in the input: no table -/
theorem too_long_raises (ls : List Str) (l : Str) (hm : l ∈ ls) (ha : Spec.isAtomRecord l = true)
    (hl : (Spec.recordText l).length > 80) : ∃ e, Model.parse ls = .error e := by
  rw [parse_rows]; exact Proofs.ParseRows.too_long_raises_rows hm ha hl 0

/-- an ATOM record (of at most 80 columns) one of whose numeric fields — serial, resSeq, x, y, z, or a non-blank
    occupancy / B-factor — is rejected by `int()` / `float()`: no table -/
theorem nonnumeric_raises (ls : List Str) (l : Str) (hm : l ∈ ls) (ha : Spec.isAtomRecord l = true)
    (hn : Proofs.Parse.NonNumeric (Spec.pad80 (Spec.recordText l))) : ∃ e, Model.parse ls = .error e := by
  rw [parse_rows]
  exact Proofs.ParseRows.error_propagates hm ha
    (fun m => Proofs.Parse.parseRecord_error_of l m (Or.inr (Or.inl hn))) 0

/-- an ATOM record with blank chain (column 22) and blank segID (columns 73–76): no table -/
theorem blank_chain_blank_seg_raises (ls : List Str) (l : Str) (hm : l ∈ ls) (ha : Spec.isAtomRecord l = true)
    (hc : Spec.cols (Spec.pad80 (Spec.recordText l)) 22 22 = [])
    (hs : Spec.cols (Spec.pad80 (Spec.recordText l)) 73 76 = []) : ∃ e, Model.parse ls = .error e := by
  rw [parse_rows]
  exact Proofs.ParseRows.error_propagates hm ha
    (fun m => Proofs.Parse.parseRecord_error_of l m (Or.inr (Or.inr ⟨hc, hs⟩))) 0

/-- a table is produced only if every ATOM record is representable, and then every row is the property's
    reading of its own record: no shifted, partial or altered rows -/
theorem no_silent_alteration (ls : List Str) (t : List Row) (h : Model.parse ls = .ok t) :
    List.Forall₂ (fun p r => Spec.parseRecord p.1 p.2 = .ok r) (Proofs.ParseRows.atomsFrom ls 0) t ∧
    ∀ l ∈ ls, Spec.isAtomRecord l = true →
      (Spec.recordText l).length ≤ 80 ∧ ¬ Proofs.Parse.NonNumeric (Spec.pad80 (Spec.recordText l)) ∧
      ¬ (Spec.cols (Spec.pad80 (Spec.recordText l)) 22 22 = [] ∧ Spec.cols (Spec.pad80 (Spec.recordText l)) 73 76 = []) := by
  rw [parse_rows] at h
  refine ⟨Proofs.ParseRows.no_silent_alteration h, ?_⟩
  intro l hm ha
  by_contra hbad
  have hbad' : (Spec.recordText l).length > 80 ∨ Proofs.Parse.NonNumeric (Spec.pad80 (Spec.recordText l)) ∨
      (Spec.cols (Spec.pad80 (Spec.recordText l)) 22 22 = [] ∧ Spec.cols (Spec.pad80 (Spec.recordText l)) 73 76 = []) := by
    by_contra hh
    push Not at hh
    exact hbad ⟨by omega, hh.2.1, fun hc => hh.2.2 hc.1 hc.2⟩
  obtain ⟨e, he⟩ := Proofs.ParseRows.error_propagates hm ha
    (fun m => Proofs.Parse.parseRecord_error_of l m hbad') 0
  have : Spec.parseFrom ls 0 = .ok t := h
  rw [this] at he; cases he

/-- non-vacuity: an 84-column ATOM record, a record with letters in the x field, a record with blank chain and segID -/
example : Spec.isAtomRecord Proofs.ParseRows.Demo.long = true ∧
    (Spec.recordText Proofs.ParseRows.Demo.long).length > 80 := by decide
example : Proofs.Parse.NonNumeric (Spec.pad80 (Spec.recordText
    "ATOM      1  N   MET A   1      27.3x0  24.430   2.614  1.00  9.67           N  ".toList)) :=
  Or.inr (Or.inr (Or.inl ⟨.valueError, by decide +kernel⟩))
example : let l := Spec.pad80 (Spec.recordText "ATOM      1  N   MET     1      27.340  24.430   2.614".toList)
    Spec.cols l 22 22 = [] ∧ Spec.cols l 73 76 = [] := by decide +kernel
example : ∃ t, Model.parse Proofs.ParseRows.Demo.file = .ok t := by
  rw [parse_rows]; exact Proofs.ParseRows.Demo.file_ok

/-! ### 7. the container does not matter -/

/-- the lines a file object yields (`readlines`, terminators kept) and the lines of `text.split('\n')` give the
    same table, with or without a trailing newline -/
theorem readlines_eq_split (t : Str) : Model.parse (Model.readlines t) = Model.parse (Py.splitOn '\n' t) :=
  Proofs.ParseRows.parse_readlines_eq_splitOn t

/-- Every accepted container of the text `t` — a path string or `Path` naming a file with that content, the whole
    text as `str` or `bytes` (accepted when it contains more than three "\nATOM "), a non-empty list / ndarray of
    `str` / `bytes` lines with or without their terminators — gives the table of `t`; hence any two give the same. -/
theorem container_independent (fs₁ fs₂ : Model.FS) (i₁ i₂ : Model.Input) (t : Str)
    (h₁ : Proofs.ParseRows.Carries fs₁ i₁ t) (h₂ : Proofs.ParseRows.Carries fs₂ i₂ t) :
    Model.readTable fs₁ i₁ = Model.readTable fs₂ i₂ ∧ Model.readTable fs₁ i₁ = Spec.parse (Py.splitOn '\n' t) := by
  rw [Proofs.ParseRows.readTable_of_carries h₁, Proofs.ParseRows.readTable_of_carries h₂, parse_rows]
  exact ⟨rfl, rfl⟩

example : Model.readTable Proofs.ParseRows.Demo.oneFile (.path Proofs.ParseRows.Demo.path) =
    Model.readTable Proofs.ParseRows.Demo.noFS (.listStr (Model.readlines Proofs.ParseRows.Demo.text)) :=
  (container_independent _ _ _ _ _ Proofs.ParseRows.Demo.carries_path Proofs.ParseRows.Demo.carries_listStr).1

end Props.C01
