/-
  C01 — parsing.  Property theorems only (helper lemmas in Proofs/).
-/
import PdbVerif.Gen.Consts
import PdbVerif.Gen.Str
import PdbVerif.Model.Parse
import PdbVerif.Spec.C01

namespace Props.C01
open Py

/-- The column table of the source is the wwPDB table of the property statement
    (serial 7–11, name 13–16, altLoc 17, resName 18–20, chainID 22, resSeq 23–26, iCode 27,
     x 31–38, y 39–46, z 47–54, occupancy 55–60, B-factor 61–66, element 77–78). -/
theorem delimiter_is_wwpdb : Gen.delimiter = Spec.wwpdbHalfOpen := by decide

/-- The column list of the source is the fourteen standard attributes, in the order of `Py.Atom`. -/
theorem col_order : Gen.col.map (·.1) = Py.Atom.fieldNames := by decide

/-- numeric columns are converted, text columns kept -/
theorem col_types : Gen.col.map (·.2) =
    ["INT", "TEXT", "TEXT", "TEXT", "TEXT", "INT", "TEXT", "REAL", "REAL", "REAL", "REAL", "REAL", "TEXT", "INT"] := by decide

/-- the documented defaults: occupancy 1.00, B-factor 10.00, chain from segID, element from the atom name -/
theorem blank_defaults_documented : Gen.blank_defaults =
    [("chainID", .chainFromSegID), ("occ", .num 1), ("temp", .num 10), ("element", .elementFromName)] := by decide

/-- only `ATOM` records produce rows; `ENDMDL` separates models -/
theorem record_prefixes : Gen.atom_prefix = "ATOM".toList ∧ Gen.endmdl_prefix = "ENDMDL".toList := by decide

end Props.C01
