/-
  C06 — the translated quaternion kernel and the `method` dispatch (tie #1).  `GenSup.get_rotation_matrix_quaternion` and
  `GenSup.get_rotation_matrix` (Gen/Sup.lean) are regenerated from superpose.py on every run by py/translate_ext_sup.py; the
  theorems below state that they ARE the hand models `Model.quaternion` / `Model.getRotationMatrix` (Model/Superpose.lean) the
  theorems of Props/C06.lean are about — guards, key matrix, `eigh` (a parameter; `(l, U)` as the pairs `(l[k], U[:, k])`), argmax,
  column, rotation — and transfer *proper* and *optimal* to the generated kernel.
  Statements are those of Proofs/GenSupNum.lean (shown by `#check` in the audit); restated through `type_of%`.
-/
import PdbVerif.Proofs.GenSupNum

namespace Props.C06K2
open Py

theorem gensup_quaternion_eq_model : type_of% @Proofs.SupTie.gensup_quaternion_eq_model := @Proofs.SupTie.gensup_quaternion_eq_model
/-- normal form of the generated kernel (no hypothesis; the empty point set included) -/
theorem gensup_quaternion_nf : type_of% @Proofs.SupTie.quaternion_nf := @Proofs.SupTie.quaternion_nf
theorem gensup_quaternion_lits : type_of% @Proofs.SupTie.gensup_quaternion_lits := @Proofs.SupTie.gensup_quaternion_lits
/-- `method.lower()` selects the kernel; anything else is ValueError -/
theorem gensup_get_rotation_matrix_dispatch : type_of% @Proofs.SupTie.gensup_get_rotation_matrix_dispatch := @Proofs.SupTie.gensup_get_rotation_matrix_dispatch
theorem gensup_get_rotation_matrix_eq_model : type_of% @Proofs.SupTie.gensup_get_rotation_matrix_eq_model := @Proofs.SupTie.gensup_get_rotation_matrix_eq_model
theorem gensup_quaternion_proper : type_of% @Proofs.SupTie.gensup_quaternion_proper := @Proofs.SupTie.gensup_quaternion_proper
theorem gensup_quaternion_optimal : type_of% @Proofs.SupTie.gensup_quaternion_optimal := @Proofs.SupTie.gensup_quaternion_optimal

/-! ### non-vacuity: the generated kernel runs (over ℚ) past its guards; the dispatch reaches both kernels and the error -/

def exEigh : Mat4 Rat → Vec4 Rat × Mat4 Rat := fun _ => (⟨0, 3, 1, 2⟩, ⟨0,1,0,0, 1,0,0,0, 0,0,1,0, 0,0,0,1⟩)

example : GenSup.get_rotation_matrix_quaternion exEigh Gen.quat_eps Props.C06.exP Props.C06.exP = .ok Mat3.one := by decide +kernel
example : GenSup.get_rotation_matrix_quaternion exEigh Gen.quat_eps Props.C06.exP (Props.C06.exP.drop 1) = .error .valueError := by
  decide +kernel
example : GenSup.get_rotation_matrix (fun _ _ => .ok (Mat3.one : Mat3 Rat)) (fun _ _ => .ok Mat3.zero) [] [] "SVD" = .ok Mat3.one := by
  decide +kernel
example : GenSup.get_rotation_matrix (fun _ _ => .ok (Mat3.one : Mat3 Rat)) (fun _ _ => .ok Mat3.zero) [] [] "Quaternion" = .ok Mat3.zero := by
  decide +kernel
example : GenSup.get_rotation_matrix (fun _ _ => .ok (Mat3.one : Mat3 Rat)) (fun _ _ => .ok Mat3.zero) [] [] "foo" = .error .valueError := by
  decide +kernel

end Props.C06K2
