/-
  C03 — the WHOLE `pdb2sqlcore.get` translated (tie #1, second part).  `GenG.get` (Gen/Get.lean) is regenerated on every run by
  py/translate_ext_get.py from the complete body of `get`: column validation, per-model dispatch, no-keyword query, the
  `SELECT EXISTS` probes of the keys, the loop over the keywords, the chunked branch with its recursion, the combined-limit error,
  the final query; the SQLite engine is MicroSql run on the emitted text.  Proved here: the closed form of every generated
  unit, that the head of the function (validation, dispatch) equals the hand model `Model.getF` for every input, and that the
  generated loop over the keywords IS the fragment `GenSql.get_cond` the theorems of Props/C03K are about, what the engine does
  with the emitted texts (`SELECT EXISTS` probe = `Model.keyOK`; every other text goes to MicroSql unchanged), and the whole
  function: **`GenG.get db columns tn kw = Model.get db columns tn kw`** (`get_eq_model`) for every database, column string,
  keyword list and list length — error classes, per-model dispatch and the chunked recursion inside the equation — under the
  decidable side conditions of the SQL tie (`PlainNames`: names in the text are plain identifiers; `rowID` is the rowid:
  `Props.C03K.rowid_of_wf`) and distinct keyword keys (the keyword list is a Python dict).  So `Model.get`, which the theorems of
  Props/C03.lean are about, is a consequence of the source text of `get` plus the MicroSql contract.
  Statements are those of Proofs/GenGet*.lean, restated through `type_of%`.
-/
import PdbVerif.Proofs.GenGetH

namespace Props.C03K2

/-- the translated body of the column-validation loop: ValueError unless the stripped piece is one of `get_colnames()` -/
theorem get_for_i_nf : type_of% @GenGetProofs.get_for_i_nf := @GenGetProofs.get_for_i_nf
/-- the translated validation (`if columns != '*': for i in columns.split(','): …`) = the model's `validCols` -/
theorem validate_eq : type_of% @GenGetProofs.validate_eq := @GenGetProofs.validate_eq
/-- the translated body of the key-probing loop: strip `no_`, `SELECT EXISTS(SELECT k FROM t)`, any engine error is ValueError -/
theorem get_for_k_nf : type_of% @GenGetProofs.get_for_k_nf := @GenGetProofs.get_for_k_nf
/-- the translated dispatch condition (`'model' not in kwargs.keys() and self._nModel > 0`) = the model's -/
theorem dispatch_iff : type_of% @GenGetProofs.dispatch_iff := @GenGetProofs.dispatch_iff
/-- the translated body of the per-model loop: `kwargs['model'] = iModel` in place, the recursive call, its answer appended -/
theorem get_if_model_data_for_iModel_nf : type_of% @GenGetProofs.get_if_model_data_for_iModel_nf := @GenGetProofs.get_if_model_data_for_iModel_nf
/-- `kwargs[key] = v` on a dictionary without / with that key last -/
theorem setKw_absent : type_of% @GenGetProofs.setKw_absent := @GenGetProofs.setKw_absent
theorem setKw_last : type_of% @GenGetProofs.setKw_last := @GenGetProofs.setKw_last
/-- the translated per-model loop = `Model.modelLoop` (given what the recursive calls answer) -/
theorem modelLoop_eq : type_of% @GenGetProofs.modelLoop_eq := @GenGetProofs.modelLoop_eq
/-- the translated body of the loop over `kwargs.items()` IS the fragment `GenSql.get_cond`, plus the chunked branch where that fragment returns -/
theorem get_for_k_v_nf : type_of% @GenGetProofs.get_for_k_v_nf := @GenGetProofs.get_for_k_v_nf
/-- without an over-long list the translated loop yields the conditions and values of `SqlProofs.specsOf` (errors included) -/
theorem loop_short : type_of% @GenGetProofs.loop_short := @GenGetProofs.loop_short
/-- **invalid column string: `GenG.getF = Model.getF`** (ValueError before anything else), every database / keyword list / depth -/
theorem getF_invalid_columns : type_of% @GenGetProofs.getF_invalid_columns := @GenGetProofs.getF_invalid_columns
/-- **per-model dispatch: `GenG.getF (fuel+1) = Model.getF (fuel+1)`** given agreement of the recursive calls at depth `fuel` -/
theorem getF_dispatch : type_of% @GenGetProofs.getF_dispatch := @GenGetProofs.getF_dispatch

/-- the engine on a data SELECT: the text does not start with `SELECT EXISTS(`, it goes to MicroSql as it is -/
theorem execute_plain : type_of% @GenGetProofs.execute_plain := @GenGetProofs.execute_plain
/-- **the `SELECT EXISTS(SELECT k FROM t)` probe succeeds exactly when `Model.keyOK`** (any engine error is the ValueError) -/
theorem probe_eq : type_of% @GenGetProofs.probe_eq := @GenGetProofs.probe_eq
/-- the translated loop of probes = "every key passes `keyOK`" -/
theorem probes_eq : type_of% @GenGetProofs.probes_eq := @GenGetProofs.probes_eq
/-- the translated function below the chunk limit = key check, then translated text → MicroSql → translated `_format_get_output` -/
theorem get_body_short : type_of% @GenGetProofs.get_body_short := @GenGetProofs.get_body_short
/-- the translated loop over the keywords in general: conditions, or the chunked branch at the first over-long list -/
theorem loop_walk : type_of% @GenGetProofs.loop_walk := @GenGetProofs.loop_walk
/-- that walk against `Model.scan` (same error, same conditions, same position of the over-long list) -/
theorem scan_walk : type_of% @GenGetProofs.scan_walk := @GenGetProofs.scan_walk
/-- `GenG.getF = Model.getF` one level up when no list is over-long (validation, key check, generic / no-keyword query) -/
theorem getF_short : type_of% @GenGetProofs.getF_short := @GenGetProofs.getF_short
/-- **`GenG.getF = Model.getF` at every recursion depth** -/
theorem getF_eq_model : type_of% @GenGetProofs.getF_eq_model := @GenGetProofs.getF_eq_model
/-- **`GenG.get = Model.get`: the hand model IS the translated source run on MicroSql** -/
theorem get_eq_model : type_of% @GenGetProofs.get_eq_model := @GenGetProofs.get_eq_model

/-- **the translated wrappers = the hand models**: `get_xyz`, `get_residues` (first occurrences), `get_chains` (sorted distinct) -/
theorem get_xyz_eq_model : type_of% @GenGetProofs.get_xyz_eq_model := @GenGetProofs.get_xyz_eq_model
theorem get_residues_eq_model : type_of% @GenGetProofs.get_residues_eq_model := @GenGetProofs.get_residues_eq_model
theorem get_chains_eq_model : type_of% @GenGetProofs.get_chains_eq_model := @GenGetProofs.get_chains_eq_model

/-- **`GenG.get` never answers with the fuel error** (the bound `len(kwargs) + 3` on its recursion is never the reason for an answer) -/
theorem get_no_fuel : type_of% @GenGetProofs.get_no_fuel := @GenGetProofs.get_no_fuel
/-- `Model.get` never answers with the fuel error, for ANY database, column string, table name and keyword list -/
theorem model_get_no_fuel : type_of% @GenGetProofs.model_get_no_fuel := @GenGetProofs.model_get_no_fuel
/-- side condition 2 on a parser-built database (no added column): `rowID` is the rowid -/
theorem rowid_of_no_extra : type_of% @GenGetProofs.rowid_of_no_extra := @GenGetProofs.rowid_of_no_extra
/-- side condition 1, keys: the standard attribute names and `rowID`, with or without `no_`, are plain -/
theorem std_keys_plain : type_of% @GenGetProofs.std_keys_plain := @GenGetProofs.std_keys_plain
/-- Python's `strip` = SQLite's trimming unless one of `\x1c … \x1f` is involved -/
theorem trim_eq_strip : type_of% @GenGetProofs.trim_eq_strip := @GenGetProofs.trim_eq_strip
/-- side condition 1, columns: a column string that passes `get`'s validation is plain (parser-built database) -/
theorem colsPlain_of_valid : type_of% @GenGetProofs.colsPlain_of_valid := @GenGetProofs.colsPlain_of_valid
/-- a column string that fails the validation: the equality needs no side condition -/
theorem get_eq_model_invalid : type_of% @GenGetProofs.get_eq_model_invalid := @GenGetProofs.get_eq_model_invalid
/-- **`GenG.get = Model.get` on every parser-built database**, any column string, any dictionary over the standard names -/
theorem get_eq_model_std : type_of% @GenGetProofs.get_eq_model_std := @GenGetProofs.get_eq_model_std

/-- non-vacuity of `get_eq_model_std` -/
example : (SqlProofs.exDb.extra = []) ∧ (∀ k ∈ SqlProofs.exKw, (Model.stripNo k.key).2 ∈ Tbl.colnames []) ∧ (SqlProofs.exKw.map (·.key)).Nodup ∧
    (∀ p ∈ Py.splitOn ',' "serial ,rowID".toList, ∀ c ∈ p, Tbl.sqlSpace c = Py.isSpace c) ∧ MicroSql.isName "atom".toList = true := by decide

/-- non-vacuity of `get_eq_model`: its three hypotheses hold for the example table and query of Props/C03K -/
example : SqlProofs.PlainNames "serial ,rowID".toList "atom".toList SqlProofs.exKw ∧
    Model.sqlCol SqlProofs.exDb Tbl.rowIDName = some .rowID ∧ (SqlProofs.exKw.map (·.key)).Nodup := by
  refine ⟨by decide, by decide, by decide⟩

/-- non-vacuity: the hypotheses of `getF_invalid_columns` / `getF_dispatch` hold on concrete inputs, and the whole translated
    function runs to the model's answer on a generic query -/
example : Model.validCols SqlProofs.exDb "foo".toList = false ∧ Model.validCols SqlProofs.exDb "serial ,rowID".toList = true ∧
    (!Model.hasModelKey SqlProofs.exKw && decide (({ SqlProofs.exDb with nModel := 2 } : Tbl.Db).nModel > 0)) = true := by decide
example : GenG.get SqlProofs.exDb "serial ,rowID".toList "atom".toList SqlProofs.exKw =
    Model.get SqlProofs.exDb "serial ,rowID".toList "atom".toList SqlProofs.exKw := by decide +kernel

end Props.C03K2
