/-
  C15 — the translation tie for the derivations: `many2sql.__init__`, `many2sql.__call__`, `many2sql.convert_input`,
  `interface.__init__` are translated from the source on every run (py/translate_ext_many.py -> Gen/Many.lean, namespace GenM:
  type checks and their TypeErrors, default table names, `convert_input` per element, first table through `super().__init__`,
  the others through `_create_table`, the `first` / `new_db` loop of `__call__`).  The theorems state that the generated functions,
  run on the hand model's side of the PDB text methods (`GenM.Ext.model rt`), ARE the derivations `Model.derive` the theorems of
  Props/C15.lean are about — for every round trip, world and argument, errors included — and read the snapshot property off the
  generated code.  The normal forms hold for EVERY instance of the external methods (also the text side `GenM.Ext.text` the driver
  runs against the real code).
-/
import PdbVerif.Proofs.GenManyCons
import PdbVerif.Proofs.GenManyText
import PdbVerif.Proofs.GenManyNamed

namespace Props.C15K2
open Tbl GenM

/-- `convert_input` in closed form: a database object is exported (`sql2pdb()`, default table, no selection), anything else is passed on -/
theorem convert_input_nf : type_of% @Proofs.GenMany.convert_input_nf := @Proofs.GenMany.convert_input_nf
/-- `many2sql.__init__` in closed form: TypeError for a non-list `pdbfiles` / `tablenames` / a non-str name, names `ATOM`, `ATOM1`, …, then
    the tables in input order (next input converted, THEN its name looked up, then the table created) -/
theorem init_nf : type_of% @Proofs.GenMany.init_nf := @Proofs.GenMany.init_nf
/-- `many2sql([e], tablenames=[n])` -/
theorem init_single : type_of% @Proofs.GenMany.init_single := @Proofs.GenMany.init_single
/-- `many2sql.__call__` in closed form: first table through `many2sql([data], tablenames=[name])`, the others through `_create_table` -/
theorem call_nf : type_of% @Proofs.GenMany.call_nf := @Proofs.GenMany.call_nf
/-- `interface.__init__` in closed form -/
theorem interface_init_nf : type_of% @Proofs.GenMany.interface_init_nf := @Proofs.GenMany.interface_init_nf
/-- **`many2sql([db₁, …])` = `Model.derive … (.deriveMany ks)`** for every round trip and world (indices in range) -/
theorem init_eq_model : type_of% @Proofs.GenMany.init_eq_model := @Proofs.GenMany.init_eq_model
/-- **`many_db(**kw)` = `Model.derive … (.deriveSub k kw)`** for every multi-structure object, world and selection -/
theorem call_eq_model : type_of% @Proofs.GenMany.call_eq_model := @Proofs.GenMany.call_eq_model
/-- with no table at all the source never binds `new_db`: UnboundLocalError (on both sides since the hand model follows the code there) -/
theorem call_no_tables : type_of% @Proofs.GenMany.call_no_tables := @Proofs.GenMany.call_no_tables
/-- **`interface(db)` = `Model.derive … (.deriveInterface k)`** -/
theorem interface_init_eq_model : type_of% @Proofs.GenMany.interface_init_eq_model := @Proofs.GenMany.interface_init_eq_model
/-- **snapshot, from the generated `__call__`**: table `i` of the new object holds, after one round trip, exactly the atoms the property selects from structure `i` -/
theorem call_tables_are_selections : type_of% @Proofs.GenMany.call_tables_are_selections := @Proofs.GenMany.call_tables_are_selections
/-- **snapshot, from the generated `interface.__init__`**: all atoms of the source's `atom` table at that moment, after one round trip -/
theorem interface_holds_snapshot : type_of% @Proofs.GenMany.interface_holds_snapshot := @Proofs.GenMany.interface_holds_snapshot

/-- **text side = hand model's side** on rows that fit the PDB columns: the table parsed from the exported lines holds the read-back rows, `_nModel = 0`; no line: IndexError -/
theorem text_table_eq : type_of% @Proofs.GenMany.text_table_eq := @Proofs.GenMany.text_table_eq
/-- …so `pdb2sql.__init__` of the text side on those lines is that of `Ext.model Model.textRoundtrip` -/
theorem text_init_eq_model : type_of% @Proofs.GenMany.text_init_eq_model := @Proofs.GenMany.text_init_eq_model

/-- **`many2sql([db₁, …], tablenames=[n₁, …])` = `Model.manyNamed`**: names as given after the `_create_table` clean-up, an existing name
    (also in another letter case / after the clean-up) is OperationalError, fewer names than structures IndexError, surplus names ignored -/
theorem init_named_eq_model : type_of% @Proofs.GenMany.init_named_eq_model := @Proofs.GenMany.init_named_eq_model
/-- the order inside `_create_table`: a failing CREATE TABLE (existing name: OperationalError) wins over any error of reading the input -/
theorem create_table_stmt_first : type_of% @Proofs.GenMany.create_table_stmt_first := @Proofs.GenMany.create_table_stmt_first
/-- a non-`str` name, a non-list `tablenames` or `pdbfiles`: TypeError -/
theorem init_named_type_errors : type_of% @Proofs.GenMany.init_named_type_errors := @Proofs.GenMany.init_named_type_errors
/-- the hand model's clean-up of a table name is the closed form of the TRANSLATED clean-up loop of `_create_table` (parseTie's `GenP._create_table_for_c`) -/
theorem create_table_for_c_is_clean : type_of% @Proofs.GenMany.create_table_for_c_is_clean := @Proofs.GenMany.create_table_for_c_is_clean
/-- …and the runtime of Gen/Many.lean cleans the same way -/
theorem rt_cleanName_eq : type_of% @Proofs.GenMany.rt_cleanName_eq := @Proofs.GenMany.rt_cleanName_eq

/-! ### non-vacuity: concrete runs of the generated functions through their non-error branches -/

def row1 : Row := { atom := { serial := 1, name := "CA".toList, altLoc := [], resName := "ALA".toList, chainID := "A".toList, resSeq := 1, iCode := [],
                              x := 1, y := 2, z := 3, occ := 1, temp := 0, element := "C".toList, model := 0 } }
def row2 : Row := { atom := { row1.atom with serial := 2, name := "N".toList, chainID := "B".toList, x := 5 } }
def src : Db := { tabs := [⟨"atom".toList, [row1, row2]⟩] }
def two : Db := { tabs := [⟨"ATOM".toList, [row1, row2]⟩, ⟨"ATOM1".toList, [row2]⟩] }

/-- `many2sql([src])`: the default name; `many2sql([src, src], tablenames=['wt', 'mut'])`: two tables with the source's rows -/
example : many2sql_init (Ext.model id) (.list [.obj src]) .none = .ok { tabs := [⟨"ATOM".toList, [row1, row2]⟩] } ∧
    many2sql_init (Ext.model id) (.list [.obj src, .obj src]) (.list [.str "wt".toList, .str "mut".toList]) =
      .ok { tabs := [⟨"wt".toList, [row1, row2]⟩, ⟨"mut".toList, [row1, row2]⟩] } := by decide
/-- user-given names: cleaned (`a-b` -> `a_b`); a name that exists already — here after the clean-up, and in another letter case — is
    OperationalError; fewer names than structures is IndexError; a surplus name is ignored -/
example : Model.manyNamed id [src, src] ["a-b".toList, "wt".toList, "more".toList] =
      .ok { tabs := [⟨"a_b".toList, [row1, row2]⟩, ⟨"wt".toList, [row1, row2]⟩] } ∧
    Model.manyNamed id [src, src] ["a-b".toList, "a_b".toList] = .error .operational ∧
    Model.manyNamed id [src, src] ["Wt".toList, "wT".toList] = .error .operational ∧
    Model.manyNamed id [src, src] ["wt".toList] = .error .indexError ∧
    many2sql_init (Ext.modelN id) (.list [.obj src, .obj src]) (.list [.str "a-b".toList, .str "a_b".toList]) = .error .operational := by
  decide +kernel
/-- an existing name together with an input of an invalid type at the same position: OperationalError (CREATE TABLE comes first), on the
    hand model's side and on the text side; with a new name the invalid input is ValueError -/
example : many2sql_init (Ext.modelN id) (.list [.obj src, .other]) (.list [.str "b2".toList, .str "B2".toList]) = .error .operational ∧
    many2sql_init Ext.text (.list [.obj src, .other]) (.list [.str "b2".toList, .str "B2".toList]) = .error .operational ∧
    many2sql_init (Ext.modelN id) (.list [.obj src, .other]) (.list [.str "b2".toList, .str "c3".toList]) = .error .valueError := by
  decide +kernel
/-- the type checks -/
example : many2sql_init (Ext.model id) .other .none = .error .typeError ∧
    many2sql_init (Ext.model id) (.list [.obj src]) (.list [.other]) = .error .typeError ∧
    many2sql_init (Ext.model id) (.list []) .none = .error .indexError := by decide
/-- `two(chainID='B')`: one table per structure with the selected rows -/
example : many2sql_call (Ext.model id) two [⟨"chainID".toList, .scalar (.text "B".toList)⟩] =
    .ok { tabs := [⟨"ATOM".toList, [row2]⟩, ⟨"ATOM1".toList, [row2]⟩] } := by decide
/-- `interface(src)` -/
example : interface_init (Ext.model id) (.obj src) none = .ok { tabs := [⟨"atom".toList, [row1, row2]⟩] } := by decide
/-- the hypotheses of `init_eq_model` / `call_eq_model` hold of a concrete world -/
example : [0, 0].mapM (fun k => ([⟨.single, src⟩] : Model.World)[k]?) = some [⟨.single, src⟩, ⟨.single, src⟩] ∧ two.tabs ≠ [] :=
  ⟨rfl, by decide⟩

/-- C02's demonstration row fits, so a table made of it satisfies the hypothesis of `text_table_eq` -/
example : ∀ r ∈ [({ atom := Props.C02.demo, extra := [.int 3] } : Row)], TableProofs.RowFits r := by
  intro r hr
  simp only [List.mem_singleton] at hr; subst hr
  exact Props.C02.demo_fits

end Props.C15K2
