/-
  C17 — the SQL text tie for the chunked path of `get`.  The final queries `SELECT … WHERE rowID in (?,…)` and the rowids bound
  to them are translated on every run (Gen/Sql.lean: `get_rows_step`); the branch itself (recursion through `self.get`) stays
  the hand model `Model.getF`.  The theorems state: the translated loop leaves through the chunked branch exactly when the
  model's `scan` meets an over-long list; `Model.chunks` are the slices `rows[i:i + chunck_size]`; every turn of the final loop,
  evaluated by MicroSql, returns the listed rows in table order — the summand of `Model.fetchRows`.
-/
import PdbVerif.Proofs.SqlMain

namespace Props.C17K

/-- the translated turn of the final loop in closed form: the text `SELECT cols FROM t WHERE rowID in (?,…)`, the rowids `r + 1` of the slice -/
theorem get_rows_step_nf : type_of% @SqlProofs.get_rows_step_nf := @SqlProofs.get_rows_step_nf
/-- that text with those rowids, evaluated by MicroSql = the model's `sqlSelect … [rowID in (r+1 …)]`: the listed rows in table order -/
theorem rows_step_eq_model : type_of% @SqlProofs.rows_step_eq_model := @SqlProofs.rows_step_eq_model
/-- the j-th chunk of `Model.chunks` is the slice the source takes at `i = j · chunck_size` -/
theorem chunks_getElem : type_of% @SqlProofs.chunks_getElem := @SqlProofs.chunks_getElem
/-- the j-th turn of the translated final loop returns the j-th summand of `Model.fetchRows` -/
theorem fetchRows_turn : type_of% @SqlProofs.fetchRows_turn := @SqlProofs.fetchRows_turn
/-- the translated loop over the keywords takes the chunked branch exactly when `Model.scan` meets an over-long list -/
theorem chunked_iff : type_of% @SqlProofs.chunked_iff := @SqlProofs.chunked_iff
/-- below the chunk limit nothing is chunked: `Model.get` = MicroSql on the translated text (list lengths up to 950, several lists) -/
theorem get_eq_sql : type_of% @SqlProofs.get_eq_sql := @SqlProofs.get_eq_sql

end Props.C17K
