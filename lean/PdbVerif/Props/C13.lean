/-
  C13 — `superpose()`.  Property theorems only (helper lemmas in Proofs/SuperposeDb*.lean).
-/
import PdbVerif.Spec.C13
import PdbVerif.Model.SuperposeDb

namespace Props.C13
open Py Model

theorem tmp_placeholder : True := trivial

end Props.C13
