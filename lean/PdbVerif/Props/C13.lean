/-
  C13 — `superpose()`: one rigid motion of the whole structure, optimal on the selection.  Property theorems only
  (helper lemmas in Proofs/SuperposeDb*.lean).

  `Model.SupDb.superpose kernel mob tar args` follows superpose.py statement by statement; the rotation kernel
  `get_rotation_matrix(·,·,method)` is a parameter, so every theorem holds for every matrix the kernel may return.
  What C06 proves about the kernel enters as an explicit hypothesis:
    `KernelProper`  — the kernel returns proper rotations        (Props.C06.kabsch_proper / quaternion_proper),
    `KernelOptimal` — … of minimal residual on the sets it is given (Props.C06.rmsd_minimal / quat_optimal).
  The text round trip of the intersection route (`sql2pdb` → parse, C02) enters through `reexportSel … = .ok u`.
-/
import PdbVerif.Proofs.SuperposeDb

set_option linter.unusedSectionVars false
set_option linter.unusedVariables false

namespace Props.C13
open Py Spec Model Model.SupDb
open Spec.C13 (Motion MovedBy SameButPosition ident shared sharedPos UniqueIdent OptimalOn DisplacedCopy)

abbrev Kernel := List V → List V → Except Err (Mat3 Rat)

/-- the kernel returns proper rotations only (C06: `kabsch_proper`, `quaternion_proper`) -/
def KernelProper (kernel : Kernel) : Prop := ∀ P Q U, kernel P Q = .ok U → IsRotation U

/-- the kernel returns a proper rotation of minimal residual on the point sets it is given (C06: `rmsd_minimal`, `quat_optimal`) -/
def KernelOptimal (kernel : Kernel) : Prop := ∀ P Q U, kernel P Q = .ok U → OptimalRotation U P Q

theorem KernelOptimal.proper {kernel : Kernel} (h : KernelOptimal kernel) : KernelProper kernel :=
  fun P Q U hk => (h P Q U hk).1

/-- **One rigid motion.**  Whatever the kernel returns, a successful call moves ALL atoms of the mobile structure by one and
    the same map `p ↦ R·p + t` (and changes nothing else: `MovedBy`), where `R` is the kernel's matrix — a rigid motion as
    soon as the kernel returns proper rotations. -/
theorem one_rigid_motion {kernel : Kernel} {mob tar : Db} {a : Args} {out : Out}
    (h : superpose kernel mob tar a = .ok out) :
    ∃ m : Motion Rat, MovedBy m mob.rows out.mobile ∧ (KernelProper kernel → m.IsRigid) := by
  obtain ⟨r⟩ := Proofs.SupDb.superpose_ok h
  exact ⟨Proofs.SupCore.motionOf r.R r.P r.Q, r.hmobile, fun hk => hk _ _ _ r.hkernel⟩

/-- **Only the mobile coordinates change.**  Atom count and order of the mobile structure are kept, every atom differs from
    its former self at most in x, y, z, and the target is what it was. -/
theorem only_mobile_xyz_changes {kernel : Kernel} {mob tar : Db} {a : Args} {out : Out}
    (h : superpose kernel mob tar a = .ok out) :
    out.mobile.length = mob.rows.length ∧ List.Forall₂ SameButPosition mob.rows out.mobile ∧ out.target = tar.rows := by
  obtain ⟨r⟩ := Proofs.SupDb.superpose_ok h
  refine ⟨by rw [r.hmobile]; simp, ?_, r.htarget⟩
  rw [r.hmobile]
  generalize mob.rows = l
  induction l with
  | nil => exact List.Forall₂.nil
  | cons x l ih =>
    refine List.Forall₂.cons ?_ ih
    show Spec.C13.moveTo (Spec.C13.moveTo x _) (Spec.C13.pos x) = x
    rw [Proofs.SupDb.moveTo_moveTo, Proofs.SupDb.moveTo_pos]

/-- **Matched pairs = shared selected atoms (positional route).**  When the two selections list the same identities, the
    pairs handed to the kernel are exactly the selected atoms present in both structures, matched by (chain, residue number,
    residue name, atom name), with their own coordinates — provided identities are unique among the selected mobile atoms. -/
theorem matched_pairs_are_shared_atoms {mob tar : List Atom} {sel : Atom → Bool}
    (hid : (mob.filter sel).map atomId = (tar.filter sel).map atomId) (hu : UniqueIdent sel mob) :
    ∃ P Q, matched mob tar sel = .ok (P, Q) ∧ P.zip Q = sharedPos sel mob tar ∧ P.length = Q.length :=
  ⟨_, _, Proofs.SupDb.matched_positional hid hu⟩

/-- **Matched pairs = shared selected atoms (intersection route).**  When the identity lists differ, the pairs handed to the
    kernel are the identity-matched atoms of the two re-exported and re-read selections `u₁`, `u₂`; if these are text images of
    the selected atoms (same identities — what C02's round trip gives), the pairs are, one for one, the text images of the
    shared selected atoms: the same atoms, with the coordinates printed for them. -/
theorem matched_pairs_are_shared_atoms_text {mob tar u₁ u₂ : List Atom} {sel : Atom → Bool}
    (hid : (mob.filter sel).map atomId ≠ (tar.filter sel).map atomId)
    (h₁ : reexportSel sel mob = .ok u₁) (h₂ : reexportSel sel tar = .ok u₂)
    (t₁ : List.Forall₂ Proofs.SupDb.SameIdent (mob.filter sel) u₁) (t₂ : List.Forall₂ Proofs.SupDb.SameIdent (tar.filter sel) u₂) :
    ∃ P Q, matched mob tar sel = .ok (P, Q) ∧ P.length = Q.length ∧
      P.zip Q = (shared (fun _ => true) u₁ u₂).map (fun p => (Spec.C13.pos p.1, Spec.C13.pos p.2)) ∧
      List.Forall₂ (fun p p' : Atom × Atom => ident p'.1 = ident p.1 ∧ ident p'.2 = ident p.2)
        (shared sel mob tar) (shared (fun _ => true) u₁ u₂) := by
  obtain ⟨P, Q, hm, hz, hl⟩ := Proofs.SupDb.matched_intersection hid h₁ h₂
  exact ⟨P, Q, hm, hl, hz, Proofs.SupDb.shared_text_images t₁ t₂⟩

/-- **Optimal on the matched pairs.**  Under `KernelOptimal`, the motion applied to the whole mobile structure brings the
    matched mobile points closer (in RMSD) to their target partners than any other rigid motion does. -/
theorem optimal_on_matched {kernel : Kernel} (hopt : KernelOptimal kernel) {mob tar : Db} {a : Args} {out : Out}
    (h : superpose kernel mob tar a = .ok out) :
    ∃ (sel : Atom → Bool) (P Q : List V) (m : Motion Rat),
      selection a = .ok sel ∧ matched mob.rows tar.rows sel = .ok (P, Q) ∧
      MovedBy m mob.rows out.mobile ∧ OptimalOn m (P.zip Q) := by
  obtain ⟨r⟩ := Proofs.SupDb.superpose_ok h
  refine ⟨r.sel, r.P, r.Q, _, r.hsel, r.hmatch, r.hmobile, ?_⟩
  exact Proofs.SupCore.optimalOn_of_optimalRotation (Proofs.SupDb.matched_lengths r.hmatch) r.hne (hopt _ _ _ r.hkernel)

/-- **Optimal on the shared selected atoms** (the property's wording), positional route: when both selections list the same,
    unique identities, the RMSD between the selected atoms the two structures share is minimal after the call. -/
theorem optimal_on_shared {kernel : Kernel} (hopt : KernelOptimal kernel) {mob tar : Db} {a : Args} {out : Out} {sel : Atom → Bool}
    (hsel : selection a = .ok sel)
    (hid : (mob.rows.filter sel).map atomId = (tar.rows.filter sel).map atomId) (hu : UniqueIdent sel mob.rows)
    (h : superpose kernel mob tar a = .ok out) :
    ∃ m : Motion Rat, MovedBy m mob.rows out.mobile ∧ OptimalOn m (sharedPos sel mob.rows tar.rows) := by
  obtain ⟨sel', P, Q, m, hs', hm, hmv, ho⟩ := optimal_on_matched hopt h
  rw [hsel] at hs'; injection hs' with hs'; subst hs'
  obtain ⟨hm', hz, _⟩ := Proofs.SupDb.matched_positional hid hu
  rw [hm'] at hm; injection hm with hm; injection hm with h1 h2
  subst h1; subst h2
  exact ⟨m, hmv, hz ▸ ho⟩

/-- **A rigidly displaced copy lands back.**  If the mobile structure is the target moved by a rigid motion `d`, the selection
    does not look at coordinates, and three selected atoms are not collinear (rank ≥ 2), the mobile structure ends exactly on
    the target — all atoms, not only the selected ones. -/
theorem displaced_copy_lands_back {kernel : Kernel} (hopt : KernelOptimal kernel) {mob tar : Db} {a : Args} {out : Out}
    {d : Motion Rat} (hd : d.IsRigid) (hcopy : DisplacedCopy d tar.rows mob.rows)
    (hpos : Proofs.SupDb.SelIgnoresPosition a.sel) {sel : Atom → Bool} (hsel : selection a = .ok sel)
    (hrank : Proofs.SupBack.NonCollinear ((tar.rows.filter sel).map pos))
    (h : superpose kernel mob tar a = .ok out) : out.mobile = tar.rows := by
  obtain ⟨r⟩ := Proofs.SupDb.superpose_ok h
  have hs' := r.hsel; rw [hsel] at hs'; injection hs' with hs'
  have hsp := Proofs.SupDb.selection_ignores hsel hpos
  unfold DisplacedCopy MovedBy at hcopy
  -- the mobile selection is the image of the target selection
  have hfil : mob.rows.filter sel = (tar.rows.filter sel).map (fun x => Spec.C13.moveTo x (d.apply (Spec.C13.pos x))) := by
    rw [hcopy]; exact Proofs.SupDb.filter_map_moveTo sel hsp _ _
  have hid : (mob.rows.filter sel).map atomId = (tar.rows.filter sel).map atomId := by
    rw [hfil, List.map_map]
    apply List.map_congr_left
    intro x _
    exact Proofs.SupDb.atomId_moveTo x _
  have hm : matched mob.rows tar.rows sel = .ok ((mob.rows.filter sel).map pos, (tar.rows.filter sel).map pos) := by
    unfold matched; simp [hid, pure, Except.pure]
  have hPQ := r.hmatch; rw [← hs', hm] at hPQ; injection hPQ with hPQ; injection hPQ with hP hQ
  have hPd : r.P = ((tar.rows.filter sel).map pos).map d.apply := by
    rw [← hP, hfil, List.map_map, List.map_map]
    apply List.map_congr_left
    intro x _
    exact Proofs.SupDb.pos_moveTo x _
  have hne : (tar.rows.filter sel).map pos ≠ [] := by
    intro h0; apply r.hne; rw [hPd, h0]; rfl
  have hk := hopt _ _ _ r.hkernel
  rw [hPd, ← hQ] at hk
  rw [r.hmobile, hPd, ← hQ, hcopy, List.map_map]
  conv_rhs => rw [← List.map_id tar.rows]
  apply List.map_congr_left
  intro x _
  show Spec.C13.moveTo (Spec.C13.moveTo x _) (_ ) = x
  rw [Proofs.SupDb.moveTo_moveTo]
  have := Proofs.SupBack.lands_back hd hne hk hrank (Spec.C13.pos x)
  rw [show Model.SupDb.pos (Spec.C13.moveTo x (d.apply (Spec.C13.pos x))) = d.apply (Spec.C13.pos x) from Proofs.SupDb.pos_moveTo x _]
  rw [this]
  exact Proofs.SupDb.moveTo_pos x

/-- **No file unless export.**  Without `export` the call has no file effect; with it, exactly one file is written, named
    `<mobile>_superposed_on_<target>.pdb` (as `exportName` forms it), holding the moved mobile structure. -/
theorem no_file_unless_export {kernel : Kernel} {mob tar : Db} {a : Args} {out : Out}
    (h : superpose kernel mob tar a = .ok out) :
    (a.doExport = false → out.files = []) ∧
    (a.doExport = true → ∃ mn tn lines, mob.pdbfile = some mn ∧ tar.pdbfile = some tn ∧ sql2pdb out.mobile = .ok lines ∧
        out.files = [(exportName mn tn, lines)]) := by
  obtain ⟨r⟩ := Proofs.SupDb.superpose_ok h
  constructor
  · intro he
    have := r.hfiles; rw [he, Proofs.SupDb.exportFiles_off] at this
    injection this with this; exact this.symm
  · intro he
    have := r.hfiles; rw [he] at this
    exact Proofs.SupDb.exportFiles_on this

/-- `only_backbone` together with an explicit `name` selection is rejected before anything is read or written -/
theorem name_with_only_backbone_rejected (kernel : Kernel) (mob tar : Db) (a : Args)
    (h1 : a.onlyBackbone = true) (h2 : a.nameGiven = true) : superpose kernel mob tar a = .error .valueError := by
  unfold superpose selection
  simp [h1, h2, bind, Except.bind, throw, throwThe, MonadExceptOf.throw]

/-! ### non-vacuity: a concrete run satisfying every hypothesis above at once

  target: three backbone atoms of chain A, not collinear; mobile: the target translated by (1, 2, 3); both file-backed;
  `only_backbone`, export on; the kernel `idKernel` answers only on coinciding centred sets (with the identity) and is optimal. -/

def exAtom (serial : Int) (name : String) (resSeq : Int) (x y z : Rat) : Atom :=
  { serial := serial, name := name.toList, altLoc := [], resName := "ALA".toList, chainID := "A".toList, resSeq := resSeq, iCode := [],
    x := x, y := y, z := z, occ := 1, temp := 0, element := "C".toList, model := 0 }

def exTar : Db := { rows := [exAtom 1 "N" 1 0 0 0, exAtom 2 "CA" 1 (3/2) 0 0, exAtom 3 "C" 1 0 2 (1/2), exAtom 4 "CB" 1 5 5 5],
                    pdbfile := some "in/target.pdb".toList }
def exShift : Motion Rat := { R := Mat3.one, t := ⟨1, 2, 3⟩ }
def exMob : Db := { rows := exTar.rows.map (fun a => Spec.C13.moveTo a (exShift.apply (Spec.C13.pos a))), pdbfile := some "in/model_b.pdb".toList }
def exArgs : Args := { onlyBackbone := true, doExport := true, nameGiven := false, sel := fun _ => true }
def exSel : Atom → Bool := fun x => true && decide (x.name ∈ backboneNames)

/-- the run succeeds, the mobile structure lands on the target, one file is written (note the name: `rstrip('.pdb')` strips
    the trailing `b` of `model_b` as well) -/
example : (match superpose Proofs.SupDb.idKernel exMob exTar exArgs with
    | .ok out => decide (out.mobile = exTar.rows ∧ out.target = exTar.rows ∧
        out.files.map (·.1) = ["model__superposed_on_target.pdb".toList])
    | .error _ => false) = true := by decide +kernel
example : KernelOptimal Proofs.SupDb.idKernel := Proofs.SupDb.idKernel_optimal
example : exShift.IsRigid := Proofs.M3.rot_one
example : DisplacedCopy exShift exTar.rows exMob.rows := rfl
example : Proofs.SupDb.SelIgnoresPosition exArgs.sel := fun _ _ => rfl
example : selection exArgs = .ok exSel := rfl
example : Proofs.SupBack.NonCollinear ((exTar.rows.filter exSel).map pos) :=
  ⟨⟨0, 0, 0⟩, by decide +kernel, ⟨3/2, 0, 0⟩, by decide +kernel, ⟨0, 2, 1/2⟩, by decide +kernel, by decide +kernel⟩
example : UniqueIdent exSel exMob.rows := by decide +kernel
example : (exMob.rows.filter exSel).map atomId = (exTar.rows.filter exSel).map atomId := by decide +kernel

/-- intersection route: the mobile structure lacks the atom `N`; the re-exported, re-read selections keep their identities -/
def exMob2 : Db := { rows := exMob.rows.drop 1, pdbfile := none }
example : (exMob2.rows.filter exSel).map atomId ≠ (exTar.rows.filter exSel).map atomId := by decide +kernel
example : (match reexportSel exSel exMob2.rows, reexportSel exSel exTar.rows with
    | .ok u₁, .ok u₂ => decide (u₁.map ident = (exMob2.rows.filter exSel).map ident ∧ u₂.map ident = (exTar.rows.filter exSel).map ident ∧
        (shared exSel exMob2.rows exTar.rows).length = 2)
    | _, _ => false) = true := by decide +kernel

end Props.C13
