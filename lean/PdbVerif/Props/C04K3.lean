/-
  C04 — the modifying methods translated WHOLE (tie #1, third part).  `GenG.update`, `update_xyz`, `update_column`, `add_column`
  (Gen/Get.lean) are regenerated on every run by py/translate_ext_get.py from the complete bodies of the methods: column validation,
  the per-model loop (`self.update(...)` on the database just modified), `columns.split(',')`, the shape checks in the order of the
  source — all before anything is modified —, `get('rowID')` through the translated `get`, the statement and the rows, run by MicroSql.
  Theorems: the translated `update`, `update_xyz`, `update_column` and `add_column` ARE the hand models `Model.update`,
  `Model.updateColumn`, `Model.addColumn` for every input (`update_eq_model`: the per-model loop included, where `update` calls
  itself on the database the previous call left and an exception stops the loop with what was done).
  Side conditions as in Props/C04K: names that go into the text are plain identifiers, `rowID` is the rowid, the table exists.
-/
import PdbVerif.Proofs.GenGetV

namespace Props.C04K3

/-- the translated column validation of `update` (no `strip`, unlike `get`) = `Model.validColsUpdate` -/
theorem validate_upd_eq : type_of% @GenGetProofs.validate_upd_eq := @GenGetProofs.validate_upd_eq
/-- the translated body of the rows loop of `update`: `[_to_sql_value(v) …] + [rowID[i] + 1]` appended (IndexError inside) -/
theorem update_for_i_val_nf : type_of% @GenGetProofs.update_for_i_val_nf := @GenGetProofs.update_for_i_val_nf
/-- the rows loop and the final `executemany` of the translated `update` = the fragment `GenSql.update_exec` run by MicroSql -/
theorem update_exec_run : type_of% @GenGetProofs.update_exec_run := @GenGetProofs.update_exec_run
/-- the shape checks in the order of the source: `values[0]`, row widths, `get('rowID')`, number of rows; then the statement -/
theorem tail_gen : type_of% @GenGetProofs.tail_gen := @GenGetProofs.tail_gen
/-- `',' in columns` -/
theorem strIn_comma : type_of% @GenGetProofs.strIn_comma := @GenGetProofs.strIn_comma
/-- **`GenG.update = Model.update`** when no per-model dispatch happens (full statement: the same without `hdisp`) -/
theorem update_eq_model_partial : type_of% @GenGetProofs.update_eq_model_partial := @GenGetProofs.update_eq_model_partial
/-- an UPDATE changes neither the added columns, nor the number of models, nor the table names -/
theorem updateCore_same : type_of% @GenGetProofs.updateCore_same := @GenGetProofs.updateCore_same
/-- the translated per-model loop collects one call per model, `kwargs['model'] = iModel` in place -/
theorem updLoop_eq : type_of% @GenGetProofs.updLoop_eq := @GenGetProofs.updLoop_eq
/-- those calls, run one after the other on the database the previous one left = `Model.updateModels` -/
theorem runCalls_eq : type_of% @GenGetProofs.runCalls_eq := @GenGetProofs.runCalls_eq
/-- **`GenG.update = Model.update`**, every input -/
theorem update_eq_model : type_of% @GenGetProofs.update_eq_model := @GenGetProofs.update_eq_model
/-- **`GenG.update_xyz = Model.update` on `'x,y,z'`** -/
theorem update_xyz_eq_model : type_of% @GenGetProofs.update_xyz_eq_model := @GenGetProofs.update_xyz_eq_model
/-- `update_xyz` is `update` on `'x,y,z'` -/
theorem update_xyz_eq_update : type_of% @GenGetProofs.update_xyz_eq_update := @GenGetProofs.update_xyz_eq_update
/-- the translated `update_column` in closed form: the fragment `GenSql.update_column_exec`, then `executemany` -/
theorem update_column_body_nf : type_of% @GenGetProofs.update_column_body_nf := @GenGetProofs.update_column_body_nf
/-- **`GenG.update_column = Model.updateColumn`**, every value list and index list -/
theorem update_column_eq_model : type_of% @GenGetProofs.update_column_eq_model := @GenGetProofs.update_column_eq_model
/-- **`GenG.add_column = Model.addColumn`**, given that SQLite reads `str(value)` back as the value -/
theorem add_column_eq_model : type_of% @GenGetProofs.add_column_eq_model := @GenGetProofs.add_column_eq_model

/-- non-vacuity: the hypotheses of `update_eq_model_partial` on the example table, and the translated `update` at work:
    one row addressed by rowID, a wrong number of rows rejected with nothing modified -/
example : (Model.hasModelKey [⟨"rowID".toList, .list [.int 1]⟩] = true ∨ SqlProofs.exDb.nModel = 0) ∧
    MicroSql.isName "ATOM".toList = true ∧ (∀ c ∈ Model.updNames "x,name".toList, MicroSql.isName c = true) ∧
    (Model.findTab SqlProofs.exDb "ATOM".toList).isSome = true := by
  refine ⟨Or.inr rfl, by decide, by decide, by decide⟩
example : ((GenG.update SqlProofs.exDb "x,name".toList [[.int 7, .text "Q".toList]] "ATOM".toList [⟨"rowID".toList, .list [.int 1]⟩]).1.tabs.map
      (fun t => t.rows.map (fun r => (r.atom.x, r.atom.name)))) = [[(1/2, "CA".toList), (7, "Q".toList), (1/2, "CA".toList)]] ∧
    GenG.update SqlProofs.exDb "x,name".toList [[.int 7, .text "Q".toList], [.int 8, .text "R".toList]] "ATOM".toList [⟨"rowID".toList, .list [.int 1]⟩] =
      (SqlProofs.exDb, .error .valueError) := by decide +kernel
/-- the per-model loop at work on a two-model file: both models' rows are written, as the model says -/
example : GenG.update { SqlProofs.exDb with nModel := 1 } "x".toList [[.int 7], [.int 8], [.int 9]] "ATOM".toList [] =
    Model.update { SqlProofs.exDb with nModel := 1 } "x".toList [[.int 7], [.int 8], [.int 9]] "ATOM".toList [] := by decide +kernel
example : GenG.update_column SqlProofs.exDb "x".toList [.int 5] none "ATOM".toList = Model.updateColumn SqlProofs.exDb "x".toList [.int 5] none "ATOM".toList := by
  decide +kernel

end Props.C04K3
