/-
  C07 — i-RMSD and L-RMSD equal their definitions, atoms paired by identity.  Property theorems only.
-/
import PdbVerif.Spec.C07
import PdbVerif.Model.RmsdFast
import PdbVerif.Model.RmsdSql

namespace Props.C07
open Py

/-- the backbone names of the statement are the names the zone helpers select -/
theorem backbone_names (n : Str) : n ∈ Model.Rmsd.zoneNames ↔ n ∈ Spec.Rmsd.backboneNames := by
  simp [Model.Rmsd.zoneNames, Gen.zone_backbone_names, Spec.Rmsd.backboneNames]; grind

end Props.C07
