/-
  C07 — i-RMSD and L-RMSD equal their definitions, with atoms paired by identity.  Property theorems only
  (helper lemmas: Proofs/Rmsd*.lean).

  `Model.Rmsd.irmsdFast / irmsdSql / lrmsdFast / lrmsdSql` are the hand-written data-flow models of the four routines
  (tied to the code by the correspondence check of py/props/c07.py); a successful run returns the ordered lists of
  (decoy point, reference point) pairs used for fitting and for evaluation, each point tagged with the identity of the
  record it was read from.  `Spec.Rmsd.*` is the statement's vocabulary.  Hypotheses of the pair theorems:
  * `Spec.Rmsd.Consistent dec ref` (decidable): identities (chain, number, name) unique per file, one residue name per
    (chain, number) across both files, exactly two chains, the same chains in both;
  * `RawAgrees lines table` (decidable on every concrete input; checked by the driver on every generated case): the
    raw-column readers of the fast routines see the identities and coordinates the parser put into the table;
  * the zone is the one computed from the reference (in memory or written); zone FILES are C09's subject.
  The numeric kernel enters through the explicit hypothesis `KernelOptimalAt` ("on these centred point sets
  `get_rotation_matrix` returns a proper rotation of minimal residual"), which `Props.C06.rmsd_minimal` /
  `quat_optimal` discharge under the SVD / eig contracts.
-/
import PdbVerif.Proofs.RmsdInv
import PdbVerif.Proofs.RmsdMsd
import PdbVerif.Proofs.RmsdDemo
import PdbVerif.Proofs.RmsdKernel
import PdbVerif.Proofs.RmsdRaw
import PdbVerif.Model.Parse

set_option linter.unusedVariables false
set_option linter.unusedSectionVars false
set_option linter.unusedTactic false
set_option linter.unusedSimpArgs false

namespace Props.C07
open Py Model Model.Rmsd Spec.Rmsd Proofs.Rmsd Proofs.Msd

/-! ### 1. which atoms, how paired: the four routines use the definition's pairs -/

/-- **i-RMSD, fast routine.**  Either the routine hands the kernel exactly the pairs of the definition — every pair joins
    two records of the same identity, and as a multiset the pairs are `Spec.interfacePairs` — or it raises: the
    enforced residue check (`ValueError`), or `TypeError` when the definition has no pair at all. -/
theorem irmsd_pairs_fast (dl rl : List Str) (dec ref : List Atom) (hd : RawAgrees dl dec) (hr : RawAgrees rl ref)
    (hc : Consistent dec ref) (src : ZoneSrc) (hsrc : src = .compute ∨ src = .write) (c : Rat) (enforce : Bool) :
    match irmsdFast dl rl (.ok dec) (.ok ref) src c true enforce with
    | .value fit ev => fit ≠ [] ∧ ev = fit ∧ (∀ p ∈ fit, p.1.1 = p.2.1) ∧ (fit.map idPair).Perm (interfacePairs dec ref c)
    | .err e => (e = .valueError ∧ enforce = true ∧ checkResidues dec ref none true = .error .valueError) ∨
        (e = .typeError ∧ interfacePairs dec ref c = []) :=
  irmsdFast_pairs hd hr (cons_of_consistent hc) src hsrc c enforce

/-- **i-RMSD, SQL routine** (zone computed in memory): the pairs of the definition, or `ValueError` when there is none. -/
theorem irmsd_pairs_sql (dec ref : List Atom) (hc : Consistent dec ref) (c : Rat) :
    match irmsdSql (.ok dec) (.ok ref) none c with
    | .value fit ev => fit ≠ [] ∧ ev = fit ∧ (∀ p ∈ fit, p.1.1 = p.2.1) ∧ (fit.map idPair).Perm (interfacePairs dec ref c)
    | .err e => e = .valueError ∧ interfacePairs dec ref c = [] :=
  irmsdSql_pairs (cons_of_consistent hc) c

/-- **L-RMSD, fast routine**: fitted on the common backbone atoms of the longer chain of the reference (atom count,
    first chain on a tie), evaluated on those of the shorter chain. -/
theorem lrmsd_pairs_fast (dl rl : List Str) (dec ref : List Atom) (hd : RawAgrees dl dec) (hr : RawAgrees rl ref)
    (hc : Consistent dec ref) (src : ZoneSrc) (hsrc : src = .compute ∨ src = .write) (enforce : Bool) :
    match lrmsdFast dl rl (.ok dec) (.ok ref) src true enforce with
    | .value fit ev => fit ≠ [] ∧ ev ≠ [] ∧ (∀ p ∈ fit ++ ev, p.1.1 = p.2.1) ∧
        (fit.map idPair).Perm (ligandFitPairs dec ref) ∧ (ev.map idPair).Perm (ligandEvalPairs dec ref)
    | .err e => (e = .valueError ∧ enforce = true ∧ checkResidues dec ref (some lrmsdFastNames) true = .error .valueError) ∨
        (e = .typeError ∧ ligandFitPairs dec ref = []) ∨ (e = .valueError ∧ ligandEvalPairs dec ref = []) :=
  lrmsdFast_pairs hd hr (cons_of_consistent hc) src hsrc enforce

/-- **L-RMSD, SQL routine.** -/
theorem lrmsd_pairs_sql (dec ref : List Atom) (hc : Consistent dec ref) (enforce : Bool) :
    match lrmsdSql (.ok dec) (.ok ref) enforce with
    | .value fit ev => fit ≠ [] ∧ ev ≠ [] ∧ (∀ p ∈ fit ++ ev, p.1.1 = p.2.1) ∧
        (fit.map idPair).Perm (ligandFitPairs dec ref) ∧ (ev.map idPair).Perm (ligandEvalPairs dec ref)
    | .err e => (e = .valueError ∧ enforce = true ∧ checkResidues dec ref (some lrmsdSqlNames) true = .error .valueError) ∨
        (e = .typeError ∧ ligandFitPairs dec ref = []) ∨ (e = .valueError ∧ ligandEvalPairs dec ref = []) :=
  lrmsdSql_pairs (cons_of_consistent hc) enforce

/-- non-vacuity: a concrete reference (two chains, a side-chain atom) and an incomplete, reordered, displaced decoy satisfy
    the hypotheses — the tables are what the parser model builds from the record lines, the raw readers agree with them —
    and the routines return values over the expected numbers of pairs -/
example : (Model.parse Demo.refLines).map (fun rows => rows.filterMap Atom.ofRow) = .ok Demo.ref ∧
    (Model.parse Demo.decLines).map (fun rows => rows.filterMap Atom.ofRow) = .ok Demo.dec := by decide +kernel
example : Consistent Demo.dec Demo.ref := by decide
example : RawAgrees Demo.refLines Demo.ref ∧ RawAgrees Demo.decLines Demo.dec := ⟨⟨by decide +kernel⟩, ⟨by decide +kernel⟩⟩
example : (match irmsdFast Demo.decLines Demo.refLines (.ok Demo.dec) (.ok Demo.ref) .compute 5 true false with
    | .value f _ => f.length | .err _ => 0) = 4 := by decide +kernel
example : (match lrmsdSql (.ok Demo.dec) (.ok Demo.ref) false with
    | .value f e => (f.length, e.length) | .err _ => (0, 0)) = (2, 2) := by decide +kernel
/-- … and with enforcement on, the missing CB atom is reported by the i-RMSD routine (it checks every atom) -/
example : missingSomewhere none Demo.dec Demo.ref = true := by decide

/-! ### 1b. `RawAgrees` is a theorem for parsed files -/

/-- **`RawAgrees` derived.**  If the parser accepts the file (`Model.parse lines = .ok rows`; by `Props.C01.parse_rows` its rows
    are the wwPDB columns of the padded record texts) and every ATOM record satisfies `RecordSide`, the raw-column readers of
    the fast routines read exactly the identities and coordinates of the parsed table; the table has one atom per row. -/
theorem raw_agrees_of_parse (lines : List Str) (rows : List Row) (hp : Model.parse lines = .ok rows) (hs : FileSide lines) :
    RawAgrees lines (tableOfRows rows) ∧ (tableOfRows rows).length = rows.length :=
  ⟨rawAgrees_of_parse lines rows hp hs, table_length lines rows hp⟩

/-- one record, both directions of the chain rule spelled out -/
theorem raw_reader_reads_parsed_record (l : Str) (n : Int) (r : Row) (h : Spec.parseRecord l n = .ok r) (hs : RecordSide l) :
    ∃ a : Atom, Atom.ofRow r = some a ∧ rawPt l = .ok (ptOf a) :=
  rawPt_of_parseRecord l n r h hs.1 hs.2

example : FileSide Demo.refLines ∧ FileSide Demo.decLines := by
  refine ⟨fun l hl _ => ?_, fun l hl _ => ?_⟩ <;>
  · simp only [Demo.refLines, Demo.decLines, List.mem_cons, List.not_mem_nil, or_false] at hl
    rcases hl with rfl | rfl | rfl | rfl | rfl <;>
      exact ⟨by unfold TailBlank; decide, Or.inl (by unfold ChainColumn; decide)⟩

/-- **The four pair theorems for parsed files**: `RawAgrees` replaced by "the files parse and their ATOM records satisfy
    `RecordSide`"; the tables are the parser's. -/
theorem pairs_of_parsed_files (dl rl : List Str) (drows rrows : List Row)
    (hpd : Model.parse dl = .ok drows) (hpr : Model.parse rl = .ok rrows) (hsd : FileSide dl) (hsr : FileSide rl)
    (hc : Consistent (tableOfRows drows) (tableOfRows rrows)) (src : ZoneSrc) (hsrc : src = .compute ∨ src = .write)
    (c : Rat) (enforce : Bool) :
    (match irmsdFast dl rl (.ok (tableOfRows drows)) (.ok (tableOfRows rrows)) src c true enforce with
      | .value fit ev => fit ≠ [] ∧ ev = fit ∧ (∀ p ∈ fit, p.1.1 = p.2.1) ∧
          (fit.map idPair).Perm (interfacePairs (tableOfRows drows) (tableOfRows rrows) c)
      | .err e => (e = .valueError ∧ enforce = true ∧ checkResidues (tableOfRows drows) (tableOfRows rrows) none true = .error .valueError) ∨
          (e = .typeError ∧ interfacePairs (tableOfRows drows) (tableOfRows rrows) c = [])) ∧
    (match irmsdSql (.ok (tableOfRows drows)) (.ok (tableOfRows rrows)) none c with
      | .value fit ev => fit ≠ [] ∧ ev = fit ∧ (∀ p ∈ fit, p.1.1 = p.2.1) ∧
          (fit.map idPair).Perm (interfacePairs (tableOfRows drows) (tableOfRows rrows) c)
      | .err e => e = .valueError ∧ interfacePairs (tableOfRows drows) (tableOfRows rrows) c = []) ∧
    (match lrmsdFast dl rl (.ok (tableOfRows drows)) (.ok (tableOfRows rrows)) src true enforce with
      | .value fit ev => fit ≠ [] ∧ ev ≠ [] ∧ (∀ p ∈ fit ++ ev, p.1.1 = p.2.1) ∧
          (fit.map idPair).Perm (ligandFitPairs (tableOfRows drows) (tableOfRows rrows)) ∧
          (ev.map idPair).Perm (ligandEvalPairs (tableOfRows drows) (tableOfRows rrows))
      | .err e => (e = .valueError ∧ enforce = true ∧
            checkResidues (tableOfRows drows) (tableOfRows rrows) (some lrmsdFastNames) true = .error .valueError) ∨
          (e = .typeError ∧ ligandFitPairs (tableOfRows drows) (tableOfRows rrows) = []) ∨
          (e = .valueError ∧ ligandEvalPairs (tableOfRows drows) (tableOfRows rrows) = [])) ∧
    (match lrmsdSql (.ok (tableOfRows drows)) (.ok (tableOfRows rrows)) enforce with
      | .value fit ev => fit ≠ [] ∧ ev ≠ [] ∧ (∀ p ∈ fit ++ ev, p.1.1 = p.2.1) ∧
          (fit.map idPair).Perm (ligandFitPairs (tableOfRows drows) (tableOfRows rrows)) ∧
          (ev.map idPair).Perm (ligandEvalPairs (tableOfRows drows) (tableOfRows rrows))
      | .err e => (e = .valueError ∧ enforce = true ∧
            checkResidues (tableOfRows drows) (tableOfRows rrows) (some lrmsdSqlNames) true = .error .valueError) ∨
          (e = .typeError ∧ ligandFitPairs (tableOfRows drows) (tableOfRows rrows) = []) ∨
          (e = .valueError ∧ ligandEvalPairs (tableOfRows drows) (tableOfRows rrows) = [])) :=
  have hd := (raw_agrees_of_parse dl drows hpd hsd).1
  have hr := (raw_agrees_of_parse rl rrows hpr hsr).1
  ⟨irmsd_pairs_fast dl rl _ _ hd hr hc src hsrc c enforce, irmsd_pairs_sql _ _ hc c,
   lrmsd_pairs_fast dl rl _ _ hd hr hc src hsrc enforce, lrmsd_pairs_sql _ _ hc enforce⟩

/-! ### 2. the value depends on the multiset of pairs only -/

/-- the mean squared deviation under any motion, hence the RMSD and its minimum, does not depend on the order in
    which the pairs are emitted -/
theorem rmsd_perm_invariant {α : Type} [Field α] [LinearOrder α] [IsStrictOrderedRing α] (g : Motion α)
    {l₁ l₂ : List (Vec3 α × Vec3 α)} (h : l₁.Perm l₂) :
    msd g l₁ = msd g l₂ ∧ (∀ m, IsMinMsd m l₁ ↔ IsMinMsd m l₂) :=
  ⟨msd_perm g h, fun m => ⟨isMinMsd_perm h, isMinMsd_perm h.symm⟩⟩

example : msd (Motion.id : Motion ℚ) [(⟨1, 0, 0⟩, ⟨0, 0, 0⟩), (⟨0, 2, 0⟩, ⟨0, 0, 0⟩)] =
    msd Motion.id [(⟨0, 2, 0⟩, ⟨0, 0, 0⟩), (⟨1, 0, 0⟩, ⟨0, 0, 0⟩)] :=
  (rmsd_perm_invariant _ (List.Perm.swap _ _ _)).1

/-! ### 3. paired by identity, never by position -/

/-- For EVERY reordering `dec'`, `ref'` of the records of decoy and reference (`dl'`, `rl'` being the reordered files),
    each routine either uses the same multiset of pairs as the definition gives for the original order — every pair joining
    two records of the same identity — or raises (the enforced residue check; or the no-atom errors, which do not depend
    on the order either).  Never a pairing by position. -/
theorem paired_by_identity_not_position (dl' rl' : List Str) (dec ref dec' ref' : List Atom)
    (hc : Consistent dec ref) (hpd : dec'.Perm dec) (hpr : ref'.Perm ref)
    (hd : RawAgrees dl' dec') (hr : RawAgrees rl' ref') (c : Rat) (enforce : Bool) :
    (match irmsdFast dl' rl' (.ok dec') (.ok ref') .compute c true enforce with
      | .value fit ev => ev = fit ∧ (∀ p ∈ fit, p.1.1 = p.2.1) ∧ (fit.map idPair).Perm (interfacePairs dec ref c)
      | .err e => (e = .valueError ∧ enforce = true) ∨ (e = .typeError ∧ interfacePairs dec ref c = [])) ∧
    (match irmsdSql (.ok dec') (.ok ref') none c with
      | .value fit ev => ev = fit ∧ (∀ p ∈ fit, p.1.1 = p.2.1) ∧ (fit.map idPair).Perm (interfacePairs dec ref c)
      | .err e => e = .valueError ∧ interfacePairs dec ref c = []) ∧
    (match lrmsdFast dl' rl' (.ok dec') (.ok ref') .compute true enforce with
      | .value fit ev => (∀ p ∈ fit ++ ev, p.1.1 = p.2.1) ∧
          (fit.map idPair).Perm (ligandFitPairs dec ref) ∧ (ev.map idPair).Perm (ligandEvalPairs dec ref)
      | .err e => (e = .valueError ∧ enforce = true) ∨ (e = .typeError ∧ ligandFitPairs dec ref = []) ∨
          (e = .valueError ∧ ligandEvalPairs dec ref = [])) ∧
    (match lrmsdSql (.ok dec') (.ok ref') enforce with
      | .value fit ev => (∀ p ∈ fit ++ ev, p.1.1 = p.2.1) ∧
          (fit.map idPair).Perm (ligandFitPairs dec ref) ∧ (ev.map idPair).Perm (ligandEvalPairs dec ref)
      | .err e => (e = .valueError ∧ enforce = true) ∨ (e = .typeError ∧ ligandFitPairs dec ref = []) ∨
          (e = .valueError ∧ ligandEvalPairs dec ref = [])) := by
  have hcons := cons_of_consistent hc
  have hc' := cons_perm hpd hpr hcons
  have pI := interfacePairs_perm hpd hpr hcons.nodupD c
  have pF := ligandFitPairs_perm hpd hpr hcons.nodupD
  have pE := ligandEvalPairs_perm hpd hpr hcons.nodupD
  have nilI : interfacePairs dec' ref' c = [] → interfacePairs dec ref c = [] := fun h => by
    rw [h] at pI; exact (List.Perm.nil_eq pI).symm
  have nilF : ligandFitPairs dec' ref' = [] → ligandFitPairs dec ref = [] := fun h => by
    rw [h] at pF; exact (List.Perm.nil_eq pF).symm
  have nilE : ligandEvalPairs dec' ref' = [] → ligandEvalPairs dec ref = [] := fun h => by
    rw [h] at pE; exact (List.Perm.nil_eq pE).symm
  refine ⟨?_, ?_, ?_, ?_⟩
  · have := irmsdFast_pairs hd hr hc' .compute (Or.inl rfl) c enforce
    split at this <;> rename_i heq <;> (try rw [heq]) <;> (try simp only)
    · exact ⟨this.2.1, this.2.2.1, this.2.2.2.trans pI⟩
    · rcases this with h | h
      · exact Or.inl ⟨h.1, h.2.1⟩
      · exact Or.inr ⟨h.1, nilI h.2⟩
  · have := irmsdSql_pairs hc' c
    split at this <;> rename_i heq <;> (try rw [heq]) <;> (try simp only)
    · exact ⟨this.2.1, this.2.2.1, this.2.2.2.trans pI⟩
    · exact ⟨this.1, nilI this.2⟩
  · have := lrmsdFast_pairs hd hr hc' .compute (Or.inl rfl) enforce
    split at this <;> rename_i heq <;> (try rw [heq]) <;> (try simp only)
    · exact ⟨this.2.2.1, this.2.2.2.1.trans pF, this.2.2.2.2.trans pE⟩
    · rcases this with h | h | h
      · exact Or.inl ⟨h.1, h.2.1⟩
      · exact Or.inr (Or.inl ⟨h.1, nilF h.2⟩)
      · exact Or.inr (Or.inr ⟨h.1, nilE h.2⟩)
  · have := lrmsdSql_pairs hc' enforce
    split at this <;> rename_i heq <;> (try rw [heq]) <;> (try simp only)
    · exact ⟨this.2.2.1, this.2.2.2.1.trans pF, this.2.2.2.2.trans pE⟩
    · rcases this with h | h | h
      · exact Or.inl ⟨h.1, h.2.1⟩
      · exact Or.inr (Or.inl ⟨h.1, nilF h.2⟩)
      · exact Or.inr (Or.inr ⟨h.1, nilE h.2⟩)

/-! ### 4. missing atoms are left out — or reported when enforcement is on -/

/-- Every pair of the definition joins an identity present in BOTH structures, and removing records from the decoy
    (`dec.filter keep`) removes exactly the pairs of the removed identities: nothing else changes, nothing is re-paired.
    (With the pair theorems above: with enforcement off the routines use exactly these pairs.) -/
theorem missing_atoms_left_out (dec ref : List Atom) (hc : Consistent dec ref) (sel : Atom → Bool) (keep : Atom → Bool) :
    (∀ p ∈ commonBackbone dec ref sel, p.1 ∈ dec.map key ∧ p.1 ∈ ref.map key) ∧
    (∀ p, p ∈ commonBackbone (dec.filter keep) ref sel ↔
      p ∈ commonBackbone dec ref sel ∧ ∃ d ∈ dec, keep d = true ∧ key d = p.1) :=
  ⟨fun p hp => commonBackbone_keys (cons_of_consistent hc).nodupD sel hp,
   fun p => commonBackbone_filter (cons_of_consistent hc).nodupD sel keep p⟩

/-- with enforcement off the routines that check residues never raise because of a mismatch: they return the pairs of
    the definition (or there is no pair to superpose / evaluate) -/
theorem missing_atoms_left_out_routines (dl rl : List Str) (dec ref : List Atom) (hd : RawAgrees dl dec) (hr : RawAgrees rl ref)
    (hc : Consistent dec ref) (c : Rat) :
    (match irmsdFast dl rl (.ok dec) (.ok ref) .compute c true false with
      | .value fit _ => (fit.map idPair).Perm (interfacePairs dec ref c)
      | .err _ => interfacePairs dec ref c = []) ∧
    (match lrmsdFast dl rl (.ok dec) (.ok ref) .compute true false with
      | .value fit ev => (fit.map idPair).Perm (ligandFitPairs dec ref) ∧ (ev.map idPair).Perm (ligandEvalPairs dec ref)
      | .err _ => ligandFitPairs dec ref = [] ∨ ligandEvalPairs dec ref = []) ∧
    (match lrmsdSql (.ok dec) (.ok ref) false with
      | .value fit ev => (fit.map idPair).Perm (ligandFitPairs dec ref) ∧ (ev.map idPair).Perm (ligandEvalPairs dec ref)
      | .err _ => ligandFitPairs dec ref = [] ∨ ligandEvalPairs dec ref = []) := by
  refine ⟨?_, ?_, ?_⟩
  · have := irmsd_pairs_fast dl rl dec ref hd hr hc .compute (Or.inl rfl) c false
    split at this <;> rename_i heq <;> (try rw [heq]) <;> (try simp only)
    · exact this.2.2.2
    · rcases this with h | h
      · exact absurd h.2.1 (by simp)
      · exact h.2
  · have := lrmsd_pairs_fast dl rl dec ref hd hr hc .compute (Or.inl rfl) false
    split at this <;> rename_i heq <;> (try rw [heq]) <;> (try simp only)
    · exact this.2.2.2
    · rcases this with h | h | h
      · exact absurd h.2.1 (by simp)
      · exact Or.inl h.2
      · exact Or.inr h.2
  · have := lrmsd_pairs_sql dec ref hc false
    split at this <;> rename_i heq <;> (try rw [heq]) <;> (try simp only)
    · exact this.2.2.2
    · rcases this with h | h | h
      · exact absurd h.2.1 (by simp)
      · exact Or.inl h.2
      · exact Or.inr h.2

/-- While residue matching is enforced, an atom identity (any atom for the i-RMSD routine; a backbone atom for the
    L-RMSD routines, which look at backbone atoms only) present in one structure only makes the three routines that check
    residues raise `ValueError`.  (`compute_irmsd_pdb2sql` has no residue check: it always leaves missing atoms out.) -/
theorem mismatch_reported_when_enforced (dl rl : List Str) (dec ref : List Atom) (hd : RawAgrees dl dec) (hr : RawAgrees rl ref)
    (hc : Consistent dec ref) (c : Rat) :
    (missingSomewhere none dec ref = true →
      irmsdFast dl rl (.ok dec) (.ok ref) .compute c true true = .err .valueError) ∧
    (missingSomewhere (some lrmsdFastNames) dec ref = true →
      lrmsdFast dl rl (.ok dec) (.ok ref) .compute true true = .err .valueError) ∧
    (missingSomewhere (some lrmsdSqlNames) dec ref = true →
      lrmsdSql (.ok dec) (.ok ref) true = .err .valueError) := by
  refine ⟨fun hm => ?_, fun hm => ?_, fun hm => ?_⟩
  · have h := irmsd_pairs_fast dl rl dec ref hd hr hc .compute (Or.inl rfl) c true
    have hrun := irmsdFast_run hd hr .compute (Or.inl rfl) c true
    obtain ⟨c0, c1, hch, _⟩ := (cons_of_consistent hc).two
    obtain ⟨zl, hzl, _⟩ := Proofs.Rmsd.mem_computeIzone (c := c) hch
    rw [hrun, hzl, mismatch_error hm]
  · have hrun := lrmsdFast_run hd hr .compute (Or.inl rfl) true
    obtain ⟨c0, c1, hch, _⟩ := (cons_of_consistent hc).two
    obtain ⟨zl, hzl, _⟩ := Proofs.Rmsd.mem_computeLzone hch
    rw [hrun, hzl, mismatch_error hm]
  · obtain ⟨c0, c1, hch, hchd⟩ := (cons_of_consistent hc).two
    have hme := mismatch_error hm
    unfold lrmsdSql
    simp [hch, hchd, bind, Except.bind, chainAt, hme, Outcome.ofExcept]

/-! ### 5. the value: minimum over rigid motions; centroids; identical structures -/

/-- **centroid_optimal_translation.**  For a fixed linear part `R` the deviation `Σ‖R pₖ + t − qₖ‖²` is smallest for the
    translation that superposes the centroids (`t* = q̄ − R p̄`); the excess of any other `t` is `n·‖t − t*‖²`. -/
theorem centroid_optimal_translation {α : Type} [Field α] [LinearOrder α] [IsStrictOrderedRing α]
    (R : Mat3 α) (t : Vec3 α) (l : List (Vec3 α × Vec3 α)) (hl : l ≠ []) :
    sumSqDev ⟨R, t⟩ l = sumSqDev ⟨R, bestTr R l⟩ l + (l.length : α) * Vec3.normSq (Vec3.sub t (bestTr R l)) ∧
    sumSqDev ⟨R, bestTr R l⟩ l ≤ sumSqDev ⟨R, t⟩ l :=
  ⟨sumSqDev_translation R t l hl, centroid_optimal R t l hl⟩

/-- **irmsd_is_min.**  When an i-RMSD routine returns a value, the radicand of that value — what `superpose_selection` +
    `get_rmsd` compute from the pairs the routine hands over — is the MINIMUM over all rigid motions of the mean squared
    deviation of the definition's pairs (`Spec.interfacePairs`), provided the kernel returns an optimal rotation on the
    centred sets.  (The library returns `round(√·, 3)` of it.) -/
theorem irmsd_is_min (dl rl : List Str) (dec ref : List Atom) (hd : RawAgrees dl dec) (hr : RawAgrees rl ref)
    (hc : Consistent dec ref) (c : Rat) (enforce : Bool)
    (rotmat : List (Vec3 ℝ) → List (Vec3 ℝ) → Except Err (Mat3 ℝ)) (fit ev : List Pair)
    (hrun : irmsdFast dl rl (.ok dec) (.ok ref) .compute c true enforce = .value fit ev ∨
            irmsdSql (.ok dec) (.ok ref) none c = .value fit ev)
    (hk : KernelOptimalAt rotmat (realPairs (coordsOf fit))) :
    ∃ m : ℝ, radicand rotmat (realPairs (coordsOf fit)) (realPairs (coordsOf ev)) = .ok m ∧
      IsMinMsd m (realPairs (coords (interfacePairs dec ref c))) := by
  have hperm : ev = fit ∧ (fit.map idPair).Perm (interfacePairs dec ref c) ∧ fit ≠ [] := by
    rcases hrun with h | h
    · have := irmsd_pairs_fast dl rl dec ref hd hr hc .compute (Or.inl rfl) c enforce
      rw [h] at this
      exact ⟨this.2.1, this.2.2.2, this.1⟩
    · have := irmsd_pairs_sql dec ref hc c
      rw [h] at this
      exact ⟨this.2.1, this.2.2.2, this.1⟩
  obtain ⟨hev, hp, hne⟩ := hperm
  subst hev
  have hne' : realPairs (coordsOf ev) ≠ [] := realPairs_ne_nil (by simpa [coordsOf] using hne)
  obtain ⟨m, hm, hmin⟩ := radicand_isMin (realPairs (coordsOf ev)) hne' hk
  refine ⟨m, hm, isMinMsd_perm (realPairs_perm ?_) hmin⟩
  rw [← coords_idPair]
  exact hp.map _

/-- **lrmsd_is_fit_then_eval.**  When an L-RMSD routine returns a value, its radicand is the mean squared deviation of the
    definition's evaluation pairs (common backbone atoms of the shorter chain) after a rigid motion that superposes the
    definition's fitting pairs (longer chain) optimally. -/
theorem lrmsd_is_fit_then_eval (dl rl : List Str) (dec ref : List Atom) (hd : RawAgrees dl dec) (hr : RawAgrees rl ref)
    (hc : Consistent dec ref) (enforce : Bool)
    (rotmat : List (Vec3 ℝ) → List (Vec3 ℝ) → Except Err (Mat3 ℝ)) (fit ev : List Pair)
    (hrun : lrmsdFast dl rl (.ok dec) (.ok ref) .compute true enforce = .value fit ev ∨
            lrmsdSql (.ok dec) (.ok ref) enforce = .value fit ev)
    (hk : KernelOptimalAt rotmat (realPairs (coordsOf fit))) :
    ∃ m : ℝ, radicand rotmat (realPairs (coordsOf fit)) (realPairs (coordsOf ev)) = .ok m ∧
      IsFitThenEval m (realPairs (coords (ligandFitPairs dec ref))) (realPairs (coords (ligandEvalPairs dec ref))) := by
  have hperm : fit ≠ [] ∧ (fit.map idPair).Perm (ligandFitPairs dec ref) ∧ (ev.map idPair).Perm (ligandEvalPairs dec ref) := by
    rcases hrun with h | h
    · have := lrmsd_pairs_fast dl rl dec ref hd hr hc .compute (Or.inl rfl) enforce
      rw [h] at this; exact ⟨this.1, this.2.2.2⟩
    · have := lrmsd_pairs_sql dec ref hc enforce
      rw [h] at this; exact ⟨this.1, this.2.2.2⟩
  obtain ⟨hfit, hperm⟩ := hperm
  have hne' : realPairs (coordsOf fit) ≠ [] := realPairs_ne_nil (by simpa [coordsOf] using hfit)
  obtain ⟨m, hm, hfe⟩ := radicand_isFitThenEval (realPairs (coordsOf fit)) (realPairs (coordsOf ev)) hne' hk
  refine ⟨m, hm, isFitThenEval_perm (realPairs_perm ?_) (realPairs_perm ?_) hfe⟩
  · rw [← coords_idPair]; exact hperm.1.map _
  · rw [← coords_idPair]; exact hperm.2.map _

/-- **identical_scores_zero.**  A decoy identical to the reference: every pair of the definition has equal coordinates
    (for the interface and for both chains of the ligand measure); the minimum over rigid motions of identical point sets
    is 0 (unconditionally: i-RMSD scores 0 whenever the kernel is optimal); for the ligand measure the identity motion
    superposes the fitting pairs with deviation 0 — so the optimum is 0 — and leaves the evaluation pairs at deviation 0. -/
theorem identical_scores_zero (ref : List Atom) (hc : Consistent ref ref) (c : Rat) :
    (∀ p ∈ interfacePairs ref ref c, p.2.1 = p.2.2) ∧ (∀ p ∈ ligandFitPairs ref ref, p.2.1 = p.2.2) ∧
    (∀ p ∈ ligandEvalPairs ref ref, p.2.1 = p.2.2) ∧
    (∀ (l : List (Vec3 ℝ × Vec3 ℝ)), (∀ pq ∈ l, pq.1 = pq.2) →
      msd Motion.id l = 0 ∧ ∀ m, IsMinMsd m l → m = 0) := by
  have hn := (cons_of_consistent hc).nodupR
  refine ⟨fun p hp => commonBackbone_self hn _ hp, ?_, ?_, fun l hl => ⟨msd_id_of_equal l hl, fun m hm => isMin_zero_of_equal hl hm⟩⟩
  · intro p hp
    unfold ligandFitPairs at hp
    split at hp
    · exact commonBackbone_self hn _ hp
    · simp at hp
  · intro p hp
    unfold ligandEvalPairs at hp
    split at hp
    · exact commonBackbone_self hn _ hp
    · simp at hp

/-- i-RMSD of identical structures is 0: with an optimal kernel the radicand computed from pairs of equal points is 0 -/
theorem identical_scores_zero_irmsd (rotmat : List (Vec3 ℝ) → List (Vec3 ℝ) → Except Err (Mat3 ℝ))
    (l : List (Vec3 ℝ × Vec3 ℝ)) (hl : l ≠ []) (heq : ∀ pq ∈ l, pq.1 = pq.2) (hk : KernelOptimalAt rotmat l) :
    radicand rotmat l l = .ok 0 := by
  obtain ⟨m, hm, hmin⟩ := radicand_isMin l hl hk
  rw [hm, isMin_zero_of_equal heq hmin]

/-- non-vacuity of the kernel hypothesis: for identical point sets the kernel that returns the identity is optimal -/
example : KernelOptimalAt (fun _ _ => .ok Mat3.one) [((⟨1, 2, 3⟩ : Vec3 ℝ), (⟨1, 2, 3⟩ : Vec3 ℝ)), (⟨0, 1, 0⟩, ⟨0, 1, 0⟩)] :=
  kernelOptimalAt_of_equal _ (by simp)

/-- **The kernel hypothesis is C06's theorem.**  For the library's Kabsch kernel (`Model.kabsch`, the model of
    `get_rotation_matrix_Kabsh` with its guards and the centring tolerance `eps ≥ 0`), `KernelOptimalAt` holds on every
    non-empty fitting list as soon as `np.linalg.svd` meets its contract at the covariance of the centred sets
    (`Props.C06.rmsd_minimal`); so `irmsd_is_min` and `lrmsd_is_fit_then_eval` hold for the SVD method under that contract. -/
theorem kernel_optimal_from_C06 (svd : Mat3 ℝ → Mat3 ℝ × Vec3 ℝ × Mat3 ℝ) (eps : ℝ) (heps : 0 ≤ eps)
    (fit : List (Vec3 ℝ × Vec3 ℝ)) (hfit : fit ≠ [])
    (hsvd : Proofs.Guards.SvdOK svd (centre (fit.map (·.1))) (centre (fit.map (·.2)))) :
    KernelOptimalAt (Model.kabsch svd eps) fit :=
  kernelOptimalAt_kabsch svd eps heps fit hfit hsvd

/-- … and for the quaternion kernel (`Model.quaternion`, the model of `get_rotation_matrix_quaternion`) under the contract of
    `np.linalg.eigh` at the key matrix of the centred sets (`Props.C06.quat_optimal`, over ℝ). -/
theorem kernel_optimal_from_C06_quaternion (eig : Mat4 ℝ → List (ℝ × Vec4 ℝ)) (eps : ℝ) (heps : 0 ≤ eps)
    (fit : List (Vec3 ℝ × Vec3 ℝ)) (hfit : fit ≠ [])
    (heig : Proofs.Guards.EigOK eig (centre (fit.map (·.1))) (centre (fit.map (·.2)))) :
    KernelOptimalAt (Model.quaternion eig eps) fit :=
  kernelOptimalAt_quaternion eig eps heps fit hfit heig

/-- **Both methods, no kernel hypothesis left.**  When an i-RMSD routine returns a value, then under the contracts of
    `np.linalg.svd` and `np.linalg.eigh` at the matrices the kernels pass to them (for the centred pair lists of this run)
    the radicand computed with EITHER method is the minimum over all rigid motions of the mean squared deviation of the
    definition's pairs — in particular both methods give the same radicand. -/
theorem irmsd_is_min_both_methods (dl rl : List Str) (dec ref : List Atom) (hd : RawAgrees dl dec) (hr : RawAgrees rl ref)
    (hc : Consistent dec ref) (c : Rat) (enforce : Bool) (fit ev : List Pair)
    (hrun : irmsdFast dl rl (.ok dec) (.ok ref) .compute c true enforce = .value fit ev ∨
            irmsdSql (.ok dec) (.ok ref) none c = .value fit ev)
    (svd : Mat3 ℝ → Mat3 ℝ × Vec3 ℝ × Mat3 ℝ) (eig : Mat4 ℝ → List (ℝ × Vec4 ℝ)) (eps : ℝ) (heps : 0 ≤ eps)
    (hsvd : Proofs.Guards.SvdOK svd (centre ((realPairs (coordsOf fit)).map (·.1))) (centre ((realPairs (coordsOf fit)).map (·.2))))
    (heig : Proofs.Guards.EigOK eig (centre ((realPairs (coordsOf fit)).map (·.1))) (centre ((realPairs (coordsOf fit)).map (·.2)))) :
    ∃ m : ℝ, radicand (Model.kabsch svd eps) (realPairs (coordsOf fit)) (realPairs (coordsOf ev)) = .ok m ∧
      radicand (Model.quaternion eig eps) (realPairs (coordsOf fit)) (realPairs (coordsOf ev)) = .ok m ∧
      IsMinMsd m (realPairs (coords (interfacePairs dec ref c))) := by
  have hne : fit ≠ [] := by
    rcases hrun with h | h
    · have := irmsd_pairs_fast dl rl dec ref hd hr hc .compute (Or.inl rfl) c enforce
      rw [h] at this; exact this.1
    · have := irmsd_pairs_sql dec ref hc c
      rw [h] at this; exact this.1
  have hne' : realPairs (coordsOf fit) ≠ [] := realPairs_ne_nil (by simpa [coordsOf] using hne)
  obtain ⟨m, hm, hmin⟩ := irmsd_is_min dl rl dec ref hd hr hc c enforce (Model.kabsch svd eps) fit ev hrun
    (kernel_optimal_from_C06 svd eps heps _ hne' hsvd)
  obtain ⟨m', hm', hmin'⟩ := irmsd_is_min dl rl dec ref hd hr hc c enforce (Model.quaternion eig eps) fit ev hrun
    (kernel_optimal_from_C06_quaternion eig eps heps _ hne' heig)
  have : m' = m := by
    obtain ⟨⟨g, hg, hgm⟩, hlo⟩ := hmin
    obtain ⟨⟨g', hg', hgm'⟩, hlo'⟩ := hmin'
    exact le_antisymm (hgm ▸ hlo' g hg) (hgm' ▸ hlo g' hg')
  exact ⟨m, hm, this ▸ hm', hmin⟩

/-- the same for the L-RMSD: with either method the radicand is a fit-then-evaluate value of the definition's pair lists
    (the two methods may pick different optimal motions when the fitted set does not span a plane) -/
theorem lrmsd_is_fit_then_eval_both_methods (dl rl : List Str) (dec ref : List Atom) (hd : RawAgrees dl dec) (hr : RawAgrees rl ref)
    (hc : Consistent dec ref) (enforce : Bool) (fit ev : List Pair)
    (hrun : lrmsdFast dl rl (.ok dec) (.ok ref) .compute true enforce = .value fit ev ∨
            lrmsdSql (.ok dec) (.ok ref) enforce = .value fit ev)
    (svd : Mat3 ℝ → Mat3 ℝ × Vec3 ℝ × Mat3 ℝ) (eig : Mat4 ℝ → List (ℝ × Vec4 ℝ)) (eps : ℝ) (heps : 0 ≤ eps)
    (hsvd : Proofs.Guards.SvdOK svd (centre ((realPairs (coordsOf fit)).map (·.1))) (centre ((realPairs (coordsOf fit)).map (·.2))))
    (heig : Proofs.Guards.EigOK eig (centre ((realPairs (coordsOf fit)).map (·.1))) (centre ((realPairs (coordsOf fit)).map (·.2)))) :
    (∃ m : ℝ, radicand (Model.kabsch svd eps) (realPairs (coordsOf fit)) (realPairs (coordsOf ev)) = .ok m ∧
      IsFitThenEval m (realPairs (coords (ligandFitPairs dec ref))) (realPairs (coords (ligandEvalPairs dec ref)))) ∧
    (∃ m : ℝ, radicand (Model.quaternion eig eps) (realPairs (coordsOf fit)) (realPairs (coordsOf ev)) = .ok m ∧
      IsFitThenEval m (realPairs (coords (ligandFitPairs dec ref))) (realPairs (coords (ligandEvalPairs dec ref)))) := by
  have hne : fit ≠ [] := by
    rcases hrun with h | h
    · have := lrmsd_pairs_fast dl rl dec ref hd hr hc .compute (Or.inl rfl) enforce
      rw [h] at this; exact this.1
    · have := lrmsd_pairs_sql dec ref hc enforce
      rw [h] at this; exact this.1
  have hne' : realPairs (coordsOf fit) ≠ [] := realPairs_ne_nil (by simpa [coordsOf] using hne)
  exact ⟨lrmsd_is_fit_then_eval dl rl dec ref hd hr hc enforce (Model.kabsch svd eps) fit ev hrun
      (kernel_optimal_from_C06 svd eps heps _ hne' hsvd),
    lrmsd_is_fit_then_eval dl rl dec ref hd hr hc enforce (Model.quaternion eig eps) fit ev hrun
      (kernel_optimal_from_C06_quaternion eig eps heps _ hne' heig)⟩

/-- L-RMSD of identical structures, at the level the kernel hypothesis supports without a rank condition: the optimal
    superposition of the (identical) fitting pairs has deviation 0, and the identity motion — one of the optimal motions —
    leaves the evaluation pairs at deviation 0.  (That EVERY optimal motion does needs the fitted set to span at least a
    plane: `rank ≥ 2`; not claimed here.) -/
theorem identical_scores_zero_lrmsd_partial (fit ev : List (Vec3 ℝ × Vec3 ℝ))
    (hf : ∀ pq ∈ fit, pq.1 = pq.2) (he : ∀ pq ∈ ev, pq.1 = pq.2) :
    (∀ g : Motion ℝ, g.IsRigid → (∀ h : Motion ℝ, h.IsRigid → msd g fit ≤ msd h fit) → msd g fit = 0) ∧
    IsFitThenEval 0 fit ev := by
  refine ⟨fun g hg hopt => ?_, ⟨Motion.id, id_rigid, fun h hh => ?_, msd_id_of_equal ev he⟩⟩
  · have h1 := hopt _ id_rigid
    rw [msd_id_of_equal fit hf] at h1
    exact le_antisymm h1 (msd_nonneg g fit)
  · rw [msd_id_of_equal fit hf]; exact msd_nonneg h fit

end Props.C07
