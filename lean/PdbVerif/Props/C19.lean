/-
  C19 — many2sql: the intersection is exactly the common atoms, row-aligned per structure.
  Property theorems only.  `Model.joinRows` is the nested-loop model of the INNER JOIN of `get_intersection`
  (one table per structure, every pair of tables agreeing on every match attribute); the order of the joined
  tuples (SQL: unspecified without ORDER BY) is not claimed, alignment is.
-/
import PdbVerif.Proofs.TableJoin
import PdbVerif.Proofs.TableGet
import PdbVerif.Proofs.TableWorldText

set_option linter.unusedVariables false
set_option linter.unusedSimpArgs false

namespace Props.C19
open Tbl Model JoinProofs

/-- the default match attributes in the source are name, resName, resSeq, chainID (SQL resolves `resname`
    case-insensitively) -/
theorem default_match_is_the_source's : Gen.match_default.mapM (fun s => matchCol s.toList) = some Spec.defaultMatch := by
  decide

/-- **aligned**: all components of a joined tuple carry the same matching key — row i of every structure is the
    same atom -/
theorem join_aligned (m : List StdCol) (Ts : List Table) (tup : List Row) (h : tup ∈ joinRows m Ts) :
    ∀ r ∈ tup, ∀ r' ∈ tup, Spec.keyOf m r = Spec.keyOf m r' := by
  unfold joinRows at h
  rw [List.mem_filter, onClause_iff] at h
  exact pairwise_key_all m tup h.2

/-- **own values**: component k of a joined tuple is a row of structure k (so every other attribute read from
    it is that structure's own value); in particular every tuple has one component per structure -/
theorem own_values (m : List StdCol) (Ts : List Table) (tup : List Row) (h : tup ∈ joinRows m Ts) :
    List.Forall₂ (fun r T => r ∈ T) tup Ts := by
  unfold joinRows at h
  rw [List.mem_filter, mem_cartesian] at h
  exact h.1

/-- **sound and complete**: a key is carried by a joined tuple iff it occurs in every structure -/
theorem join_sound_complete (m : List StdCol) (T : Table) (rest : List Table) (k : List Val) :
    (∃ tup ∈ joinRows m (T :: rest), ∀ r ∈ tup, Spec.keyOf m r = k) ↔ ∀ T' ∈ T :: rest, ∃ r ∈ T', Spec.keyOf m r = k := by
  constructor
  · rintro ⟨tup, htup, hk⟩
    have hown := own_values m (T :: rest) tup htup
    intro T' hT'
    -- the component of `tup` that sits in `T'`
    have key : ∀ (tup : List Row) (Ts : List Table), List.Forall₂ (fun r T => r ∈ T) tup Ts → ∀ T' ∈ Ts, ∃ r ∈ tup, r ∈ T' := by
      intro tup Ts hf
      induction hf with
      | nil => intro T' h; simp at h
      | cons h1 h2 ih =>
        intro T' h
        rcases List.mem_cons.1 h with rfl | h
        · exact ⟨_, by simp, h1⟩
        · obtain ⟨r, hr, hr'⟩ := ih T' h
          exact ⟨r, List.mem_cons_of_mem _ hr, hr'⟩
    obtain ⟨r, hr, hrT⟩ := key tup _ hown T' hT'
    exact ⟨r, hrT, hk r hr⟩
  · intro h
    obtain ⟨tup, h1, h2⟩ := exists_tuple m k (T :: rest) h
    refine ⟨tup, ?_, h2⟩
    unfold joinRows
    rw [List.mem_filter, mem_cartesian, onClause_iff]
    exact ⟨h1, all_key_pairwise m k tup h2⟩

/-- **once**: when keys are unique within each structure, the joined tuples are pairwise distinct and two tuples
    that share a key are the same tuple — each common key occurs exactly once -/
theorem join_once (m : List StdCol) (T : Table) (rest : List Table)
    (huniq : ∀ T' ∈ T :: rest, (T'.map (Spec.keyOf m)).Nodup) :
    (joinRows m (T :: rest)).Nodup ∧
    ∀ tup ∈ joinRows m (T :: rest), ∀ tup' ∈ joinRows m (T :: rest),
      (∃ r ∈ tup, ∃ r' ∈ tup', Spec.keyOf m r = Spec.keyOf m r') → tup = tup' := by
  constructor
  · unfold joinRows
    apply List.Nodup.filter
    apply cartesian_nodup
    intro T' hT'
    exact List.Nodup.of_map _ (huniq T' hT')
  · intro tup htup tup' htup' ⟨r, hr, r', hr', hkey⟩
    have a1 := join_aligned m _ tup htup
    have a2 := join_aligned m _ tup' htup'
    apply tuple_unique m (Spec.keyOf m r) (T :: rest) tup tup' huniq (own_values m _ tup htup) (own_values m _ tup' htup')
    · intro x hx; exact a1 x hx r hr
    · intro x hx; rw [hkey]; exact a2 x hx r' hr'

/-- what `get_intersection` returns per structure is the projection of that structure's component of every
    joined tuple, tuple by tuple: the per-structure lists are row-aligned by construction -/
theorem intersection_is_sliced_join (db : Db) (column : Py.Str) (mnames : List Py.Str) (m : List StdCol) (cols : List Col)
    (hx : db.extra = []) (hm : mnames.mapM matchCol = some m)
    (hc : (if column = "*".toList then StdCol.all.map StdCol.pyName else Py.splitOn ',' column).mapM
            (fun n => sqlCol db (Py.strip n)) = some cols) (hnr : cols.contains .rowID = false) :
    getIntersection db column mnames =
      .ok ((List.range db.tabs.length).map (fun it =>
        (joinRows m (db.tabs.map (·.rows))).map (fun tup => match tup[it]? with
          | some r => cols.map (fun c => cell c 0 r)
          | none => []))) := by
  unfold getIntersection
  have hx' : (!db.extra.isEmpty) = false := by simp [hx]
  obtain ⟨m', hm', hj⟩ := matchCols_some db mnames m hm
  simp only [hx', Bool.false_eq_true, if_false, hm']
  rw [hc]
  simp only [hnr, Bool.false_eq_true, if_false, hj]
  rfl

/-- **the intersected database**: `intersect(match)` holds one table per structure, with the structure's name;
    table `k` is the round trip (re-export, re-parse) of component `k` of the joined tuples, tuple by tuple in
    the order of the join — so before the round trip row `i` of every table comes from the same joined tuple:
    each is a row of its own structure and all carry the same matching key -/
theorem intersect_tables (rt : Table → Table) (db db' : Db) (mnames : List Py.Str) (m : List StdCol)
    (hm : mnames.mapM matchCol = some m) (h : Model.intersect rt db mnames = .ok db') :
    let joined := joinRows m (db.tabs.map (·.rows))
    db'.tabs.length = db.tabs.length ∧
    ∀ k t, db.tabs[k]? = some t →
      db'.tabs[k]? = some { name := t.name, rows := rt (joined.map (fun tup => tup.getD k default)) } ∧
      (∀ tup ∈ joined, tup.getD k default ∈ t.rows) ∧
      ∀ k' t', db.tabs[k']? = some t' → ∀ tup ∈ joined,
        Spec.keyOf m (tup.getD k default) = Spec.keyOf m (tup.getD k' default) := by
  intro joined
  unfold Model.intersect at h
  split_ifs at h with h1
  obtain ⟨m', hm', hj⟩ := matchCols_some db mnames m hm
  rw [hm'] at h
  simp only [hj] at h
  split_ifs at h with h2
  injection h with h; subst h
  refine ⟨by simp, ?_⟩
  intro k t hk
  have hk' : (db.tabs.map (·.rows))[k]? = some t.rows := by simp [hk]
  refine ⟨?_, ?_, ?_⟩
  · simp only [List.getElem?_map, List.getElem?_zipIdx, hk, Option.map_some, Nat.zero_add]
    rw [component_eq_map m _ k t.rows hk']
  · intro tup htup
    obtain ⟨r, hr, hmem⟩ := component_mem m _ k t.rows hk' tup htup
    simpa [List.getD_eq_getElem?_getD, hr] using hmem
  · intro k2 t2 hk2 tup htup
    have hk2' : (db.tabs.map (·.rows))[k2]? = some t2.rows := by simp [hk2]
    obtain ⟨r, hr, _⟩ := component_mem m _ k t.rows hk' tup htup
    obtain ⟨r2, hr2, _⟩ := component_mem m _ k2 t2.rows hk2' tup htup
    have e1 : tup.getD k default = r := by simp [List.getD_eq_getElem?_getD, hr]
    have e2 : tup.getD k2 default = r2 := by simp [List.getD_eq_getElem?_getD, hr2]
    rw [e1, e2]
    exact join_aligned m _ tup htup r (List.mem_of_getElem? hr) r2 (List.mem_of_getElem? hr2)

/-- …and with the concrete round trip (parse ∘ export, C01 / C02) on structures whose rows fit the PDB columns,
    table `k` of the intersected database is, row by row, the read-back of structure `k`'s aligned rows -/
theorem intersect_tables_text (db db' : Db) (mnames : List Py.Str) (m : List StdCol)
    (hm : mnames.mapM matchCol = some m) (h : Model.intersect Model.textRoundtrip db mnames = .ok db')
    (hfits : ∀ t ∈ db.tabs, ∀ r ∈ t.rows, TableProofs.RowFits r) (k : Nat) (t : Tab) (hk : db.tabs[k]? = some t) :
    db'.tabs[k]? = some (Tab.mk t.name
      ((joinRows m (db.tabs.map (·.rows))).map (fun tup => TableProofs.rbRow (tup.getD k default)))) := by
  obtain ⟨_, hall⟩ := intersect_tables Model.textRoundtrip db db' mnames m hm h
  obtain ⟨h1, h2, _⟩ := hall k t hk
  rw [h1, TableProofs.textRoundtrip_eq _ (by
    intro r hr
    obtain ⟨tup, htup, rfl⟩ := List.mem_map.1 hr
    exact hfits t (List.mem_of_getElem? hk) _ (h2 tup htup)), List.map_map]
  rfl

/-- per-structure queries return that structure's own atoms: `get` on table `tn` of a multi-structure database is
    the row-by-row evaluation on that table (C17's `get_any_length`, for every list length) -/
theorem per_table_query (db : Db) (hwf : TableProofs.WF db) (tn : Py.Str) (tab : Tab) (htab : findTab db tn = some tab)
    (columns : Py.Str) (hcols : TableProofs.ColsOK db.extraNames columns = true) (kw : List Kw)
    (hkeys : TableProofs.KeysOK db kw) (hrow : TableProofs.RowIDInts kw) :
    Model.get db columns tn kw =
      TableProofs.toResult (Spec.getOn Gen.max_sql_values Gen.SQLITE_LIMIT_VARIABLE_NUMBER db columns tn kw) :=
  TableProofs.get_full db hwf tn tab htab columns hcols kw hkeys hrow

/-- non-vacuity: two structures with unique keys, one common atom: exactly one joined tuple, aligned -/
example :
    let a : Py.Atom := { serial := 1, name := "CA".toList, altLoc := [], resName := "ALA".toList, chainID := "A".toList,
                         resSeq := 5, iCode := [], x := 1, y := 0, z := 0, occ := 1, temp := 0, element := "C".toList, model := 0 }
    let T1 : Table := [⟨a, []⟩, ⟨{ a with serial := 2, name := "N".toList }, []⟩]
    let T2 : Table := [⟨{ a with serial := 9, name := "O".toList }, []⟩, ⟨{ a with serial := 7, x := 4 }, []⟩]
    (∀ T' ∈ [T1, T2], (T'.map (Spec.keyOf Spec.defaultMatch)).Nodup) ∧
    (joinRows Spec.defaultMatch [T1, T2]).map (fun tup => tup.map (fun r => r.atom.serial)) = [[1, 7]] := by
  refine ⟨by decide, by decide⟩

end Props.C19
