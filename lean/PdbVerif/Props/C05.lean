/-
  C05 — contact atoms: exactly the atoms within the cutoff of the other chain.   Property theorems only
  (helper lemmas: Proofs/Contacts*.lean).

  `Model.*` (Model/Contacts.lean) follows `interface.get_contact_atoms` step by step and is tied to the code by the
  correspondence check; `Spec.Contact.*` (Spec/C05.lean) is the property's own wording.  `params a` are the Spec's
  parameters of a call: backbone names from the source (`Gen.backbone_atoms`), the two filter flags, the cutoff.
  With `passes P x := (¬bb ∨ x.name ∈ backbone) ∧ ¬(noH ∧ x.name starts with 'H')` and
  `near P x y := 0 ≤ cutoff ∧ dist²(x, y) ≤ cutoff²` (exact rationals; this is `dist ≤ cutoff` for every cutoff, also negative).
  All theorems hold for every structure, cutoff and option combination — no size bounds.
-/
import PdbVerif.Proofs.ContactsOrder

set_option linter.unusedVariables false

namespace Props.C05
open Model Py Proofs.Contacts
open Spec.Contact

/-- the call with the roles of the two chains swapped -/
def swapArgs (a : ContactArgs) : ContactArgs := { a with chain1 := a.chain2, chain2 := a.chain1 }

/-- The backbone names the source uses are the published ones (breaks when `backbone_atoms` is edited). -/
theorem backbone_names : Model.backbone = ["CA".toList, "C".toList, "N".toList, "O".toList] := by decide

/-! ### two chains -/

/-- Model = Spec for a pair of different chains of the structure: the per-chain sets AND the pair map, list for list
    (keys in table order, partners in table order). -/
theorem contacts_two_chain (t : List Atom) (a : ContactArgs) (hall : a.allchains = false) (hne : a.chain1 ≠ a.chain2)
    (h1 : a.chain1 ∈ getChains t) (h2 : a.chain2 ∈ getChains t) (hext : a.extend = false) :
    contactSets t a = .ok (twoChains (params a) t a.chain1 a.chain2) ∧
    contactPairs t a = .ok (pairMap (params a) t a.chain1 a.chain2) :=
  ⟨contactSets_two_chain t a hall hne h1 h2 hext, contactPairs_two_chain t a hall hne h1 h2⟩

/-- … and the value `get_contact_atoms` returns is the one or the other, as `return_contact_pairs` says. -/
theorem contacts_two_chain_returned (t : List Atom) (a : ContactArgs) (hall : a.allchains = false) (hne : a.chain1 ≠ a.chain2)
    (h1 : a.chain1 ∈ getChains t) (h2 : a.chain2 ∈ getChains t) (hext : a.extend = false) :
    Model.contactAtoms t a = .ok (if a.retPairs then ContactOut.pairs (pairMap (params a) t a.chain1 a.chain2)
                            else ContactOut.chains (twoChains (params a) t a.chain1 a.chain2)) := by
  simp [Model.contactAtoms, contactRun_two_chain t a hall hne h1 h2 hext, Except.map]

/-- What the Spec's per-chain list says: position `i` is listed for chain `X` (with respect to `Y`) iff the atom there
    belongs to `X`, passes the filters, and some filter-passing atom of `Y` lies within the cutoff; the list is strictly
    ascending (so: sorted, no repetition). -/
theorem spec_contact_atoms_meaning (P : Params) (t : List Atom) (X Y : Str) :
    Asc ltNat (Spec.Contact.contactAtoms P t X Y) ∧
    ∀ i : Nat, i ∈ Spec.Contact.contactAtoms P t X Y ↔
      ∃ x, t[i]? = some x ∧ x.chainID = X ∧ passes P x = true ∧
        ∃ (j : Nat) (y : Atom), t[j]? = some y ∧ y.chainID = Y ∧ passes P y = true ∧ near P x y = true :=
  ⟨asc_contactAtoms P t X Y, fun _ => spec_contactAtoms_iff⟩

/-- What the Spec's pair map says: its keys are exactly the contact atoms of the first chain (each once, ascending), and
    under key `i` exactly the filter-passing atoms of the second chain within the cutoff of `i` are listed (each once,
    ascending). -/
theorem spec_pair_map_meaning (P : Params) (t : List Atom) (X Y : Str) :
    (pairMap P t X Y).map (fun e => e.1) = Spec.Contact.contactAtoms P t X Y ∧
    ∀ (i : Nat) (js : List Nat), (i, js) ∈ pairMap P t X Y →
      Asc ltNat js ∧ ∀ j : Nat, j ∈ js ↔
        ∃ x y, t[i]? = some x ∧ t[j]? = some y ∧ x.chainID = X ∧ y.chainID = Y ∧ passes P x = true ∧ passes P y = true ∧
          near P x y = true :=
  ⟨pairMap_keys P t X Y, fun _ _ h => spec_pairMap_values h⟩

/-! ### all chains -/

/-- All chains of a structure with at least two chains: the call succeeds; the returned dictionary is the Spec's, entry for
    entry (the chains of the structure in order, each mapped to the union of its contact atoms over all other chains);
    the pair map contains every contacting pair of atoms of two different chains exactly once, listed under the atom whose
    chain sorts first, and nothing else. -/
theorem contacts_all_chains (t : List Atom) (a : ContactArgs) (hall : a.allchains = true) (h2 : 2 ≤ (getChains t).length)
    (hext : a.extend = false) :
    ∃ m, contactRun t a = .ok (allChains (params a) t, m) ∧ IsAllChainsPairMap (params a) t m :=
  ⟨_, contactRun_all_spec t a hall h2 hext, pairsAfterLoop_all t a hall⟩

/-- … and the value `get_contact_atoms` returns is the one or the other, as `return_contact_pairs` says. -/
theorem contacts_all_chains_returned (t : List Atom) (a : ContactArgs) (hall : a.allchains = true) (h2 : 2 ≤ (getChains t).length)
    (hext : a.extend = false) :
    (a.retPairs = false → Model.contactAtoms t a = .ok (ContactOut.chains (allChains (params a) t))) ∧
    (a.retPairs = true → ∃ m, Model.contactAtoms t a = .ok (ContactOut.pairs m) ∧ IsAllChainsPairMap (params a) t m) := by
  constructor
  · intro h
    simp [Model.contactAtoms, contactRun_all_spec t a hall h2 hext, Except.map, h]
  · intro h
    exact ⟨_, by simp [Model.contactAtoms, contactRun_all_spec t a hall h2 hext, Except.map, h], pairsAfterLoop_all t a hall⟩

/-- The Spec's all-chains dictionary: exactly the chains of the structure as keys, each once, in ascending order. -/
theorem spec_all_chains_keys (P : Params) (t : List Atom) :
    (allChains P t).map (fun e => e.1) = chainIDs t ∧ Asc ltStr (chainIDs t) ∧ ∀ X, X ∈ chainIDs t ↔ ∃ x ∈ t, x.chainID = X := by
  refine ⟨by simp [allChains, List.map_map, Function.comp_def], ?_, ?_⟩
  · rw [chainIDs_eq]; exact asc_getChains t
  · intro X; rw [chainIDs_eq]; exact mem_getChains

/-- "Union over all other chains" spelled out: `i` is a contact atom of chain `X` in the all-chains result iff the atom
    there belongs to `X`, passes the filters and lies within the cutoff of a filter-passing atom of a different chain. -/
theorem spec_all_chains_meaning (P : Params) (t : List Atom) (X : Str) (i : Nat) :
    i ∈ contactAtomsAll P t X ↔
      ∃ x, t[i]? = some x ∧ x.chainID = X ∧ passes P x = true ∧
        ∃ (j : Nat) (y : Atom), t[j]? = some y ∧ y.chainID ≠ X ∧ passes P y = true ∧ near P x y = true :=
  spec_contactAtomsAll_iff

/-- The evaluation form of the all-chains pair map used by the check's Spec driver satisfies the characterisation. -/
theorem spec_pair_map_all_ok (P : Params) (t : List Atom) : IsAllChainsPairMap P t (pairMapAll P t) :=
  pairMapAll_spec P t

/-- All chains of a single-chain structure (outside the property: fewer than two chains): the code fails with `KeyError`. -/
theorem all_chains_single_chain_keyerror (t : List Atom) (a : ContactArgs) (hall : a.allchains = true) (X : Str)
    (h1 : getChains t = [X]) : Model.contactAtoms t a = .error Err.keyError := by
  simp [Model.contactAtoms, contactRun_single_chain t a hall h1, Except.map]

/-! ### swapping the two chains -/

/-- The pair map of `(B, A)` is the transpose of the pair map of `(A, B)`. -/
theorem swap_transposes (t : List Atom) (a : ContactArgs) (hall : a.allchains = false) (hne : a.chain1 ≠ a.chain2)
    (h1 : a.chain1 ∈ getChains t) (h2 : a.chain2 ∈ getChains t) :
    ∃ m, contactPairs t a = .ok m ∧ contactPairs t (swapArgs a) = .ok (transpose m) := by
  refine ⟨_, contactPairs_two_chain t a hall hne h1 h2, ?_⟩
  rw [contactPairs_two_chain t (swapArgs a) hall (fun h => hne h.symm) h2 h1]
  exact congrArg _ (pairMap_swap (params a) t a.chain1 a.chain2)

/-- Swapping leaves the per-chain atom sets unchanged. -/
theorem swap_same_sets (t : List Atom) (a : ContactArgs) (hall : a.allchains = false) (hne : a.chain1 ≠ a.chain2)
    (h1 : a.chain1 ∈ getChains t) (h2 : a.chain2 ∈ getChains t) (hext : a.extend = false) :
    ∃ s₁ s₂, contactSets t a = .ok [(a.chain1, s₁), (a.chain2, s₂)] ∧
             contactSets t (swapArgs a) = .ok [(a.chain2, s₂), (a.chain1, s₁)] :=
  ⟨_, _, contactSets_two_chain t a hall hne h1 h2 hext,
   contactSets_two_chain t (swapArgs a) hall (fun h => hne h.symm) h2 h1 hext⟩

/-! ### unknown chains -/

/-- A chain identifier that does not occur in the structure is rejected with `ValueError`, whatever the other options. -/
theorem unknown_chain_rejected (t : List Atom) (a : ContactArgs) (hall : a.allchains = false)
    (h : a.chain1 ∉ getChains t ∨ a.chain2 ∉ getChains t) :
    Model.contactAtoms t a = .error Err.valueError ∧ contactSets t a = .error Err.valueError ∧
    contactPairs t a = .error Err.valueError := by
  simp [Model.contactAtoms, contactSets, contactPairs, contactRun_unknown t a hall h, Except.map]

/-- `getChains` are exactly the chain identifiers that occur (so "unknown" means "no atom has it"). -/
theorem chains_are_those_that_occur (t : List Atom) (X : Str) : X ∈ getChains t ↔ ∃ x ∈ t, x.chainID = X :=
  mem_getChains

/-! ### non-vacuity: a three-chain structure in exact rationals -/

def mkAtom (name res ch : String) (seq : Int) (x y z : Rat) : Atom :=
  { serial := 0, name := name.toList, altLoc := [], resName := res.toList, chainID := ch.toList, resSeq := seq, iCode := [],
    x := x, y := y, z := z, occ := 1, temp := 0, element := [], model := 0 }

/-- atom 0 (chain A) is exactly 5 Å from atom 1 (chain B) and from atom 3 (chain C); atom 2 is a hydrogen of B a little
    closer; atom 4 (chain C) is far away; atom 5 (chain B) is just outside (5.25 Å along the same direction family) -/
def ex3 : List Atom :=
  [ mkAtom "CA" "LYS" "A" 5 0 0 0,
    mkAtom "CA" "ALA" "B" 1 3 4 0,
    mkAtom "HA" "ALA" "B" 1 3 (15/4) 0,
    mkAtom "N"  "GLY" "C" 5 0 (-3) (-4),
    mkAtom "CB" "GLY" "C" 7 40 0 0,
    mkAtom "O"  "ALA" "B" 2 (13/4) 4 0 ]

def exAll : ContactArgs :=
  { cutoff := 5, allchains := true, chain1 := "A".toList, chain2 := "B".toList, extend := false, bb := false, noH := true, retPairs := true }

def exAB : ContactArgs := { exAll with allchains := false }

example : getChains ex3 = ["A".toList, "B".toList, "C".toList] := by decide
/-- the hypotheses of `contacts_two_chain`, `swap_*` hold for `exAB` -/
example : exAB.allchains = false ∧ exAB.chain1 ≠ exAB.chain2 ∧ exAB.chain1 ∈ getChains ex3 ∧ exAB.chain2 ∈ getChains ex3 ∧
    exAB.extend = false := by decide
/-- the hypotheses of `contacts_all_chains` hold for `exAll` -/
example : exAll.allchains = true ∧ 2 ≤ (getChains ex3).length ∧ exAll.extend = false := by decide
/-- the hypothesis of `unknown_chain_rejected` holds for chain `Q` -/
example : ({ exAB with chain2 := "Q".toList } : ContactArgs).chain2 ∉ getChains ex3 := by decide

theorem ex_near_01 : near (params exAll) (mkAtom "CA" "LYS" "A" 5 0 0 0) (mkAtom "CA" "ALA" "B" 1 3 4 0) = true := by
  simp [near, params, exAll, sqDist, mkAtom]; grind
theorem ex_near_03 : near (params exAll) (mkAtom "CA" "LYS" "A" 5 0 0 0) (mkAtom "N" "GLY" "C" 5 0 (-3) (-4)) = true := by
  simp [near, params, exAll, sqDist, mkAtom]; grind
theorem ex_far_05 : near (params exAll) (mkAtom "CA" "LYS" "A" 5 0 0 0) (mkAtom "O" "ALA" "B" 2 (13/4) 4 0) = false := by
  simp [near, params, exAll, sqDist, mkAtom]; grind

/-- In the all-chains pair map of the example the hub atom 0 (chain A, which sorts first) lists its partner in chain B and
    its partner in chain C — both at exactly the cutoff — under the one key 0 … -/
theorem ex_hub_two_chains :
    ∃ d m, contactRun ex3 exAll = .ok (d, m) ∧ ∃ js, (0, js) ∈ m ∧ 1 ∈ js ∧ 3 ∈ js := by
  obtain ⟨m, hrun, hm⟩ := contacts_all_chains ex3 exAll (by decide) (by decide) (by decide)
  refine ⟨_, m, hrun, ?_⟩
  have h1 : ∃ js, (0, js) ∈ m ∧ 1 ∈ js :=
    (hm.exact 0 1).mpr ⟨mkAtom "CA" "LYS" "A" 5 0 0 0, mkAtom "CA" "ALA" "B" 1 3 4 0, rfl, rfl, by
      simp only [contactFirst, touches, Bool.and_eq_true]
      exact ⟨by decide, ⟨by decide, by decide⟩, ex_near_01⟩⟩
  have h3 : ∃ js, (0, js) ∈ m ∧ 3 ∈ js :=
    (hm.exact 0 3).mpr ⟨mkAtom "CA" "LYS" "A" 5 0 0 0, mkAtom "N" "GLY" "C" 5 0 (-3) (-4), rfl, rfl, by
      simp only [contactFirst, touches, Bool.and_eq_true]
      exact ⟨by decide, ⟨by decide, by decide⟩, ex_near_03⟩⟩
  obtain ⟨js, hjs, h1'⟩ := h1
  obtain ⟨js', hjs', h3'⟩ := h3
  have hk : (m.map (fun e => e.1)).Nodup := hm.keys_once
  have : js' = js := by
    have a1 := getD_of_mem (d := m) hk hjs
    have a2 := getD_of_mem (d := m) hk hjs'
    rw [← a1, ← a2]
  exact ⟨js, hjs, h1', this ▸ h3'⟩

/-- … while the hydrogen 2 (closer than the cutoff, excluded by `excludeH`) and atom 5 (5.25 Å away) are not listed. -/
theorem ex_filtered_out :
    ∃ d m, contactRun ex3 exAll = .ok (d, m) ∧ (¬ ∃ js, (0, js) ∈ m ∧ 2 ∈ js) ∧ (¬ ∃ js, (0, js) ∈ m ∧ 5 ∈ js) := by
  obtain ⟨m, hrun, hm⟩ := contacts_all_chains ex3 exAll (by decide) (by decide) (by decide)
  refine ⟨_, m, hrun, ?_, ?_⟩
  · intro h
    obtain ⟨x, y, hx, hy, hc⟩ := (hm.exact 0 2).mp h
    have hy' : y = mkAtom "HA" "ALA" "B" 1 3 (15/4) 0 := (Option.some.inj hy).symm
    subst hy'
    simp only [contactFirst, touches, Bool.and_eq_true] at hc
    exact absurd hc.2.1.2 (by decide)
  · intro h
    obtain ⟨x, y, hx, hy, hc⟩ := (hm.exact 0 5).mp h
    have hx' : x = mkAtom "CA" "LYS" "A" 5 0 0 0 := (Option.some.inj hx).symm
    have hy' : y = mkAtom "O" "ALA" "B" 2 (13/4) 4 0 := (Option.some.inj hy).symm
    subst hx'; subst hy'
    simp only [contactFirst, touches, Bool.and_eq_true] at hc
    rw [ex_far_05] at hc
    exact absurd hc.2.2 (by decide)

end Props.C05
