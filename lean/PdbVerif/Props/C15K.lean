/-
  C15 — the translation tie of `pdb2sql.__init__` / `pdb2sql.__call__` (tie #1 for the single-structure derivation `db(**kwargs)`).
  `GenP.init` and `GenP.call` (Gen/ParseLoop.lean) are statement-by-statement translations, regenerated from pdb2sqlcore.py on every
  run; `_get_table_names` and `sql2pdb` are parameters (`sql2pdb` = `get` of all columns, Props/C03K, then `data2pdb` = `Gen.data2pdb_line`,
  translated).  The theorems state what the hand model `Model.derive … (.deriveSub k kw)` of Model/TableWorld.lean assumes of the
  code: the new object is built from the export of the FIRST table, under the same table name, with default options (no
  `_fix_chainID`), its rows are `Model.parse` of the exported lines (= the parse half of `Model.textRoundtrip`), and an empty export
  is IndexError (`Model.newTable`).  Statements and proofs are those of Proofs/GenParseCall.lean, restated through `type_of%`.
  `genp_call_eq_derive` glues the halves: seen as a database object (`asObj`: the contract of CREATE TABLE + ONE INSERT on a fresh
  connection), `db(**kwargs)` IS `Model.derive Model.textRoundtrip w (.deriveSub k kw)`.  `genp_init_eq_model`: the translated
  `__init__` (translated `read_pdb`, `_create_table`, `_fix_chainID` inside) IS the model's construction, option included.
-/
import PdbVerif.Proofs.GenParseCall
import PdbVerif.Proofs.GenParseCallClosed

namespace Props.C15K
open Py Proofs.GenParse

def l1X : Str := "ATOM      1  CA  ALA X   1       1.000   2.000   3.000  1.00  0.00           C  ".toList
def l1B : Str := "ATOM      2  CA  ALA B   1       1.000   2.000   3.000  1.00  0.00           C  ".toList

/-- **`__init__`**: `super().__init__`, `_create_sql`, `_create_table`, then `_fix_chainID` exactly when the option is set -/
theorem init_nf : type_of% @Proofs.GenParse.init_nf := @Proofs.GenParse.init_nf
/-- **`__call__`**: first table name, `sql2pdb` of that table with the keywords, a new object from the lines under the same name -/
theorem call_nf : type_of% @Proofs.GenParse.call_nf := @Proofs.GenParse.call_nf
/-- **the derived database**: CREATE TABLE on the cleaned name, ONE INSERT of `Model.parse lines`, no `_fix_chainID`; empty export: IndexError -/
theorem genp_call_eq_parse : type_of% @Proofs.GenParse.genp_call_eq_parse := @Proofs.GenParse.genp_call_eq_parse
/-- `Model.textRoundtrip` = export by the translated `data2pdb_line`, then the same `Model.parse` -/
theorem textRoundtrip_eq : type_of% @Proofs.GenParse.textRoundtrip_eq := @Proofs.GenParse.textRoundtrip_eq

/-- every line `data2pdb` writes is an ATOM record (so a derived object has `_nModel = 0`) -/
theorem data2pdb_line_atom : type_of% @Proofs.GenParse.data2pdb_line_atom := @Proofs.GenParse.data2pdb_line_atom
/-- the name read back from a CREATE TABLE text is the name it was built from -/
theorem createdName_createText : type_of% @Proofs.GenParse.createdName_createText := @Proofs.GenParse.createdName_createText
/-- names the library created are fixed points of the clean-up -/
theorem clean_idem : type_of% @Proofs.GenParse.clean_idem := @Proofs.GenParse.clean_idem
/-- **`db(**kwargs)` = `Model.derive Model.textRoundtrip w (.deriveSub k kw)` as database objects** (export and parse succeed: outside
    that `Model.textRoundtrip` is a totalisation; an empty selection is IndexError on both sides) -/
theorem genp_call_eq_derive : type_of% @Proofs.GenParse.genp_call_eq_derive := @Proofs.GenParse.genp_call_eq_derive
/-- **`pdb2sql.__init__` = the model's construction** (`Model.readPdb`, `Model.parse`, `Model.fixChainID` with the option), for every
    file system, input form, table name and option value, exceptions inside the equation -/
theorem genp_init_eq_model : type_of% @Proofs.GenParse.genp_init_eq_model := @Proofs.GenParse.genp_init_eq_model

/-- **`db(**kw)` with NO parameter left**: translated `__call__` over fxTie's translated `sql2pdb` (`GenF.sql2pdb`) over `Model.get`
    (`modelGet`) = `Model.derive Model.textRoundtrip w (.deriveSub k kw)`; `hget`: `get` of all columns returns the exported atoms -/
theorem genp_call_closed : type_of% @Proofs.GenParse.genp_call_closed := @Proofs.GenParse.genp_call_closed
/-- `hget` holds on well-formed single-model databases, for keywords that name columns, without over-long lists -/
theorem modelGet_all_columns : type_of% @Proofs.GenParse.modelGet_all_columns := @Proofs.GenParse.modelGet_all_columns
/-- **the same with `hget` discharged**: for every world, object `k` and keyword dictionary under the well-formedness hypotheses of
    Props/C15 (`export_is_selection`) and the export / parse-succeed hypotheses -/
theorem genp_call_closed_wf : type_of% @Proofs.GenParse.genp_call_closed_wf := @Proofs.GenParse.genp_call_closed_wf

/-! ### non-vacuity -/

def exAtom (serial : Int) (chain : String) : Py.Atom :=
  { serial := serial, name := "CA".toList, altLoc := [], resName := "ALA".toList, chainID := chain.toList, resSeq := 5, iCode := [],
    x := 1, y := 0, z := 0, occ := 1, temp := 0, element := "C".toList, model := 0 }

def exObj : Tbl.Obj := { kind := .single, db := { tabs := [⟨"ATOM".toList, [⟨exAtom 1 "X", []⟩, ⟨exAtom 2 "B", []⟩, ⟨exAtom 3 "X", []⟩]⟩] } }

def exKw : List Tbl.Kw := [{ key := "chainID".toList, arg := .scalar (.text "X".toList) }]

/-- the export of the selected rows as the `sql2pdb` parameter -/
def exSql2pdb (tn : Str) : Except Err (List Str) :=
  match Model.exportRows exObj.db tn exKw with
  | .ok T => T.mapM (fun r => Gen.data2pdb_line r.atom)
  | .error _ => .error .valueError

/-- a concrete object and selection (chain X: two of three rows): export and parse succeed, both sides are the SAME two-row object -/
example : (asObj (GenP.call (toFS (fun _ => none)) (exObj.db.tabs.map (·.name)) exSql2pdb)).toOption.map (·.db) =
    (Model.derive Model.textRoundtrip [exObj] (.deriveSub 0 exKw)).toOption.map (·.db) := by decide +kernel
example : (Model.derive Model.textRoundtrip [exObj] (.deriveSub 0 exKw)).toOption.map
    (fun o => o.db.tabs.map (fun t => (t.name, t.rows.map (fun r => r.atom.serial)))) = some [("ATOM".toList, [1, 3])] := by decide +kernel
example : clean "ATOM".toList = "ATOM".toList := by decide +kernel

/-- the closed form on the same object and selection: translated `__call__` over translated `sql2pdb` over `Model.get`, nothing
    supplied from outside, is the model's derived database -/
example : (asObj (GenP.call (toFS (fun _ => none)) (exObj.db.tabs.map (·.name))
      (fun tn => GenF.sql2pdb (modelGet exObj.db) tn exKw))).toOption.map (·.db) =
    (Model.derive Model.textRoundtrip [exObj] (.deriveSub 0 exKw)).toOption.map (·.db) := by decide +kernel
/-- … and its `hget` holds there: `get` of all columns returns the two exported atoms -/
example : modelGet exObj.db Proofs.GenFx.sql2pdbCols "ATOM".toList exKw = .ok [exAtom 1 "X", exAtom 3 "X"] := by decide +kernel

/-- `__init__` with the option on chains X, B, X: the constructed database holds chains B, A, B -/
example : (asDb (GenP.init (toFS (fun _ => none)) (.listStr [l1X, l1B, l1X]) "atom".toList true)).toOption.map
    (fun db => db.tabs.map (fun t => (t.name, t.rows.map (fun r => r.atom.chainID)))) =
    some [("atom".toList, ["B".toList, "A".toList, "B".toList])] := by decide +kernel


def l1 : Str := "ATOM      1  CA  ALA A   1       1.000   2.000   3.000  1.00  0.00           C  ".toList

/-- a one-line export of table `ATOM`: the new object gets one row, in model 0, and no `_fix_chainID` -/
example : (GenP.call (toFS (fun _ => none)) ["ATOM".toList] (fun _ => .ok [l1])).map (fun r => (r.1.length, r.2)) = .ok (4, 0) := by
  decide +kernel

/-- an empty selection: IndexError -/
example : GenP.call (toFS (fun _ => none)) ["ATOM".toList] (fun _ => .ok []) = .error .indexError := by decide +kernel

/-- with the option, `_fix_chainID` is the last call of `__init__` -/
example : (GenP.init (toFS (fun _ => none)) (.listStr [l1]) "atom".toList true).map (fun r => r.1.getLast?) =
    .ok (some (GenP.Rt.Fx.method "_fix_chainID")) := by decide +kernel

end Props.C15K
