/-
  C16 — the file handling TRANSLATED from the source (Gen/Fx.lean: `GenF._write_zone`, the file part of `read_zone`, the zone-file
  branches of the fast routines, `get_izone_rowID`, the save / pickle / export branches, `exportpdb`, regenerated on every run by
  py/translate_ext_fx.py) IS the effect model the C16 theorems are about (Model/Effects.lean).  Statements and proofs are those of
  Proofs/GenFx.lean (one normal form per unit) and Proofs/GenFxFiles.lean, restated through `type_of%`.  `toC16` / `prog16`
  (Proofs/GenFxSem.lean) fix what each call means as a file-system action.
-/
import PdbVerif.Proofs.GenFxFiles
import PdbVerif.Proofs.Effects
import PdbVerif.Proofs.GenFxGlueRoutines

set_option linter.unusedSimpArgs false

namespace Props.C16K
open Proofs.GenFx Spec.C16 Model.C16 Py

/-- `_write_zone`, written out: mkstemp(dir of the target or '.', base name + '.', '.tmp'); one write per residue; close; replace -/
theorem genf_write_zone_normal_form : type_of% @Proofs.GenFx.write_zone_nf := @Proofs.GenFx.write_zone_nf
theorem genf_read_zone_io_normal_form : type_of% @Proofs.GenFx.read_zone_io_nf := @Proofs.GenFx.read_zone_io_nf
theorem genf_lrmsd_fast_zone_normal_form : type_of% @Proofs.GenFx.lrmsd_fast_zone_nf := @Proofs.GenFx.lrmsd_fast_zone_nf
theorem genf_irmsd_fast_zone_normal_form : type_of% @Proofs.GenFx.irmsd_fast_zone_nf := @Proofs.GenFx.irmsd_fast_zone_nf
theorem genf_izone_rowID_normal_form : type_of% @Proofs.GenFx.izone_rowID_io_nf := @Proofs.GenFx.izone_rowID_io_nf
theorem genf_lzone_save_normal_form : type_of% @Proofs.GenFx.lzone_save_nf := @Proofs.GenFx.lzone_save_nf
theorem genf_izone_save_normal_form : type_of% @Proofs.GenFx.izone_save_nf := @Proofs.GenFx.izone_save_nf
theorem genf_pairs_save_normal_form : type_of% @Proofs.GenFx.pairs_save_nf := @Proofs.GenFx.pairs_save_nf
theorem genf_lrmsd_sql_export_normal_form : type_of% @Proofs.GenFx.lrmsd_sql_export_nf := @Proofs.GenFx.lrmsd_sql_export_nf
theorem genf_irmsd_sql_export_normal_form : type_of% @Proofs.GenFx.irmsd_sql_export_nf := @Proofs.GenFx.irmsd_sql_export_nf

/-- **`_write_zone` = `Model.C16.writeZone`** — temp file created exclusively in the target's directory, ONE append with every line,
    one atomic replace onto exactly the target -/
theorem genf_write_zone_eq_model : type_of% @Proofs.GenFx.genf_write_zone_eq_model := @Proofs.GenFx.genf_write_zone_eq_model
/-- file part of `read_zone` + parsing = `Model.C16.readZone` -/
theorem genf_read_zone_eq_model : type_of% @Proofs.GenFx.genf_read_zone_eq_model := @Proofs.GenFx.genf_read_zone_eq_model
/-- zone-file branch of `compute_lrmsd_fast` = `Model.C16.zoneArg … .lzone` (callee programs = the model's pieces) -/
theorem genf_lrmsd_fast_zone_eq_model : type_of% @Proofs.GenFx.genf_lrmsd_fast_zone_eq_model := @Proofs.GenFx.genf_lrmsd_fast_zone_eq_model
theorem genf_irmsd_fast_zone_eq_model : type_of% @Proofs.GenFx.genf_irmsd_fast_zone_eq_model := @Proofs.GenFx.genf_irmsd_fast_zone_eq_model
theorem genf_izone_rowID_eq_model : type_of% @Proofs.GenFx.genf_izone_rowID_eq_model := @Proofs.GenFx.genf_izone_rowID_eq_model
/-- pickle branch = `writeFile` -/
theorem genf_pairs_save_eq_model : type_of% @Proofs.GenFx.genf_pairs_save_eq_model := @Proofs.GenFx.genf_pairs_save_eq_model
theorem genf_pairs_nosave : type_of% @Proofs.GenFx.genf_pairs_nosave := @Proofs.GenFx.genf_pairs_nosave
/-- `exportpdb(fname)` = `writeFile` -/
theorem genf_exportpdb_eq_model : type_of% @Proofs.GenFx.genf_exportpdb_eq_model := @Proofs.GenFx.genf_exportpdb_eq_model
theorem genf_exportpdb_raises : type_of% @Proofs.GenFx.genf_exportpdb_raises := @Proofs.GenFx.genf_exportpdb_raises
/-- export branches = the two `writeFile`s of `export2`, under `<exportpath>/lrmsd_decoy.pdb`, `<exportpath>/lrmsd_ref.pdb` (i-RMSD alike) -/
theorem genf_lrmsd_sql_export_eq_model : type_of% @Proofs.GenFx.genf_lrmsd_sql_export_eq_model := @Proofs.GenFx.genf_lrmsd_sql_export_eq_model
theorem genf_irmsd_sql_export_eq_model : type_of% @Proofs.GenFx.genf_irmsd_sql_export_eq_model := @Proofs.GenFx.genf_irmsd_sql_export_eq_model
theorem genf_close_memory_no_action : type_of% @Proofs.GenFx.toC16_close_memory := @Proofs.GenFx.toC16_close_memory
theorem genf_init_memory_is_dbMem : type_of% @Proofs.GenFx.toC16_init_memory := @Proofs.GenFx.toC16_init_memory

/-- hence the footprint theorem holds of the TRANSLATED `_write_zone`: every action inside the footprint, whatever the zone, when
    the temp name has the role `temp` and the target the role `cache` -/
theorem genf_write_zone_within {R : Type} (mk : Py.Str → Py.Str → Py.Str → Py.Str) (role : Py.Str → Role) (filename : Py.Str)
    (data : Proofs.Effects.ZoneZ) (k : Unit → Spec.C16.Prog Py.Str Py.Str R)
    (ht : role (tmpOf mk filename) = .temp) (hc : role filename = .cache) (hk : Within role (k ())) :
    Within role (prog16 mk (GenF._write_zone filename data) k) := by
  rw [Proofs.GenFx.genf_write_zone_eq_model]
  simp [writeZone, Within, ht, hc, hk]

/-- and its run leaves the complete zone under the target name and no temp file, whatever the directory held -/
theorem genf_write_zone_exec {R : Type} (mk : Py.Str → Py.Str → Py.Str → Py.Str) (filename : Py.Str) (data : Proofs.Effects.ZoneZ) (r : R)
    (fs : FS Py.Str Py.Str) (hfree : fs (tmpOf mk filename) = none) (hne : tmpOf mk filename ≠ filename) :
    let res := (prog16 mk (GenF._write_zone filename data) (fun _ => .done r)).exec fs
    res.1 filename = some (Proofs.Effects.renderZone data) ∧ res.1 (tmpOf mk filename) = none ∧ res.2 = .ok r ∧
      ∀ q, q ≠ filename → q ≠ tmpOf mk filename → res.1 q = fs q := by
  rw [Proofs.GenFx.genf_write_zone_eq_model]
  simp only [writeZone, Spec.C16.Prog.exec, hfree, FS.set_same]
  refine ⟨?_, ?_, ?_, fun q h1 h2 => ?_⟩ <;> simp [FS.set, hne, *]

/-! ### non-vacuity -/

/-- the translated `_write_zone` on `d/x.izone` for the zone A5, B-3, temp name picked by the OS = `d/x.izone.abc.tmp`: the actions -/
example : (prog16 (fun d p s => d ++ ['/'] ++ p ++ "abc".toList ++ s) (GenF._write_zone "d/x.izone".toList [("A".toList, 5), ("B".toList, -3)])
      (fun _ => (.done 0 : Spec.C16.Prog Py.Str Py.Str Nat))).trace (fun _ => none) =
    [.createTemp "d/x.izone.abc.tmp".toList, .append "d/x.izone.abc.tmp".toList, .replace "d/x.izone.abc.tmp".toList "d/x.izone".toList] := by
  rw [genf_write_zone_eq_model]; decide

/-- a target without directory: the temp file is created in `.` -/
example : tmpOf (fun d p s => d ++ ['/'] ++ p ++ "abc".toList ++ s) "x.izone".toList = "./x.izone.abc.tmp".toList := by decide

/-- the zone branch: a name that is a file is read, one that is not is computed and saved under that name -/
example : (GenF.compute_lrmsd_fast_zone (P := Nat) (C := Nat) (fun s f => .pure (s, f, 0)) (fun f => .pure (false, some f, 1)) (some 3)) =
    .isfile 3 (fun b => if b then .pure (false, some 3, 1) else .pure (true, some 3, 0)) := by
  rw [genf_lrmsd_fast_zone_normal_form]


/-! ### follow-up: whole fast routines in closed form, and the C16 theorems OF the translated programs
    (Proofs/GenFxGlue.lean, GenFxGlueSched.lean, GenFxGlueGenR.lean, GenFxGlueRoutines.lean — read the header of GenFxGlue.lean: what is
    translated, what is hand glue, and the failing zone computation: the model now fails before the write, as the code does) -/

/-- zone branch of `compute_lrmsd_fast` over the glued `compute_lzone` / `read_zone`: NO hypothesis on callee programs, every input,
    failure of the zone computation before anything is written (`zoneArgE`) -/
theorem genf_lrmsd_fast_zone_closed : type_of% @Proofs.GenFx.genf_lrmsd_fast_zone_closed := @Proofs.GenFx.genf_lrmsd_fast_zone_closed
theorem genf_irmsd_fast_zone_closed : type_of% @Proofs.GenFx.genf_irmsd_fast_zone_closed := @Proofs.GenFx.genf_irmsd_fast_zone_closed
/-- `zoneArgE` is the model's `zoneArg` (which since the second follow-up fails before the write, `Work.computeErr`) whenever `W` is read
    off the zone computation (`ZoneIs`): no no-failure hypothesis -/
theorem genf_zoneArgE_eq_model : type_of% @Proofs.GenFx.zoneArgE_eq_model := @Proofs.GenFx.zoneArgE_eq_model
/-- the glued `compute_lzone` / `compute_izone` (save_file False / True with a name), as file-system actions -/
theorem genf_compute_zone_closed : type_of% @Proofs.GenFx.toC16_computeZoneT := @Proofs.GenFx.toC16_computeZoneT
/-- translated `__init__` with `_create_table` = `read_pdb` = the model's `loadPdb` -/
theorem genf_init_is_loadPdb : type_of% @Proofs.GenFx.toC16_init_is_load := @Proofs.GenFx.toC16_init_is_load
/-- **whole `compute_lrmsd_fast` / `compute_irmsd_fast` = `Model.C16.prog`** (same tree, hence same trace and outcome for every world) -/
theorem genf_lrmsd_fast_whole : type_of% @Proofs.GenFx.genf_lrmsd_fast_whole := @Proofs.GenFx.genf_lrmsd_fast_whole
theorem genf_irmsd_fast_whole : type_of% @Proofs.GenFx.genf_irmsd_fast_whole := @Proofs.GenFx.genf_irmsd_fast_whole
theorem genf_progT_eq_prog : type_of% @Proofs.GenFx.progT_eq_prog := @Proofs.GenFx.progT_eq_prog
/-- footprint_sound, frame_fs, noninterference (every schedule) of the TRANSLATED programs -/
theorem genf_footprint_sound : type_of% @Proofs.GenFx.genf_footprint_sound := @Proofs.GenFx.genf_footprint_sound
theorem genf_frame_fs : type_of% @Proofs.GenFx.genf_frame_fs := @Proofs.GenFx.genf_frame_fs
theorem genf_noninterference : type_of% @Proofs.GenFx.genf_noninterference := @Proofs.GenFx.genf_noninterference
theorem genf_noninterference_every_schedule : type_of% @Proofs.GenFx.genf_noninterference_every_schedule := @Proofs.GenFx.genf_noninterference_every_schedule
/-- the glue's values are GenR's values; the file published is the file GenR reports; `readPdbT` returns what `GenP.read_pdb` returns -/
theorem genf_genr_lzone_value : type_of% @Proofs.GenFx.genr_lzone_value := @Proofs.GenFx.genr_lzone_value
theorem genf_genr_izone_value : type_of% @Proofs.GenFx.genr_izone_value := @Proofs.GenFx.genr_izone_value
theorem genf_genr_zone_file : type_of% @Proofs.GenFx.genr_zone_file := @Proofs.GenFx.genr_zone_file
theorem genf_genr_read_zone_value : type_of% @Proofs.GenFx.genr_read_zone_value := @Proofs.GenFx.genr_read_zone_value
theorem genf_genrWork_is : type_of% @Proofs.GenFx.genrWork_is := @Proofs.GenFx.genrWork_is
theorem genf_readPdbT_value_eq_genp : type_of% @Proofs.GenFx.readPdbT_value_eq_genp := @Proofs.GenFx.readPdbT_value_eq_genp

/-! non-vacuity: a work meeting `WorkIs` (zone = the first two lines of the reference as residues), and the whole translated routine
    run in a concrete directory: zone file `z` absent -> computed from `r`, published through `./z.T.tmp`, then decoy and reference read -/

def demoData : Routine → List Py.Str → Except Py.Err Proofs.Effects.ZoneZ := fun _ rc => .ok ((rc.take 2).map fun l => (l, 7))
def demoW : Work Py.Str Proofs.Effects.ZoneZ Nat where
  compute := fun _ rc => (rc.take 2).map fun l => (l, 7)
  render := Proofs.Effects.renderZone
  parse := Proofs.Effects.parseZone
  check := fun _ _ _ => .ok ()
  score := fun _ z obs => .ok ((z.getD []).length + obs.length)
  exportLines := fun _ _ _ => []
  sameAtoms := fun _ => true

theorem demoW_is : Proofs.GenFx.WorkIs demoW demoData := ⟨rfl, rfl, fun _ => ⟨rfl, rfl⟩, fun _ => ⟨rfl, rfl⟩⟩

def demoMk : Py.Str → Py.Str → Py.Str → Py.Str := fun d p s => d ++ ['/'] ++ p ++ ['T'] ++ s
def demoArgs : Args Py.Str := { decoy := ['d'], ref := ['r'], zone := some ['z'], tmp := tmpOf demoMk ['z'] }
def demoFS : FS Py.Str Py.Str := fun p => if p = ['d'] then some [['x']] else if p = ['r'] then some [['A'], ['B'], ['C']] else none

example : Proofs.GenFx.TmpIsMkstemp demoMk demoArgs := fun f h => by cases h; rfl

example : (Proofs.GenFx.progT demoMk demoW (fun (_ : Unit) => demoData) () (.lrmsdFast false) demoArgs).trace demoFS =
    [.isFile ['z'], .dbMem, .pathExists ['r'], .isFile ['r'], .readAll ['r'], .createTemp "./z.T.tmp".toList, .append "./z.T.tmp".toList,
     .replace "./z.T.tmp".toList ['z'], .pathExists ['d'], .isFile ['d'], .readAll ['d'], .pathExists ['r'], .isFile ['r'], .readAll ['r']] := by
  rw [genf_progT_eq_prog demoMk demoW _ () demoW_is _ _ (fun f h => by cases h; rfl)]; decide


/-! ### second follow-up: the routines that write a requested file, whole; a failing zone computation in the model -/

/-- whole `compute_lzone` / `compute_izone` (routines `.lzone`, `.izone`) = `Model.C16.prog` -/
theorem genf_zone_routine_whole : type_of% @Proofs.GenFx.genf_zone_routine_whole := @Proofs.GenFx.genf_zone_routine_whole
/-- whole `compute_residue_pairs_ref` (routine `.pairsRef`) = `Model.C16.prog`; the value computation may be `GenR.compute_residue_pairs_ref` -/
theorem genf_pairs_ref_whole : type_of% @Proofs.GenFx.genf_pairs_ref_whole := @Proofs.GenFx.genf_pairs_ref_whole

/-- non-vacuity of the failing path: a work whose zone computation fails on a reference of fewer than two lines; the whole translated
    routine then reads the reference and raises ValueError — no temp file, no zone file -/
def failData : Routine → List Py.Str → Except Py.Err Proofs.Effects.ZoneZ :=
  fun _ rc => if rc.length < 2 then .error .valueError else .ok ((rc.take 2).map fun l => (l, 7))
def failW : Work Py.Str Proofs.Effects.ZoneZ Nat :=
  { demoW with computeErr := fun _ rc => if rc.length < 2 then some .valueError else none }

theorem failW_is : Proofs.GenFx.WorkIs failW failData := by
  refine ⟨rfl, rfl, fun rc => ?_, fun rc => ?_⟩ <;>
    (unfold failData failW demoW; by_cases h : rc.length < 2 <;> simp [h, Proofs.GenFx.errOf])

def oneLineFS : FS Py.Str Py.Str := fun p => if p = ['d'] then some [['x']] else if p = ['r'] then some [['A']] else none

example : (Proofs.GenFx.progT demoMk failW (fun (_ : Unit) => failData) () (.lrmsdFast true) demoArgs).trace oneLineFS =
      [.isFile ['z'], .dbMem, .pathExists ['r'], .isFile ['r'], .readAll ['r']] ∧
    ((Proofs.GenFx.progT demoMk failW (fun (_ : Unit) => failData) () (.lrmsdFast true) demoArgs).exec oneLineFS).2 = .error .valueError ∧
    ((Proofs.GenFx.progT demoMk failW (fun (_ : Unit) => failData) () (.lrmsdFast true) demoArgs).exec oneLineFS).1 ['z'] = none := by
  rw [genf_progT_eq_prog demoMk failW _ () failW_is _ _ (fun f h => by cases h; rfl)]; decide

end Props.C16K
