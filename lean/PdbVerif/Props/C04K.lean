/-
  C04 — the SQL text tie (tie #1 for `update` / `update_column` / `add_column`).  The statement texts and the data rows these
  functions hand to `executemany` / `execute` are translated on every run (Gen/Sql.lean: `update_exec`, `update_column_exec`,
  `add_column_exec`, `to_sql_value`); MicroSql (Model/MicroSql.lean) says what the texts mean.  The theorems state that the hand
  models `Model.update`, `Model.updateColumn`, `Model.addColumn` of Props/C04.lean are "translated text + rows, executed by MicroSql".
-/
import PdbVerif.Proofs.SqlMain

namespace Props.C04K

/-- the translated tail of `update` in closed form: the text, one data row per value row = values ++ [rowID[i] + 1] -/
theorem update_exec_nf : type_of% @SqlProofs.update_exec_nf := @SqlProofs.update_exec_nf
/-- `UPDATE t SET c1=?, c2=? WHERE rowID=?` parses (MicroSql) to the UPDATE statement on exactly these columns -/
theorem parse_updateText : type_of% @SqlProofs.parse_updateText := @SqlProofs.parse_updateText
/-- the tail of `update`: translated text + rows run by MicroSql's `executemany` = the model's `execMany` on (values, rowid) pairs -/
theorem update_tail_eq_sql : type_of% @SqlProofs.update_tail_eq_sql := @SqlProofs.update_tail_eq_sql
/-- **`Model.updateCore` = checks + `get('rowID')` + translated statement and rows run by MicroSql** -/
theorem updateCore_eq_sql : type_of% @SqlProofs.updateCore_eq_sql := @SqlProofs.updateCore_eq_sql
/-- **`Model.update` = the same**, when no per-model dispatch happens -/
theorem update_eq_sql : type_of% @SqlProofs.update_eq_sql := @SqlProofs.update_eq_sql
/-- the translated `update_column` in closed form: the text and the (value, rowid) rows, `int(ind) + 1` included -/
theorem update_column_exec_nf : type_of% @SqlProofs.update_column_exec_nf := @SqlProofs.update_column_exec_nf
/-- **`Model.updateColumn` = translated text + rows run by MicroSql**, for every value list and index list -/
theorem updateColumn_eq_sql : type_of% @SqlProofs.updateColumn_eq_sql := @SqlProofs.updateColumn_eq_sql
/-- `ALTER TABLE t ADD COLUMN 'c' type DEFAULT lit` parses (MicroSql) to that statement -/
theorem parse_alterText : type_of% @SqlProofs.parse_alterText := @SqlProofs.parse_alterText
/-- **`Model.addColumn` = the translated ALTER TABLE text run by MicroSql**, given that SQLite reads `str(value)` back as the value -/
theorem addColumn_eq_sql : type_of% @SqlProofs.addColumn_eq_sql := @SqlProofs.addColumn_eq_sql

end Props.C04K
