/-
  C20 — the connection handling TRANSLATED from the source (Gen/Fx.lean: `GenF._create_sql`, `_commit`, `_close`, regenerated on
  every run by py/translate_ext_fx.py) IS the store model the C20 theorems are about.  Statements and proofs are those of
  Proofs/GenFx.lean (normal forms) and Proofs/GenFxStore.lean, restated through `type_of%` (shown by `#check` in the audit).
  `toC20` (Proofs/GenFxSem.lean) fixes what each call means in the store; SQLite's journal stays trusted as in Props/C20.
-/
import PdbVerif.Proofs.GenFxStore
import PdbVerif.Proofs.GenFxGlueCrash

namespace Props.C20K
open Proofs.GenFx Spec.C20 Model.C20 Py

/-- the translated `_create_sql`, written out: in memory — connect(':memory:'), cursor; on a file — isfile, remove of exactly that
    name when it is a file, connect to exactly that name, cursor -/
theorem genf_create_sql_normal_form : type_of% @Proofs.GenFx.create_sql_nf := @Proofs.GenFx.create_sql_nf
theorem genf_commit_normal_form : type_of% @Proofs.GenFx.commit_nf := @Proofs.GenFx.commit_nf
/-- the translated `_close(rmdb)`: remove — close (no commit), isfile, remove of exactly `self.sqlfile`; keep — commit, close -/
theorem genf_close_normal_form : type_of% @Proofs.GenFx.close_nf := @Proofs.GenFx.close_nf
theorem genf_close_rmdb_default : type_of% @Proofs.GenFx.close_rmdb_default := @Proofs.GenFx.close_rmdb_default
/-- `__init__` orders `_create_sql`, `_create_table`, `_fix_chainID` -/
theorem genf_init_normal_form : type_of% @Proofs.GenFx.init_nf := @Proofs.GenFx.init_nf

/-- `_create_sql` on a file = the model's `openDb` (same store, same trace of file-system actions, for every world) -/
theorem genf_create_sql_eq_model : type_of% @Proofs.GenFx.genf_create_sql_eq_model := @Proofs.GenFx.genf_create_sql_eq_model
theorem genf_create_sql_memory : type_of% @Proofs.GenFx.genf_create_sql_memory := @Proofs.GenFx.genf_create_sql_memory
/-- `_commit` = the model's `commit` -/
theorem genf_commit_eq_model : type_of% @Proofs.GenFx.genf_commit_eq_model := @Proofs.GenFx.genf_commit_eq_model
/-- `_close(rmdb=False)` = the model's `closeKeep` -/
theorem genf_close_keep_eq_model : type_of% @Proofs.GenFx.genf_close_keep_eq_model := @Proofs.GenFx.genf_close_keep_eq_model
/-- `_close(rmdb=True)` = the model's `closeRemove` (live and already-closed objects) -/
theorem genf_close_remove_eq_model : type_of% @Proofs.GenFx.genf_close_remove_eq_model := @Proofs.GenFx.genf_close_remove_eq_model
theorem genf_close_memory : type_of% @Proofs.GenFx.genf_close_memory := @Proofs.GenFx.genf_close_memory
/-- a scenario whose open / commit / close steps are the translated programs is the model's run … -/
theorem genf_runT_eq_run : type_of% @Proofs.GenFx.runT_eq_run := @Proofs.GenFx.runT_eq_run
/-- … hence crash atomicity holds of the translated code … -/
theorem genf_crash_atomic : type_of% @Proofs.GenFx.genf_crash_atomic := @Proofs.GenFx.genf_crash_atomic
/-- … and file names are data: only the database and its journal are named, no shell, no other file changes -/
theorem genf_names_are_data : type_of% @Proofs.GenFx.genf_names_are_data := @Proofs.GenFx.genf_names_are_data

/-! ### non-vacuity: database 1 (journal 101) over an older database with the row 99; rows are numbers -/

def exWorld : World Nat Nat := fun q => if q = 7 then some .other else if q = 1 then some (.db (some [99])) else none
def exJournal : Nat → Nat := (· + 100)
def exSelf : Fx.Self Nat := { sqlfile := some 1 }

/-- the translated `_create_sql` removes the old file and connects: trace isFile, remove, connect — on exactly path 1 -/
example : (toC20 (C := Unit) exJournal (GenF._create_sql exSelf) (⟨exWorld, .fresh, [], []⟩ : St Nat Nat)).1.trace =
    [.isFile 1, .remove 1, .connect 1] := by
  rw [genf_create_sql_eq_model exJournal 1 exSelf _ rfl rfl]; decide

/-- a scenario run with the translated programs: the rows of the unfinished bulk insert are never visible, the committed table
    is; closing with remove leaves no file and does not touch the victim 7 -/
example : (List.range 7).map (fun k => readBack (crash (runT (C := Unit) exJournal 1 exWorld
      (([.openDb, .createTable, .insertRow 1, .insertRow 2, .commit, .update (· + 10), .closeRemove] : List (Op Nat)).take k)).2) 1) =
    [.table [99], .noTable, .table [], .table [], .table [], .table [1, 2], .table [1, 2]] := by
  simp only [runT_eq_run]; decide

example : let s := (runT (C := Unit) exJournal 1 exWorld [.openDb, .createTable, .insertRow 1, .closeRemove]).2
    readBack s.world 1 = .noFile ∧ (s.world 7).isSome ∧
    s.trace = [.isFile 1, .remove 1, .connect 1, .writeDb 1, .journalCreate 1, .journalDelete 1, .close 1, .isFile 1, .remove 1] := by
  simp only [runT_eq_run]; decide

/-- keep: commit, then close — in that order -/
example : (GenF._close (C := Unit) ({ sqlfile := some 1, conn := some ⟨some 1⟩ } : Fx.Self Nat) false) =
    .commit (some 1) (.close (some 1) (.pure { sqlfile := some 1, conn := some ⟨some 1⟩ })) := by
  rw [genf_close_normal_form]; rfl


/-! ### follow-up: crash points INSIDE the translated `_create_sql` / `_close`
    `genf_runT_eq_run` / `genf_crash_atomic` above quantify over crash points BETWEEN the operations of a scenario (a whole `_create_sql`
    or `_close` is one operation there); the theorems below run the translated program for its first `n.length` effectful calls only
    (`toC20n`), for every `n` (Proofs/GenFxGlueCrash.lean). -/

/-- inside `_create_sql`: the old content, or the new empty database, or — between `os.remove` and `connect` only — no file (no atoms) -/
theorem genf_crash_inside_create_sql : type_of% @Proofs.GenFx.genf_crash_inside_create_sql := @Proofs.GenFx.genf_crash_inside_create_sql
/-- inside `_close(rmdb=False)`: before the commit the last committed table, from the commit on the table the object held -/
theorem genf_crash_inside_close_keep : type_of% @Proofs.GenFx.genf_crash_inside_close_keep := @Proofs.GenFx.genf_crash_inside_close_keep
/-- inside `_close(rmdb=True)`: the last committed table until the remove, then no file -/
theorem genf_crash_inside_close_remove : type_of% @Proofs.GenFx.genf_crash_inside_close_remove := @Proofs.GenFx.genf_crash_inside_close_remove
theorem genf_toC20n_create_sql_full : type_of% @Proofs.GenFx.toC20n_create_sql_full := @Proofs.GenFx.toC20n_create_sql_full

/-- non-vacuity: the five crash points of `_create_sql` over the older database [99] at path 1 -/
example : ([[], [()], [(), ()], [(), (), ()], [(), (), (), ()]] : List (List Unit)).map (fun n =>
      readBack (crash (toC20n (C := Unit) exJournal n (GenF._create_sql exSelf) (⟨exWorld, .fresh, [], []⟩ : St Nat Nat))) 1) =
    [.table [99], .table [99], .noFile, .noTable, .noTable] := by
  simp only [genf_create_sql_normal_form]; decide

end Props.C20K
