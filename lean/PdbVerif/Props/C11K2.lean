/-
  C11 — metamorphic relations of the scores, for the TRANSLATED routes (Gen/Sim.lean `GenS.*`, Gen/Rmsd.lean `GenR.compute_fnat_fast`; regenerated
  from StructureSimilarity.py on every run): what Props/C11.lean proves of the hand models and of the definitions, carried over to the generated
  code through the equalities generated = model of Props/C07K2, C08K2.  Statements and proofs: Proofs/GenSimOrderMeta.lean, restated through
  `type_of%`.  Beside the theorems: concrete inputs meeting the hypotheses, and the generated functions run on them.
-/
import PdbVerif.Proofs.GenSimOrderMeta

namespace Props.C11K2

/-- serial / occupancy / B-factor / element do not matter: clash count of the generated routine -/
theorem gens_clashes_ignores : type_of% @Proofs.GenSim.gens_clashes_ignores := @Proofs.GenSim.gens_clashes_ignores
/-- … the generated SQL i-RMSD route: same radicand or same exception, every kernel -/
theorem gens_irmsd_ignores : type_of% @Proofs.GenSim.gens_irmsd_ignores := @Proofs.GenSim.gens_irmsd_ignores
/-- … the generated SQL L-RMSD route, any admissible set order: a fit-then-evaluate value of the original files' pairs -/
theorem gens_lrmsd_ignores : type_of% @Proofs.GenSim.gens_lrmsd_ignores := @Proofs.GenSim.gens_lrmsd_ignores
/-- rigid motion: clash count of the generated routine -/
theorem gens_clashes_rigid : type_of% @Proofs.GenSim.gens_clashes_rigid := @Proofs.GenSim.gens_clashes_rigid
/-- hydrogens: clash count of the generated routine (proviso of C08-F2: no heavy-atom pair at exactly 3 Å) -/
theorem gens_clashes_hydrogens : type_of% @Proofs.GenSim.gens_clashes_hydrogens := @Proofs.GenSim.gens_clashes_hydrogens
/-- hydrogens: Fnat by the generated SQL route -/
theorem gens_fnat_sql_hydrogens : type_of% @Proofs.GenSim.gens_fnat_sql_hydrogens := @Proofs.GenSim.gens_fnat_sql_hydrogens
/-- hydrogens: Fnat by the generated fast route -/
theorem genr_fnat_fast_hydrogens : type_of% @Proofs.GenSim.genr_fnat_fast_hydrogens := @Proofs.GenSim.genr_fnat_fast_hydrogens

/-! non-vacuity -/
def mk (serial : Int) (name : String) (chain : String) (resSeq : Int) (x : Rat) (occ temp : Rat) (el : String) : Py.Atom :=
  { serial := serial, name := name.toList, altLoc := [], resName := "ALA".toList, chainID := chain.toList, resSeq := resSeq, iCode := [],
    x := x, y := 0, z := 0, occ := occ, temp := temp, element := el.toList, model := 0 }
def t0 : List Py.Atom := [mk 1 "CA" "A" 1 0 1 0 "C", mk 2 "CA" "B" 1 (5/2) 1 0 "C"]
/-- other serial numbers, occupancies, B-factors, elements -/
def t1 : List Py.Atom := [mk 901 "CA" "A" 1 0 (1/4) 77 "FE", mk 17 "CA" "B" 1 (5/2) 0 3 "N"]
/-- a hydrogen added to chain B, 1 Å from chain A -/
def t2 : List Py.Atom := t0 ++ [mk 3 "H" "B" 1 1 1 0 "H"]

example : Spec.Inv.SameButIgnored t0 t1 := by unfold Spec.Inv.SameButIgnored; decide +kernel
example : Spec.Inv.HydrogensAdded t0 t2 := by unfold Spec.Inv.HydrogensAdded; decide +kernel
/-- the generated routines on these inputs: one clash (2.5 Å) in all three; Fnat 1 with and without the hydrogen -/
example : (match GenS.compute_clashes (fun {_} l => l) (fun _ => .ok t0) [] "A".toList "B".toList,
      GenS.compute_clashes (fun {_} l => l.reverse) (fun _ => .ok t1) [] "A".toList "B".toList,
      GenS.compute_clashes (fun {_} l => l) (fun _ => .ok t2) [] "A".toList "B".toList with
    | .ok a, .ok b, .ok c => a == 1 && b == 1 && c == 1 | _, _, _ => false) = true := by decide +kernel
example : (match GenS.compute_fnat_pdb2sql (fun {_} l => l) (fun _ => .ok t0) Model.Fnat.fixChainID [] [] 5,
      GenS.compute_fnat_pdb2sql (fun {_} l => l) (fun _ => .ok t2) Model.Fnat.fixChainID [] [] 5 with
    | .ok a, .ok b => a == 1 && b == 1 | _, _ => false) = true := by decide +kernel

end Props.C11K2
