/-
  C16 — computations depend on their arguments only: no stray files, safe concurrently.   Property theorems only.

  `Spec.C16`   : files, effect programs, footprint (`Within`), `DependsOnArgsOnly`, interleavings, `Noninterfering`
  `Model.C16`  : the effect program `prog W r a` of every routine `r` (pure work `W` uninterpreted), `SharedZoneRun`
  `Gen.effects`: the effectful calls of the library source, regenerated from /repo on every run

  What ties `Model.C16.prog` to the code is the effect-trace correspondence of py/props/c16.py (every routine, every
  option; audit-hook traces = `Prog.trace`) and the `Gen.effects` obligations below, which are re-decided on the
  regenerated list: a new `os.system`, a `shell=True`, a literal scratch name or an in-place `open(zone,'w')` in the
  source makes them false, deterministically.
-/
import PdbVerif.Gen.Effects
import PdbVerif.Spec.C16
import PdbVerif.Model.Effects
import PdbVerif.Proofs.Effects
import PdbVerif.Proofs.EffectsRoutines
import PdbVerif.Proofs.EffectsMix
import PdbVerif.Proofs.EffectsZoneFiles

set_option linter.unusedVariables false

namespace Props.C16
open Spec.C16 Model.C16 Proofs.Effects

/-! ### what the source may call (re-decided on the regenerated call list) -/

/-- no routine of the library hands anything to a shell -/
theorem source_no_shell : Gen.effects.all (fun e => !e.shell && e.callee != "os.system" && e.callee != "os.popen") = true := by
  decide

/-- no effectful call names a file by a literal: there is no fixed-name scratch file (`':memory:'` is not a file) -/
theorem source_no_literal_scratch :
    Gen.effects.all (fun e => e.shape != "literal" || e.arg == "':memory:'") = true := by
  decide

/-- no routine opens a file for in-place text writing except `exportpdb` (a requested output): zone files are written
    by `_write_zone`, which creates a temp file (`tempfile.mkstemp`) and publishes it with `os.replace`; the only
    other write is the pickle (`'wb'`, requested).  Database files are connected / removed only by `_create_sql` and
    `_close` (C20) — no score routine does. -/
theorem source_zone_published_by_replace :
    Gen.effects.all (fun e => e.callee != "open" || e.mode == "r" || e.mode == "wb" ||
        e.func == "pdb2sql_base:pdb2sql_base.exportpdb") = true ∧
      (Gen.effects.any (fun e => e.func == "StructureSimilarity:StructureSimilarity._write_zone" && e.callee == "tempfile.mkstemp")) = true ∧
      (Gen.effects.any (fun e => e.func == "StructureSimilarity:StructureSimilarity._write_zone" && e.callee == "os.replace")) = true ∧
      Gen.effects.all (fun e => (e.callee != "sqlite3.connect" && e.callee != "os.remove" && e.callee != "os.unlink") ||
        e.func == "pdb2sqlcore:pdb2sql._create_sql" || e.func == "pdb2sql_base:pdb2sql_base._close") = true := by
  decide

/-! ### one computation -/

section
variable {P L Z R : Type} [DecidableEq P]

/-- **footprint_sound** — every routine, every option, every branch, whatever is read: reads ⊆ inputs ∪ zone file,
    writes ⊆ requested outputs ∪ zone file (∪ the run's own temp file, which is gone at the end), no shell, no
    database file, no fixed-name scratch file; and every trace of a solo run consists of allowed actions. -/
theorem footprint_sound (role : P → Role) (W : Work L Z R) (r : Routine) (a : Args P) (ha : a.Roles role) :
    Within role (prog W r a : Prog P L R) ∧
      (∀ fs : FS P L, (∀ p, role p = .temp → fs p = none) → ∀ p, role p = .temp → ((prog W r a : Prog P L R).exec fs).1 p = none) ∧
      (∀ fs : FS P L, traceOk role ((prog W r a : Prog P L R).trace fs) = true) ∧
      Gen.effects.all (fun e => !e.shell && (e.shape != "literal" || e.arg == "':memory:'")) = true :=
  ⟨(tidy_prog role W r a ha).1, (tidy_prog role W r a ha).2,
    fun fs => trace_ok role _ (tidy_prog role W r a ha).1 fs, by decide⟩

/-- **frame_fs** — a run changes no file outside its footprint, and its value (and the zone file it leaves) is the
    same for any two initial directories that agree on the inputs and the zone file ("whatever else is present"). -/
theorem frame_fs (role : P → Role) (W : Work L Z R) (r : Routine) (a : Args P) (ha : a.Roles role) :
    (∀ (fs : FS P L) p, role p = .other → ((prog W r a : Prog P L R).exec fs).1 p = fs p) ∧
      (∀ fs₁ fs₂ : FS P L, AgreeOn role fs₁ fs₂ →
        ((prog W r a : Prog P L R).exec fs₁).2 = ((prog W r a : Prog P L R).exec fs₂).2 ∧
        AgreeOn role ((prog W r a : Prog P L R).exec fs₁).1 ((prog W r a : Prog P L R).exec fs₂).1) :=
  ⟨fun fs p hp => exec_frame role _ (tidy_prog role W r a ha).1 fs p (Or.inr hp),
    fun fs₁ fs₂ h => exec_agree role _ (tidy_prog role W r a ha).1 fs₁ fs₂ h⟩

/-- **inputs_unchanged** -/
theorem inputs_unchanged (role : P → Role) (W : Work L Z R) (r : Routine) (a : Args P) (ha : a.Roles role)
    (fs : FS P L) (p : P) (hp : role p = .input) : ((prog W r a : Prog P L R).exec fs).1 p = fs p :=
  exec_frame role _ (tidy_prog role W r a ha).1 fs p (Or.inl hp)

/-- the first half of the property, as the Spec states it -/
theorem depends_on_args_only (role : P → Role) (W : Work L Z R) (r : Routine) (a : Args P) (ha : a.Roles role) :
    DependsOnArgsOnly role (prog W r a : Prog P L R) :=
  ⟨(tidy_prog role W r a ha).1, (tidy_prog role W r a ha).2,
    fun fs p hp => exec_frame role _ (tidy_prog role W r a ha).1 fs p hp,
    fun fs₁ fs₂ h => exec_agree role _ (tidy_prog role W r a ha).1 fs₁ fs₂ h⟩

/-- "run alone" in the statements below is the same semantics as the scheduler: a solo run is the schedule
    0,0,0,… of the one-task system -/
theorem solo_is_a_schedule (t : Prog P L R) (fs : FS P L) (n : Nat) :
    ∃ t', (Sys.run ⟨fs, [t]⟩ (List.replicate n 0)).tasks = [t'] ∧
      t'.exec (Sys.run ⟨fs, [t]⟩ (List.replicate n 0)).fs = t.exec fs :=
  exec_run_solo t fs n

/-! ### many computations, every schedule -/

/-- **noninterference** — any number of computations started in one working directory — any mix of routines, the fast
    score routines sharing one zone file over the same reference — under EVERY schedule (any `List Nat`, one
    file-system / connection action per step): a computation that has finished returned exactly the value, or raised
    exactly the exception, of its solo run from the same initial directory.  The zone file may initially be absent
    (then whoever gets there first publishes it — a complete temp file, one atomic `replace`, a temp name of its own),
    or present with any content. -/
theorem noninterference (W : Work L Z R) (fs₀ : FS P L) (isInput : P → Prop) (ref cache : P) (zr : Routine)
    (calls : List (Routine × Args P)) (h : SharedZoneRun W fs₀ isInput ref cache zr calls) :
    Noninterfering fs₀ (calls.map (fun c => (prog W c.1 c.2 : Prog P L R))) :=
  mix_noninterfering W fs₀ isInput ref cache zr calls h

/-- the same, spelled out: every schedule, every task, every outcome -/
theorem noninterference_every_schedule (W : Work L Z R) (fs₀ : FS P L) (isInput : P → Prop) (ref cache : P) (zr : Routine)
    (calls : List (Routine × Args P)) (h : SharedZoneRun W fs₀ isInput ref cache zr calls)
    (sched : List Nat) (i : Nat) (c : Routine × Args P) (hc : calls[i]? = some c) (o : Outcome R)
    (ho : (Sys.run ⟨fs₀, calls.map (fun c => (prog W c.1 c.2 : Prog P L R))⟩ sched).outcome i = some o) :
    o = ((prog W c.1 c.2 : Prog P L R).exec fs₀).2 := by
  obtain ⟨t, ht, hot⟩ := mix_noninterfering W fs₀ isInput ref cache zr calls h sched i o ho
  simp only [List.getElem?_map, hc, Option.map_some, Option.some.injEq] at ht
  rw [hot, ← ht]

/-- **noninterference_zone_files** — the same with nothing abstract about zone files: a zone is a list of
    (chain character, residue number), the zone file holds the lines the translated writer `Gen.zone_line`
    (`_write_zone`) produces and is parsed by the translated reader `Gen.read_zone_line` (`read_zone`).  The round
    trip is no longer a hypothesis: it is C09's `read_write_zone`, which needs only that no chain identifier of the
    computed zone is `-` or blank (the recorded finding C09-F4 is exactly that exception). -/
theorem noninterference_zone_files {R : Type} (computeZ : Routine → List Py.Str → List (Char × Int))
    (check : Routine → Nat → List (List Py.Str) → Except Err Unit)
    (score : Routine → Option ZoneZ → List (List Py.Str) → Except Err R)
    (exportLines : Routine → Nat → List (List Py.Str) → List Py.Str) (sameAtoms : List (List Py.Str) → Bool)
    (fs₀ : FS P Py.Str) (isInput : P → Prop) (ref cache : P) (zr : Routine) (calls : List (Routine × Args P))
    (hdir : SharedZoneDir fs₀ isInput ref cache zr calls)
    (hchains : ∀ rc, ∀ z ∈ computeZ zr rc, z.1 ≠ '-' ∧ Py.isSpace z.1 = false) :
    Noninterfering fs₀ (calls.map (fun c => (prog (zoneFileWork computeZ check score exportLines sameAtoms) c.1 c.2 : Prog P Py.Str R))) :=
  mix_noninterfering _ fs₀ isInput ref cache zr calls
    { toSharedZoneDir := hdir, roundtrip := fun rc => zone_roundtrip (computeZ zr rc) (hchains rc) }

end

/-! ### a concrete instance (non-vacuity; also used by the counterexamples)

  paths: 0 reference, 1 and 2 decoys, 3 the zone file, 10 11 12 temp names, ≥ 20 requested outputs, 5 6 7 unrelated
  files; a line is a number; the zone of a reference is its first two lines; the value of a score routine is the
  zone it scored with followed by everything it read. -/

def exW : Work Nat (List Nat) (List Nat) where
  compute := fun _ rc => rc.take 2
  render := id
  parse := fun c => .ok c
  check := fun _ _ _ => .ok ()
  score := fun _ z obs => .ok (z.getD [] ++ obs.flatten)
  exportLines := fun _ n obs => n :: obs.flatten
  sameAtoms := fun obs => obs.length % 2 == 0

def exFS : FS Nat Nat := fun p =>
  if p = 0 then some [7, 8, 9] else if p = 1 then some [1] else if p = 2 then some [2]
  else if p = 5 then some [55] else none

def exRole : Nat → Role := fun p =>
  if p ≤ 2 then .input else if p = 3 then .cache else if 10 ≤ p ∧ p ≤ 13 then .temp
  else if 20 ≤ p then .output else .other

def exA (decoy tmp : Nat) : Args Nat := { decoy := decoy, ref := 0, zone := some 3, tmp := tmp }

/-- the hypotheses of the one-computation theorems are satisfiable … -/
example : (exA 1 10).Roles exRole := by
  constructor <;> simp [exA, exRole]

example : ({ decoy := 1, ref := 0, tmp := 10, out1 := some 20, out2 := some 21 } : Args Nat).Roles exRole := by
  constructor <;> simp [exRole]

/-- … and the programs are not trivial: i-RMSD with an absent zone file checks, reads the reference, writes a temp
    file, publishes it, then reads decoy and reference -/
example : (prog exW (.irmsdFast false) (exA 1 10) : Prog Nat Nat (List Nat)).trace exFS =
    [.isFile 3, .dbMem, .pathExists 0, .isFile 0, .readAll 0, .createTemp 10, .append 10, .replace 10 3,
     .pathExists 1, .isFile 1, .readAll 1, .pathExists 0, .isFile 0, .readAll 0] := by decide

/-- the run leaves the zone file, no temp file, the unrelated file 5 as it was, and returns zone ++ what it read -/
example : let r := (prog exW (.irmsdFast false) (exA 1 10) : Prog Nat Nat (List Nat)).exec exFS
    r.1 3 = some [7, 8] ∧ r.1 10 = none ∧ r.1 5 = some [55] ∧ r.1 0 = some [7, 8, 9] ∧ r.2 = .ok [7, 8, 1, 7, 8, 9] := by
  decide

/-- exports are requested outputs -/
example : (prog exW .lrmsdSql { decoy := 1, ref := 0, tmp := 10, out1 := some 20, out2 := some 21 } :
      Prog Nat Nat (List Nat)).trace exFS =
    [.dbMem, .pathExists 1, .isFile 1, .readAll 1, .dbMem, .pathExists 0, .isFile 0, .readAll 0,
     .dbMem, .pathExists 0, .isFile 0, .readAll 0, .dbMem, .pathExists 1, .isFile 1, .readAll 1,
     .openTrunc 20, .append 20, .openTrunc 21, .append 21] := by decide

def exCalls : List (Routine × Args Nat) :=
  [(.irmsdFast true, exA 1 10), (.irmsdFast false, exA 2 11),
   (.fnatFast, { decoy := 1, ref := 0, tmp := 12 }),
   (.superpose, { decoy := 2, ref := 0, tmp := 13, out1 := some 20 })]

/-- the hypotheses of `noninterference` are satisfiable: two i-RMSD runs sharing the zone file 3, an Fnat run and a
    superposition with export, in one directory -/
theorem exCalls_ok : SharedZoneRun exW exFS (· ≤ 2) 0 3 .izone exCalls where
  roundtrip := fun _ => rfl
  cache_not_input := by decide
  inputs := by decide
  zone := by decide
  tmp_fresh := by decide
  tmp_distinct := tmp_distinct_of_nodup exCalls (by decide)
  outs := by
    intro c hc o ho
    simp only [exCalls, List.mem_cons, List.not_mem_nil, or_false] at hc
    rcases hc with rfl | rfl | rfl | rfl <;> simp [Args.outs, exA] at ho
    subst ho
    decide

set_option maxRecDepth 4000 in
/-- a schedule in which the second i-RMSD run (task 1) reads the zone file published by the first (task 0) while a
    third and fourth computation run in between: each returns its solo value -/
example :
    let s := Sys.run ⟨exFS, exCalls.map (fun c => (prog exW c.1 c.2 : Prog Nat Nat (List Nat)))⟩
      ([0, 0, 2, 0, 0, 3, 0, 0, 0, 0] ++ List.replicate 9 1 ++ List.replicate 20 0 ++ List.replicate 6 2 ++ List.replicate 9 3)
    s.outcome 1 = some (((prog exW (.irmsdFast false) (exA 2 11) : Prog Nat Nat (List Nat)).exec exFS).2) ∧
    s.outcome 1 = some (.ok [7, 8, 2, 7, 8, 9]) ∧
    s.outcome 0 = some (((prog exW (.irmsdFast true) (exA 1 10) : Prog Nat Nat (List Nat)).exec exFS).2) ∧
    (s.outcome 2).isSome ∧ (s.outcome 3).isSome ∧ s.fs 3 = some [7, 8] ∧ s.fs 10 = none ∧ s.fs 11 = none := by
  decide

/-- non-vacuity of `noninterference_zone_files`: the file written for the zone A5, B-3 is read back; a line is
    `zone <chain><num>-<chain><num>` + newline (C09 `zone_line_format`) -/
example : parseZone (renderZone ([('A', 5), ('B', -3)].map fun z => ([z.1], z.2))) = .ok [(['A'], 5), (['B'], -3)] :=
  zone_roundtrip [('A', 5), ('B', -3)] (by decide)

example : renderZone [(['A'], 5)] = [['z', 'o', 'n', 'e', ' '] ++ ['A'] ++ Py.intStr 5 ++ ['-'] ++ ['A'] ++ Py.intStr 5 ++ ['\n']] := by
  simp [renderZone, Props.C09.zone_line_format]

/-! ### kept regressions: the pinned tree's writers violate the property -/

/-- the fast i-RMSD routine with the OLD zone writer (`open(zone,'w')`, one `write` per line, in place) -/
def oldTask (decoy : Nat) : Prog Nat Nat (List Nat) :=
  withZoneInPlace exW .izone 0 3 (fun z => readPdb decoy fun d => .done (z ++ d))

/-- the same with the current writer (temp file + atomic replace) -/
def newTask (decoy tmp : Nat) : Prog Nat Nat (List Nat) :=
  withZone exW .izone 0 3 tmp (fun z => readPdb decoy fun d => .done (z ++ d))

/-- **inplace_write_counterexample** — with the old in-place writer there is a 2-task schedule (the reader runs between
    the two `write`s of the writer) in which the second run scores with `[7]`, a strict prefix of the zone `[7, 8]`
    it scores with alone; hence the old routine is not `Noninterfering`.  Under the very same schedule the current
    writer gives the solo value. -/
theorem inplace_write_counterexample :
    ∃ sched : List Nat,
      (Sys.run ⟨exFS, [oldTask 1, oldTask 2]⟩ sched).outcome 1 = some (.ok [7, 2]) ∧
      ((oldTask 2).exec exFS).2 = .ok [7, 8, 2] ∧
      (Sys.run ⟨exFS, [newTask 1 10, newTask 2 11]⟩ (sched ++ List.replicate 12 1)).outcome 1 = some (.ok [7, 8, 2]) :=
  ⟨[0, 0, 0, 0, 0, 0, 0, 1, 1, 1, 1, 1, 1], by decide⟩

theorem inplace_write_interferes : ¬ Noninterfering exFS [oldTask 1, oldTask 2] := by
  intro h
  obtain ⟨t, ht, ho⟩ := h [0, 0, 0, 0, 0, 0, 0, 1, 1, 1, 1, 1, 1] 1 (.ok [7, 2]) (by decide)
  simp only [List.getElem?_cons_succ, List.getElem?_cons_zero, Option.some.injEq] at ht
  subst ht
  revert ho
  decide

/-- **fixed_scratch_counterexample** — the old SQL L-RMSD routine (scratch databases `decoy.db` = path 5 and `ref.db`
    = path 6 in the working directory, removed through a shell): a user's file that happens to be called `decoy.db`
    is gone after one solo run, and the routine is outside every footprint. -/
theorem fixed_scratch_counterexample :
    exFS 5 = some [55] ∧
      ((lrmsdSqlFixedScratch exW { decoy := 1, ref := 0, tmp := 10 } 5 6 : Prog Nat Nat (List Nat)).exec exFS).1 5 = none ∧
      ∀ role : Nat → Role, ¬ Within role (lrmsdSqlFixedScratch exW { decoy := 1, ref := 0, tmp := 10 } 5 6 : Prog Nat Nat (List Nat)) := by
  refine ⟨by decide, by decide, ?_⟩
  intro role h
  simp only [lrmsdSqlFixedScratch, openDbOld, Within] at h
  have := h.2 true
  simp [Within] at this

end Props.C16
