/-
  C04 — update: exactly the addressed cells change, to exactly the supplied values.
  Property theorems only (helper lemmas: Proofs/Table*.lean).  `Model.step` is the hand-written model of
  `update / update_xyz / update_column / add_column / _fix_chainID` (Model/Table.lean, tied to the code by the
  correspondence run over histories); `Spec.assign` is the property.
-/
import PdbVerif.Proofs.TableAssign
import PdbVerif.Proofs.TableChain

set_option linter.unusedVariables false
set_option linter.unusedSimpArgs false

namespace Props.C04
open Tbl Model TableProofs

/-- **update = assign.**  When the attribute names and condition names are listed attributes and the shapes
    agree, `update` leaves the table `Spec.assign` describes: value row `i` on the `i`-th atom the same
    selection returns (`Spec.positions`), written to the attributes in the order given, every other cell, the
    row count and the row order as they were; the other tables of the database are not touched. -/
theorem update_spec (db : Db) (hwf : WF db) (hT : TabsOK db) (tn : Py.Str) (tab : Tab) (htab : findTab db tn = some tab)
    (columns : Py.Str) (values : List (List Val)) (kw : List Kw)
    (cs : List Col) (hcs : (updNames columns).mapM (resolve db.extraNames) = some cs)
    (hnames : ∀ n ∈ updNames columns, n ∈ db.colnames)
    (hk : KeysOK db kw) (hr : RowIDInts kw) (hnm : db.nModel = 0)
    (hmany : Spec.tooMany Gen.max_sql_values Gen.SQLITE_LIMIT_VARIABLE_NUMBER kw = false)
    (q : List Spec.Cond) (hq : kw.mapM (Spec.condOf db.extraNames) = some q)
    (hne : values ≠ []) (hrows : ∀ r ∈ values, r.length = cs.length)
    (hsel : values.length = (Spec.positions db.extra tab.rows q).length)
    (T' : Table) (hassign : Spec.assign db.extra tab.rows (Spec.positions db.extra tab.rows q) cs values = some T') :
    Model.step db (.update columns values tn kw) = (db.setTable tn T', .ok ()) :=
  update_eq_assign db hwf hT tn tab htab columns values kw cs hcs hnames hk hr hnm hmany q hq hne hrows hsel T' hassign

/-- **a shape mismatch raises before anything is modified**: no value rows, a value row whose length is not
    the number of attributes, or a number of value rows different from the number of selected atoms -/
theorem update_shape_error (db : Db) (columns : Py.Str) (values : List (List Val)) (tn : Py.Str) (kw : List Kw)
    (hm : hasModelKey kw = true ∨ db.nModel = 0) (h : ¬ ShapesOK db columns values tn kw) :
    (Model.step db (.update columns values tn kw)).1 = db ∧ ∃ e, (Model.step db (.update columns values tn kw)).2 = .error e := by
  have hdisp : (!hasModelKey kw && decide (db.nModel > 0)) = false := by
    rcases hm with hm | hm <;> simp [hm]
  show (Model.update db columns values tn kw).1 = db ∧ ∃ e, (Model.update db columns values tn kw).2 = .error e
  unfold Model.update
  simp only [hdisp, Bool.false_eq_true, if_false]
  split_ifs with h1
  · exact ⟨rfl, _, rfl⟩
  · exact updateCore_shape_error db columns values tn kw h

/-- the selection that counts in `update_shape_error` is the property's selection -/
theorem update_selection_is_spec (db : Db) (hwf : WF db) (tn : Py.Str) (tab : Tab) (htab : findTab db tn = some tab)
    (kw : List Kw) (hk : KeysOK db kw) (hr : RowIDInts kw) (hnm : db.nModel = 0)
    (hmany : Spec.tooMany Gen.max_sql_values Gen.SQLITE_LIMIT_VARIABLE_NUMBER kw = false)
    (q : List Spec.Cond) (hq : kw.mapM (Spec.condOf db.extraNames) = some q) :
    updIds db tn kw = .ok (List.map (fun (p : Nat) => (p : Int)) (Spec.positions db.extra tab.rows q)) := by
  rw [updIds_eq db hwf tn tab htab kw hk hr hnm hmany q hq, posInts_eq_positions]

/-- **the i-th supplied value row lands on the i-th selected atom** (and rowID addresses the same atom in
    `update` as in `get`: `sel` is what the selection returns) -/
theorem ith_value_on_ith_selected (extra : List ColDef) (T T' : Table) (sel : List Nat) (cs : List Col)
    (vals : List (List Val)) (hnd : sel.Nodup) (h : Spec.assign extra T sel cs vals = some T')
    (i : Nat) (hi : i < sel.length) (hp : sel[i] < T.length) :
    T'[sel[i]]? = Spec.writeRow extra cs (vals.getD i []) T[sel[i]] := by
  rw [assign_pointwise] at h
  rw [h.2 sel[i] hp]
  have : sel.idxOf? sel[i] = some i := by
    unfold List.idxOf?
    rw [List.findIdx?_eq_some_iff_getElem]
    refine ⟨hi, by simp, ?_⟩
    intro j hj
    simp only [beq_iff_eq]
    intro e
    have hpw := (List.pairwise_iff_getElem.1 hnd) j i (by omega) hi hj
    exact hpw e
  simp [assignRow, this]

/-- …and every atom that is not selected is left as it is -/
theorem unselected_unchanged (extra : List ColDef) (T T' : Table) (sel : List Nat) (cs : List Col)
    (vals : List (List Val)) (h : Spec.assign extra T sel cs vals = some T') :
    T'.length = T.length ∧ ∀ p (hp : p < T.length), p ∉ sel → T'[p]? = some T[p] := by
  rw [assign_pointwise] at h
  refine ⟨h.1, ?_⟩
  intro p hp hns
  rw [h.2 p hp]
  simp [assignRow, idxOf?_none_of_not_mem p sel hns]

/-- **frame over histories** (the property's quantifier; induction on the history): whatever sequence of
    modifications is applied, the tables, their names, row counts and row order stay, and every cell of an
    existing attribute that no step addresses (`touchedBy`: evaluated in the state the step is applied to)
    reads as it did at the start -/
theorem frame (ops : List Op) (db : Db) (hS : Shape db) :
    Shape (Model.run db ops) ∧ skeleton (Model.run db ops) = skeleton db ∧
    ∀ j p c, ColExists db c → ¬ touchedBy db ops j p c → cellAt (Model.run db ops) j p c = cellAt db j p c :=
  run_frame ops db hS

/-- frame of one step, spelled out for `update`: only the addressed table × the selected atoms × the assigned
    attributes can change -/
theorem update_frame_step (db : Db) (hS : Shape db) (columns : Py.Str) (values : List (List Val)) (tn : Py.Str)
    (kw : List Kw) (j p : Nat) (c : Col)
    (h : ¬ (Addresses db j tn ∧ Assigns db columns c ∧
        ((!hasModelKey kw && decide (db.nModel > 0)) = true ∨ ∃ ids, updIds db tn kw = .ok ids ∧ (p : Int) ∈ ids))) :
    cellAt (Model.step db (.update columns values tn kw)).1 j p c = cellAt db j p c :=
  update_frame db hS columns values tn kw j p c h

/-- `add_column`: either it fails and nothing changes, or one attribute is appended after the existing ones with
    the same value in every row, and no existing cell changes -/
theorem add_column_spec (db : Db) (hS : Shape db) (name coltype : Py.Str) (value : Val) (tn : Py.Str) :
    ((∃ e, Model.step db (.addColumn name coltype value tn) = (db, .error e)) ∨
     ∃ tab d decl, db.tabs = [tab] ∧
       (Model.step db (.addColumn name coltype value tn)).2 = .ok () ∧
       (Model.step db (.addColumn name coltype value tn)).1.colnames = db.colnames ++ [name] ∧
       (Model.step db (.addColumn name coltype value tn)).1.tabs =
         [{ tab with rows := tab.rows.map (fun r => { r with extra := r.extra ++ [d] }) }] ∧
       declOfType coltype = some decl ∧ ∃ v, defaultLit value = .ok v ∧ d = storeVal decl v) ∧
    ∀ j p c, ColExists db c → cellAt (Model.step db (.addColumn name coltype value tn)).1 j p c = cellAt db j p c := by
  refine ⟨?_, fun j p c hc => addColumn_frame db hS name coltype value tn j p c hc⟩
  have hstep : Model.step db (.addColumn name coltype value tn) = Model.addColumn db name coltype value tn := rfl
  rw [hstep]
  unfold Model.addColumn
  split
  · rename_i tab htabs
    split_ifs
    · exact Or.inl ⟨_, rfl⟩
    · exact Or.inl ⟨_, rfl⟩
    · exact Or.inl ⟨_, rfl⟩
    · exact Or.inl ⟨_, rfl⟩
    · split
      · exact Or.inl ⟨_, rfl⟩
      · rename_i aff haff
        split
        · exact Or.inl ⟨_, rfl⟩
        · rename_i v hv
          refine Or.inr ⟨tab, storeVal aff v, aff, htabs, rfl, ?_, by simp [withColumn], haff, v, hv, rfl⟩
          simp [Db.colnames, Tbl.colnames, Db.extraNames, withColumn, List.append_assoc]
  · exact Or.inl ⟨_, rfl⟩

/-- a written value reads back equal in value: what the model stores is what the property's `coerce` says -/
theorem stored_equal_in_value (d : Decl) (v w : Val) (h : Spec.coerce d v = some w) : storeVal d v = w :=
  storeVal_of_coerce d v w h

/-- **`_fix_chainID`**: the chains of table `ATOM` are renamed A, B, C, … by the rank of their identifier among the
    sorted distinct identifiers (`Spec.fixChains`); rows, row order, every other attribute and every other table
    are untouched (more than 26 chains: the source exits; not covered) -/
theorem fix_chainID_spec (db : Db) (hwf : WF db) (hT : TabsOK db) (tab : Tab) (htab : findTab db defaultTable = some tab)
    (hnm : db.nModel = 0) (h26 : (sortDedup strLt (tab.rows.map (fun r => r.atom.chainID))).length ≤ 26) :
    Model.step db .fixChainID = (db.setTable defaultTable (Spec.fixChains tab.rows), .ok ()) :=
  fixChainID_eq db hwf hT tab htab hnm h26

/-- …and its frame, without any side condition: only the chainID attribute of the table `ATOM` can change -/
theorem fix_chainID_frame (db : Db) (hS : Shape db) (j p : Nat) (c : Col)
    (h : ¬ (Addresses db j defaultTable ∧ c = .std .chainID)) :
    cellAt (Model.step db .fixChainID).1 j p c = cellAt db j p c ∧
    skeleton (Model.step db .fixChainID).1 = skeleton db :=
  ⟨fixChainID_frame db hS j p c h, (fixChainID_keeps db hS).2.1⟩

/- the value carrier (list, tuple, float64 / float32 / int64 / int32 ndarray, NumPy scalar, str array) is not
    visible to the model: `Op` carries the values themselves (`Tbl.Val`), so "read back equal in value whatever
    carried them" is, on the model side, `stored_equal_in_value`; that the real carriers are converted to these
    values (`_to_sql_value`, ndarray iteration) is a dimension of the correspondence run, not a theorem
    (`values_type_independent_partial` of the design: no Lean statement is claimed for it). -/

/-- non-vacuity of `update_spec` / `frame`: a concrete database satisfies the invariants, and a concrete
    assignment is defined -/
example :
    let a : Py.Atom := { serial := 1, name := "CA".toList, altLoc := [], resName := "ALA".toList, chainID := "A".toList,
                         resSeq := 5, iCode := [], x := 1, y := 0, z := 0, occ := 1, temp := 0, element := "C".toList, model := 0 }
    let T : Table := [⟨a, []⟩, ⟨{ a with serial := 2 }, []⟩, ⟨{ a with serial := 3 }, []⟩]
    (Spec.assign [] T [0, 2] [.std .x, .std .name] [[.int 7, .text "N".toList], [.real 2, .text "O".toList]]).isSome = true ∧
    TabsOK ({ tabs := [⟨"ATOM".toList, T⟩] } : Db) := by
  refine ⟨by decide, by unfold TabsOK; decide⟩

end Props.C04
