/-
  C05 — the binary64 distance test of `interface.get_contact_atoms` (interface.py:125)
      `np.sqrt(np.sum((xyz2 - x0)**2, 1)) <= cutoff`
  equals the exact test `d² ≤ c²` of Model / Spec (Props/C05.lean) outside an explicit margin.
  Statements and proofs are those of Proofs/FloatMargin.lean (read its header: what NumPy evaluates, in which order, and what is
  assumed of the rounding `fl` — the IEEE round-to-nearest contract `RoundOK`, no overflow / underflow); restated through `type_of%`
  (shown by `#check` in the audit).  Beside each theorem: a concrete input meeting its hypotheses.
-/
import PdbVerif.Proofs.FloatMargin

namespace Props.C05K
open Proofs.FloatMargin

/-- `(1−u)⁵·d² ≤ s ≤ (1+u)⁵·d²` for the float radicand `s = fl(fl(sx+sy)+sz)`, `sx = fl(fl(x₂−x₁)·fl(x₂−x₁))` -/
theorem fdist2_bounds : type_of% @Proofs.FloatMargin.fdist2_bounds := @Proofs.FloatMargin.fdist2_bounds
/-- `d² ≤ c²(1 − 5u) → r ≤ c` -/
theorem contact_inside : type_of% @Proofs.FloatMargin.contact_inside := @Proofs.FloatMargin.contact_inside
/-- `d² > c²(1 + 8u) → c < r` -/
theorem contact_outside : type_of% @Proofs.FloatMargin.contact_outside := @Proofs.FloatMargin.contact_outside
/-- `|d² − c²| > 8u·c² → (r ≤ c ↔ d² ≤ c²)`: the decision of the library is the decision of the exact model (which receives the
    rationals of the doubles the library parsed) -/
theorem contact_decision_eq : type_of% @Proofs.FloatMargin.contact_decision_eq := @Proofs.FloatMargin.contact_decision_eq
/-- in terms of the TEXT coordinates `X` (|X| ≤ M), the library working on `fl X`: margin `u·c·(8c + 10M)` -/
theorem text_decision_eq : type_of% @Proofs.FloatMargin.text_decision_eq := @Proofs.FloatMargin.text_decision_eq
/-- binary64, PDB columns: margin `2⁻⁵³·c·(8c + 10⁵)` -/
theorem pdb_decision_eq : type_of% @Proofs.FloatMargin.pdb_decision_eq := @Proofs.FloatMargin.pdb_decision_eq
theorem pdbMargin_eq : type_of% @Proofs.FloatMargin.pdbMargin_eq := @Proofs.FloatMargin.pdbMargin_eq
theorem pdbMargin_lt : type_of% @Proofs.FloatMargin.pdbMargin_lt := @Proofs.FloatMargin.pdbMargin_lt
/-- three-decimal coordinates, decimal cutoff `n/1000`: float decision = integer comparison `Σ Δ² ≤ n²` unless `Σ Δ² = n²` -/
theorem pdb_lattice_decision_eq : type_of% @Proofs.FloatMargin.pdb_lattice_decision_eq := @Proofs.FloatMargin.pdb_lattice_decision_eq
/-- the assumed laws hold of the executable `Py.toDouble` on the rationals -/
theorem toDouble_real_laws : type_of% @Proofs.FloatMargin.toDouble_real_laws := @Proofs.FloatMargin.toDouble_real_laws
/-- for an `fl` that agrees with `Py.toDouble` on ℚ the radicand is the executable rational `fdist2Q` -/
theorem fdist2_exec : type_of% @Proofs.FloatMargin.fdist2_exec := @Proofs.FloatMargin.fdist2_exec
theorem exec_inside : type_of% @Proofs.FloatMargin.exec_inside := @Proofs.FloatMargin.exec_inside
theorem exec_outside : type_of% @Proofs.FloatMargin.exec_outside := @Proofs.FloatMargin.exec_outside
/-- `RoundOK` is satisfiable (exact arithmetic) -/
theorem roundOK_id : type_of% @Proofs.FloatMargin.roundOK_id := @Proofs.FloatMargin.roundOK_id

/-! ### non-vacuity -/

example : RoundOK id Set.univ u53 := roundOK_id u53_pos.le
example : u53 ≤ 1 / 64 := u53_le64

/-- inside: (0,0,0) – (3,4,0), cutoff 8.5 -/
example : d2 ⟨0, 0, 0⟩ ⟨3, 4, 0⟩ ≤ (17 / 2 : ℝ) ^ 2 * (1 - 5 * u53) := by norm_num [d2, u53]

/-- outside: (0,0,0) – (8.5, 0, 0.25), cutoff 8.5 -/
example : (17 / 2 : ℝ) ^ 2 * (1 + 8 * u53) < d2 ⟨0, 0, 0⟩ ⟨17 / 2, 0, 1 / 4⟩ := by norm_num [d2, u53]

/-- decided although only `2⁻⁴⁰ ≈ 9·10⁻¹³ Å²` from the cutoff: (0,0,0) – (8.5, 0, 2⁻²⁰), cutoff 8.5 -/
example : 8 * u53 * (17 / 2 : ℝ) ^ 2 < |d2 ⟨0, 0, 0⟩ ⟨17 / 2, 0, 1 / 2 ^ 20⟩ - (17 / 2 : ℝ) ^ 2| := by
  rw [abs_of_pos] <;> norm_num [d2, u53]

/-- text coordinates at the edge of the box, one lattice step (10⁻⁶ Å²) outside the cutoff 8.5: every hypothesis of
    `pdb_lattice_decision_eq` is met (with exact arithmetic as the rounding), and the squared distance is 72.250001 -/
example : (fdist id (flPt id (ofMilli 9995026 (-9999999) 1234)) (flPt id (ofMilli 10000000 (-9995065) 6047)) ≤ 17 / 2
    ↔ n2 9995026 (-9999999) 1234 10000000 (-9995065) 6047 ≤ 8500 ^ 2) :=
  pdb_lattice_decision_eq (roundOK_id u53_pos.le) (Set.mem_univ _) (n := 8500) (by norm_num) (by norm_num)
    (by rw [show ((17 : ℝ) / 2 - ((8500 : ℤ) : ℝ) / 1000) = 0 by norm_num]; simp; exact u53_pos.le)
    (by decide) (by decide) (by decide) (by decide) (by decide) (by decide) (by decide)

example : n2 9995026 (-9999999) 1234 10000000 (-9995065) 6047 = 8500 ^ 2 + 1 := by decide

/-- the margin at the default cutoff, in Å²: below 10⁻¹⁰ -/
example : pdbMargin (17 / 2) < 1 / 10 ^ 10 := by rw [pdbMargin_eq]; norm_num

end Props.C05K
