/-
  C05 — the binary64 distance test of `interface.get_contact_atoms` (interface.py:125)
      `np.sqrt(np.sum((xyz2 - x0)**2, 1)) <= cutoff`
  equals the exact test `d² ≤ c²` of Model / Spec (Props/C05.lean) outside an explicit margin.
  Statements and proofs are those of Proofs/FloatMargin.lean (read its header: what NumPy evaluates, in which order, and what is
  assumed of the rounding `fl` — the IEEE round-to-nearest contract `RoundOK`, no overflow / underflow); restated through `type_of%`
  (shown by `#check` in the audit).  Beside each theorem: a concrete input meeting its hypotheses.
-/
import PdbVerif.Proofs.FloatMargin
import PdbVerif.Proofs.GenContacts

namespace Props.C05K
open Proofs.FloatMargin

/-- `(1−u)⁵·d² ≤ s ≤ (1+u)⁵·d²` for the float radicand `s = fl(fl(sx+sy)+sz)`, `sx = fl(fl(x₂−x₁)·fl(x₂−x₁))` -/
theorem fdist2_bounds : type_of% @Proofs.FloatMargin.fdist2_bounds := @Proofs.FloatMargin.fdist2_bounds
/-- `d² ≤ c²(1 − 5u) → r ≤ c` -/
theorem contact_inside : type_of% @Proofs.FloatMargin.contact_inside := @Proofs.FloatMargin.contact_inside
/-- `d² > c²(1 + 8u) → c < r` -/
theorem contact_outside : type_of% @Proofs.FloatMargin.contact_outside := @Proofs.FloatMargin.contact_outside
/-- `|d² − c²| > 8u·c² → (r ≤ c ↔ d² ≤ c²)`: the decision of the library is the decision of the exact model (which receives the
    rationals of the doubles the library parsed) -/
theorem contact_decision_eq : type_of% @Proofs.FloatMargin.contact_decision_eq := @Proofs.FloatMargin.contact_decision_eq
/-- in terms of the TEXT coordinates `X` (|X| ≤ M), the library working on `fl X`: margin `u·c·(8c + 10M)` -/
theorem text_decision_eq : type_of% @Proofs.FloatMargin.text_decision_eq := @Proofs.FloatMargin.text_decision_eq
/-- binary64, PDB columns: margin `2⁻⁵³·c·(8c + 10⁵)` -/
theorem pdb_decision_eq : type_of% @Proofs.FloatMargin.pdb_decision_eq := @Proofs.FloatMargin.pdb_decision_eq
theorem pdbMargin_eq : type_of% @Proofs.FloatMargin.pdbMargin_eq := @Proofs.FloatMargin.pdbMargin_eq
theorem pdbMargin_lt : type_of% @Proofs.FloatMargin.pdbMargin_lt := @Proofs.FloatMargin.pdbMargin_lt
/-- three-decimal coordinates, decimal cutoff `n/1000`: float decision = integer comparison `Σ Δ² ≤ n²` unless `Σ Δ² = n²` -/
theorem pdb_lattice_decision_eq : type_of% @Proofs.FloatMargin.pdb_lattice_decision_eq := @Proofs.FloatMargin.pdb_lattice_decision_eq
/-- the assumed laws hold of the executable `Py.toDouble` on the rationals -/
theorem toDouble_real_laws : type_of% @Proofs.FloatMargin.toDouble_real_laws := @Proofs.FloatMargin.toDouble_real_laws
/-- for an `fl` that agrees with `Py.toDouble` on ℚ the radicand is the executable rational `fdist2Q` -/
theorem fdist2_exec : type_of% @Proofs.FloatMargin.fdist2_exec := @Proofs.FloatMargin.fdist2_exec
theorem exec_inside : type_of% @Proofs.FloatMargin.exec_inside := @Proofs.FloatMargin.exec_inside
theorem exec_outside : type_of% @Proofs.FloatMargin.exec_outside := @Proofs.FloatMargin.exec_outside
/-- `RoundOK` is satisfiable (exact arithmetic) -/
theorem roundOK_id : type_of% @Proofs.FloatMargin.roundOK_id := @Proofs.FloatMargin.roundOK_id

/-! ### non-vacuity -/

example : RoundOK id Set.univ u53 := roundOK_id u53_pos.le
example : u53 ≤ 1 / 64 := u53_le64

/-- inside: (0,0,0) – (3,4,0), cutoff 8.5 -/
example : d2 ⟨0, 0, 0⟩ ⟨3, 4, 0⟩ ≤ (17 / 2 : ℝ) ^ 2 * (1 - 5 * u53) := by norm_num [d2, u53]

/-- outside: (0,0,0) – (8.5, 0, 0.25), cutoff 8.5 -/
example : (17 / 2 : ℝ) ^ 2 * (1 + 8 * u53) < d2 ⟨0, 0, 0⟩ ⟨17 / 2, 0, 1 / 4⟩ := by norm_num [d2, u53]

/-- decided although only `2⁻⁴⁰ ≈ 9·10⁻¹³ Å²` from the cutoff: (0,0,0) – (8.5, 0, 2⁻²⁰), cutoff 8.5 -/
example : 8 * u53 * (17 / 2 : ℝ) ^ 2 < |d2 ⟨0, 0, 0⟩ ⟨17 / 2, 0, 1 / 2 ^ 20⟩ - (17 / 2 : ℝ) ^ 2| := by
  rw [abs_of_pos] <;> norm_num [d2, u53]

/-- text coordinates at the edge of the box, one lattice step (10⁻⁶ Å²) outside the cutoff 8.5: every hypothesis of
    `pdb_lattice_decision_eq` is met (with exact arithmetic as the rounding), and the squared distance is 72.250001 -/
example : (fdist id (flPt id (ofMilli 9995026 (-9999999) 1234)) (flPt id (ofMilli 10000000 (-9995065) 6047)) ≤ 17 / 2
    ↔ n2 9995026 (-9999999) 1234 10000000 (-9995065) 6047 ≤ 8500 ^ 2) :=
  pdb_lattice_decision_eq (roundOK_id u53_pos.le) (Set.mem_univ _) (n := 8500) (by norm_num) (by norm_num)
    (by rw [show ((17 : ℝ) / 2 - ((8500 : ℤ) : ℝ) / 1000) = 0 by norm_num]; simp; exact u53_pos.le)
    (by decide) (by decide) (by decide) (by decide) (by decide) (by decide) (by decide)

example : n2 9995026 (-9999999) 1234 10000000 (-9995065) 6047 = 8500 ^ 2 + 1 := by decide

/-- the margin at the default cutoff, in Å²: below 10⁻¹⁰ -/
example : pdbMargin (17 / 2) < 1 / 10 ^ 10 := by rw [pdbMargin_eq]; norm_num

end Props.C05K

/-! --------------------------------------------------------------------------------------------------------------------
  APPENDED SECTION — translated contact loop (tie #1 for C05).
  `GenC.get_contact_atoms` (Gen/Contacts.lean) is regenerated from `interface.get_contact_atoms` on every run by
  py/translate_ext_contacts.py (statement by statement: chain selection, the unknown-chain ValueError, the per-chain extraction,
  `itertools.combinations`, the atom loop with the distance test as the one primitive `Np.withinCutoff`, the hydrogen `continue`,
  the backbone conditions, the `pairs` comprehension, `setdefault(..).extend`, the `+=` accumulations, `sorted(set(..))`, the
  `extend_to_residue` loop, the `return_contact_pairs` switch).  The theorems below say that the regenerated definition IS the hand
  model `Model.contactAtoms` the theorems of Props/C05.lean are about — for every table and every argument combination — so those
  theorems hold of the code as it is now.  Statements are those of Proofs/GenContacts.lean, restated through `type_of%`.
  (The binary64 evaluation of the distance test is the subject of the section above: `contact_decision_eq`.)
-------------------------------------------------------------------------------------------------------------------- -/

namespace Props.C05K
open Proofs.GenContacts

/-- `self.backbone_atoms` of the source = the names the model uses -/
theorem genc_backbone_atoms_eq_model : type_of% @Proofs.GenContacts.genc_backbone_atoms_eq_model := @Proofs.GenContacts.genc_backbone_atoms_eq_model
/-- the column types the translator read from `pdb2sql_base.col` -/
theorem genc_col_types : type_of% @Proofs.GenContacts.genc_col_types := @Proofs.GenContacts.genc_col_types
/-- `get_chains()` -/
theorem genc_get_chains_eq_model : type_of% @Proofs.GenContacts.genc_get_chains_eq_model := @Proofs.GenContacts.genc_get_chains_eq_model
/-- `get_contact_atoms(...)` = `Model.contactAtoms`: same dictionary, same key order, same lists, same exception -/
theorem genc_get_contact_atoms_eq_model : type_of% @Proofs.GenContacts.genc_get_contact_atoms_eq_model := @Proofs.GenContacts.genc_get_contact_atoms_eq_model
/-- `contacts_two_chain_returned` of Props/C05.lean, for the generated function -/
theorem genc_contact_atoms_two_chain : type_of% @Proofs.GenContacts.genc_contact_atoms_two_chain := @Proofs.GenContacts.genc_contact_atoms_two_chain
/-- `unknown_chain_rejected` of Props/C05.lean, for the generated function -/
theorem genc_unknown_chain_rejected : type_of% @Proofs.GenContacts.genc_unknown_chain_rejected := @Proofs.GenContacts.genc_unknown_chain_rejected
/-- every permutation is an admissible iteration order of a set (the hypothesis `SetOrderOK` of the theorems above) -/
theorem setOrderOK_of_perm : type_of% @Proofs.GenContacts.setOrderOK_of_perm := @Proofs.GenContacts.setOrderOK_of_perm
/-- the accessor the translation uses for `self.get(cols, chainID=c)` is the C03 selection (`Spec.selected`) with that condition -/
theorem select_chain_is_c03 : type_of% @Proofs.GenContacts.select_chain_is_c03 := @Proofs.GenContacts.select_chain_is_c03

/-! ### non-vacuity: the generated function evaluated on a three-chain structure (kernel evaluation, exact rationals) -/

def gAtom (name res ch : String) (seq : Int) (x y z : Rat) : Py.Atom :=
  { serial := 0, name := name.toList, altLoc := [], resName := res.toList, chainID := ch.toList, resSeq := seq, iCode := [],
    x := x, y := y, z := z, occ := 1, temp := 0, element := [], model := 0 }

/-- atom 0 (chain A) is exactly 5 A from atom 1 (chain B) and from atom 3 (chain C); atom 2 is a hydrogen of B a little closer;
    atom 4 (chain C) is far away; atom 5 (chain B) is 5.25 A away -/
def gEx3 : List Py.Atom :=
  [ gAtom "CA" "LYS" "A" 5 0 0 0, gAtom "CA" "ALA" "B" 1 3 4 0, gAtom "HA" "ALA" "B" 1 3 (15/4) 0,
    gAtom "N"  "GLY" "C" 5 0 (-3) (-4), gAtom "CB" "GLY" "C" 7 40 0 0, gAtom "O"  "ALA" "B" 2 (13/4) 4 0 ]

def gArgs : Model.ContactArgs :=
  { cutoff := 5, allchains := true, chain1 := "A".toList, chain2 := "B".toList, extend := false, bb := false, noH := true, retPairs := true }

example : SetOrderOK id := setOrderOK_id
/-- all chains, excludeH, pair map: the hub atom 0 lists its partners in chains B and C (both exactly on the cutoff) -/
example : (match GenC.get_contact_atoms id gEx3 5 true "A".toList "B".toList false false true true with
    | .ok (.inl d) => d == [(0, [1, 3])] | _ => false) = true := by decide +kernel
/-- all chains, per-chain lists (here with the hydrogen 2 admitted, the other iteration order of sets, and residue extension) -/
example : (match GenC.get_contact_atoms List.reverse gEx3 5 true "A".toList "B".toList true false false false with
    | .ok (.inr d) => d == [("A".toList, [0]), ("B".toList, [1, 2]), ("C".toList, [3])] | _ => false) = true := by decide +kernel
/-- an unknown chain: ValueError -/
example : (match GenC.get_contact_atoms id gEx3 5 false "A".toList "Q".toList false false false false with
    | .error .valueError => true | _ => false) = true := by decide +kernel
/-- … and that is what the model gives (an instance of the theorem, and the model evaluated) -/
example : GenC.get_contact_atoms id gEx3 5 true "A".toList "B".toList false false true true = (Model.contactAtoms gEx3 gArgs).map outSum :=
  genc_get_contact_atoms_eq_model id setOrderOK_id gEx3 gArgs
example : (match Model.contactAtoms gEx3 gArgs with | .ok (.pairs d) => d == [(0, [1, 3])] | _ => false) = true := by decide +kernel

end Props.C05K
