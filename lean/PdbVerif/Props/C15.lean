/-
  C15 — derived databases are faithful snapshots and independent afterwards.
  Property theorems only.  `roundtrip` (export as PDB text, parse again) is a parameter: cluster A's C01 / C02
  say what it does to a table; here it is applied once, at the moment of the derivation.
  In the model every object owns its tables by construction; what makes this true of the code is "one private
  SQLite connection per object", which is what the correspondence run (histories over a growing family of
  objects, every live object compared after every step) exercises.
-/
import PdbVerif.Proofs.TableAssign
import PdbVerif.Proofs.TableWorld
import PdbVerif.Proofs.TableWorldText
import PdbVerif.Props.C02
import PdbVerif.Props.C03

set_option linter.unusedVariables false
set_option linter.unusedSimpArgs false

namespace Props.C15
open Tbl Model TableProofs

/-- the rows a derivation exports are the atoms the property selects, in order, as they are at that moment -/
theorem export_is_selection (db : Db) (hwf : WF db) (tn : Py.Str) (tab : Tab) (htab : findTab db tn = some tab)
    (kw : List Kw) (hk : KeysOK db kw) (hr : RowIDInts kw) (hnm : db.nModel = 0)
    (hmany : Spec.tooMany Gen.max_sql_values Gen.SQLITE_LIMIT_VARIABLE_NUMBER kw = false) :
    ∃ rows, Spec.snapshotRows db.extra tab.rows kw = some rows ∧ exportRows db tn kw = .ok rows := by
  obtain ⟨q, hq⟩ := mapM_condOf_ok db kw hk
  refine ⟨(Spec.selected db.extra tab.rows q).map (·.1), ?_, ?_⟩
  · unfold Spec.snapshotRows
    show (kw.mapM (Spec.condOf db.extraNames)).map _ = _
    rw [hq]; rfl
  · unfold exportRows
    have hids := updIds_eq db hwf tn tab htab kw hk hr hnm hmany q hq
    unfold updIds at hids
    simp only [htab, hids, posInts, List.filterMap_map]
    congr 1
    have key : ∀ (l : List (Row × Nat)), (∀ rp ∈ l, rp ∈ tab.rows.zipIdx) →
        l.filterMap ((fun i : Int => if i < 0 then none else tab.rows[i.toNat]?) ∘ fun rp => (rp.2 : Int)) = l.map (·.1) := by
      intro l
      induction l with
      | nil => intro _; rfl
      | cons a t ih =>
        intro hm
        have ha := List.mem_zipIdx' (x := a.1) (i := a.2) (hm a (by simp))
        have : ((fun i : Int => if i < 0 then none else tab.rows[i.toNat]?) ∘ fun rp : Row × Nat => (rp.2 : Int)) a = some a.1 := by
          simp only [Function.comp]
          have h0 : ¬ ((a.2 : Int) < 0) := by omega
          simp only [h0, if_false, Int.toNat_natCast, List.getElem?_eq_getElem ha.1, ha.2]
        rw [List.filterMap_cons_some this, ih (fun rp hrp => hm rp (List.mem_cons_of_mem _ hrp))]
        rfl
    exact key _ (fun rp hrp => (List.mem_filter.1 hrp).1)

/-- **snapshot**: the object a sub-selection call returns holds exactly the selected atoms, in order, with the
    attribute values the source has at that moment (whatever modifications came before), after one text round
    trip; an empty selection raises and creates nothing -/
theorem snapshot (rt : Table → Table) (w : World) (k : Nat) (o : Obj) (hk : w[k]? = some o) (hkind : o.kind = .single)
    (t0 : Tab) (rest : List Tab) (htabs : o.db.tabs = t0 :: rest) (hwf : WF o.db)
    (kw : List Kw) (hkeys : KeysOK o.db kw) (hr : RowIDInts kw) (hnm : o.db.nModel = 0)
    (hmany : Spec.tooMany Gen.max_sql_values Gen.SQLITE_LIMIT_VARIABLE_NUMBER kw = false) :
    ∃ rows, Spec.snapshotRows o.db.extra t0.rows kw = some rows ∧
      wstep rt w (.deriveSub k kw) =
        (if rows.isEmpty then (w, .error .indexError)
         else (w ++ [{ kind := .single, db := { tabs := [{ name := t0.name, rows := rt rows }] } }], .ok ())) := by
  have hfind : findTab o.db t0.name = some t0 := by
    unfold findTab; rw [htabs]
    exact List.find?_cons_of_pos (by simp [ciEq])
  obtain ⟨rows, h1, h2⟩ := export_is_selection o.db hwf t0.name t0 hfind kw hkeys hr hnm hmany
  refine ⟨rows, h1, ?_⟩
  simp only [wstep, derive, hk, hkind, htabs, h2, newTable]
  by_cases he : rows.isEmpty = true <;> simp [he]

/-- **independence, one step**: a step that is not a modification of object `j` leaves object `j` as it is
    (derivations only add an object; a modification changes the object it addresses) -/
theorem independence_step (rt : Table → Table) (w : World) (op : WOp) (j : Nat) (hj : j < w.length)
    (hop : ∀ m, op ≠ .modify j m) : (wstep rt w op).1[j]? = w[j]? := by
  cases op with
  | modify k m =>
    have hkj : k ≠ j := fun e => hop m (by rw [e])
    simp only [wstep]
    cases hk : w[k]? with
    | none => rfl
    | some o => simp [List.getElem?_set_ne hkj]
  | deriveSub k kw =>
    simp only [wstep]
    cases derive rt w (.deriveSub k kw) with
    | error e => rfl
    | ok o => simp [List.getElem?_append_left hj]
  | deriveInterface k =>
    simp only [wstep]
    cases derive rt w (.deriveInterface k) with
    | error e => rfl
    | ok o => simp [List.getElem?_append_left hj]
  | deriveMany ks =>
    simp only [wstep]
    cases derive rt w (.deriveMany ks) with
    | error e => rfl
    | ok o => simp [List.getElem?_append_left hj]

/-- **independence over histories** (induction on the history): whatever happens to the other objects —
    modifications, derivations from them or from object `j` itself — object `j` is exactly what its own
    modifications made of it; in particular, with no modification of `j` in the history it is unchanged -/
theorem independence (rt : Table → Table) : ∀ (ops : List WOp) (w : World) (j : Nat), j < w.length →
    (∀ op ∈ ops, ∀ m, op ≠ .modify j m) → (wrun rt w ops)[j]? = w[j]?
  | [], w, j, _, _ => rfl
  | op :: rest, w, j, hj, hops => by
    have hrun : wrun rt w (op :: rest) = wrun rt (wstep rt w op).1 rest := rfl
    rw [hrun, independence rt rest _ j (Nat.lt_of_lt_of_le hj (TableProofs.wstep_length rt w op))
      (fun o ho => hops o (List.mem_cons_of_mem _ ho))]
    exact independence_step rt w op j hj (hops op (by simp))

/-- a modification of object `k` is the C04 step on that object's own state, and on nothing else -/
theorem modify_is_own_step (rt : Table → Table) (w : World) (k : Nat) (o : Obj) (hk : w[k]? = some o) (m : Op) :
    (wstep rt w (.modify k m)).1[k]? = some { o with db := (Model.step o.db m).1 } ∧
    (wstep rt w (.modify k m)).1.length = w.length := by
  obtain ⟨hlt, heq⟩ := List.getElem?_eq_some_iff.1 hk
  simp [wstep, hk, hlt, heq]

/-- a derived object does not alias its source: after the derivation the source is as before, and a later
    modification of either leaves the other unchanged (instances of `independence_step`) -/
theorem derived_and_source_independent (rt : Table → Table) (w : World) (d : WOp) (hd : ∀ k m, d ≠ .modify k m)
    (j : Nat) (hj : j < w.length) (m : Op) :
    (wstep rt w d).1[j]? = w[j]? ∧
    ∀ i, i ≠ j → i < (wstep rt w d).1.length →
      (wstep rt (wstep rt w d).1 (.modify j m)).1[i]? = (wstep rt w d).1[i]? := by
  refine ⟨independence_step rt w d j hj (fun m' => hd j m'), ?_⟩
  intro i hij hi
  exact independence_step rt _ (.modify j m) i hi (fun m' e => by injection e with e1 _; exact hij e1.symm)

/-! ### the round trip instantiated: `roundtrip := parse ∘ export` (cluster A's C01 / C02 models) -/

/-- on rows that fit the PDB columns (C02's `Fits`, non-blank chain, coordinates in range) the concrete round trip
    `Model.textRoundtrip` (every row written by the translated `data2pdb`, the lines parsed by the record loop) is,
    row by row and in order, `Proofs.Line.readBack`: model 0, no added columns -/
theorem roundtrip_is_readBack (T : Table) (h : ∀ r ∈ T, RowFits r) : Model.textRoundtrip T = T.map rbRow :=
  textRoundtrip_eq T h

/-- **snapshot to PDB text precision**: with the concrete round trip, the object a sub-selection call returns
    holds, row by row and in order, the read-back of the source's selected rows as they are at that moment —
    text and integer attributes identical, every coordinate within half a unit of the precision it was printed
    with, occupancy and B-factor within 0.005 (`Spec.readBackOK`, C02's criterion) -/
theorem snapshot_text_precision (w : World) (k : Nat) (o : Obj) (hk : w[k]? = some o) (hkind : o.kind = .single)
    (t0 : Tab) (rest : List Tab) (htabs : o.db.tabs = t0 :: rest) (hwf : WF o.db)
    (kw : List Kw) (hkeys : KeysOK o.db kw) (hr : RowIDInts kw) (hnm : o.db.nModel = 0)
    (hmany : Spec.tooMany Gen.max_sql_values Gen.SQLITE_LIMIT_VARIABLE_NUMBER kw = false)
    (hfits : ∀ r ∈ t0.rows, RowFits r) :
    ∃ rows, Spec.snapshotRows o.db.extra t0.rows kw = some rows ∧
      wstep Model.textRoundtrip w (.deriveSub k kw) =
        (if rows.isEmpty then (w, .error .indexError)
         else (w ++ [{ kind := .single, db := { tabs := [{ name := t0.name, rows := rows.map rbRow }] } }], .ok ())) ∧
      ∀ r ∈ rows, Spec.readBackOK r.atom (rbRow r).atom (Proofs.Xyz.xyzClass r.atom.x) (Proofs.Xyz.xyzClass r.atom.y)
        (Proofs.Xyz.xyzClass r.atom.z) = true := by
  obtain ⟨rows, h1, h2⟩ := snapshot Model.textRoundtrip w k o hk hkind t0 rest htabs hwf kw hkeys hr hnm hmany
  have hsub : ∀ r ∈ rows, r ∈ t0.rows := by
    intro r hr'
    unfold Spec.snapshotRows at h1
    cases hq : kw.mapM (Spec.condOf (o.db.extra.map (·.name))) with
    | none => rw [hq] at h1; cases h1
    | some q =>
      rw [hq] at h1
      simp only [Option.map_some, Option.some.injEq] at h1
      subst h1
      obtain ⟨rp, hrp, rfl⟩ := List.mem_map.1 hr'
      exact mem_of_mem_zipIdx _ _ (List.mem_filter.1 hrp).1
  refine ⟨rows, h1, ?_, ?_⟩
  · rw [h2, textRoundtrip_eq rows (fun r hr' => hfits r (hsub r hr'))]
  · intro r _
    exact Proofs.Line.readBackOK_export r.atom

/-- **idempotence**: deriving again from the derivative changes nothing further (off the two coordinate values
    999999.5 / −99999.5 where a second export switches precision, cf. C02's `reexport_value_drift_at_threshold`) -/
theorem derive_again_changes_nothing (T : Table) (h : ∀ r ∈ T, RowFits r) (ho : ∀ r ∈ T, OffThresholds r) :
    Model.textRoundtrip (Model.textRoundtrip T) = Model.textRoundtrip T :=
  textRoundtrip_idem T h ho

/-- non-vacuity: C02's demonstration row fits, so a table made of it satisfies `RowFits` -/
example : ∀ r ∈ [({ atom := Props.C02.demo, extra := [.int 3] } : Row)], RowFits r := by
  intro r hr
  simp only [List.mem_singleton] at hr; subst hr
  exact Props.C02.demo_fits

/-- non-vacuity of `snapshot`: a one-object world and a selection by chain satisfy its hypotheses; and a concrete
    history (derive, then modify the source) leaves the derivative untouched by `independence` -/
example :
    let w : World := [⟨.single, Props.C03.exDb⟩]
    let kw : List Kw := [⟨"chainID".toList, .scalar (.text "A".toList)⟩]
    w[0]? = some ⟨.single, Props.C03.exDb⟩ ∧ KeysOK Props.C03.exDb kw ∧ RowIDInts kw ∧
    Spec.tooMany Gen.max_sql_values Gen.SQLITE_LIMIT_VARIABLE_NUMBER kw = false ∧
    (∀ op ∈ [WOp.deriveSub 0 kw, WOp.modify 0 (.updateColumn "x".toList [.real 9] none "atom".toList)], ∀ m, op ≠ WOp.modify 1 m) :=
  ⟨rfl, by unfold KeysOK; decide, rowIDInts_of_check _ (by decide), by decide, by
    intro op hop m
    simp only [List.mem_cons, List.not_mem_nil, or_false] at hop
    rcases hop with rfl | rfl
    · intro h; cases h
    · intro h; injection h with h1 _; exact absurd h1 (by decide)⟩

end Props.C15
