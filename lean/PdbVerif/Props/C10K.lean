/-
  C10 — translated kernels (tie #1).  `GenK.*` (Gen/Kernels.lean) is regenerated from the NumPy glue code of the source on
  every run by py/translate_ext_kernels.py; each theorem below states that the regenerated definition IS the hand model the
  theorems of Props/C10.lean are about (or transfers such a theorem), so those theorems hold of the code as it is now.
  Statements are those of Proofs/GenKernels.lean (shown by `#check` in the audit); restated through `type_of%`.
-/
import PdbVerif.Proofs.GenKernels

namespace Props.C10K

theorem genk_rotate_eq_model : type_of% @Proofs.GenKernels.genk_rotate_eq_model := @Proofs.GenKernels.genk_rotate_eq_model
theorem genk_rot_xyz_around_axis_eq_model : type_of% @Proofs.GenKernels.genk_rot_xyz_around_axis_eq_model := @Proofs.GenKernels.genk_rot_xyz_around_axis_eq_model
theorem genk_rotation_euler_eq_model : type_of% @Proofs.GenKernels.genk_rotation_euler_eq_model := @Proofs.GenKernels.genk_rotation_euler_eq_model
theorem genk_translation_eq_model : type_of% @Proofs.GenKernels.genk_translation_eq_model := @Proofs.GenKernels.genk_translation_eq_model
theorem genk_rot_axis_eq_model : type_of% @Proofs.GenKernels.genk_rot_axis_eq_model := @Proofs.GenKernels.genk_rot_axis_eq_model
theorem genk_rot_euler_eq_model : type_of% @Proofs.GenKernels.genk_rot_euler_eq_model := @Proofs.GenKernels.genk_rot_euler_eq_model
theorem genk_rot_mat_eq_model : type_of% @Proofs.GenKernels.genk_rot_mat_eq_model := @Proofs.GenKernels.genk_rot_mat_eq_model
theorem genk_translation_eq_model_db : type_of% @Proofs.GenKernels.genk_translation_eq_model_db := @Proofs.GenKernels.genk_translation_eq_model_db
theorem genk_rot_axis_eq_model_db : type_of% @Proofs.GenKernels.genk_rot_axis_eq_model_db := @Proofs.GenKernels.genk_rot_axis_eq_model_db
theorem genk_rot_euler_eq_model_db : type_of% @Proofs.GenKernels.genk_rot_euler_eq_model_db := @Proofs.GenKernels.genk_rot_euler_eq_model_db
theorem genk_rot_mat_eq_model_db : type_of% @Proofs.GenKernels.genk_rot_mat_eq_model_db := @Proofs.GenKernels.genk_rot_mat_eq_model_db
theorem genk_rotate_inverse : type_of% @Proofs.GenKernels.genk_rotate_inverse := @Proofs.GenKernels.genk_rotate_inverse

end Props.C10K
