/-
  C02 — `sql2pdb`, `data2pdb` and `exportpdb` TRANSLATED from the source (Gen/Fx.lean, regenerated on every run by
  py/translate_ext_fx.py) ARE the hand model of Model/Export.lean the C02 file theorems (`export_readlines`, `file_roundtrip`,
  `export_append_no_glue`) are about: the lines are `Model.data2pdb` of the rows `get` returns for all fourteen columns, and the file
  holds `Model.exportText` of them (after the old text when `append=True`: `Model.appendText`).
  Statements and proofs are those of Proofs/GenFx.lean / Proofs/GenFxFiles.lean, restated through `type_of%`.
-/
import PdbVerif.Proofs.GenFxFiles

namespace Props.C02K
open Proofs.GenFx Py

theorem genf_data2pdb_eq_model : type_of% @Proofs.GenFx.genf_data2pdb_eq_model := @Proofs.GenFx.genf_data2pdb_eq_model
/-- `sql2pdb` = `get <all columns> >>= Model.data2pdb` -/
theorem genf_sql2pdb_eq_model : type_of% @Proofs.GenFx.genf_sql2pdb_eq_model := @Proofs.GenFx.genf_sql2pdb_eq_model
/-- the column string is the fourteen columns in table order -/
theorem genf_sql2pdb_columns : type_of% @Proofs.GenFx.sql2pdbCols_eq := @Proofs.GenFx.sql2pdbCols_eq
/-- `exportpdb`, written out: open (`'a'` iff `append`) before the rows are fetched; one write per line, the line + newline; close -/
theorem genf_exportpdb_normal_form : type_of% @Proofs.GenFx.exportpdb_nf := @Proofs.GenFx.exportpdb_nf
/-- the text the file holds afterwards = `Model.exportText` / `Model.appendText`; no other file changes -/
theorem genf_exportpdb_text : type_of% @Proofs.GenFx.genf_exportpdb_text := @Proofs.GenFx.genf_exportpdb_text

/-! ### non-vacuity -/

def demoRow : Py.Atom :=
  { serial := 1, name := "CA".toList, altLoc := [], resName := "ALA".toList, chainID := "A".toList, resSeq := 1, iCode := [],
    x := 1, y := 2, z := 3, occ := 1, temp := 0, element := "C".toList, model := 0 }

/-- one row: one 80-column line, the text is the line and a newline -/
example : (GenF.sql2pdb (K := Unit) (fun _ _ _ => .ok [demoRow]) "atom".toList ()).toOption.map (·.map List.length) = some [80] := by
  rw [genf_sql2pdb_eq_model]; decide +kernel

example : Model.exportText ["ab".toList, "c".toList] = "ab\nc\n".toList := by decide

end Props.C02K
