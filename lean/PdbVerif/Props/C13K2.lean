/-
  C13 — the translated body of `superpose()` and of `superpose.get_intersection` (tie #1).  `GenSup.*` (Gen/Sup.lean) is regenerated
  from superpose.py on every run by py/translate_ext_sup.py; each theorem below states that the regenerated definition IS the hand
  model the theorems of Props/C13.lean are about (`Model.SupDb.superpose`, `Model.SupDb.getIntersection`), for every input, error
  branches inside the equation — so those theorems hold of the code as it is now.  World: `pdb2sql(.)` and the rotation kernel are
  parameters; the three many2sql operations are the hand model's own steps (Proofs/GenSupWorld.lean).
  Statements are those of Proofs/GenSup*.lean (shown by `#check` in the audit); restated through `type_of%`.
-/
import PdbVerif.Proofs.GenSup
import PdbVerif.Proofs.GenSupClosed

namespace Props.C13K2
open Py Proofs.GenSupWorld

/-- `superpose(mobile, target, method, only_backbone, export, **kwargs)` = the hand model: same updated table, same exception, same
    files, for sources or databases, every method / option combination / keyword dictionary over the columns -/
theorem gensup_superpose_eq_model : type_of% @Proofs.SupTie.gensup_superpose_eq_model := @Proofs.SupTie.gensup_superpose_eq_model
/-- the same when both arguments are databases (the form the C13 theorems use) -/
theorem gensup_superpose_core : type_of% @Proofs.SupTie.superpose_core := @Proofs.SupTie.superpose_core
/-- `get_intersection(db1, db2, **kwargs)` = `Model.SupDb.getIntersection` (pairs cut into the two arrays) -/
theorem gensup_get_intersection_eq_model : type_of% @Proofs.SupTie.gensup_get_intersection_eq_model := @Proofs.SupTie.gensup_get_intersection_eq_model
/-- `kwargs['name'] = backbone_atoms` on a dictionary without `name` adds exactly the condition "name is a backbone name" -/
theorem gensup_kwTest_setItem : type_of% @Proofs.SupTie.kwTest_setItem := @Proofs.SupTie.kwTest_setItem
/-- `.rstrip('.pdb')` is the model's `rstripPdb` (a character SET is stripped) -/
theorem gensup_rstripChars_pdb : type_of% @Proofs.SupTie.rstripChars_pdb := @Proofs.SupTie.rstripChars_pdb

/-- `get_intersection` in every world that simulates the hand model's many2sql steps IS `Model.SupDb.getIntersection` -/
theorem gensup_get_intersection_eq_model_world : type_of% @Proofs.SupTie.gensup_get_intersection_eq_model_world := @Proofs.SupTie.gensup_get_intersection_eq_model_world
/-- `superpose()` sees the many2sql world only through `get_intersection` -/
theorem gensup_superpose_world : type_of% @Proofs.SupTie.superpose_world := @Proofs.SupTie.superpose_world
/-- `superpose()` = the hand model in every such world -/
theorem gensup_superpose_eq_model_world : type_of% @Proofs.SupTie.gensup_superpose_eq_model_world := @Proofs.SupTie.gensup_superpose_eq_model_world
/-- the hand model's own world is one (non-vacuity of `Simulates`) -/
theorem gensup_simulates_self : type_of% @Proofs.SupTie.simulates_self := @Proofs.SupTie.simulates_self

/-! ### non-vacuity: the generated function runs on a concrete pair and lands the displaced copy back -/

def exA (n : Str) (s : Int) (x : Rat) : Atom :=
  { serial := s, name := n, altLoc := [], resName := ['A','L','A'], chainID := ['A'], resSeq := 1, iCode := [],
    x := x, y := 0, z := 0, occ := 1, temp := 0, element := ['C'], model := 0 }
def exTar : List Atom := [exA ['N'] 1 0, exA ['C','A'] 2 1, exA ['C','B'] 3 3]
def exMob : List Atom := [exA ['N'] 1 5, exA ['C','A'] 2 6, exA ['C','B'] 3 9]
/-- a kernel that satisfies the hypothesis of the theorems (it rejects the empty selection), otherwise the identity -/
def exKernel : List (Vec3 Rat) → List (Vec3 Rat) → Unit → Except Err (Mat3 Rat) :=
  fun P _ _ => if P.isEmpty then .error .typeError else .ok Mat3.one

example : ∀ R, exKernel [] [] () ≠ .ok R := fun _ h => by cases h
/-- empty selection: the generated function raises what the kernel raises (here the kernel's TypeError; ValueError for an unknown method) -/
example : (GenSup.superpose (σ := Unit) (fun _ => .error .typeError) many2sql many2sqlCall many2sqlGetIntersection
      (fun _ _ _ => .error .valueError) (.inr ⟨exMob, none⟩) (.inr ⟨exTar, none⟩) () false false [(['c','h','a','i','n','I','D'], [.text ['Q']])]) =
    .error .valueError := by decide +kernel
example : GenSup.Rt.kwCheck [(['c','h','a','i','n','I','D'], [.text ['A']])] = .ok () := by decide
example : GenSup.Rt.kwCheck [(['n','o','_','n','a','m','e'], [.text ['H']])] = .ok () := by decide
example : GenSup.Rt.kwCheck [(['f','o','o'], [.text ['H']])] = .error .valueError := by decide

/-- only_backbone, no export: N and CA are fitted (the CB is not selected), all three atoms are moved -/
example : (GenSup.superpose (σ := Unit) (fun _ => .error .typeError) many2sql many2sqlCall many2sqlGetIntersection exKernel
      (.inr ⟨exMob, none⟩) (.inr ⟨exTar, none⟩) () true false []) =
    .ok (⟨[exA ['N'] 1 0, exA ['C','A'] 2 1, exA ['C','B'] 3 4], none⟩, []) := by decide +kernel

/-- `name` given together with only_backbone: ValueError -/
example : (GenSup.superpose (σ := Unit) (fun _ => .error .typeError) many2sql many2sqlCall many2sqlGetIntersection exKernel
      (.inr ⟨exMob, none⟩) (.inr ⟨exTar, none⟩) () true false [(['n','a','m','e'], [.text ['C','A']])]) =
    .error .valueError := by decide +kernel

/-- a source that `pdb2sql` opens -/
example : (GenSup.superpose (σ := Unit) (fun _ => .ok ⟨exMob, none⟩) many2sql many2sqlCall many2sqlGetIntersection exKernel
      (.inl ()) (.inr ⟨exTar, none⟩) () false false [(['n','a','m','e'], [.text ['C','A']])]) =
    .ok (⟨[exA ['N'] 1 0, exA ['C','A'] 2 1, exA ['C','B'] 3 4], none⟩, []) := by decide +kernel

/-- export: every atom fitted; the file name is built from the two base names with the character set of `.pdb` stripped -/
example : (GenSup.superpose (σ := Unit) (fun _ => .error .typeError) many2sql many2sqlCall many2sqlGetIntersection exKernel
      (.inr ⟨exMob, some ['i','n','/','m','o','b','.','p','d','b']⟩) (.inr ⟨exTar, some ['i','n','/','t','a','r','.','p','d','b']⟩) () false true []).map
        (fun r => (r.1.rows.map (·.x), r.2.map (·.1))) =
    (.ok ([-1/3, 2/3, 11/3], [['m','o','_','s','u','p','e','r','p','o','s','e','d','_','o','n','_','t','a','r','.','p','d','b']]) : Except Err _) := by decide +kernel

/-- different atoms on the two sides (the target has no N): the `get_intersection` route pairs CA with CA and CB with CB -/
example : (GenSup.superpose (σ := Unit) (fun _ => .error .typeError) many2sql many2sqlCall many2sqlGetIntersection exKernel
      (.inr ⟨exMob, none⟩) (.inr ⟨exTar.drop 1, none⟩) () false false []).map (fun r => r.1.rows.map (·.x)) =
    (.ok [-1/2, 1/2, 7/2] : Except Err _) := by decide +kernel

/-- export from a database that was not built from a file: TypeError (after the table was updated) -/
example : (GenSup.superpose (σ := Unit) (fun _ => .error .typeError) many2sql many2sqlCall many2sqlGetIntersection exKernel
      (.inr ⟨exMob, none⟩) (.inr ⟨exTar, none⟩) () false true []) = .error .typeError := by decide +kernel

example : GenSup.Rt.rstripChars "decoy_b.pdb".toList ".pdb".toList = "decoy_".toList := by decide

/-! ### the many2sql world closed by the TRANSLATED many2sql functions (Gen/Many.lean): `GenM.many2sql_init`, `GenM.many2sql_call` on the text
    side and the translated statement text through MicroSql (Proofs/GenSupClosed.lean).  The general equality for this world is conditional
    (`Simulates`, see that file for what is missing); on concrete structures it is decided by kernel evaluation. -/
open Proofs.SupTie.Closed in
set_option maxRecDepth 16000 in
/-- `get_intersection` through the translated many2sql = `Model.SupDb.getIntersection` (the target has no N: CA, CB are paired) -/
example : GenSup.get_intersection many2sqlT many2sqlCallT many2sqlGetIntersectionT ⟨exMob, none⟩ ⟨exTar.drop 1, none⟩ [] =
    (Model.SupDb.getIntersection exMob (exTar.drop 1) (GenSup.Rt.kwTest [])).map (fun pairs => (pairs.map (·.1), pairs.map (·.2))) := by
  decide +kernel

open Proofs.SupTie.Closed in
set_option maxRecDepth 16000 in
/-- … with a keyword selection, and the IndexError of an empty structure -/
example : GenSup.get_intersection many2sqlT many2sqlCallT many2sqlGetIntersectionT ⟨exMob, none⟩ ⟨exTar.drop 1, none⟩ [(['n','a','m','e'], [.text ['C','A']])] =
    .ok ([⟨6, 0, 0⟩], [⟨1, 0, 0⟩]) ∧
    GenSup.get_intersection many2sqlT many2sqlCallT many2sqlGetIntersectionT ⟨[], none⟩ ⟨exTar, none⟩ [] = .error .indexError := by
  decide +kernel

open Proofs.SupTie.Closed in
set_option maxRecDepth 16000 in
/-- `superpose()` through the translated many2sql on the intersection route = the same call in the hand model's world = the hand model -/
example : GenSup.superpose (σ := Unit) (fun _ => .error .typeError) many2sqlT many2sqlCallT many2sqlGetIntersectionT exKernel
      (.inr ⟨exMob, none⟩) (.inr ⟨exTar.drop 1, none⟩) () false false [] =
    (Model.SupDb.superpose (fun P Q => exKernel P Q ()) ⟨exMob, none⟩ ⟨exTar.drop 1, none⟩ (argsOf false false [])).map (outOf ⟨exMob, none⟩) := by
  decide +kernel

end Props.C13K2
