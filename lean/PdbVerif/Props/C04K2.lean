/-
  C04 — the translation tie of `_fix_chainID` (tie #1).  `GenP._fix_chainID` (Gen/ParseLoop.lean) is a statement-by-statement
  translation of `pdb2sql._fix_chainID`, regenerated from pdb2sqlcore.py on every run: `self.get` = `Model.get` (whose SQL text tie is
  Props/C03K), the final `self.update_column('chainID', newID)` is returned and run by `Model.updateColumn` (its SQL text tie is
  Props/C04K).  The theorems state that the hand model `Model.fixChainID` the theorem `fix_chainID_spec` of Props/C04.lean is about
  IS that translation.  Statements and proofs are those of Proofs/GenParseChain.lean, restated through `type_of%`.
-/
import PdbVerif.Proofs.GenParseChain

namespace Props.C04K2
open Py Tbl Proofs.GenParse

/-- the inner loop `for ind in index: newID[ind] = ascii_uppercase[ic]` = the model's loop of `Model.setNewID` for every index list (`ic < 26`) -/
theorem fix_chainID_for_ind_nf : type_of% @Proofs.GenParse.fix_chainID_for_ind_nf := @Proofs.GenParse.fix_chainID_for_ind_nf
/-- the outer loop `for ic, chain in enumerate(chainID)` = `Model.fillNewID` -/
theorem fix_chainID_for_ic_chain_nf : type_of% @Proofs.GenParse.fix_chainID_for_ic_chain_nf := @Proofs.GenParse.fix_chainID_for_ic_chain_nf
/-- **`_fix_chainID` = `Model.fixChainID`** for EVERY database; TypeError (per-model answer), SystemExit (more than 26 chains),
    IndexError (`newID[ind]` outside the list) and every exception of `get` / `update_column` inside the equation -/
theorem genp_fix_chainID_eq_model : type_of% @Proofs.GenParse.genp_fix_chainID_eq_model := @Proofs.GenParse.genp_fix_chainID_eq_model
/-- the same under the hypotheses of `fix_chainID_spec` (kept; the hypotheses are not used) -/
theorem genp_fix_chainID_eq_model_wf : type_of% @Proofs.GenParse.genp_fix_chainID_eq_model_wf := @Proofs.GenParse.genp_fix_chainID_eq_model_wf
/-- … hence the translated function renames the chains A, B, C, … by rank (`Spec.fixChains`) and touches nothing else -/
theorem genp_fix_chainID_spec : type_of% @Proofs.GenParse.genp_fix_chainID_spec := @Proofs.GenParse.genp_fix_chainID_spec

/-! ### non-vacuity -/

def exAtom (serial : Int) (chain : String) : Py.Atom :=
  { serial := serial, name := "CA".toList, altLoc := [], resName := "ALA".toList, chainID := chain.toList, resSeq := 5, iCode := [],
    x := 1, y := 0, z := 0, occ := 1, temp := 0, element := "C".toList, model := 0 }

def exDb : Db := { tabs := [⟨"ATOM".toList, [⟨exAtom 1 "X", []⟩, ⟨exAtom 2 "B", []⟩, ⟨exAtom 3 "X", []⟩]⟩] }

/-- chains X, B, X: the translated function returns ONE `update_column('chainID', ['B', 'A', 'B'])` -/
example : GenP._fix_chainID exDb =
    .ok [GenP.Rt.TFx.update_column "chainID".toList [.text "B".toList, .text "A".toList, .text "B".toList] "ATOM".toList] := by
  decide +kernel

/-- … and running it leaves the table with those chain identifiers -/
example : ((GenP.Rt.runMethod exDb (GenP._fix_chainID exDb)).1.tabs.map (fun t => t.rows.map (fun r => r.atom.chainID))) =
    [["B".toList, "A".toList, "B".toList]] := by decide +kernel

/-- with ENDMDL records in the input (`_nModel > 0`) `get` answers per model and `set(..)` of it is a TypeError: inside the equation -/
example : GenP._fix_chainID { exDb with nModel := 1 } = .error .typeError := by decide +kernel

end Props.C04K2
