/-
  C20 — file-backed databases: complete or empty at any crash; file names are data.   Property theorems only.

  `Spec.C20`  : scenarios (`Op`), the abstract course (`spec`: table held, last commit point), `Read`, `CompleteTable`
  `Model.C20` : store model of a `pdb2sql(…, sqlfile=p)` object — disk image per path, session with pending changes,
                rollback journal, file-system actions; paths are an abstract type
  `Gen.effects`: the effectful calls of the library source, regenerated from /repo on every run

  The model is tied to the code by py/props/c20.py (every scenario run for real and read back by a stock sqlite3
  connection; kills before every statement / commit / close; syscall-level kills inside commit; hostile file names)
  and by the `Gen.effects` obligations below.  TRUSTED: SQLite's journal makes `commit` one atomic step and a crash
  loses exactly the pending changes; the OS removes exactly the named file.
-/
import PdbVerif.Gen.Effects
import PdbVerif.Spec.C20
import PdbVerif.Model.Store
import PdbVerif.Proofs.EffectsStore

set_option linter.unusedVariables false

namespace Props.C20
open Spec.C20 Model.C20 Proofs.Store

section
variable {P Row : Type} [DecidableEq P]

/-- **crash_atomic** — for every scenario and every crash point `k` (a process death after the first `k` operations:
    before every statement, every row of the bulk insert, every commit, every close), a fresh reader finds exactly
    the table as of the last commit point of what was executed … -/
theorem crash_atomic (journal : P → P) (p : P) (hj : journal p ≠ p) (w : World P Row) (ops : List (Op Row)) (k : Nat) :
    readBack (crash (run journal p w (ops.take k))) p = lastCommitted (readBack w p) (ops.take k) :=
  readBack_eq_seen journal p hj w (ops.take k)

/-- … which is what was there before the object existed, or no atoms, or a *complete* table: the whole table the
    object held at a moment with nothing uncommitted — never a strict part of a table (rows of an unfinished bulk
    insert) and never a half-applied update. -/
theorem crash_never_partial (journal : P → P) (p : P) (hj : journal p ≠ p) (w : World P Row) (ops : List (Op Row)) (k : Nat) :
    let r := readBack (crash (run journal p w (ops.take k))) p
    r = readBack w p ∨ r.noAtoms ∨ ∃ T, r = .table T ∧ CompleteTable (readBack w p) (ops.take k) T := by
  intro r
  have hr : r = lastCommitted (readBack w p) (ops.take k) := readBack_eq_seen journal p hj w (ops.take k)
  rcases seenOk_all (readBack w p) (ops.take k) with h | h | h | ⟨T, hT, hc⟩
  · exact Or.inl (hr.trans h.2)
  · exact Or.inr (Or.inl (by rw [hr]; unfold lastCommitted; rw [h]; trivial))
  · exact Or.inr (Or.inl (by rw [hr]; unfold lastCommitted; rw [h]; trivial))
  · exact Or.inr (Or.inr ⟨T, hr.trans hT, hc⟩)

/-- once the object exists (the scenario starts with its creation) the old content is never seen again:
    at every later crash point the file holds no atoms or a complete table -/
theorem crash_atomic_after_open (journal : P → P) (p : P) (hj : journal p ≠ p) (w : World P Row) (ops : List (Op Row)) (k : Nat) :
    let r := readBack (crash (run journal p w ((Op.openDb :: ops).take (k + 1)))) p
    r.noAtoms ∨ ∃ T, r = .table T ∧ CompleteTable (readBack w p) ((Op.openDb :: ops).take (k + 1)) T := by
  intro r
  have hr : r = lastCommitted (readBack w p) ((Op.openDb :: ops).take (k + 1)) := readBack_eq_seen journal p hj w _
  rcases seenOk_all (readBack w p) ((Op.openDb :: ops).take (k + 1)) with h | h | h | ⟨T, hT, hc⟩
  · exact absurd h.1 (by rw [List.take_succ_cons]; exact not_fresh_after_open _ _)
  · exact Or.inl (by rw [hr]; unfold lastCommitted; rw [h]; trivial)
  · exact Or.inl (by rw [hr]; unfold lastCommitted; rw [h]; trivial)
  · exact Or.inr ⟨T, hr.trans hT, hc⟩

/-- **keep_leaves_table** — closing in keep mode leaves a file that any reader opens to exactly the table the object held -/
theorem keep_leaves_table (journal : P → P) (p : P) (hj : journal p ≠ p) (w : World P Row) (s : List (Op Row))
    (hlive : Live (readBack w p) s) :
    readBack (run journal p w (s ++ [.closeKeep])).world p = heldRead (tableHeld (readBack w p) s) := by
  have h := readBack_eq_seen journal p hj w (s ++ [.closeKeep])
  unfold crash at h
  rw [h]; unfold lastCommitted tableHeld
  rw [spec_append]
  unfold Live at hlive
  simp [Sp.step, hlive]

/-- **remove_removes_exactly** — closing otherwise removes exactly that file: it is gone, and every path other than
    the file and its journal holds what it held before the object existed -/
theorem remove_removes_exactly (journal : P → P) (p : P) (hj : journal p ≠ p) (w : World P Row) (s : List (Op Row))
    (hlive : Live (readBack w p) s) :
    readBack (run journal p w (s ++ [.closeRemove])).world p = .noFile ∧
      ∀ q, q ≠ p → q ≠ journal p → (run journal p w (s ++ [.closeRemove])).world q = w q := by
  refine ⟨?_, fun q h1 h2 => run_frame journal p w _ q h1 h2⟩
  have h := readBack_eq_seen journal p hj w (s ++ [.closeRemove])
  unfold crash at h
  rw [h]; unfold lastCommitted
  rw [spec_append]
  unfold Live at hlive
  simp [Sp.step, hlive]

/-- no scenario ever touches a file other than the database and its journal (victim files are safe) -/
theorem victims_untouched (journal : P → P) (p : P) (w : World P Row) (ops : List (Op Row)) (q : P)
    (h1 : q ≠ p) (h2 : q ≠ journal p) : (run journal p w ops).world q = w q :=
  run_frame journal p w ops q h1 h2

/-- **names_are_data** — for every path `p` (the model cannot look inside a name: `P` is abstract) and every scenario,
    every file-system action of the object names only `p` or `p`'s journal and none involves a shell; and in the
    source, the calls of `_create_sql` and `_close` pass the name as a plain argument to `os.path.isfile`, `os.remove`,
    `sqlite3.connect` — no shell, no interpolation (re-decided on the regenerated call list). -/
theorem names_are_data (journal : P → P) (p : P) (w : World P Row) (ops : List (Op Row)) :
    (∀ e ∈ (run journal p w ops).trace, e.isShell = false ∧ ∀ q ∈ e.paths journal, q = p ∨ q = journal p) ∧
      (Gen.effects.filter (fun e => e.func == "pdb2sqlcore:pdb2sql._create_sql" || e.func == "pdb2sql_base:pdb2sql_base._close")).all
        (fun e => !e.shell && (e.shape == "name" || e.arg == "':memory:'") &&
          (e.callee == "os.path.isfile" || e.callee == "os.remove" || e.callee == "sqlite3.connect")) = true ∧
      Gen.effects.all (fun e => !e.shell && e.callee != "os.system" && e.callee != "os.popen" && e.callee != "sp.call" &&
          e.callee != "subprocess.call" && e.shape != "interpolated") = true :=
  ⟨run_trace journal p w ops, by decide, by decide⟩

end

/-! ### a concrete instance (non-vacuity)

  rows are numbers; the database is path 1, its journal path 101, a victim file lives at path 7 and an older database
  with one row at path 1 before the object is created. -/

def exWorld : World Nat Nat := fun q => if q = 7 then some .other else if q = 1 then some (.db (some [99])) else none
def exJournal : Nat → Nat := (· + 100)

/-- create (table + two rows), commit, modify, one more row, close(keep) -/
def exOps : List (Op Nat) :=
  [.openDb, .createTable, .insertRow 1, .insertRow 2, .commit, .update (· + 10), .insertRow 3, .closeKeep]

/-- every crash point of the scenario: old content, then no atoms (the rows of the unfinished bulk insert are never
    visible — the object holds `[1]` after 3 operations and `[1, 2]` after 4), then the committed table `[1, 2]` while
    the object already holds `[11, 12]` and `[11, 12, 3]`, finally the table it held when it was closed -/
example : (List.range 9).map (fun k => readBack (crash (run exJournal 1 exWorld (exOps.take k))) 1) =
    [.table [99], .noTable, .table [], .table [], .table [], .table [1, 2], .table [1, 2], .table [1, 2], .table [11, 12, 3]] := by
  decide

example : (List.range 9).map (fun k => tableHeld (.table [99]) (exOps.take k)) =
    [none, none, some [], some [1], some [1, 2], some [1, 2], some [11, 12], some [11, 12, 3], some [11, 12, 3]] := by
  decide

/-- `Live` and `CompleteTable` are satisfiable; the strict part `[1]` is not a complete table of the scenario's
    first four operations (it is held while a change is pending) -/
example : Live (.table [99]) (exOps.take 7) := by unfold Live; decide
example : CompleteTable (.table [99]) (exOps.take 6) [1, 2] := ⟨5, by decide, by unfold tableHeld; decide, by decide⟩

/-- DDL while nothing is pending is a commit point; after a pending update it is not -/
example : readBack (crash (run exJournal 1 exWorld [.openDb, .createTable, .insertRow 1, .commit, .addColumn (· * 2)])) 1 = .table [2] ∧
    readBack (crash (run exJournal 1 exWorld [.openDb, .createTable, .insertRow 1, .commit, .update (· + 1), .addColumn (· * 2)])) 1 = .table [1] := by
  decide

/-- close(remove): the file is gone, the victim is untouched, a hot journal of an unfinished transaction is removed -/
example : let s := run exJournal 1 exWorld [.openDb, .createTable, .insertRow 1, .closeRemove]
    readBack s.world 1 = .noFile ∧ (s.world 7).isSome ∧ (s.world 101).isNone ∧
    s.trace = [.isFile 1, .remove 1, .connect 1, .writeDb 1, .journalCreate 1, .journalDelete 1, .close 1, .isFile 1, .remove 1] := by
  decide

/-- regression: the pinned tree pasted the name into `rm %s` — the shell's words, not the name, were removed -/
theorem old_open_is_not_data (words : Nat → List Nat) (p victim : Nat) (hw : victim ∈ words p) (hv : victim ≠ p) (hv2 : victim ≠ exJournal p) :
    ∃ e ∈ openDbOldTrace words p, e.isShell = true ∧ ∃ q ∈ e.paths exJournal, q ≠ p ∧ q ≠ exJournal p :=
  ⟨.shell (words p), by simp [openDbOldTrace], rfl, victim, hw, hv, hv2⟩

end Props.C20
