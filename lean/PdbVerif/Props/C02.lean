/-
  C02 — export.  Property theorems only (helper lemmas in Proofs/).
-/
import Mathlib.Tactic.Linarith
import Mathlib.Tactic.NormNum
import PdbVerif.Gen.Str
import PdbVerif.Model.Parse
import PdbVerif.Spec.C02
import PdbVerif.Proofs.Str
import PdbVerif.Proofs.Digits
import PdbVerif.Proofs.Format
import PdbVerif.Proofs.FormatXyz
import PdbVerif.Proofs.FormatRoundtrip
import PdbVerif.Proofs.FormatReexport
import PdbVerif.Proofs.FormatCanonical
import PdbVerif.Proofs.FormatExport
import PdbVerif.Model.Export
import PdbVerif.Spec.C02Canonical
import PdbVerif.Proofs.Parse

set_option linter.unusedVariables false

namespace Props.C02
open Py

/-! ### 1. a coordinate always occupies exactly its 8 columns, or raises -/

/-- A coordinate that cannot be written in 8 columns raises instead of overflowing. -/
theorem xyz_out_of_range_raises (x : ℚ) (h : ¬ Spec.CoordInRange x) :
    Gen._format_xyz x = .error .valueError := by
  unfold Spec.CoordInRange at h
  unfold Gen._format_xyz
  have : x ≥ (199999999 : ℚ) / 2 ∨ x ≤ -((19999999 : ℚ) / 2) := by
    by_contra hc
    push Not at hc
    exact h ⟨by linarith [hc.2], hc.1⟩
  simp only [this, ↓reduceIte, throw, throwThe, MonadExceptOf.throw]

/-- Every coordinate in (−9999999.5, 99999999.5) is written, in exactly 8 columns (all four precision classes). -/
theorem xyz_width (x : ℚ) (h : Spec.CoordInRange x) : ∃ s, Gen._format_xyz x = .ok s ∧ s.length = 8 := by
  obtain ⟨s, h1, h2, _⟩ := Proofs.Xyz.xyz_ok x h
  exact ⟨s, h1, h2⟩

example : Spec.CoordInRange (19999991 / 20000) ∧ Spec.CoordInRange (-(1999 / 2)) ∧ Spec.CoordInRange (-(1 / 2500)) ∧
    Spec.CoordInRange (9999996 / 100) ∧ ¬ Spec.CoordInRange (199999999 / 2) := by
  unfold Spec.CoordInRange; norm_num

/-! ### 2. precision -/

/-- three decimals throughout the usual range (−999.5, 9999.5) -/
theorem xyz_precision (x : ℚ) (h1 : -(1999 : ℚ) / 2 < x) (h2 : x < (19999 : ℚ) / 2) :
    Gen._format_xyz x = .ok (fmtFloatR 8 3 x) ∧ Spec.decimalsOf (strip (fmtFloatR 8 3 x)) = 3 := by
  have hr : Spec.CoordInRange x := by constructor <;> linarith
  have := Proofs.Xyz.format_xyz_eq x hr
  rw [Proofs.Xyz.class_usual x h1 h2] at this
  exact ⟨this, by rw [strip_fmtFloatR, Proofs.Xyz.decimalsOf_fmtFixed]⟩

/-- in general: the field is `'{:>8.kf}'` with `k` at least the number of decimals the property demands
    (as many as fit in 8 columns, one fewer tolerated within half a unit of a power of ten), and it denotes `x`
    to within half a unit of its last digit -/
theorem xyz_precision_general (x : ℚ) (h : Spec.CoordInRange x) :
    ∃ k need, Gen._format_xyz x = .ok (fmtFloatR 8 k x) ∧ Spec.decimalsOf (strip (fmtFloatR 8 k x)) = k ∧
      Spec.neededDecimals x = some need ∧ need ≤ k ∧ Spec.coordOK x (fmtFloatR 8 k x) = true := by
  obtain ⟨need, hn, hle⟩ := Proofs.Xyz.needed_le x h
  exact ⟨_, need, Proofs.Xyz.format_xyz_eq x h, by rw [strip_fmtFloatR, Proofs.Xyz.decimalsOf_fmtFixed], hn, hle,
    Proofs.Xyz.coordOK_xyz x h⟩

/-! ### 3. printing and reading are inverse -/

/-- `int(line[a:b])` of a right-aligned `str(i)` is `i`, for every integer and width -/
theorem int_roundtrip (w : Nat) (i : Int) : parseInt (rjust w (intStr i)) = .ok i := parseInt_rjust_intStr w i

/-- `float(line[a:b])` of `'{:>w.kf}'.format(x)` is `x` rounded half-even to `k` decimals, exactly -/
theorem float_roundtrip (w k : Nat) (x : ℚ) : parseFloat (strip (fmtFloatR w k x)) = .ok (Py.round x k) := by
  rw [strip_fmtFloatR, parseFloat_fmtFixed]

/-- … which is within half a unit of the last printed digit of `x` -/
theorem round_within_half_unit (x : ℚ) (k : Nat) : |Py.round x k - x| ≤ Spec.halfUnit k := Proofs.Xyz.round_err x k

/-- padding a text without blanks at its ends and stripping gives the text back, for all three alignments -/
theorem strip_pad (w : Nat) (s : Str) (h : strip s = s) :
    strip (rjust w s) = s ∧ strip (ljust w s) = s ∧ strip (center w s) = s := by
  rw [strip_rjust, strip_ljust, strip_center, h]; exact ⟨rfl, rfl, rfl⟩

example : strip "CA".toList = "CA".toList := by decide

/-! ### 4. the line -/

/-- Every row whose values fit their field widths is written as a line of exactly 80 columns … -/
theorem line_width (a : Atom) (hf : Spec.Fits a) (hx : Spec.CoordInRange a.x) (hy : Spec.CoordInRange a.y)
    (hz : Spec.CoordInRange a.z) : ∃ l, Gen.data2pdb_line a = .ok l ∧ l.length = 80 :=
  ⟨_, Proofs.Line.export_eq a hf hx hy hz, Proofs.Line.line_length (Proofs.Line.export_wf a hf hx hy hz)⟩

/-- … with every attribute in its wwPDB columns: record name 1–6, serial 7–11, name 13–16 (aligned by the documented
    rule), altLoc 17, resName 18–20, chain 22, resSeq 23–26, iCode 27, x 31–38, y 39–46, z 47–54 (8 columns, enough
    decimals, value to half a unit), occupancy 55–60, B-factor 61–66 (within 0.005), element 77–78, blanks elsewhere. -/
theorem line_columns (a : Atom) (hf : Spec.Fits a) (hx : Spec.CoordInRange a.x) (hy : Spec.CoordInRange a.y)
    (hz : Spec.CoordInRange a.z) : ∃ l, Gen.data2pdb_line a = .ok l ∧ l.length = 80 ∧ Spec.lineFailures a l = [] :=
  ⟨_, Proofs.Line.export_eq a hf hx hy hz, Proofs.Line.line_length (Proofs.Line.export_wf a hf hx hy hz),
    Proofs.Line.lineFailures_nil a hf hx hy hz⟩

/-- a coordinate out of range makes the whole line raise -/
theorem line_out_of_range_raises (a : Atom) (hf : Spec.Fits a)
    (h : ¬ Spec.CoordInRange a.x ∨ ¬ Spec.CoordInRange a.y ∨ ¬ Spec.CoordInRange a.z) :
    Gen.data2pdb_line a = .error .valueError := by
  have n1 := hf.2.2.2.2.1
  have n4 := hf.2.2.2.2.2.1
  unfold Gen.data2pdb_line
  simp only [Proofs.Line.atomname_nameField a n1 n4, bind, Except.bind]
  by_cases hx : Spec.CoordInRange a.x
  · rw [Proofs.Xyz.format_xyz_eq _ hx]
    by_cases hy : Spec.CoordInRange a.y
    · rw [Proofs.Xyz.format_xyz_eq _ hy]
      have hz : ¬ Spec.CoordInRange a.z := by tauto
      simp only [xyz_out_of_range_raises _ hz]
    · simp only [xyz_out_of_range_raises _ hy]
  · simp only [xyz_out_of_range_raises _ hx]

/-- a concrete row with a 5-digit serial, negative resSeq, altLoc, iCode, a coordinate just below a switch
    threshold and a negative one -/
def demo : Atom :=
  { serial := 99999, name := "CA".toList, altLoc := "B".toList, resName := "ALA".toList, chainID := "A".toList,
    resSeq := -999, iCode := "C".toList, x := 99994996 / 10000, y := -(9995 / 10), z := -(4 / 10000),
    occ := 1, temp := 1038 / 100, element := "C".toList, model := 0 }

theorem demo_fits : Spec.Fits demo ∧ demo.chainID ≠ [] ∧
    Spec.CoordInRange demo.x ∧ Spec.CoordInRange demo.y ∧ Spec.CoordInRange demo.z := by
  unfold Spec.Fits Spec.CoordInRange demo
  refine ⟨⟨by norm_num, by norm_num, by norm_num, by norm_num, by decide, by decide, by decide, by decide, by decide,
    by decide, by decide, by decide, by decide, by decide, by decide, by decide, by decide, by decide, by decide,
    by norm_num, by norm_num, by norm_num, by norm_num, by decide, by decide, by decide, by decide, by decide,
    by decide⟩, by decide, by norm_num, by norm_num, by norm_num⟩

/-! ### 5. the round trip -/

/-- Reading the written line back (the record loop of C01 applied to it) gives the original row: text and integer
    attributes identical, every coordinate within half a unit of the precision it was printed with
    (`kx ky kz` decimals), occupancy and B-factor within 0.005.  (A blank chain cannot be read back — C01 demands that
    to raise — hence `a.chainID ≠ []`.) -/
theorem roundtrip (a : Atom) (hf : Spec.Fits a) (hch : a.chainID ≠ [])
    (hx : Spec.CoordInRange a.x) (hy : Spec.CoordInRange a.y) (hz : Spec.CoordInRange a.z) :
    ∃ b kx ky kz, (Gen.data2pdb_line a >>= fun l => Model.parseAtomLine l a.model) = .ok b.toRow ∧
      Gen._format_xyz a.x = .ok (fmtFloatR 8 kx a.x) ∧ Gen._format_xyz a.y = .ok (fmtFloatR 8 ky a.y) ∧
      Gen._format_xyz a.z = .ok (fmtFloatR 8 kz a.z) ∧
      Spec.readBackOK a b kx ky kz = true := by
  refine ⟨Proofs.Line.readBack a, _, _, _, ?_, Proofs.Xyz.format_xyz_eq _ hx, Proofs.Xyz.format_xyz_eq _ hy,
    Proofs.Xyz.format_xyz_eq _ hz, Proofs.Line.readBackOK_export a⟩
  rw [Proofs.Line.export_eq a hf hx hy hz]
  show Model.parseAtomLine _ _ = _
  rw [Proofs.Parse.parseAtomLine_eq, Proofs.Line.parseRecord_export a hf hch hx hy hz]
  rfl

example :=
  roundtrip demo demo_fits.1 demo_fits.2.1 demo_fits.2.2.1 demo_fits.2.2.2.1 demo_fits.2.2.2.2

/-- the row read back is the original with every real attribute rounded to its printed precision, and it fits again -/
theorem roundtrip_row_fits (a : Atom) (hf : Spec.Fits a) (hx : Spec.CoordInRange a.x) (hy : Spec.CoordInRange a.y)
    (hz : Spec.CoordInRange a.z) :
    Spec.Fits (Proofs.Line.readBack a) ∧ Spec.CoordInRange (Proofs.Line.readBack a).x ∧
      Spec.CoordInRange (Proofs.Line.readBack a).y ∧ Spec.CoordInRange (Proofs.Line.readBack a).z :=
  Proofs.Reexport.readBack_fits a hf hx hy hz

/-- Writing the table that was read back again denotes the same values — every coordinate field again denotes the value
    in `b` within half a unit of its own precision with enough decimals — and is the identical text: columns 1–30 and
    67–80 always; a coordinate field unless its value sits exactly on a format-switch threshold or is zero; occupancy and
    B-factor unless the value read back is zero (the first export may have printed `-0.00`; the exact-rational model has no
    negative zero) in which case the field still denotes it. -/
theorem reexport_ok (a : Atom) (hf : Spec.Fits a) (hch : a.chainID ≠ [])
    (hx : Spec.CoordInRange a.x) (hy : Spec.CoordInRange a.y) (hz : Spec.CoordInRange a.z) :
    ∃ b l1 l2, Gen.data2pdb_line a = .ok l1 ∧ Model.parseAtomLine l1 a.model = .ok b.toRow ∧
      Gen.data2pdb_line b = .ok l2 ∧ Spec.reexportOK b l1 l2 = true := by
  obtain ⟨hfb, hxb, hyb, hzb⟩ := Proofs.Reexport.readBack_fits a hf hx hy hz
  refine ⟨Proofs.Line.readBack a, _, _, Proofs.Line.export_eq a hf hx hy hz, ?_,
    Proofs.Line.export_eq _ hfb hxb hyb hzb, Proofs.Reexport.reexportOK_export a hf hx hy hz⟩
  rw [Proofs.Parse.parseAtomLine_eq, Proofs.Line.parseRecord_export a hf hch hx hy hz]
  rfl

example := reexport_ok demo demo_fits.1 demo_fits.2.1 demo_fits.2.2.1 demo_fits.2.2.2.1 demo_fits.2.2.2.2

/-- a row that fits whose occupancy prints as `-0.00` (the case the relaxed clause of `Spec.reexportOK` is for) -/
example : Spec.Fits { demo with occ := -(1 / 1000) } ∧ Py.round (-(1 / 1000) : ℚ) 2 = 0 := by
  refine ⟨?_, by decide +kernel⟩
  have h := demo_fits.1
  unfold Spec.Fits at h ⊢
  unfold demo at h ⊢
  refine ⟨h.1, h.2.1, h.2.2.1, h.2.2.2.1, h.2.2.2.2.1, h.2.2.2.2.2.1, h.2.2.2.2.2.2.1, h.2.2.2.2.2.2.2.1,
    h.2.2.2.2.2.2.2.2.1, h.2.2.2.2.2.2.2.2.2.1, h.2.2.2.2.2.2.2.2.2.2.1, h.2.2.2.2.2.2.2.2.2.2.2.1,
    h.2.2.2.2.2.2.2.2.2.2.2.2.1, h.2.2.2.2.2.2.2.2.2.2.2.2.2.1, h.2.2.2.2.2.2.2.2.2.2.2.2.2.2.1,
    h.2.2.2.2.2.2.2.2.2.2.2.2.2.2.2.1, h.2.2.2.2.2.2.2.2.2.2.2.2.2.2.2.2.1, h.2.2.2.2.2.2.2.2.2.2.2.2.2.2.2.2.2.1,
    h.2.2.2.2.2.2.2.2.2.2.2.2.2.2.2.2.2.2.1, by norm_num, by norm_num,
    h.2.2.2.2.2.2.2.2.2.2.2.2.2.2.2.2.2.2.2.2.2⟩

/-
  Full statement first wanted (`reexport_same_value`): exporting the read-back row `b` and parsing again gives `b`.
  False at two thresholds (see `reexport_value_drift_at_threshold`): proved for coordinates of `b` other than
  999999.5 and −99999.5.
-/
/-- exporting the row that was read back and parsing it again gives exactly that row, unless one of its coordinates is
    999999.5 or −99999.5 (where the format switches to zero decimals and half-even rounding moves the value by 0.5) -/
theorem reexport_same_value_partial (a : Atom) (hf : Spec.Fits a) (hch : a.chainID ≠ [])
    (hx : Spec.CoordInRange a.x) (hy : Spec.CoordInRange a.y) (hz : Spec.CoordInRange a.z)
    (b : Atom) (hb : b = Proofs.Line.readBack a)
    (nx : b.x ≠ (1999999 : ℚ) / 2 ∧ b.x ≠ -(199999 : ℚ) / 2)
    (ny : b.y ≠ (1999999 : ℚ) / 2 ∧ b.y ≠ -(199999 : ℚ) / 2)
    (nz : b.z ≠ (1999999 : ℚ) / 2 ∧ b.z ≠ -(199999 : ℚ) / 2) :
    (Gen.data2pdb_line b >>= fun l => Model.parseAtomLine l b.model) = .ok b.toRow := by
  subst hb
  obtain ⟨hfb, hxb, hyb, hzb⟩ := Proofs.Reexport.readBack_fits a hf hx hy hz
  rw [Proofs.Line.export_eq _ hfb hxb hyb hzb]
  show Model.parseAtomLine _ _ = _
  rw [Proofs.Parse.parseAtomLine_eq, Proofs.Line.parseRecord_export _ hfb hch hxb hyb hzb,
    Proofs.Reexport.readBack_idem a hx hy hz nx ny nz]

example : let b := Proofs.Line.readBack demo
    (b.x ≠ (1999999 : ℚ) / 2 ∧ b.x ≠ -(199999 : ℚ) / 2) ∧ (b.y ≠ (1999999 : ℚ) / 2 ∧ b.y ≠ -(199999 : ℚ) / 2) ∧
    (b.z ≠ (1999999 : ℚ) / 2 ∧ b.z ≠ -(199999 : ℚ) / 2) ∧ b.x = (19999 : ℚ) / 2 ∧ b.z = 0 := by decide +kernel

/-- Remark (not a defect of the property as stated, which asks for the same value *to the printed precision*):
    999999.46 is written `999999.5`, read back as 999999.5, written again as ` 1000000` and read back as 1000000;
    likewise −99999.46 → `-99999.5` → ` -100000`. -/
theorem reexport_value_drift_at_threshold :
    Gen._format_xyz ((99999946 : ℚ) / 100) = .ok "999999.5".toList ∧
    Gen._format_xyz ((1999999 : ℚ) / 2) = .ok " 1000000".toList ∧
    Gen._format_xyz (-(9999946 : ℚ) / 100) = .ok "-99999.5".toList ∧
    Gen._format_xyz (-(199999 : ℚ) / 2) = .ok " -100000".toList := by decide +kernel

/-! ### 6. canonical records are reproduced -/

/-- An ATOM record already in canonical form (`Spec.Canonical`: the purely syntactic column-by-column description in
    Spec/C02Canonical.lean — plain right-aligned integers, the name aligned by the wwPDB rule, `%8.3f` coordinates in the
    usual range, `%6.2f` occupancy and B-factor, non-blank chain and element) is parsed, and the row written back is the
    same text in columns 1–66 and 77–78, whatever the model number and whatever stands in columns 67–76 and 79–80. -/
theorem canonical_reproduced (l : Str) (m : Int) (h : Spec.Canonical l) :
    ∃ r a l', Model.parseAtomLine l m = .ok r ∧ Atom.ofRow r = some a ∧ Gen.data2pdb_line a = .ok l' ∧
      Spec.rawCols l' 1 66 = Spec.rawCols l 1 66 ∧ Spec.rawCols l' 77 78 = Spec.rawCols l 77 78 := by
  obtain ⟨a, l', hp, hl, _, h1, h2, _, _⟩ := Proofs.Canon.canonical_reproduced l m h
  exact ⟨a.toRow, a, l', by rw [Proofs.Parse.parseAtomLine_eq, hp], rfl, hl, h1, h2⟩

/-- … and if the record has nothing in columns 67–76 and 79–80 the line written back is the record itself -/
theorem canonical_reproduced_whole (l : Str) (m : Int) (h : Spec.Canonical l) (ht : Spec.tailBlank l = true) :
    ∃ r a, Model.parseAtomLine l m = .ok r ∧ Atom.ofRow r = some a ∧ Gen.data2pdb_line a = .ok l := by
  obtain ⟨a, l', hp, hl, hlen', h1, h2, h3, h4⟩ := Proofs.Canon.canonical_reproduced l m h
  have hlen : l.length = 80 := (Proofs.Canon.canonical_unpack l h).1
  unfold Spec.tailBlank at ht
  simp only [Bool.and_eq_true] at ht
  have t1 := Proofs.Canon.blank_spec _ ht.1
  have t2 := Proofs.Canon.blank_spec _ ht.2
  rw [Proofs.Canon.rawCols_length l 67 76 (by omega) (by omega) (by omega)] at t1
  rw [Proofs.Canon.rawCols_length l 79 80 (by omega) (by omega) (by omega)] at t2
  have whole : ∀ s : Str, s.length = 80 → s = Spec.rawCols s 1 66 ++ (Spec.rawCols s 67 76 ++
      (Spec.rawCols s 77 78 ++ Spec.rawCols s 79 80)) := by
    intro s hs
    have h80 : Spec.rawCols s 1 80 = s := by unfold Spec.rawCols; simp [← hs]
    rw [← Proofs.Canon.rawCols_split s 77 78 80 (by omega) (by omega) (by omega) (by omega),
      ← Proofs.Canon.rawCols_split s 67 76 80 (by omega) (by omega) (by omega) (by omega),
      ← Proofs.Canon.rawCols_split s 1 66 80 (by omega) (by omega) (by omega) (by omega), h80]
  have : l' = l := by
    rw [whole l' hlen', whole l hlen, h1, h2, h3, h4, t1, t2]
  subst this
  exact ⟨a.toRow, a, by rw [Proofs.Parse.parseAtomLine_eq, hp], rfl, hl⟩

/-- the first two ATOM records of the bundled crystal structure `test/pdb/3CRO.pdb` (all 1856 ATOM records of that file
    satisfy `Spec.isCanonical` when evaluated), and a record with altLoc, iCode, a leading-digit hydrogen name, negative
    numbers and a segment identifier -/
example : Spec.Canonical "ATOM      1  O5'  DA A   1     -16.851  -5.543  74.981  1.00 55.62           O  ".toList ∧
    Spec.tailBlank "ATOM      1  O5'  DA A   1     -16.851  -5.543  74.981  1.00 55.62           O  ".toList = true ∧
    Spec.Canonical "ATOM      2  C5'  DA A   1     -18.254  -5.683  75.238  1.00 51.97           C  ".toList ∧
    Spec.Canonical "ATOM     17 1HG2BTHR A  -3C    -22.017  -0.441   6.607  0.50  0.00      SEGX H1+".toList := by
  decide +kernel

/-! ### 7. export to a file -/

/-- the text `exportpdb` writes, read line by line, is the lines, each with its terminator -/
theorem export_readlines (ls : List Str) (h : ∀ l ∈ ls, '\n' ∉ l) :
    Model.readlines (Model.exportText ls) = ls.map (· ++ ['\n']) :=
  Proofs.Export.readlines_exportText ls h

/-- an appended export never glues records: the table of a file written in two exports is the table of the lines -/
theorem export_append_no_glue (ls₁ ls₂ : List Str) (h₁ : ∀ l ∈ ls₁, '\n' ∉ l) (h₂ : ∀ l ∈ ls₂, '\n' ∉ l) :
    Model.parse (Model.readlines (Model.exportText ls₁ ++ Model.exportText ls₂)) = Model.parse (ls₁ ++ ls₂) :=
  Proofs.Export.parse_append_export ls₁ ls₂ h₁ h₂

/-- Exporting a table that fits to a file and reading the file back gives one row per row, in order: the row read back
    from its own line (`roundtrip`), which agrees with the original within the printed precision. -/
theorem file_roundtrip (rows : List Atom)
    (h : ∀ a ∈ rows, Spec.Fits a ∧ a.chainID ≠ [] ∧ Spec.CoordInRange a.x ∧ Spec.CoordInRange a.y ∧ Spec.CoordInRange a.z) :
    ∃ ls, Model.data2pdb rows = .ok ls ∧ (∀ l ∈ ls, l.length = 80) ∧
      Model.parse (Model.readlines (Model.exportText ls)) =
        .ok (rows.map fun a => ({ Proofs.Line.readBack a with model := 0 }).toRow) ∧
      ∀ a ∈ rows, Spec.readBackOK a { Proofs.Line.readBack a with model := 0 } (Proofs.Xyz.xyzClass a.x)
        (Proofs.Xyz.xyzClass a.y) (Proofs.Xyz.xyzClass a.z) = true := by
  obtain ⟨ls, hls, _, hall, hfa⟩ := Proofs.Export.data2pdb_lines rows h 0
  refine ⟨ls, hls, fun l hl => (hall l hl).1, ?_, fun a _ => Proofs.Line.readBackOK_export a⟩
  rw [Proofs.Export.parse_readlines_exportText ls (fun l hl => (hall l hl).2)]
  exact Proofs.Export.parseLines_all_atoms ls _ 0 hfa

example := file_roundtrip [demo, { demo with serial := 2, x := 1 }] (by
  intro a ha
  simp only [List.mem_cons, List.not_mem_nil, or_false] at ha
  rcases ha with rfl | rfl
  · exact demo_fits
  · have h := demo_fits
    unfold Spec.Fits Spec.CoordInRange demo at h ⊢
    obtain ⟨⟨_, _, h3⟩, h4, _, h5⟩ := h
    exact ⟨⟨by norm_num, by norm_num, h3⟩, h4, by norm_num, h5⟩)

end Props.C02
