/-
  C02 — export.  Property theorems only (helper lemmas in Proofs/).
-/
import Mathlib.Tactic.Linarith
import Mathlib.Tactic.NormNum
import PdbVerif.Gen.Str
import PdbVerif.Spec.C02

namespace Props.C02
open Py

/-- A coordinate that cannot be written in 8 columns raises instead of overflowing. -/
theorem xyz_out_of_range_raises (x : ℚ) (h : ¬ Spec.CoordInRange x) :
    Gen._format_xyz x = .error .valueError := by
  unfold Spec.CoordInRange at h
  unfold Gen._format_xyz
  have : x ≥ (199999999 : ℚ) / 2 ∨ x ≤ -((19999999 : ℚ) / 2) := by
    by_contra hc
    push Not at hc
    exact h ⟨by linarith [hc.2], hc.1⟩
  simp only [this, ↓reduceIte, throw, throwThe, MonadExceptOf.throw]

end Props.C02
