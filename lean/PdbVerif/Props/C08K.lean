/-
  C08 — the binary64 distance tests behind Fnat and the clash count equal the exact tests `d² ≤ c²` of Model / Spec
  (Props/C08.lean) outside an explicit margin.
    compute_fnat_fast (StructureSimilarity.py:452-456):   `np.min([np.sqrt(np.sum((np.array(p1) - np.array(p2))**2)) …]) <= cutoff`
    compute_fnat_pdb2sql, compute_residue_pairs_ref, compute_clashes: `interface.get_contact_atoms` (interface.py:125),
        `np.sqrt(np.sum((xyz2 - x0)**2, 1)) <= cutoff`;   cutoffs 5.0 (Fnat) and 3.0 (clashes).
  compute_clashes' docstring says "separated by <3.0 Å"; the code tests `<= 3.0` (Props/C08.lean `clashes_boundary_counterexample`
  is about exactly that boundary).  The strict variant is stated too, for whoever repairs the code to match the docstring.
  Statements and proofs are those of Proofs/FloatMargin.lean (read its header for what is assumed of the rounding `fl`); restated
  through `type_of%`.  Beside each theorem: a concrete input meeting its hypotheses.
-/
import PdbVerif.Proofs.FloatMargin
import PdbVerif.Proofs.GenRmsdFnat

namespace Props.C08K
open Proofs.FloatMargin

/-- `|d² − c²| > 8u·c² → (r ≤ c ↔ d² ≤ c²)` -/
theorem contact_decision_eq : type_of% @Proofs.FloatMargin.contact_decision_eq := @Proofs.FloatMargin.contact_decision_eq
/-- the `np.min … <= cutoff` test of a residue pair: exact when every atom pair is outside the margin -/
theorem residue_pair_decision_eq : type_of% @Proofs.FloatMargin.residue_pair_decision_eq := @Proofs.FloatMargin.residue_pair_decision_eq
/-- `d² < c²(1 − 8u) → r < c` -/
theorem strict_inside : type_of% @Proofs.FloatMargin.strict_inside := @Proofs.FloatMargin.strict_inside
/-- `d² ≥ c²(1 + 6u) → c ≤ r` -/
theorem strict_outside : type_of% @Proofs.FloatMargin.strict_outside := @Proofs.FloatMargin.strict_outside
/-- `|d² − c²| > 8u·c² → (r < c ↔ d² < c²)` -/
theorem strict_decision_eq : type_of% @Proofs.FloatMargin.strict_decision_eq := @Proofs.FloatMargin.strict_decision_eq
/-- binary64, PDB columns, text coordinates: margin `2⁻⁵³·c·(8c + 10⁵)` -/
theorem pdb_decision_eq : type_of% @Proofs.FloatMargin.pdb_decision_eq := @Proofs.FloatMargin.pdb_decision_eq
/-- three-decimal coordinates, decimal cutoff `n/1000`: float decision = integer comparison `Σ Δ² ≤ n²` unless `Σ Δ² = n²` -/
theorem pdb_lattice_decision_eq : type_of% @Proofs.FloatMargin.pdb_lattice_decision_eq := @Proofs.FloatMargin.pdb_lattice_decision_eq

/-! ### non-vacuity -/

example : RoundOK id Set.univ u53 := roundOK_id u53_pos.le

/-- Fnat cutoff 5: (0,0,0) – (3, 4, 2⁻²⁰) is `2⁻⁴⁰ Å²` outside and decided -/
example : 8 * u53 * (5 : ℝ) ^ 2 < |d2 ⟨0, 0, 0⟩ ⟨3, 4, 1 / 2 ^ 20⟩ - (5 : ℝ) ^ 2| := by
  rw [abs_of_pos] <;> norm_num [d2, u53]

/-- clash cutoff 3, strict test: (0,0,0) – (1,2,2) is exactly on the cutoff, hence NOT covered (margin hypothesis false) … -/
example : ¬ (8 * u53 * (3 : ℝ) ^ 2 < |d2 ⟨0, 0, 0⟩ ⟨1, 2, 2⟩ - (3 : ℝ) ^ 2|) := by
  norm_num [d2, u53]
/-- … while (0,0,0) – (1, 2, 2 − 2⁻²⁰) is inside and decided -/
example : d2 ⟨0, 0, 0⟩ ⟨1, 2, 2 - 1 / 2 ^ 20⟩ < (3 : ℝ) ^ 2 * (1 - 8 * u53) := by norm_num [d2, u53]

/-- a residue pair (two atoms each) with every atom pair outside the margin, cutoff 5, exact arithmetic as the rounding:
    the minimum exists and the theorem applies -/
example : ∃ m, distMin id [⟨0, 0, 0⟩, ⟨1, 0, 0⟩] [⟨3, 4, 1⟩, ⟨9, 0, 0⟩] = some m := by
  simp [distMin]

example : ∀ p1 ∈ [(⟨0, 0, 0⟩ : Pt), ⟨1, 0, 0⟩], ∀ p2 ∈ [(⟨3, 4, 1⟩ : Pt), ⟨9, 0, 0⟩],
    8 * u53 * (5 : ℝ) ^ 2 < |d2 p2 p1 - (5 : ℝ) ^ 2| := by
  intro p1 h1 p2 h2
  simp only [List.mem_cons, List.not_mem_nil, or_false] at h1 h2
  rcases h1 with rfl | rfl <;> rcases h2 with rfl | rfl
  · rw [abs_of_pos] <;> norm_num [d2, u53]
  · rw [abs_of_pos] <;> norm_num [d2, u53]
  · rw [abs_of_neg] <;> norm_num [d2, u53]
  · rw [abs_of_pos] <;> norm_num [d2, u53]

/-- text coordinates one lattice step (10⁻⁶ Å²) outside the cutoff 5.0 -/
example : (fdist id (flPt id (ofMilli 0 0 0)) (flPt id (ofMilli 2951 2876 2832)) ≤ 5
    ↔ n2 0 0 0 2951 2876 2832 ≤ 5000 ^ 2) :=
  pdb_lattice_decision_eq (roundOK_id u53_pos.le) (Set.mem_univ _) (n := 5000) (by norm_num) (by norm_num)
    (by rw [show ((5 : ℝ) - ((5000 : ℤ) : ℝ) / 1000) = 0 by norm_num]; simp; exact u53_pos.le)
    (by decide) (by decide) (by decide) (by decide) (by decide) (by decide) (by decide)

example : n2 0 0 0 2951 2876 2832 = 5000 ^ 2 + 1 := by decide

end Props.C08K

/-! --------------------------------------------------------------------------------------------------------------------
  APPENDED SECTION — translated reference residue pairs (tie #1 for the data flow of C08, fast route).
  `GenR.compute_residue_pairs_ref` (Gen/Rmsd.lean, regenerated from StructureSimilarity.py on every run by
  py/translate_ext_rmsd.py; specialised on `save_file=False`, the only way the fast route calls it) IS the hand model
  `Model.Fnat.residuePairsRef` with the contact routine as a parameter.  `GenR.compute_fnat_fast` (the raw-column loop over the
  decoy, the two counters, `round(nCommon / nTotal, 6)`) is translated and compared with the real code on every run (driver op
  `gen_fnat_fast`, py/props/c08.py); its equality with `Model.Fnat.fnatFast` is not proved.
-------------------------------------------------------------------------------------------------------------------- -/

namespace Props.C08K

theorem genr_compute_residue_pairs_ref_eq_model : type_of% @Proofs.GenRmsd.genr_compute_residue_pairs_ref_eq_model := @Proofs.GenRmsd.genr_compute_residue_pairs_ref_eq_model
theorem residuePairsRefWith_model : type_of% @Proofs.GenRmsd.residuePairsRefWith_model := @Proofs.GenRmsd.residuePairsRefWith_model

/-! non-vacuity: the generated fast route on a two-residue reference and three decoys (contact kept, lost, residue missing) -/
def fxAtom (serial : Int) (name : String) (chain : String) (resSeq : Int) (x : Rat) : Py.Atom :=
  { serial := serial, name := name.toList, altLoc := [], resName := "ALA".toList, chainID := chain.toList, resSeq := resSeq, iCode := [],
    x := x, y := 0, z := 0, occ := 1, temp := 0, element := "C".toList, model := 0 }
def fxRef : List Py.Atom := [fxAtom 1 "CA" "A" 1 0, fxAtom 2 "CA" "B" 1 3]
def fxPairs : Model.Dict Model.ResKey (List Model.ResKey) := [(("A".toList, 1, "ALA".toList), [("B".toList, 1, "ALA".toList)])]
def fxDec (xB : String) : List Py.Str :=
  ["ATOM      1  CA  ALA A   1       0.000   0.000   0.000".toList, ("ATOM      2  CA  ALA B   1    " ++ xB ++ "   0.000   0.000").toList,
   "ATOM      3  H   ALA B   1       1.000   0.000   0.000".toList]

example : (match GenR.compute_residue_pairs_ref (fun _ => .ok fxRef) (fun _ _ _ _ => .ok fxPairs) [] 5 with
    | .ok d => d == fxPairs | _ => false) = true := by decide +kernel
/-- contact kept (3 A ≤ 5 A): 1.0; lost (9 A; the hydrogen at 1 A does not count): 0.0; no ATOM line: the residue is missing, 0.0 -/
example : (match GenR.compute_fnat_fast (fun _ => .ok (fxDec "   3.000")) (fun _ => .ok fxRef) (fun _ _ _ _ => .ok fxPairs) [] [] 5 with
    | .ok v => v == 1 | _ => false) = true := by decide +kernel
example : (match GenR.compute_fnat_fast (fun _ => .ok (fxDec "   9.000")) (fun _ => .ok fxRef) (fun _ _ _ _ => .ok fxPairs) [] [] 5 with
    | .ok v => v == 0 | _ => false) = true := by decide +kernel
example : (match GenR.compute_fnat_fast (fun _ => .ok []) (fun _ => .ok fxRef) (fun _ _ _ _ => .ok fxPairs) [] [] 5 with
    | .ok v => v == 0 | _ => false) = true := by decide +kernel
/-- no reference contact: ZeroDivisionError -/
example : (match GenR.compute_fnat_fast (fun _ => .ok []) (fun _ => .ok fxRef) (fun _ _ _ _ => .ok []) [] [] 5 with
    | .error .zeroDiv => true | _ => false) = true := by decide +kernel

end Props.C08K
