/-
  C16 — assembling: a `SharedZoneRun` (any mix of routines in one directory, the fast ones sharing one zone file)
  satisfies the hypotheses of `noninterference_rg`.   Core Lean only.
-/
import PdbVerif.Proofs.EffectsZone

set_option linter.unusedVariables false
set_option linter.unusedSectionVars false

namespace Proofs.Effects
open Spec.C16 Model.C16

variable {P L Z R : Type} [DecidableEq P]

def locOf (W : Work L Z R) (fs₀ : FS P L) (c : Routine × Args P) : Loc P R :=
  ⟨c.2.outs, c.2.tmp, ((prog W c.1 c.2 : Prog P L R).exec fs₀).2⟩

def worldOf (W : Work L Z R) (fs₀ : FS P L) (isInput : P → Prop) (ref cache : P) (zr : Routine) : World P L :=
  ⟨fs₀, isInput, cache, (fs₀ ref).bind (fun rc => match W.computeErr zr rc with
    | some _ => none
    | none => some (W.render (W.compute zr rc)))⟩

theorem mix_noninterfering (W : Work L Z R) (fs₀ : FS P L) (isInput : P → Prop) (ref cache : P) (zr : Routine)
    (calls : List (Routine × Args P)) (h : SharedZoneRun W fs₀ isInput ref cache zr calls) :
    Noninterfering fs₀ (calls.map (fun c => (prog W c.1 c.2 : Prog P L R))) := by
  let w := worldOf W fs₀ isInput ref cache zr
  let locs := calls.map (locOf W fs₀)
  have hsepc : ∀ c ∈ calls, Sep w (locOf W fs₀ c) := by
    intro c hc
    obtain ⟨t1, t2, t3⟩ := h.tmp_fresh c hc
    refine ⟨h.cache_not_input, t2, t3, ?_, ?_, ?_⟩
    · intro ho; exact (h.outs c hc _ ho).2.2 c hc rfl
    · intro p ho; exact (h.outs c hc p ho).1
    · intro ho; exact (h.outs c hc _ ho).2.1 rfl
  have hsep : SepAll w locs := by
    refine ⟨?_, ?_, ?_⟩
    · intro l hl
      obtain ⟨c, hc, rfl⟩ := List.mem_map.mp hl
      exact hsepc c hc
    · intro i j li lj hi hj hij
      simp only [locs, List.getElem?_map, Option.map_eq_some_iff] at hi hj
      obtain ⟨ci, hci, rfl⟩ := hi
      obtain ⟨cj, hcj, rfl⟩ := hj
      exact h.tmp_distinct i j ci cj hci hcj hij
    · intro li hli lj hlj
      obtain ⟨ci, hci, rfl⟩ := List.mem_map.mp hli
      obtain ⟨cj, hcj, rfl⟩ := List.mem_map.mp hlj
      intro ho; exact (h.outs ci hci _ ho).2.2 cj hcj rfl
  have hinit : ∀ (i : Nat) (l : Loc P R) (t : Prog P L R), locs[i]? = some l →
      (calls.map (fun c => (prog W c.1 c.2 : Prog P L R)))[i]? = some t → RG w l (w.fs₀ l.tmp) false t := by
    intro i l t hl ht
    simp only [locs, List.getElem?_map, Option.map_eq_some_iff] at hl ht
    obtain ⟨c, hc, rfl⟩ := hl
    obtain ⟨c', hc', rfl⟩ := ht
    rw [hc] at hc'; cases hc'
    have hcm : c ∈ calls := List.mem_of_getElem? hc
    have hcall : CallOk isInput c.2.outs c.2 :=
      ⟨(h.inputs c hcm).1, (h.inputs c hcm).2, fun o ho => Or.inl ho, fun o ho => Or.inr ho⟩
    rcases h.zone c hcm with hz | ⟨hz, hzr, href⟩
    · exact rg_local w (locOf W fs₀ c) (hsepc c hcm).out_not_input _ (prog_local isInput c.2.outs W c.1 c.2 hcall hz)
        fs₀ (fun _ _ => rfl) rfl _ _
    · obtain ⟨k, hk, hkl⟩ := prog_withZone isInput c.2.outs W c.1 zr c.2 cache hcall hz hzr
      have e : (w.fs₀ (locOf W fs₀ c).tmp) = none := (h.tmp_fresh c hcm).1
      rw [e, hk, href]
      refine rg_withZone W zr h.roundtrip w (locOf W fs₀ c) ref k (hsepc c hcm) ?_ rfl (h.tmp_fresh c hcm).1 hkl ?_
      · rw [← href]; exact (h.inputs c hcm).2
      · show ((prog W c.1 c.2 : Prog P L R).exec fs₀).2 = _
        rw [hk, href]
        rfl
  intro sched i o ho
  obtain ⟨l, hl, hol⟩ := noninterference_rg w locs hsep _ (by simp [locs]) hinit h.cache_not_input sched i o ho
  simp only [locs, List.getElem?_map, Option.map_eq_some_iff] at hl
  obtain ⟨c, hc, rfl⟩ := hl
  exact ⟨prog W c.1 c.2, by simp [List.getElem?_map, hc], hol⟩

/-- distinct temp names, from `Nodup` (decidable on concrete lists) -/
theorem tmp_distinct_of_nodup (calls : List (Routine × Args P)) (h : (calls.map (fun c => c.2.tmp)).Nodup) :
    ∀ (i j : Nat) (ci cj : Routine × Args P), calls[i]? = some ci → calls[j]? = some cj → i ≠ j → ci.2.tmp ≠ cj.2.tmp := by
  intro i j ci cj hi hj hij heq
  obtain ⟨hi1, hi2⟩ := List.getElem?_eq_some_iff.mp hi
  obtain ⟨hj1, hj2⟩ := List.getElem?_eq_some_iff.mp hj
  have key := (List.pairwise_iff_getElem.mp h)
  rcases Nat.lt_or_gt_of_ne hij with hlt | hgt
  · exact key i j (by simpa using hi1) (by simpa using hj1) hlt (by simpa [hi2, hj2] using heq)
  · exact key j i (by simpa using hj1) (by simpa using hi1) hgt (by simpa [hi2, hj2] using heq.symm)

end Proofs.Effects
