/-
  C16 — the zone-file instance of the pure work: a zone is a list of (chain, residue number), the zone file is the
  list of lines the TRANSLATED writer `Gen.zone_line` produces (`_write_zone`), and it is parsed by the TRANSLATED
  reader `Gen.read_zone_line` (`read_zone`).  The round-trip hypothesis of `noninterference` is discharged by
  C09's `read_write_zone` (chain identifiers other than '-' and blanks; '-' is finding C09-F4).
-/
import PdbVerif.Model.Effects
import PdbVerif.Props.C09

set_option linter.unusedVariables false

namespace Proofs.Effects
open Spec.C16 Model.C16

abbrev ZoneZ := List (Py.Str × Int)

/-- the lines `_write_zone` writes for a zone -/
def renderZone (z : ZoneZ) : List Py.Str :=
  z.map (fun r => match Gen.zone_line r.1 r.2 with
    | .ok s => s
    | .error _ => [])

def errOf : Py.Err → Err
  | .fileNotFound => .fileNotFound
  | .valueError => .valueError
  | _ => .other

/-- `read_zone` on the lines of a file -/
def parseZone (lines : List Py.Str) : Except Err ZoneZ :=
  match lines.mapM Gen.read_zone_line with
  | .ok z => .ok z
  | .error e => .error (errOf e)

/-- the pure work with the translated zone writer / reader; everything else stays uninterpreted -/
def zoneFileWork {R : Type} (computeZ : Routine → List Py.Str → List (Char × Int))
    (check : Routine → Nat → List (List Py.Str) → Except Err Unit)
    (score : Routine → Option ZoneZ → List (List Py.Str) → Except Err R)
    (exportLines : Routine → Nat → List (List Py.Str) → List Py.Str)
    (sameAtoms : List (List Py.Str) → Bool := fun _ => true) : Work Py.Str ZoneZ R where
  compute := fun r rc => (computeZ r rc).map (fun z => ([z.1], z.2))
  render := renderZone
  parse := parseZone
  check := check
  score := score
  exportLines := exportLines
  sameAtoms := sameAtoms

theorem read_written_line (c : Char) (n : Int) (hdash : c ≠ '-') (hsp : Py.isSpace c = false) :
    ∃ line, Gen.zone_line [c] n = .ok line ∧ Gen.read_zone_line line = .ok ([c], n) := by
  have h := Props.C09.read_write_zone c n hdash hsp
  rw [Props.C09.zone_line_format] at h
  exact ⟨_, Props.C09.zone_line_format [c] n, by simpa [bind, Except.bind] using h⟩

theorem mapM_written (zs : List (Char × Int)) (h : ∀ z ∈ zs, z.1 ≠ '-' ∧ Py.isSpace z.1 = false) :
    (renderZone (zs.map fun z => ([z.1], z.2))).mapM Gen.read_zone_line = .ok (zs.map fun z => ([z.1], z.2)) := by
  induction zs with
  | nil => rfl
  | cons z zs ih =>
    have hz := h z (List.mem_cons_self ..)
    obtain ⟨line, h1, h2⟩ := read_written_line z.1 z.2 hz.1 hz.2
    have ih' := ih (fun w hw => h w (List.mem_cons_of_mem _ hw))
    unfold renderZone at ih' ⊢
    simp only [List.map_cons, List.mapM_cons, h1, h2, ih']
    rfl

/-- **zone files round-trip** (C09, lifted to whole files and to the error type of the effect model) -/
theorem zone_roundtrip (zs : List (Char × Int)) (h : ∀ z ∈ zs, z.1 ≠ '-' ∧ Py.isSpace z.1 = false) :
    parseZone (renderZone (zs.map fun z => ([z.1], z.2))) = .ok (zs.map fun z => ([z.1], z.2)) := by
  unfold parseZone; rw [mapM_written zs h]

end Proofs.Effects
