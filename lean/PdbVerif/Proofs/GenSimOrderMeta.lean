/-
  C11 (metamorphic relations) TRANSFERRED to the generated routes through the ties of Proofs/GenSim*.lean:
    * ignored columns (serial number, occupancy, B-factor, element): `GenS.compute_clashes`, `GenS.compute_irmsd_pdb2sql` return exactly the same
      thing, `GenS.compute_lrmsd_pdb2sql` a fit-then-evaluate value of the original files' pair lists (any admissible set order);
    * rigid motion: `GenS.compute_clashes` (contacts depend on distances only);
    * hydrogens: `GenS.compute_clashes`, `GenS.compute_fnat_pdb2sql`, `GenR.compute_fnat_fast` (in the domains of the C08 theorems).
  Each is the composition of a generated = model equality with the corresponding theorem of Props/C11.lean (and Props/C08.lean).
-/
import PdbVerif.Proofs.GenSimOrder
import PdbVerif.Proofs.GenSimFnatFast
import PdbVerif.Props.C08
import PdbVerif.Props.C11

set_option linter.unusedVariables false
set_option linter.unusedSimpArgs false

namespace Proofs.GenSim
open Py Model Model.Rmsd Proofs.GenRmsd

/-! ### C11 for the GENERATED routes: ignored columns (serial number, occupancy, B-factor, element) -/

theorem clashes_of_contactRun {t t' : List Atom} (c1 c2 : Str)
    (h : contactRun t' (Model.Fnat.clashArgs c1 c2) = contactRun t (Model.Fnat.clashArgs c1 c2)) :
    Model.Fnat.clashes t' c1 c2 = Model.Fnat.clashes t c1 c2 := by
  unfold Model.Fnat.clashes contactPairs
  rw [h]

/-- `compute_clashes`, translated: two files that differ in serial numbers, occupancies, B-factors and element fields only give the same
    count (or the same exception) — for every admissible set order on either side -/
theorem gens_clashes_ignores (ord ord' : ∀ {α : Type}, List α → List α) (hord : OrderOK ord) (hord' : OrderOK ord')
    (p2s p2s' : Str → Except Err (List Atom)) (pdb pdb' c1 c2 : Str) (t t' : List Atom) (ht : p2s pdb = .ok t) (ht' : p2s' pdb' = .ok t')
    (hs : Spec.Inv.SameButIgnored t t') :
    GenS.compute_clashes ord' p2s' pdb' c1 c2 = GenS.compute_clashes ord p2s pdb c1 c2 := by
  rw [gens_compute_clashes_eq_model ord' hord', gens_compute_clashes_eq_model ord hord, ht, ht', ok_bind, ok_bind]
  have h := (Props.C11.ignores_serial_occ_temp_element t t' t t' [] [] [] [] hs hs List.Forall₂.nil List.Forall₂.nil
    (Model.Fnat.clashArgs c1 c2) 0 .compute true true none).1
  exact clashes_of_contactRun c1 c2 h

/-- `compute_irmsd_pdb2sql`, translated: the same returned value (radicand or exception) when decoy and reference change in those columns
    only — for every rotation kernel and all admissible set orders -/
theorem gens_irmsd_ignores {μ : Type} (ord ord' : ∀ {α : Type}, List α → List α) (hord : OrderOK ord) (hord' : OrderOK ord')
    (isfile : Str → Bool) (readlines : Str → Except Err (List Str)) (p2s p2s' : Str → Except Err (List Atom))
    (grm : List (Vec3 Rat) → List (Vec3 Rat) → μ → Except Err (Mat3 Rat)) (decoy ref : Str) (origin : Vec3 Rat) (cutoff : Rat) (method : μ)
    (td tr td' tr' : List Atom) (hd : p2s decoy = .ok td) (hr : p2s ref = .ok tr) (hd' : p2s' decoy = .ok td') (hr' : p2s' ref = .ok tr')
    (hsd : Spec.Inv.SameButIgnored td td') (hsr : Spec.Inv.SameButIgnored tr tr') :
    GenS.compute_irmsd_pdb2sql ord' isfile readlines p2s' grm decoy ref origin cutoff method none =
      GenS.compute_irmsd_pdb2sql ord isfile readlines p2s grm decoy ref origin cutoff method none := by
  rw [gens_irmsd_via_pairs ord' hord' isfile readlines p2s' grm decoy ref origin cutoff method td' tr' hd' hr' none none
      (irmsdIndex_eq_model_none isfile readlines tr' cutoff),
    gens_irmsd_via_pairs ord hord isfile readlines p2s grm decoy ref origin cutoff method td tr hd hr none none
      (irmsdIndex_eq_model_none isfile readlines tr cutoff)]
  have h := (Props.C11.ignores_serial_occ_temp_element td td' tr tr' [] [] [] [] hsd hsr List.Forall₂.nil List.Forall₂.nil
    (Model.Fnat.clashArgs [] []) cutoff .compute true true none).2.2.1
  rw [irmsdSql_eq_pairs, irmsdSql_eq_pairs] at h
  rw [outcomeOfPairs_inj _ _ h]

/-- `compute_lrmsd_pdb2sql`, translated, on files changed in those columns only: under any admissible set order and with a kernel optimal on
    the fitting pairs, the value is a fit-then-evaluate value of the pair lists of the ORIGINAL files -/
theorem gens_lrmsd_ignores {μ : Type} (ord' : ∀ {α : Type}, List α → List α) (hord' : OrderOK ord')
    (p2s' : Str → Except Err (List Atom)) (grm : List (Vec3 Rat) → List (Vec3 Rat) → μ → Except Err (Mat3 Rat)) (decoy ref : Str)
    (enforce : Bool) (method : μ) (td tr td' tr' : List Atom) (hd' : p2s' decoy = .ok td') (hr' : p2s' ref = .ok tr')
    (hsd : Spec.Inv.SameButIgnored td td') (hsr : Spec.Inv.SameButIgnored tr tr')
    (fit ev : List Pair) (hm : lrmsdSql (.ok td) (.ok tr) enforce = .value fit ev)
    (hk : ∀ fit' : List Pair, fit'.Perm fit → Proofs.Msd.KernelOptimalAt (fun P Q => grm P Q method) (pairCoords fit')) :
    ∃ m : Rat, GenS.compute_lrmsd_pdb2sql ord' p2s' grm decoy ref enforce ⟨0, 0, 0⟩ method none = .ok m ∧
      Spec.Rmsd.IsFitThenEval m (pairCoords fit) (pairCoords ev) := by
  have h := (Props.C11.ignores_serial_occ_temp_element td td' tr tr' [] [] [] [] hsd hsr List.Forall₂.nil List.Forall₂.nil
    (Model.Fnat.clashArgs [] []) 0 .compute true enforce none).2.2.2.1
  exact gens_lrmsd_value_any_order ord' hord' p2s' grm decoy ref enforce method td' tr' hd' hr' fit ev (h.trans hm) hk

/-! ### rigid motion: the clash count of the generated routine -/

/-- `compute_clashes`, translated: a structure and its image under a rigid motion give the same count -/
theorem gens_clashes_rigid (ord ord' : ∀ {α : Type}, List α → List α) (hord : OrderOK ord) (hord' : OrderOK ord')
    (p2s p2s' : Str → Except Err (List Atom)) (pdb pdb' c1 c2 : Str) (t : List Atom) (g : Spec.Rmsd.Motion Rat) (hg : g.IsRigid)
    (ht : p2s pdb = .ok t) (ht' : p2s' pdb' = .ok (Spec.Inv.move g t)) :
    GenS.compute_clashes ord' p2s' pdb' c1 c2 = GenS.compute_clashes ord p2s pdb c1 c2 := by
  rw [gens_compute_clashes_eq_model ord' hord', gens_compute_clashes_eq_model ord hord, ht, ht', ok_bind, ok_bind]
  exact clashes_of_contactRun c1 c2 (Props.C11.isometry_invariant_contacts hg t (Model.Fnat.clashArgs c1 c2) t t 0).1

/-! ### hydrogens: Fnat (both generated routes) and the clash count -/

/-- `compute_clashes`, translated: adding hydrogen records does not change the count (two-chain structures without a heavy-atom pair at
    exactly 3 Å — the proviso of `Props.C08.clashes_eq_def_partial`, finding C08-F2) -/
theorem gens_clashes_hydrogens (ord ord' : ∀ {α : Type}, List α → List α) (hord : OrderOK ord) (hord' : OrderOK ord')
    (p2s p2s' : Str → Except Err (List Atom)) (pdb pdb' X Y : Str) (t t' : List Atom) (ht : p2s pdb = .ok t) (ht' : p2s' pdb' = .ok t')
    (h2 : Spec.C08.IsTwoChain t X Y) (h2' : Spec.C08.IsTwoChain t' X Y) (hb : Proofs.Fnat.NoBoundaryPair t) (hb' : Proofs.Fnat.NoBoundaryPair t')
    (hh : Spec.Inv.HydrogensAdded t t') :
    GenS.compute_clashes ord' p2s' pdb' X Y = GenS.compute_clashes ord p2s pdb X Y := by
  rw [gens_compute_clashes_eq_model ord' hord', gens_compute_clashes_eq_model ord hord, ht, ht', ok_bind, ok_bind,
    Props.C08.clashes_eq_def_partial h2 hb, Props.C08.clashes_eq_def_partial h2' hb']
  have := (Props.C11.hydrogens_ignored 3 t t' t t' hh hh).2
  unfold Spec.C08.clashes
  rw [this]

/-- `compute_fnat_pdb2sql`, translated: adding hydrogen records to decoy and reference does not change Fnat (two-chain complexes with
    consistent residue names, the domain of `Props.C08.fnat_sql_eq_def`) -/
theorem gens_fnat_sql_hydrogens (ord ord' : ∀ {α : Type}, List α → List α) (hord : OrderOK ord) (hord' : OrderOK ord')
    (p2s p2s' : Str → Except Err (List Atom)) (decoy ref X Y : Str) (cutoff : Rat) (td tr td' tr' : List Atom)
    (hd : p2s decoy = .ok td) (hr : p2s ref = .ok tr) (hd' : p2s' decoy = .ok td') (hr' : p2s' ref = .ok tr')
    (h2r : Spec.C08.IsTwoChain tr X Y) (h2d : Spec.C08.IsTwoChain td X Y) (h2r' : Spec.C08.IsTwoChain tr' X Y) (h2d' : Spec.C08.IsTwoChain td' X Y)
    (hn : Spec.C08.NamesConsistent (tr ++ td)) (hn' : Spec.C08.NamesConsistent (tr' ++ td'))
    (hhr : Spec.Inv.HydrogensAdded tr tr') (hhd : Spec.Inv.HydrogensAdded td td') :
    GenS.compute_fnat_pdb2sql ord' p2s' Model.Fnat.fixChainID decoy ref cutoff =
      GenS.compute_fnat_pdb2sql ord p2s Model.Fnat.fixChainID decoy ref cutoff := by
  rw [gens_fnat_pdb2sql_core ord' hord' p2s' decoy ref cutoff td' tr' hd' hr', gens_fnat_pdb2sql_core ord hord p2s decoy ref cutoff td tr hd hr,
    Props.C08.fnat_sql_eq_def cutoff h2r h2d hn, Props.C08.fnat_sql_eq_def cutoff h2r' h2d' hn',
    (Props.C11.hydrogens_ignored cutoff tr tr' td td' hhr hhd).1]

/-- `compute_fnat_fast`, translated (`GenR.compute_fnat_fast`, contact routine = the contact model): the same, for decoy files whose raw
    columns agree with the parsed tables -/
theorem genr_fnat_fast_hydrogens (rd rd' : Str → Except Err (List Str)) (p2s p2s' : Str → Except Err (List Atom)) (decoy ref X Y : Str)
    (cutoff : Rat) (lines lines' : List Str) (td tr td' tr' : List Atom)
    (hl : rd decoy = .ok lines) (hr : p2s ref = .ok tr) (hl' : rd' decoy = .ok lines') (hr' : p2s' ref = .ok tr')
    (h2r : Spec.C08.IsTwoChain tr X Y) (h2r' : Spec.C08.IsTwoChain tr' X Y)
    (hn : Spec.C08.NamesConsistent (tr ++ td)) (hn' : Spec.C08.NamesConsistent (tr' ++ td'))
    (hraw : Proofs.Fnat.RawAgrees lines td) (hraw' : Proofs.Fnat.RawAgrees lines' td')
    (hhr : Spec.Inv.HydrogensAdded tr tr') (hhd : Spec.Inv.HydrogensAdded td td') :
    GenR.compute_fnat_fast rd' p2s' (fun t c c1 c2 => contactResiduePairs t (Model.Fnat.pairArgs c c1 c2)) decoy ref cutoff =
      GenR.compute_fnat_fast rd p2s (fun t c c1 c2 => contactResiduePairs t (Model.Fnat.pairArgs c c1 c2)) decoy ref cutoff := by
  rw [genr_compute_fnat_fast_eq_model rd' p2s' decoy ref cutoff lines' tr' hl' hr', genr_compute_fnat_fast_eq_model rd p2s decoy ref cutoff lines tr hl hr,
    Props.C08.fnat_fast_eq_def cutoff h2r hn hraw, Props.C08.fnat_fast_eq_def cutoff h2r' hn' hraw',
    (Props.C11.hydrogens_ignored cutoff tr tr' td td' hhr hhd).1]

end Proofs.GenSim
