/-
  The translated `get_izone_rowID` (Gen/Sim.lean) IS the hand model `Model.Rmsd.izoneRowID` applied to the zone the translated
  `read_zone` returns (`GenR.read_zone`, itself equal to `Model.Rmsd.readZone` on the file's lines: Proofs/GenRmsdZone.lean).
-/
import PdbVerif.Proofs.GenSimRmsd
import PdbVerif.Proofs.GenRmsdFast

set_option linter.unusedVariables false
set_option linter.unusedSimpArgs false

namespace Proofs.GenSim
open Py Model Model.Rmsd Proofs.GenRmsd

/-! ### `get_izone_rowID` -/

/-- `get_izone_rowID(sql, izone, return_only_backbone_atoms=True)`, translated = the zone file read by the translated `read_zone`
    (`GenR.read_zone`), then `Model.Rmsd.izoneRowID`; a missing file is `FileNotFoundError` -/
theorem gens_get_izone_rowID_eq_model (isfile : Str → Bool) (readlines : Str → Except Err (List Str)) (t : List Atom) (izone : Str) :
    GenS.get_izone_rowID isfile readlines t izone true =
      if isfile izone = true then GenR.read_zone isfile readlines izone >>= fun z => Except.ok (izoneRowID t z)
      else Except.error Err.fileNotFound := by
  unfold GenS.get_izone_rowID
  by_cases hf : isfile izone = true
  · simp only [hf, Bool.not_true, Bool.false_eq_true, if_false, if_true, throw_eq_error, pure_eq_ok, bind_assoc, ok_bind]
    apply bind_congr'; intro z
    rw [foldlM_pure (fun (acc : List Nat) (it : Str × List Int) => acc ++ Py.Tbl.select t (fun r => decide (r.1.chainID = it.1) && decide (r.1.resSeq ∈ it.2) &&
      decide (r.1.name ∈ [['C'], ['C', 'A'], ['N'], ['O']])) (fun r => r.2))]
    simp only [ok_bind, Py.Dict.items, Proofs.GenContacts.foldl_append_flatMap, List.nil_append, izoneRowID, Py.Tbl.select, zoneNames_literal,
      List.contains_eq_mem]
  · simp [hf, throw_eq_error]

end Proofs.GenSim
