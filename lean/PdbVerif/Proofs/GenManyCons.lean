/-
  Consequences of the equalities `generated = hand model` (Proofs/GenMany.lean, GenManyJoin.lean) read off the GENERATED functions:
  what the objects derived by `many2sql.__call__`, `interface.__init__` and `many2sql.intersect` hold, in the terms of the
  properties C15 (snapshot of the selected atoms after one round trip) and C19 (one table per structure with the aligned rows).
-/
import PdbVerif.Proofs.GenMany
import PdbVerif.Proofs.GenManyJoin
import PdbVerif.Props.C15
import PdbVerif.Props.C19

set_option linter.unusedVariables false
set_option linter.unusedSimpArgs false

namespace Proofs.GenMany
open Tbl GenM Model TableProofs SqlProofs MicroSql

theorem mapM_ok_parts {α β : Type} (g : α → Except Model.Err β) : ∀ (l : List α) (ts : List β), l.mapM g = .ok ts →
    ts.length = l.length ∧ ∀ (i : Nat) (x : α), l[i]? = some x → ∃ t, g x = .ok t ∧ ts[i]? = some t
  | [], ts, h => by
    simp only [List.mapM_nil, pure_eq_ok, Except.ok.injEq] at h
    subst h; simp
  | a :: l, ts, h => by
    rw [List.mapM_cons] at h
    cases ha : g a with
    | error e => rw [ha] at h; cases h
    | ok t =>
      rw [ha] at h
      cases hl : l.mapM g with
      | error e => rw [hl] at h; cases h
      | ok ts' =>
        rw [hl] at h
        simp only [ok_bind, pure_eq_ok, Except.ok.injEq] at h
        subst h
        obtain ⟨h1, h2⟩ := mapM_ok_parts g l ts' hl
        refine ⟨by simp [h1], ?_⟩
        intro i x hx
        cases i with
        | zero => simp only [List.getElem?_cons_zero, Option.some.injEq] at hx; subst hx; exact ⟨t, ha, rfl⟩
        | succ i => simp only [List.getElem?_cons_succ] at hx ⊢; exact h2 i x hx

/-- **sub-selection of a multi-structure object, from the generated `__call__`**: when `db(**kw)` succeeds, the new object has one
    table per table of the source, under the same name, and table `i` holds — after one round trip — exactly the atoms the property
    selects from structure `i`, in order, with the attribute values the source has at that moment -/
theorem call_tables_are_selections (rt : Table → Table) (db db' : Db) (hwf : WF db) (hfind : ∀ t ∈ db.tabs, findTab db t.name = some t)
    (kw : List Kw) (hk : KeysOK db kw) (hr : RowIDInts kw) (hnm : db.nModel = 0)
    (hmany : Spec.tooMany Gen.max_sql_values Gen.SQLITE_LIMIT_VARIABLE_NUMBER kw = false)
    (h : many2sql_call (Ext.model rt) db kw = .ok db') :
    db'.tabs.length = db.tabs.length ∧
    ∀ (i : Nat) (t : Tab), db.tabs[i]? = some t → ∃ rows, Spec.snapshotRows db.extra t.rows kw = some rows ∧ rows ≠ [] ∧
      db'.tabs[i]? = some { name := t.name, rows := rt rows } := by
  have heq := call_eq_model rt [⟨.many, db⟩] 0 ⟨.many, db⟩ rfl rfl kw
  rw [h] at heq
  simp only [Model.derive, List.getElem?_cons_zero, asObj] at heq
  cases hm : db.tabs.mapM (fun t => exportRows db t.name kw >>= newTable rt t.name) with
  | error e => rw [hm] at heq; cases heq
  | ok tabs =>
    rw [hm] at heq
    simp only at heq
    split_ifs at heq with he
    injection heq with heq
    injection heq with _ heq
    subst heq
    obtain ⟨h1, h2⟩ := mapM_ok_parts _ _ _ hm
    refine ⟨h1, ?_⟩
    intro i t hi
    obtain ⟨t', ht', hti⟩ := h2 i t hi
    obtain ⟨rows, hs1, hs2⟩ := Props.C15.export_is_selection db hwf t.name t (hfind t (List.mem_of_getElem? hi)) kw hk hr hnm hmany
    rw [hs2] at ht'
    simp only [ok_bind, newTable] at ht'
    split_ifs at ht' with hemp
    injection ht' with ht'
    subst ht'
    exact ⟨rows, hs1, by intro h0; rw [h0] at hemp; exact hemp rfl, hti⟩

/-- **`interface(db)`, from the generated constructor**: the new object holds, under the default table name, the round trip of ALL
    atoms of the source's `atom` table as they are at that moment; a source without atoms raises IndexError -/
theorem interface_holds_snapshot (rt : Table → Table) (db : Db) (hwf : WF db) (tab : Tab) (htab : findTab db atomName = some tab)
    (hnm : db.nModel = 0) :
    interface_init (Ext.model rt) (.obj db) none =
      (if tab.rows.isEmpty then .error .indexError else .ok { tabs := [{ name := atomName, rows := rt tab.rows }] }) := by
  have heq := interface_init_eq_model rt [⟨.single, db⟩] 0 ⟨.single, db⟩ rfl
  obtain ⟨rows, hs1, hs2⟩ := Props.C15.export_is_selection db hwf atomName tab htab [] (by intro k hk; cases hk) (by intro k hk; cases hk) hnm
    (by decide)
  have hrows : rows = tab.rows := by
    simp only [Spec.snapshotRows, List.mapM_nil, pure, Option.map_some, Option.some.injEq, Spec.selected] at hs1
    rw [← hs1]
    have : ∀ (l : Table) (s : Nat), ((l.zipIdx s).filter (Spec.sat db.extra [])).map (·.1) = l := by
      intro l
      induction l with
      | nil => intro s; rfl
      | cons a t ih =>
        intro s
        have hsat : Spec.sat db.extra [] (a, s) = true := rfl
        rw [List.zipIdx_cons, List.filter_cons_of_pos hsat, List.map_cons, ih (s + 1)]
    exact this _ 0
  subst hrows
  simp only [Model.derive, List.getElem?_cons_zero, hs2, newTable] at heq
  cases hi : interface_init (Ext.model rt) (.obj db) none with
  | error e =>
    rw [hi] at heq
    simp only [asObj] at heq
    split_ifs at heq with he <;> simp_all
  | ok d =>
    rw [hi] at heq
    simp only [asObj] at heq
    split_ifs at heq with he
    injection heq with heq; injection heq with _ heq; simp [he, heq]

/-- **`intersect`, from the generated function**: one table per structure, under the structure's name; before the round trip row `i`
    of every table comes from the same joined tuple: each is a row of its own structure and all carry the same matching key
    (`Props.C19.intersect_tables` read off the generated function) -/
theorem intersect_tables_gen (rt : Table → Table) (db db' : Db) (hdb : JoinDb db) (hne : db.tabs ≠ [])
    (htn : ∀ t ∈ db.tabs, isName t.name = true) (mnames : List Py.Str) (hmn : ∀ a ∈ mnames, isName a = true ∧ NoAlias a)
    (m : List StdCol) (hm : mnames.mapM matchCol = some m) (hcells : ∀ t ∈ db.tabs, ∀ r ∈ t.rows, r.extra = [])
    (h : GenM.intersect (Ext.model rt) db mnames = .ok db') :
    let joined := joinRows m (db.tabs.map (·.rows))
    db'.tabs.length = db.tabs.length ∧
    ∀ k t, db.tabs[k]? = some t →
      db'.tabs[k]? = some { name := t.name, rows := rt (joined.map (fun tup => tup.getD k default)) } ∧
      (∀ tup ∈ joined, tup.getD k default ∈ t.rows) ∧
      ∀ k' t', db.tabs[k']? = some t' → ∀ tup ∈ joined,
        Spec.keyOf m (tup.getD k default) = Spec.keyOf m (tup.getD k' default) := by
  rw [intersect_eq_model_of_match rt db hdb hne htn mnames hmn m hm hcells] at h
  exact Props.C19.intersect_tables rt db db' mnames m hm h

end Proofs.GenMany
