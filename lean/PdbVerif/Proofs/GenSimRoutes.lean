/-
  Route agreement (C09) for the GENERATED SQL i-RMSD route: with the zone file the library writes for the reference, the translated
  `compute_irmsd_pdb2sql` returns what it returns when it computes the zone itself.  Obtained from the hand-model theorem
  `Proofs.Routes.irmsdSql_zone_file` through the tie `gens_compute_irmsd_pdb2sql_eq_model_stages` (Proofs/GenSimIrmsdPair.lean).
-/
import PdbVerif.Proofs.GenSimIrmsdPair
import PdbVerif.Proofs.RmsdRoutes

set_option linter.unusedVariables false
set_option linter.unusedSimpArgs false

namespace Proofs.GenSim
open Py Model Model.Rmsd Spec.Rmsd Proofs.Rmsd Proofs.Routes Proofs.GenRmsd

/-- the model's stage A of the SQL i-RMSD route as an `Except` of the pair list -/
def irmsdPairsM (td tr : List Atom) (izone : Option (List Str)) (cutoff : Rat) : Except Err (List Pair) :=
  if getChains td ≠ getChains tr then .error .valueError
  else irmsdIndexM tr cutoff izone >>= fun idx =>
    if (pairByIndex td (rowsAt tr idx)).length = 0 then .error .valueError else .ok (pairByIndex td (rowsAt tr idx))

def outcomeOfPairs : Except Err (List Pair) → Outcome
  | .ok p => .value p p
  | .error e => .err e

theorem outcomeOfPairs_inj : ∀ x y : Except Err (List Pair), outcomeOfPairs x = outcomeOfPairs y → x = y
  | .ok p, .ok q, h => by simp only [outcomeOfPairs, Outcome.value.injEq] at h; rw [h.1]
  | .ok p, .error e, h => by simp [outcomeOfPairs] at h
  | .error e, .ok q, h => by simp [outcomeOfPairs] at h
  | .error e, .error e', h => by simp only [outcomeOfPairs, Outcome.err.injEq] at h; rw [h]

theorem irmsdSql_eq_pairs (td tr : List Atom) (izone : Option (List Str)) (cutoff : Rat) :
    irmsdSql (.ok td) (.ok tr) izone cutoff = outcomeOfPairs (irmsdPairsM td tr izone cutoff) := by
  rw [irmsdSql_model_stages]
  unfold irmsdPairsM
  by_cases hch : getChains td ≠ getChains tr
  · simp [hch, Outcome.ofExcept, outcomeOfPairs]
  · simp only [hch, if_false]
    cases irmsdIndexM tr cutoff izone with
    | error e => rfl
    | ok idx =>
      simp only [ok_bind]
      by_cases hp : (pairByIndex td (rowsAt tr idx)).length = 0
      · simp [hp, Outcome.ofExcept, outcomeOfPairs]
      · simp [hp, Outcome.ofExcept, outcomeOfPairs]

/-- the generated route through the model's pair stage (both files parse; the zone file, if given, exists and holds `lines`) -/
theorem gens_irmsd_via_pairs {μ : Type} (ord : ∀ {α : Type}, List α → List α) (hord : OrderOK ord)
    (isfile : Str → Bool) (readlines : Str → Except Err (List Str)) (p2s : Str → Except Err (List Atom))
    (grm : List (Vec3 Rat) → List (Vec3 Rat) → μ → Except Err (Mat3 Rat)) (decoy ref : Str) (origin : Vec3 Rat) (cutoff : Rat) (method : μ)
    (td tr : List Atom) (hd : p2s decoy = .ok td) (hr : p2s ref = .ok tr)
    (izone : Option Str) (izoneM : Option (List Str))
    (hz : irmsdIndex isfile readlines tr cutoff izone = irmsdIndexM tr cutoff izoneM) :
    GenS.compute_irmsd_pdb2sql ord isfile readlines p2s grm decoy ref origin cutoff method izone =
      irmsdPairsM td tr izoneM cutoff >>= fun pairs =>
        sqlKernel grm origin method (pairs.map (·.1.2), pairs.map (·.2.2), pairs.map (·.1.2), pairs.map (·.2.2)) := by
  rw [gens_compute_irmsd_pdb2sql_eq_model_stages ord hord isfile readlines p2s grm decoy ref origin cutoff method izone td tr hd hr, hz]
  rfl

/-- **Zone file or not (C09), for the GENERATED SQL i-RMSD route.**  On a consistent pair whose reference chains can be written to a
    zone file: run with the zone file the library writes for that reference and cutoff (`izoneFileText`), the translated
    `compute_irmsd_pdb2sql` returns exactly what it returns when it computes the zone itself — same exception or same radicand, for
    every rotation kernel and every admissible set order. -/
theorem gens_irmsd_zone_file_agrees {μ : Type} (ord : ∀ {α : Type}, List α → List α) (hord : OrderOK ord)
    (isfile : Str → Bool) (readlines : Str → Except Err (List Str)) (p2s : Str → Except Err (List Atom))
    (grm : List (Vec3 Rat) → List (Vec3 Rat) → μ → Except Err (Mat3 Rat)) (decoy ref : Str) (origin : Vec3 Rat) (cutoff : Rat) (method : μ)
    (td tr : List Atom) (hd : p2s decoy = .ok td) (hr : p2s ref = .ok tr)
    (hc : Consistent td tr) (hw : TableChainsWritable tr) (text : List Str) (htext : izoneFileText (.ok tr) cutoff = .ok text)
    (z : Str) (hf : isfile z = true) (hl : readlines z = .ok text) :
    GenS.compute_irmsd_pdb2sql ord isfile readlines p2s grm decoy ref origin cutoff method (some z) =
      GenS.compute_irmsd_pdb2sql ord isfile readlines p2s grm decoy ref origin cutoff method none := by
  rw [gens_irmsd_via_pairs ord hord isfile readlines p2s grm decoy ref origin cutoff method td tr hd hr (some z) (some text)
      (irmsdIndex_eq_model_file isfile readlines tr cutoff z text hf hl),
    gens_irmsd_via_pairs ord hord isfile readlines p2s grm decoy ref origin cutoff method td tr hd hr none none
      (irmsdIndex_eq_model_none isfile readlines tr cutoff)]
  have h := irmsdSql_zone_file td tr hc hw cutoff text htext
  rw [irmsdSql_eq_pairs, irmsdSql_eq_pairs] at h
  rw [outcomeOfPairs_inj _ _ h]

end Proofs.GenSim
