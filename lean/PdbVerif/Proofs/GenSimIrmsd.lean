/-
  The translated `compute_irmsd_pdb2sql` (Gen/Sim.lean, specialised on `exportpath=None`) decomposed into stages, as in Proofs/GenRmsdFast.lean:
    generated = chains compared -> STAGE A1 `irmsdIndex` (the rowIDs of the reference's interface backbone atoms: the contact MODEL via the
      translated contact routine for any admissible set order, or the zone file through the translated `read_zone` and the model's `izoneRowID`)
      -> STAGE A2 `irmsdPairing` (the `try / except` loop `pairStep`, the clean-up of the `None` entries, the two "atoms left" tests)
      -> the translated kernel glue `sqlKernel` (rotation kernel a parameter, exact radicand);
    hand model `Model.Rmsd.irmsdSql` = chains compared -> THE SAME index stage (`irmsdIndexM`, `irmsdIndex_eq_model_*`) -> `pairByIndex`.
  The loop body is the model's pairing step: `pairStep_eq_find` (the first decoy record with the label, `find?`, its position and coordinates; the
  look-up `xyz_decoy[index]` cannot fail).  NOT proved: that the whole loop + clean-up + tests equals `pairByIndex` / `pairs.length = 0` (needs the
  positional invariant of the `None` marking and a counting argument for `index_contact_ref` when the zone lists rows out of table order).
-/
import PdbVerif.Proofs.GenSimIzone

set_option linter.unusedVariables false
set_option linter.unusedSimpArgs false

namespace Proofs.GenSim
open Py Model Model.Rmsd Proofs.GenRmsd

/-! ### `compute_irmsd_pdb2sql`: stage decomposition -/

/-- loop state: `index_contact_decoy, xyz_contact_decoy, xyz_contact_ref, index_contact_ref, clean_ref` -/
abbrev PairState := List Nat × List P3 × List (Option P3) × List (Option Nat) × Bool

/-- the `except Exception:` handler: `xyz_contact_ref[iat] = None; index_contact_ref[iat] = None; clean_ref = True` -/
def unmatched (s : PairState) (iat : Nat) (idxDec : List Nat) : Except Err PairState :=
  GenS.Rt3.setNone s.2.2.1 iat >>= fun a => GenS.Rt3.setNone s.2.2.2.1 iat >>= fun b => Except.ok (idxDec, s.2.1, a, b, true)

/-- body of `for iat, atom in enumerate(data_contact_ref)`: `try: index = data_decoy.index(atom); … except Exception: …` -/
def pairStep (dataDec : List Label) (xyzDec : List P3) (s : PairState) (it : Nat × Label) : Except Err PairState :=
  match GenS.Rt3.index dataDec it.2 with
  | .error _ => unmatched s it.1 s.1
  | .ok i =>
    match Py.Rt.getItem xyzDec i with
    | .error _ => unmatched s it.1 (s.1 ++ [i])
    | .ok p => .ok (s.1 ++ [i], s.2.1 ++ [p], s.2.2.1, s.2.2.2.1, s.2.2.2.2)

/-- STAGE A1: the rowIDs of the reference's interface backbone atoms — computed with the contact MODEL (`izone=None`) or read from the
    zone file (translated `read_zone`, then the model's `izoneRowID`) -/
def irmsdIndex (isfile : Str → Bool) (readlines : Str → Except Err (List Str)) (tr : List Atom) (cutoff : Rat) (izone : Option Str) :
    Except Err (List Nat) :=
  match izone with
  | none => chainAt (getChains tr) 0 >>= fun c0 => chainAt (getChains tr) 1 >>= fun c1 =>
      contactSets tr (izoneArgs cutoff c0 c1) >>= fun contact => Except.ok ((backboneRowsAt tr (flattenContacts contact)).map (·.2))
  | some z => if isfile z = true then GenR.read_zone isfile readlines z >>= fun zone => Except.ok (izoneRowID tr zone)
      else Except.error Err.fileNotFound

/-- STAGE A2: the pairing loop, the clean-up of the `None` entries and the two "still atoms left" tests; result = decoy and reference
    coordinates handed to the kernel -/
def irmsdPairing (td tr : List Atom) (idx : List Nat) : Except Err (List P3 × List P3) :=
  List.foldlM (pairStep (td.map labelOf) (td.map posOf))
      ([], [], (rowsAt tr idx).map (fun r => some (posOf r.1)), idx.map some, false)
      (Py.Rt.enumerate ((rowsAt tr idx).map (fun r => labelOf r.1))) >>= fun s =>
    (if s.2.2.2.2 = true then (Except.ok (s.2.2.1.filterMap id, s.2.2.2.1.filterMap id) : Except Err (List P3 × List Nat))
      else GenS.Rt3.noNone s.2.2.1 >>= fun a => GenS.Rt3.noNone s.2.2.2.1 >>= fun b => Except.ok (a, b)) >>= fun c =>
    if ((rowsAt td s.1).isEmpty || (rowsAt tr c.2).isEmpty) = true then Except.error Err.valueError else Except.ok (s.2.1, c.1)

/-- STAGE A of `compute_irmsd_pdb2sql` -/
def irmsdSqlLists (isfile : Str → Bool) (readlines : Str → Except Err (List Str)) (td tr : List Atom) (cutoff : Rat) (izone : Option Str) :
    Except Err (List P3 × List P3) :=
  if getChains td ≠ getChains tr then .error .valueError
  else irmsdIndex isfile readlines tr cutoff izone >>= fun idx => irmsdPairing td tr idx

theorem select_rowID {β : Type} (t : List Atom) (idx : List Nat) (p : IRow → β) :
    Py.Tbl.select t (fun r => decide (r.2 ∈ idx)) p = (rowsAt t idx).map p := by
  unfold Py.Tbl.select rowsAt
  congr 2
  funext r
  simp [List.contains_eq_mem]

theorem select_all {β : Type} (t : List Atom) (p : Atom → β) : Py.Tbl.select t (fun _ => true) (fun r => p r.1) = t.map p := by
  rw [select_fst t (fun _ => true) p]
  congr 1
  exact List.filter_eq_self.mpr (fun _ _ => rfl)

theorem set_short {α : Type} [DecidableEq α] (l : List α) : decide ((Py.Rt.set l).length < 1) = l.isEmpty := by
  cases l <;> simp [Py.Rt.set]

theorem backbone_select (tr : List Atom) (idx : List Nat) :
    Py.Tbl.select tr (fun r_ => decide (r_.2 ∈ idx) && decide (r_.1.name ∈ GenC.backbone_atoms)) (fun r_ => r_.2)
      = (backboneRowsAt tr idx).map (·.2) := by
  unfold Py.Tbl.select backboneRowsAt rowsAt
  rw [List.filter_filter, Proofs.GenContacts.backbone_atoms_eq_model]
  congr 2
  funext r
  simp [List.contains_eq_mem, Bool.and_comm]

theorem flatten_loop (d : List (Str × List Nat)) :
    List.foldlM (fun (acc : List Nat) (v : List Nat) => (Except.ok (acc ++ v) : Except Err (List Nat))) [] (Py.Dict.values d)
      = Except.ok (flattenContacts d) := by
  rw [foldlM_pure, Py.Dict.values, Proofs.GenContacts.foldl_append_flatMap]
  simp [flattenContacts, List.flatMap_map]

/-- the index stage of the generated route (with the translated contact routine, any admissible set order) is `irmsdIndex` -/
theorem index_stage (ord : ∀ {α : Type}, List α → List α) (hord : OrderOK ord) (isfile : Str → Bool)
    (readlines : Str → Except Err (List Str)) (tr : List Atom) (cutoff : Rat) (izone : Option Str) :
    (match izone with
      | none => Py.Rt.getItem (getChains tr) 0 >>= fun t4 => Py.Rt.getItem (getChains tr) 1 >>= fun t5 =>
          GenC.get_contact_atoms ord tr cutoff false t4 t5 true false false false >>= fun t6 => Py.Rt.asRight t6 >>= fun t7 =>
          List.foldlM (fun (acc_ : List Nat) (v : List Nat) => (Except.ok (acc_ ++ v) : Except Err (List Nat))) [] (Py.Dict.values t7) >>= fun r8 =>
          Except.ok (Py.Tbl.select tr (fun r_ => decide (r_.2 ∈ r8) && decide (r_.1.name ∈ GenC.backbone_atoms)) (fun r_ => r_.2))
      | some z => GenS.get_izone_rowID isfile readlines tr z true >>= fun t9 => Except.ok t9)
      = irmsdIndex isfile readlines tr cutoff izone := by
  unfold irmsdIndex
  cases izone with
  | some z =>
    simp only [bind_ok_eq, gens_get_izone_rowID_eq_model]
  | none =>
    simp only [chainAt, Py.Rt.getItem]
    cases (getChains tr)[0]? with
    | none => rfl
    | some c0 =>
    cases (getChains tr)[1]? with
    | none => rfl
    | some c1 =>
    simp only [ok_bind]
    have h := Proofs.GenContacts.genc_get_contact_atoms_eq_model (@ord _) hord.setOrderOK tr (izoneArgs cutoff c0 c1)
    simp only [izoneArgs, Gen.izone_extend_to_residue, Gen.izone_only_backbone, Gen.izone_excludeH] at h
    rw [h]
    simp only [contactSets, contactAtoms, izoneArgs, Gen.izone_extend_to_residue, Gen.izone_only_backbone, Gen.izone_excludeH]
    cases contactRun tr _ with
    | error e => rfl
    | ok r =>
      simp only [Except.map, Proofs.GenContacts.outSum, Py.Rt.asRight, ok_bind, Bool.false_eq_true, if_false, flatten_loop, backbone_select]

theorem gens_compute_irmsd_pdb2sql_stages {μ : Type} (ord : ∀ {α : Type}, List α → List α) (hord : OrderOK ord)
    (isfile : Str → Bool) (readlines : Str → Except Err (List Str)) (p2s : Str → Except Err (List Atom))
    (grm : List P3 → List P3 → μ → Except Err (Mat3 Rat)) (decoy ref : Str) (origin : P3) (cutoff : Rat) (method : μ)
    (izone : Option Str) (td tr : List Atom) (hd : p2s decoy = .ok td) (hr : p2s ref = .ok tr) :
    GenS.compute_irmsd_pdb2sql ord isfile readlines p2s grm decoy ref origin cutoff method izone =
      irmsdSqlLists isfile readlines td tr cutoff izone >>= fun q => sqlKernel grm origin method (q.1, q.2, q.1, q.2) := by
  unfold GenS.compute_irmsd_pdb2sql irmsdSqlLists sqlKernel
  simp only [hd, hr, ok_bind, pure_eq_ok, throw_eq_error, Proofs.GenContacts.get_chains_eq_model, bind_assoc]
  by_cases hch : getChains td ≠ getChains tr
  · simp [hch, error_bind]
  · simp only [hch, decide_false, Bool.false_eq_true, if_false, bind_assoc]
    have hlen : ∀ {α : Type} (l : List α), (ord l).length = l.length := fun l => (hord _ l).length_eq
    have e1 : Py.Tbl.select td (fun _ => true) (fun r => (r.1.chainID, r.1.resSeq, r.1.resName, r.1.name)) = td.map labelOf :=
      select_all td labelOf
    have e2 : Py.Tbl.select td (fun _ => true) (fun r => Vec3.mk r.1.x r.1.y r.1.z) = td.map posOf := select_all td posOf
    cases izone with
    | none =>
      have h := index_stage ord hord isfile readlines tr cutoff none
      dsimp only at h ⊢
      simp only [bind_assoc] at h ⊢
      rw [← h]
      simp only [bind_assoc, ok_bind]
      apply bind_congr'; intro t4
      apply bind_congr'; intro t5
      apply bind_congr'; intro t6
      apply bind_congr'; intro t7
      apply bind_congr'; intro r8
      generalize Py.Tbl.select tr (fun r_ => decide (r_.2 ∈ r8) && decide (r_.1.name ∈ GenC.backbone_atoms)) (fun r_ => r_.2) = idx
      simp only [e1, e2, select_rowID, hlen, set_short, List.isEmpty_map]
      unfold irmsdPairing
      simp only [bind_assoc]
      rw [foldlM_congr (g := pairStep (td.map labelOf) (td.map posOf))]
      · have hinit : List.map some (List.map (fun (r : IRow) => Vec3.mk r.1.x r.1.y r.1.z) (rowsAt tr idx))
            = (rowsAt tr idx).map (fun r => some (posOf r.1)) := by rw [List.map_map]; rfl
        have hlab : List.map (fun (r : IRow) => (r.1.chainID, r.1.resSeq, r.1.resName, r.1.name)) (rowsAt tr idx)
            = (rowsAt tr idx).map (fun r => labelOf r.1) := rfl
        rw [hinit, hlab]
        apply bind_congr'; intro s
        apply bind_congr'; intro c
        by_cases hc : ((rowsAt td s.1).isEmpty || (rowsAt tr c.2).isEmpty) = true
        · simp only [hc, if_true, error_bind]
        · simp only [hc, if_false, Bool.false_eq_true, ok_bind]
      · intro s it
        unfold pairStep unmatched
        split
        · rename_i h1; simp only [h1, bind_assoc, ok_bind]
        · rename_i h1
          simp only [h1]
          split
          · rename_i h2; simp only [h2, bind_assoc, ok_bind]
          · rename_i h2; simp only [h2, bind_assoc, ok_bind]
    | some z =>
      have h := index_stage ord hord isfile readlines tr cutoff (some z)
      dsimp only at h ⊢
      rw [← h]
      simp only [bind_assoc, ok_bind]
      apply bind_congr'; intro idx
      simp only [e1, e2, select_rowID, hlen, set_short, List.isEmpty_map]
      unfold irmsdPairing
      simp only [bind_assoc]
      rw [foldlM_congr (g := pairStep (td.map labelOf) (td.map posOf))]
      · have hinit : List.map some (List.map (fun (r : IRow) => Vec3.mk r.1.x r.1.y r.1.z) (rowsAt tr idx))
            = (rowsAt tr idx).map (fun r => some (posOf r.1)) := by rw [List.map_map]; rfl
        have hlab : List.map (fun (r : IRow) => (r.1.chainID, r.1.resSeq, r.1.resName, r.1.name)) (rowsAt tr idx)
            = (rowsAt tr idx).map (fun r => labelOf r.1) := rfl
        rw [hinit, hlab]
        apply bind_congr'; intro s
        apply bind_congr'; intro c
        by_cases hc : ((rowsAt td s.1).isEmpty || (rowsAt tr c.2).isEmpty) = true
        · simp only [hc, if_true, error_bind]
        · simp only [hc, if_false, Bool.false_eq_true, ok_bind]
      · intro s it
        unfold pairStep unmatched
        split
        · rename_i h1; simp only [h1, bind_assoc, ok_bind]
        · rename_i h1
          simp only [h1]
          split
          · rename_i h2; simp only [h2, bind_assoc, ok_bind]
          · rename_i h2; simp only [h2, bind_assoc, ok_bind]


/-! ### the pairing step in the model's vocabulary -/

/-- `xyz_decoy[data_decoy.index(atom)]`: the coordinates of the first decoy record with that label (the model's `find?`) -/
def idxOfD {α : Type} [DecidableEq α] (l : List α) (x : α) : Nat := l.idxOf x

theorem getElem_idxOf (lab : Label) : ∀ td : List Atom,
    (td.map posOf)[idxOfD (td.map labelOf) lab]? = (td.find? (fun d => decide (labelOf d = lab))).map posOf
  | [] => rfl
  | d :: td => by
    by_cases hd : labelOf d = lab
    · simp [idxOfD, List.idxOf_cons, hd, List.find?_cons]
    · have hne : (@BEq.beq Label instBEqOfDecidableEq (labelOf d) lab) = false := by
        show decide (labelOf d = lab) = false
        simp [hd]
      have := getElem_idxOf lab td
      simp only [idxOfD] at this ⊢
      simp only [List.map_cons, List.idxOf_cons, hne, cond_false, List.getElem?_cons_succ, List.find?_cons, hd, decide_false]
      exact this

theorem mem_labels_iff (lab : Label) (td : List Atom) :
    lab ∈ td.map labelOf ↔ (td.find? (fun d => decide (labelOf d = lab))).isSome = true := by
  rw [List.find?_isSome]
  simp [List.mem_map]

/-- the loop body in the model's vocabulary: an atom of the reference whose label `(chainID, resSeq, resName, name)` has no match in
    the decoy is struck out (handler); otherwise the position and the coordinates of the FIRST decoy record with that label are
    appended — exactly the `find?` of `Model.Rmsd.pairByIndex`; the look-up `xyz_decoy[index]` cannot fail -/
theorem pairStep_eq_find (td : List Atom) (s : PairState) (it : Nat × Label) :
    pairStep (td.map labelOf) (td.map posOf) s it =
      match td.find? (fun d => decide (labelOf d = it.2)) with
      | none => unmatched s it.1 s.1
      | some d => .ok (s.1 ++ [idxOfD (td.map labelOf) it.2], s.2.1 ++ [posOf d], s.2.2.1, s.2.2.2.1, s.2.2.2.2) := by
  have h1 := mem_labels_iff it.2 td
  have h2 := getElem_idxOf it.2 td
  unfold pairStep GenS.Rt3.index Py.Rt.getItem
  cases hf : td.find? (fun d => decide (labelOf d = it.2)) with
  | none =>
    have hm : ¬ it.2 ∈ td.map labelOf := by rw [h1, hf]; simp
    simp only [hm, if_false]
  | some d =>
    have hm : it.2 ∈ td.map labelOf := by rw [h1, hf]; rfl
    rw [hf] at h2
    simp only [hm, if_true]
    simp only [idxOfD] at h2 ⊢
    rw [h2]
    rfl


/-! ### the hand model has the same index stage -/

/-- the index stage of `Model.Rmsd.irmsdSql` (`izone` = the lines of an existing zone file) -/
def irmsdIndexM (tr : List Atom) (cutoff : Rat) (izone : Option (List Str)) : Except Err (List Nat) :=
  match izone with
  | none => chainAt (getChains tr) 0 >>= fun c0 => chainAt (getChains tr) 1 >>= fun c1 =>
      contactSets tr (izoneArgs cutoff c0 c1) >>= fun contact => Except.ok ((backboneRowsAt tr (flattenContacts contact)).map (·.2))
  | some lines => readZone lines >>= fun zone => Except.ok (izoneRowID tr zone)

/-- the hand model = chains compared, the index stage, then `pairByIndex` on the selected reference rows (`ValueError` when no pair is left) -/
theorem irmsdSql_model_stages (td tr : List Atom) (izone : Option (List Str)) (cutoff : Rat) :
    irmsdSql (.ok td) (.ok tr) izone cutoff =
      Outcome.ofExcept (if getChains td ≠ getChains tr then .error .valueError
        else irmsdIndexM tr cutoff izone >>= fun idx =>
          if (pairByIndex td (rowsAt tr idx)).length = 0 then .error .valueError
          else .ok (.value (pairByIndex td (rowsAt tr idx)) (pairByIndex td (rowsAt tr idx)))) := by
  unfold irmsdSql irmsdIndexM
  congr 1
  simp only [ok_bind, pure_eq_ok, throw_eq_error, bind_assoc]
  by_cases hch : getChains td ≠ getChains tr
  · simp [hch, error_bind]
  · simp only [hch, if_false]
    cases izone with
    | none =>
      simp only [bind_assoc, ok_bind]
      apply bind_congr'; intro c0
      apply bind_congr'; intro c1
      apply bind_congr'; intro contact
      by_cases hp : (pairByIndex td (rowsAt tr (List.map (fun x => x.2) (backboneRowsAt tr (flattenContacts contact))))).length = 0
      · simp [hp, error_bind]
      · simp [hp]
    | some lines =>
      simp only [bind_assoc, ok_bind]
      apply bind_congr'; intro zone
      by_cases hp : (pairByIndex td (rowsAt tr (izoneRowID tr zone))).length = 0
      · simp [hp, error_bind]
      · simp [hp]

/-- the index stage of the generated route IS the model's: computed interface, or the zone file's lines read by the translated reader -/
theorem irmsdIndex_eq_model_none (isfile : Str → Bool) (readlines : Str → Except Err (List Str)) (tr : List Atom) (cutoff : Rat) :
    irmsdIndex isfile readlines tr cutoff none = irmsdIndexM tr cutoff none := rfl

theorem irmsdIndex_eq_model_file (isfile : Str → Bool) (readlines : Str → Except Err (List Str)) (tr : List Atom) (cutoff : Rat)
    (z : Str) (lines : List Str) (hf : isfile z = true) (hl : readlines z = .ok lines) :
    irmsdIndex isfile readlines tr cutoff (some z) = irmsdIndexM tr cutoff (some lines) := by
  unfold irmsdIndex irmsdIndexM
  simp only [hf, if_true, genr_read_zone_eq_model, hl, ok_bind]

end Proofs.GenSim
