/-
  Kabsch's theorem about the hand model `Model.kabschCore` (which follows `Gen.kabsch_steps`):
  with `A = V·diag(σ)·Wt` (V, Wt orthogonal, σ₁ ≥ σ₂ ≥ σ₃ ≥ 0) the matrix the code forms is a proper
  rotation maximising `tr(R·A)` over all proper rotations `R`.  No rank assumption.
  Ported from design_spikes/kabsch.lean.  Helper lemmas only.
-/
import PdbVerif.Proofs.SO3
import PdbVerif.Model.Superpose

set_option linter.unusedSectionVars false
set_option linter.unusedVariables false

namespace Proofs.Kabsch
open Py Py.Mat3 Spec Proofs.M3 Proofs.SO3

variable {α : Type} [Field α] [LinearOrder α] [IsStrictOrderedRing α]

theorem pm_one_of_sq {δ : α} (h : δ * δ = 1) : δ = 1 ∨ δ = -1 := by
  have : (δ - 1) * (δ + 1) = 0 := by linear_combination h
  rcases mul_eq_zero.1 this with h | h
  · left; linarith
  · right; linarith

/-- the `if d < 0: Id[2,2] = -1` step produces `diag(1, 1, d)` because `d = ±1` -/
theorem kabschCore_eq {V Wt : Mat3 α} (hV : Orthogonal V) (hW : Orthogonal Wt) :
    Model.kabschCore V Wt =
      Wt.T.mul ((diag 1 1 (det (Wt.T.mul V.T))).mul V.T) := by
  have hδ2 : det (Wt.T.mul V.T) * det (Wt.T.mul V.T) = 1 := orth_det_sq (orth_mul (orth_T hW) (orth_T hV))
  unfold Model.kabschCore
  rcases pm_one_of_sq hδ2 with h1 | h1
  · simp only [h1]
    have : ¬ ((1 : α) < 0) := by norm_num
    simp only [this, if_false]
    rfl
  · simp only [h1]
    have : ((-1 : α) < 0) := by norm_num
    simp only [this, if_true]
    rfl

theorem orth_diag11 {δ : α} (h : δ * δ = 1) : Orthogonal (diag 1 1 δ) := by
  constructor <;> (ext <;> simp [mul, T, diag, one, h])

/-- Kabsch with `W` in place of `Wtᵀ`: `δ = det(W·Vᵀ)`, `U = W·(diag(1,1,δ)·Vᵀ)`, `A = V·diag(σ)·Wᵀ`. -/
theorem kabschW (V W R : Mat3 α) (s1 s2 s3 δ : α)
    (hV : Orthogonal V) (hW : Orthogonal W) (hR : IsRotation R)
    (h12 : s2 ≤ s1) (h23 : s3 ≤ s2) (h3 : 0 ≤ s3) (hδdef : δ = det (W.mul V.T)) :
    IsRotation (W.mul ((diag 1 1 δ).mul V.T)) ∧
      tr (R.mul ((V.mul (diag s1 s2 s3)).mul W.T)) ≤
      tr ((W.mul ((diag 1 1 δ).mul V.T)).mul ((V.mul (diag s1 s2 s3)).mul W.T)) := by
  obtain ⟨A, hA⟩ : ∃ A, A = (V.mul (diag s1 s2 s3)).mul W.T := ⟨_, rfl⟩
  obtain ⟨U, hU⟩ : ∃ U, U = W.mul ((diag 1 1 δ).mul V.T) := ⟨_, rfl⟩
  rw [← hA, ← hU]
  have hδ : δ = det W * det V := by rw [hδdef, det_mul, det_T]
  have hVd : det V * det V = 1 := orth_det_sq hV
  have hWd : det W * det W = 1 := orth_det_sq hW
  have hδ2 : δ * δ = 1 := by rw [hδ]; linear_combination (det W * det W) * hVd + hWd
  have hD : Orthogonal (diag 1 1 δ) := orth_diag11 hδ2
  have hUo : Orthogonal U := by rw [hU]; exact orth_mul hW (orth_mul hD (orth_T hV))
  have hUd : det U = 1 := by
    rw [hU, det_mul, det_mul, det_T, det_diag, hδ]
    linear_combination (det W * det W) * hVd + hWd
  refine ⟨⟨hUo, hUd⟩, ?_⟩
  -- tr(U A) = s1 + s2 + δ s3
  have hUA : tr (U.mul A) = s1 + s2 + δ * s3 := by
    have e1 : U.mul A = (W.mul ((diag 1 1 δ).mul (diag s1 s2 s3))).mul W.T := by
      rw [hU, hA]
      calc (W.mul ((diag 1 1 δ).mul V.T)).mul ((V.mul (diag s1 s2 s3)).mul W.T)
          = (W.mul ((diag 1 1 δ).mul ((V.T.mul V).mul (diag s1 s2 s3)))).mul W.T := by
            simp only [M3.mul_assoc]
        _ = (W.mul ((diag 1 1 δ).mul (diag s1 s2 s3))).mul W.T := by rw [hV.2, M3.one_mul]
    rw [e1, tr_mul_comm, ← M3.mul_assoc, hW.2, M3.one_mul]
    simp [tr, mul, diag]
  -- tr(R A) = tr(R' S) with R' = Wᵀ R V
  have hRA : tr (R.mul A) = tr (((W.T.mul R).mul V).mul (diag s1 s2 s3)) := by
    rw [hA, ← M3.mul_assoc, tr_mul_comm, ← M3.mul_assoc, ← M3.mul_assoc]
  obtain ⟨R', hR'⟩ : ∃ R', R' = (W.T.mul R).mul V := ⟨_, rfl⟩
  rw [← hR'] at hRA
  have hR'o : Orthogonal R' := by rw [hR']; exact orth_mul (orth_mul (orth_T hW) hR.1) hV
  have hR'd : det R' = δ := by
    rw [hR', det_mul, det_mul, det_T, hR.2, hδ]; ring
  rw [hRA, hUA]
  rcases pm_one_of_sq hδ2 with h1 | h1
  · have HS := rel_of hR'o.1 (by rw [hR'd, h1])
    have := bound_pos HS (le_trans (le_trans h3 h23) h12) (le_trans h3 h23) h3
    rw [h1]; simp only [tr, mul, diag]; linarith
  · obtain ⟨R'', hR''⟩ : ∃ R'', R'' = R'.mul (diag 1 1 (-1)) := ⟨_, rfl⟩
    have hDm : Orthogonal (diag 1 1 (-1 : α)) := orth_diag11 (by norm_num)
    have hR''o : Orthogonal R'' := by rw [hR'']; exact orth_mul hR'o hDm
    have hR''d : det R'' = 1 := by
      rw [hR'', det_mul, hR'd, h1, det_diag]; norm_num
    have HS := rel_of hR''o.1 hR''d
    have := bound_neg HS h12 h23 h3
    rw [h1]
    rw [hR''] at this
    simp only [tr, mul, diag] at this ⊢
    linarith

/-- Kabsch, about the model of the code (`W = Wtᵀ`). -/
theorem kabsch (V Wt R : Mat3 α) (s1 s2 s3 : α)
    (hV : Orthogonal V) (hWt : Orthogonal Wt) (hR : IsRotation R)
    (h12 : s2 ≤ s1) (h23 : s3 ≤ s2) (h3 : 0 ≤ s3) :
    IsRotation (Model.kabschCore V Wt) ∧
      tr (R.mul ((V.mul (diag s1 s2 s3)).mul Wt)) ≤
      tr ((Model.kabschCore V Wt).mul ((V.mul (diag s1 s2 s3)).mul Wt)) := by
  rw [kabschCore_eq hV hWt]
  have := kabschW V Wt.T R s1 s2 s3 _ hV (orth_T hWt) hR h12 h23 h3 rfl
  rw [T_T] at this
  exact this

end Proofs.Kabsch
