/- Lemmas on the nested-loop join of `many2sql.get_intersection`. -/
import Mathlib.Data.List.Basic
import Mathlib.Data.List.Pairwise
import Mathlib.Data.List.Forall2
import Mathlib.Data.List.Nodup
import PdbVerif.Model.TableJoin
import PdbVerif.Spec.C19

set_option linter.unusedVariables false
set_option linter.unusedSimpArgs false

namespace JoinProofs
open Tbl Model

theorem mem_cartesian : ∀ (Ts : List Table) (tup : List Row),
    tup ∈ cartesian Ts ↔ List.Forall₂ (fun r T => r ∈ T) tup Ts
  | [], tup => by
    simp only [cartesian, List.mem_singleton]
    constructor
    · rintro rfl; exact List.Forall₂.nil
    · intro h; cases h; rfl
  | T :: rest, tup => by
    simp only [cartesian, List.mem_flatMap, List.mem_map]
    constructor
    · rintro ⟨r, hr, t, ht, rfl⟩
      exact List.Forall₂.cons hr ((mem_cartesian rest t).1 ht)
    · intro h
      cases h with
      | cons h1 h2 => exact ⟨_, h1, _, (mem_cartesian rest _).2 h2, rfl⟩

/-! ### fewer than two structures: no pair of tables, no ON clause -/

theorem onClause_short (m : List StdCol) : ∀ (tup : List Row), tup.length < 2 → onClause m tup = true
  | [], _ => rfl
  | [r], _ => by simp [onClause]
  | _ :: _ :: _, h => by simp at h; omega

/-- with fewer than two structures the joined tuples do not depend on the match attributes -/
theorem joinRows_lt2 (m m' : List StdCol) (Ts : List Table) (h : Ts.length < 2) : joinRows m Ts = joinRows m' Ts := by
  unfold joinRows
  apply List.filter_congr
  intro tup htup
  have hl : tup.length = Ts.length := ((mem_cartesian Ts tup).1 htup).length_eq
  rw [onClause_short m tup (by omega), onClause_short m' tup (by omega)]

/-- known match attributes: `matchCols` answers with attributes that give the same joined tuples (the attributes themselves with two
    or more structures; none with fewer, where no ON clause is emitted) -/
theorem matchCols_some (db : Db) (mnames : List Py.Str) (m : List StdCol) (hm : mnames.mapM matchCol = some m) :
    ∃ m', matchCols db mnames = some m' ∧ joinRows m' (db.tabs.map (·.rows)) = joinRows m (db.tabs.map (·.rows)) := by
  unfold matchCols
  by_cases h : db.tabs.length < 2
  · exact ⟨[], by simp [h], joinRows_lt2 _ _ _ (by simpa using h)⟩
  · exact ⟨m, by simp [h, hm], rfl⟩

theorem matchCols_ge2 (db : Db) (mnames : List Py.Str) (h : 2 ≤ db.tabs.length) : matchCols db mnames = mnames.mapM matchCol := by
  unfold matchCols
  rw [if_neg (by omega)]

theorem matchCols_lt2 (db : Db) (mnames : List Py.Str) (h : db.tabs.length < 2) : matchCols db mnames = some [] := by
  unfold matchCols
  rw [if_pos h]

/-- SQL `=` on two cells of the same standard column is equality of the values -/
theorem cmpEq_std (c : StdCol) (r r' : Row) : cmpEq (r.std c) (r'.std c) = true ↔ r.std c = r'.std c := by
  cases c <;> simp [Row.std, cmpEq]

theorem sameKey_iff (m : List StdCol) (r r' : Row) : sameKey m r r' = true ↔ Spec.keyOf m r = Spec.keyOf m r' := by
  unfold sameKey Spec.keyOf
  rw [List.all_eq_true]
  constructor
  · intro h
    apply List.map_congr_left
    intro c hc
    exact (cmpEq_std c r r').1 (h c hc)
  · intro h c hc
    exact (cmpEq_std c r r').2 (List.map_inj_left.1 h c hc)

theorem onClause_iff (m : List StdCol) : ∀ (tup : List Row),
    onClause m tup = true ↔ tup.Pairwise (fun r r' => Spec.keyOf m r = Spec.keyOf m r')
  | [] => by simp [onClause]
  | r :: rest => by
    simp only [onClause, Bool.and_eq_true, List.all_eq_true, List.pairwise_cons, onClause_iff m rest, sameKey_iff]

/-- all components of a joined tuple carry the same key -/
theorem pairwise_key_all (m : List StdCol) (tup : List Row)
    (h : tup.Pairwise (fun r r' => Spec.keyOf m r = Spec.keyOf m r')) :
    ∀ r ∈ tup, ∀ r' ∈ tup, Spec.keyOf m r = Spec.keyOf m r' := by
  induction tup with
  | nil => intro r hr; simp at hr
  | cons a t ih =>
    rw [List.pairwise_cons] at h
    intro r hr r' hr'
    rcases List.mem_cons.1 hr with e1 | h1
    · rcases List.mem_cons.1 hr' with e2 | h2
      · rw [e1, e2]
      · rw [e1]; exact h.1 r' h2
    · rcases List.mem_cons.1 hr' with e2 | h2
      · rw [e2]; exact (h.1 r h1).symm
      · exact ih h.2 r h1 r' h2

theorem all_key_pairwise (m : List StdCol) (k : List Val) : ∀ (tup : List Row), (∀ r ∈ tup, Spec.keyOf m r = k) →
    tup.Pairwise (fun r r' => Spec.keyOf m r = Spec.keyOf m r')
  | [], _ => List.Pairwise.nil
  | a :: t, h => by
    rw [List.pairwise_cons]
    exact ⟨fun r' hr' => by rw [h a (by simp), h r' (List.mem_cons_of_mem _ hr')],
      all_key_pairwise m k t (fun r hr => h r (List.mem_cons_of_mem _ hr))⟩

/-- one row per table with a given key, when every table has one -/
theorem exists_tuple (m : List StdCol) (k : List Val) : ∀ (Ts : List Table), (∀ T ∈ Ts, ∃ r ∈ T, Spec.keyOf m r = k) →
    ∃ tup, List.Forall₂ (fun r T => r ∈ T) tup Ts ∧ ∀ r ∈ tup, Spec.keyOf m r = k
  | [], _ => ⟨[], List.Forall₂.nil, by simp⟩
  | T :: rest, h => by
    obtain ⟨r, hr, hk⟩ := h T (by simp)
    obtain ⟨tup, h1, h2⟩ := exists_tuple m k rest (fun T' hT' => h T' (List.mem_cons_of_mem _ hT'))
    refine ⟨r :: tup, List.Forall₂.cons hr h1, ?_⟩
    intro r' hr'
    rcases List.mem_cons.1 hr' with rfl | hr'
    · exact hk
    · exact h2 r' hr'

/-- with unique keys per table, two tuples (one row per table) that carry the same key are the same tuple -/
theorem tuple_unique (m : List StdCol) (k : List Val) : ∀ (Ts : List Table) (tup tup' : List Row),
    (∀ T ∈ Ts, (T.map (Spec.keyOf m)).Nodup) →
    List.Forall₂ (fun r T => r ∈ T) tup Ts → List.Forall₂ (fun r T => r ∈ T) tup' Ts →
    (∀ r ∈ tup, Spec.keyOf m r = k) → (∀ r ∈ tup', Spec.keyOf m r = k) → tup = tup'
  | [], tup, tup', _, h1, h2, _, _ => by cases h1; cases h2; rfl
  | T :: rest, tup, tup', hnd, h1, h2, k1, k2 => by
    cases h1 with
    | cons a1 b1 =>
      cases h2 with
      | cons a2 b2 =>
        rename_i r t r' t'
        have hr : r = r' := by
          have hinj := List.inj_on_of_nodup_map (hnd T (by simp))
          exact hinj a1 a2 (by rw [k1 r (by simp), k2 r' (by simp)])
        subst hr
        congr 1
        exact tuple_unique m k rest t t' (fun T' hT' => hnd T' (List.mem_cons_of_mem _ hT')) b1 b2
          (fun x hx => k1 x (List.mem_cons_of_mem _ hx)) (fun x hx => k2 x (List.mem_cons_of_mem _ hx))

theorem cartesian_nodup : ∀ (Ts : List Table), (∀ T ∈ Ts, T.Nodup) → (cartesian Ts).Nodup
  | [], _ => by simp [cartesian]
  | T :: rest, h => by
    have ih := cartesian_nodup rest (fun T' hT' => h T' (List.mem_cons_of_mem _ hT'))
    simp only [cartesian]
    rw [List.nodup_flatMap]
    refine ⟨?_, ?_⟩
    · intro r _
      exact ih.map (fun a b hab => by injection hab)
    · have hT := h T (by simp)
      refine hT.imp ?_
      intro a b hab
      simp only [Function.onFun, List.disjoint_left, List.mem_map, not_exists, not_and]
      rintro x ⟨t, _, rfl⟩ t' _ hcontra
      injection hcontra with h1 _
      exact hab h1.symm

theorem forall₂_getElem_opt {α β : Type} {R : α → β → Prop} {l1 : List α} {l2 : List β} (hf : List.Forall₂ R l1 l2) :
    ∀ (k : Nat) (b : β), l2[k]? = some b → ∃ a, l1[k]? = some a ∧ R a b := by
  induction hf with
  | nil => intro k b h; simp at h
  | cons h1 h2 ih =>
    intro k b h
    cases k with
    | zero =>
      simp only [List.getElem?_cons_zero, Option.some.injEq] at h; subst h
      exact ⟨_, rfl, h1⟩
    | succ k =>
      simp only [List.getElem?_cons_succ] at h ⊢
      exact ih k b h

theorem filterMap_eq_map_of {α β : Type} (f : α → Option β) (g : α → β) : ∀ (l : List α), (∀ x ∈ l, f x = some (g x)) →
    l.filterMap f = l.map g
  | [], _ => rfl
  | a :: t, h => by
    rw [List.filterMap_cons_some (h a (by simp)), List.map_cons,
      filterMap_eq_map_of f g t (fun x hx => h x (List.mem_cons_of_mem _ hx))]

/-- every joined tuple has a component for structure `k`, and it is a row of that structure -/
theorem component_mem (m : List StdCol) (Ts : List Table) (k : Nat) (T : Table) (hk : Ts[k]? = some T)
    (tup : List Row) (h : tup ∈ joinRows m Ts) : ∃ r, tup[k]? = some r ∧ r ∈ T := by
  unfold joinRows at h
  rw [List.mem_filter, mem_cartesian] at h
  exact forall₂_getElem_opt h.1 k T hk

/-- the rows of structure `k` in the intersection: one per joined tuple, in the order of the join -/
theorem component_eq_map (m : List StdCol) (Ts : List Table) (k : Nat) (T : Table) (hk : Ts[k]? = some T) :
    component (joinRows m Ts) k = (joinRows m Ts).map (fun tup => tup.getD k default) := by
  unfold component
  apply filterMap_eq_map_of
  intro tup htup
  obtain ⟨r, hr, _⟩ := component_mem m Ts k T hk tup htup
  simp [hr, List.getD_eq_getElem?_getD]

end JoinProofs
