/-
  C08, clashes: `compute_clashes` = sum of the partner-list lengths of the atom pair map at cutoff 3 with `excludeH`;
  on a two-chain structure with no inter-chain heavy-atom pair at a distance of exactly 3 Å this is the number of
  inter-chain pairs of heavy atoms closer than 3 Å.  Helper lemmas only.
-/
import PdbVerif.Proofs.FnatUnit

set_option linter.unusedSectionVars false
set_option linter.unusedVariables false

namespace Proofs.Fnat
open Py Model Model.Fnat Proofs.Contacts
open Spec.Contact (chainAtoms touches partners atoms)

instance exceptDecEq {ε β : Type} [DecidableEq ε] [DecidableEq β] : DecidableEq (Except ε β) := fun a b =>
  match a, b with
  | .ok x, .ok y => if h : x = y then isTrue (by rw [h]) else isFalse (by intro h'; injection h' with h''; exact h h'')
  | .error x, .error y => if h : x = y then isTrue (by rw [h]) else isFalse (by intro h'; injection h' with h''; exact h h'')
  | .ok _, .error _ => isFalse (by intro h; cases h)
  | .error _, .ok _ => isFalse (by intro h; cases h)

/-- no two heavy atoms of different chains at a distance of exactly 3 Å -/
def NoBoundaryPair (t : List Atom) : Prop :=
  ∀ a ∈ t, ∀ b ∈ t, a.chainID ≠ b.chainID → heavy a = true → heavy b = true → Spec.C08.sqDist a b ≠ 9

theorem foldl_len {β : Type} (d : List (β × List Nat)) (n : Nat) :
    d.foldl (fun n e => n + e.2.length) n = n + (d.map (fun e => e.2.length)).sum := by
  induction d generalizing n with
  | nil => simp
  | cons e d ih => simp [ih]; omega

theorem sum_filter_zero {β : Type} (q : β → Bool) (f : β → Nat) (l : List β) (h : ∀ x ∈ l, q x = false → f x = 0) :
    ((l.filter q).map f).sum = (l.map f).sum := by
  induction l with
  | nil => rfl
  | cons x l ih =>
    have ih' := ih (fun y hy => h y (List.mem_cons_of_mem _ hy))
    by_cases hq : q x = true
    · simp [List.filter_cons, hq, ih']
    · have := h x (List.mem_cons_self ..) (by simpa using hq)
      simp [List.filter_cons, hq, ih', this]

theorem passes_clash (X Y : Str) (x : Atom) : Spec.Contact.passes (params (clashArgs X Y)) x = heavy x := by
  simp [Spec.Contact.passes, params, clashArgs, Gen.clash_excludeH, heavy, Spec.Contact.isHydrogen, startsWithH]

theorem near_clash (X Y : Str) (x y : Atom) :
    Spec.Contact.near (params (clashArgs X Y)) x y = Spec.C08.within 3 x y := rfl

theorem within_closer {a b : Atom} (h : Spec.C08.sqDist a b ≠ 9) : Spec.C08.within 3 a b = Spec.C08.closer 3 a b := by
  unfold Spec.C08.within Spec.C08.closer
  have h9 : (3 : Rat) * 3 = 9 := by decide +kernel
  have h03 : decide ((0 : Rat) ≤ 3) = true := by decide +kernel
  have h03' : decide ((0 : Rat) < 3) = true := by decide +kernel
  rw [h9, h03, h03']
  simp only [Bool.true_and]
  rw [Bool.eq_iff_iff]
  simp only [decide_eq_true_eq]
  constructor
  · intro hle; exact lt_of_le_of_ne hle h
  · intro hlt; exact le_of_lt hlt

theorem zipIdx_map_fst' (t : List Atom) : t.zipIdx.map (fun p => p.1) = t := by
  simp

theorem mem_of_zipIdx {t : List Atom} {p : Atom × Nat} (hp : p ∈ t.zipIdx) : p.1 ∈ t := by
  have : p.1 ∈ t.zipIdx.map (fun p => p.1) := List.mem_map.2 ⟨p, hp, rfl⟩
  rwa [zipIdx_map_fst'] at this

theorem sum_over_zipIdx (f : Atom → Nat) (t : List Atom) : (t.map f).sum = (t.zipIdx.map (fun p => f p.1)).sum := by
  have : t.map f = (t.zipIdx.map (fun p => p.1)).map f := by rw [zipIdx_map_fst']
  rw [this, List.map_map]; rfl

theorem length_filter_zipIdx (g : Atom → Bool) (t : List Atom) :
    (t.filter g).length = (t.zipIdx.filter (fun q => g q.1)).length := by
  have : t.filter g = (t.zipIdx.map (fun p => p.1)).filter g := by rw [zipIdx_map_fst']
  rw [this, List.filter_map, List.length_map]; rfl

theorem length_flatMap_sum {β γ : Type} (l : List β) (f : β → List γ) :
    (l.flatMap f).length = (l.map (fun a => (f a).length)).sum := by
  induction l with
  | nil => rfl
  | cons x l ih => simp [ih]

/-- **clash count in closed form** -/
theorem clashes_eq {t : List Atom} {X Y : Str} (h : getChains t = [X, Y]) (hb : NoBoundaryPair t) :
    clashes t X Y = .ok (Spec.C08.clashes t) := by
  obtain ⟨hne, hXY, h1, h2⟩ := two_of_getChains h
  unfold clashes
  rw [contactPairs_two_chain t (clashArgs X Y) rfl hne h1 h2]
  simp only [bind, Except.bind, pure, Except.pure]
  congr 1
  rw [foldl_len, Nat.zero_add]
  show ((Spec.Contact.pairMap (params (clashArgs X Y)) t X Y).map (fun e => e.2.length)).sum = _
  -- the model's side as a sum over the atoms of the first chain
  have hL : ((Spec.Contact.pairMap (params (clashArgs X Y)) t X Y).map (fun e => e.2.length)).sum =
      ((t.zipIdx.filter (fun p => decide (p.1.chainID = X))).map
        (fun p => (partners (params (clashArgs X Y)) t Y p).length)).sum := by
    unfold Spec.Contact.pairMap
    rw [List.map_map]
    exact sum_filter_zero _ _ _ (by
      intro p _ hq
      simp only [Function.comp, partners, List.length_map]
      rw [List.length_eq_zero_iff, List.filter_eq_nil_iff]
      intro q hq'
      have := List.any_eq_false.1 hq q hq'
      simpa using this)
  -- the definition's side as a sum over the same atoms
  have hR : Spec.C08.clashes t =
      ((t.zipIdx.filter (fun p => decide (p.1.chainID = X))).map
        (fun p => (t.filter (fun b => Spec.C08.isClash 3 p.1 b)).length)).sum := by
    unfold Spec.C08.clashes Spec.C08.clashCount
    rw [length_flatMap_sum, sum_over_zipIdx]
    refine (sum_filter_zero (fun p : Atom × Nat => decide (p.1.chainID = X)) _ t.zipIdx ?_).symm
    intro p hp hq
    rw [List.length_eq_zero_iff, List.filter_eq_nil_iff]
    intro b hbm
    have hp' := mem_of_zipIdx hp
    have hpY : p.1.chainID = Y := by
      rcases chain_cases h hp' with hc | hc
      · simp [hc] at hq
      · exact hc
    simp only [Spec.C08.isClash, Spec.C08.chainLt, Bool.and_eq_true, decide_eq_true_eq, not_and]
    intro hlt0 _
    exfalso
    have hlt' : ltStr p.1.chainID b.chainID = true := (str_lt_iff _ _).2 hlt0.1.1
    rcases chain_cases h hbm with hc | hc
    · rw [hpY, hc, strictTotal_ltStr.asymm hXY] at hlt'; cases hlt'
    · rw [hpY, hc, strictTotal_ltStr.irrefl] at hlt'; cases hlt'
  rw [hL, hR]
  apply congrArg
  apply List.map_congr_left
  intro p hp
  obtain ⟨hpz, hpX⟩ := List.mem_filter.1 hp
  simp only [decide_eq_true_eq] at hpX
  have hp' := mem_of_zipIdx hpz
  rw [length_filter_zipIdx]
  simp only [partners, List.length_map, chainAtoms, atoms, List.filter_filter]
  congr 1
  apply List.filter_congr
  intro q hq
  have hq' := mem_of_zipIdx hq
  simp only [touches, passes_clash, near_clash, Spec.C08.isClash, Spec.C08.chainLt, ← heavy_eq]
  rw [Bool.eq_iff_iff]
  simp only [Bool.and_eq_true, decide_eq_true_eq]
  constructor
  · rintro ⟨⟨⟨hhp, hhq⟩, hw⟩, hqY⟩
    have hne' : p.1.chainID ≠ q.1.chainID := by rw [hpX, hqY]; exact hne
    have hsq := hb p.1 hp' q.1 hq' hne' hhp hhq
    rw [within_closer hsq] at hw
    exact ⟨⟨⟨by rw [hpX, hqY]; exact (str_lt_iff _ _).1 hXY, hhp⟩, hhq⟩, hw⟩
  · rintro ⟨⟨⟨hlt, hhp⟩, hhq⟩, hcl⟩
    have hqY : q.1.chainID = Y := by
      rcases chain_cases h hq' with hc | hc
      · rw [hpX, hc] at hlt; exact absurd hlt (List.lt_irrefl _)
      · exact hc
    have hne' : p.1.chainID ≠ q.1.chainID := by rw [hpX, hqY]; exact hne
    have hsq := hb p.1 hp' q.1 hq' hne' hhp hhq
    rw [← within_closer hsq] at hcl
    exact ⟨⟨⟨hhp, hhq⟩, hcl⟩, hqY⟩

end Proofs.Fnat
