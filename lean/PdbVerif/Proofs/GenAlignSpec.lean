/-
  C18, database statement, transferred to the GENERATED `align` / `align_interface` (Gen/Align.lean): whenever the translated call
  returns, (i) the object it returns is the object it was given (or built) with the same `pdbfile`, (ii) its table is the old one
  moved by ONE proper rotation about the centroid of all atoms, nothing but coordinates changed (`Props.C18.only_xyz_changes`),
  (iii) the files written are: none without `export`, exactly `exportName pdbfile` holding the new table with it, and (iv) the
  vector that was aligned is a column of what `eigh` returned for the covariance of the centred selection whose eigenvalue is
  maximal (`align`) / minimal (`align_interface`).  Built on the equalities of GenAlignMain.lean only.
-/
import PdbVerif.Proofs.GenAlignMain

set_option linter.unusedSectionVars false
set_option linter.unusedVariables false
set_option linter.style.nameCheck false

namespace Proofs.GenAlign
open Py Model GenA Spec

/-- the rigid motion of the statement: rotation `R` about the centroid of all atoms of the table -/
def aboutCentroid (R : Mat3 ℚ) (t : List Atom) : Vec3 ℚ → Vec3 ℚ :=
  fun p => Vec3.add (R.mulVec (Vec3.sub p (mean (getXYZ selAll t)))) (mean (getXYZ selAll t))

/-- what a returned call guarantees about the object and the files -/
def AlignedFrom (sql sql' : Rt.Db) (export_ : Bool) (files : List Rt.FileEffect) : Prop :=
  sql'.pdbfile = sql.pdbfile ∧
  (∃ R : Mat3 ℚ, IsRotation R ∧ MovesExactly selAll (aboutCentroid R sql.atoms) sql.atoms sql'.atoms) ∧
  files = (if export_ then [(exportName sql.pdbfile, sql'.atoms)] else [])

/-- `cos² + sin² = 1` at the two angles -/
def UnitAt (cos sin : Rat → Rat) (phi theta : Rat) : Prop :=
  cos phi * cos phi + sin phi * sin phi = 1 ∧ cos theta * cos theta + sin theta * sin theta = 1

theorem alignCore_ok {cos sin : Rat → Rat}
    (norm : Vec3 Rat → Rat) (arctan2 : Rat → Rat → Rat) (arccos : Rat → Rat) (sql : Rt.Db) (v : Vec3 Rat) (axis : String)
    (export_ : Bool) (sql' : Rt.Db) (files : List Rt.FileEffect)
    (hu : UnitAt cos sin (phiOf arctan2 v) (thetaOf norm arccos v))
    (hr : alignCore norm arctan2 arccos cos sin sql v axis export_ = .ok (sql', files)) :
    AlignedFrom sql sql' export_ files := by
  unfold alignCore at hr
  cases ht : alignPcaVect (cos (phiOf arctan2 v)) (sin (phiOf arctan2 v)) (cos (thetaOf norm arccos v)) (sin (thetaOf norm arccos v))
      axis sql.atoms with
  | error e => rw [ht] at hr; cases hr
  | ok t =>
    rw [ht] at hr
    simp only [Except.map, finish, Except.ok.injEq, Prod.mk.injEq] at hr
    obtain ⟨h1, h2⟩ := hr
    subst h1
    refine ⟨rfl, ?_, ?_⟩
    · exact Props.C18.only_xyz_changes _ _ _ _ hu.1 hu.2 axis sql.atoms t ht
    · rw [← h2]; rfl

/-- **`align` returned**: same object, one rigid rotation about the centroid, nothing but coordinates changed, files only on export,
    and the aligned vector is an eigen-column of a maximal eigenvalue -/
theorem gena_align_returns {σ : Type} {cos sin : Rat → Rat} {pi : Rat}
    (cast : σ → Option Rt.Db) (ctor : σ → Except Err Rt.Db) (cov : Np.PointsT Rat → Except Err (Mat3 Rat))
    (eigh : Mat3 Rat → Except Err (Vec3 Rat × Mat3 Rat)) (norm : Vec3 Rat → Rat) (arctan2 : Rat → Rat → Rat) (arccos : Rat → Rat)
    (h : ∀ v, TrigAt cos sin pi (phiOf arctan2 v) (thetaOf norm arccos v))
    (hu : ∀ v, UnitAt cos sin (phiOf arctan2 v) (thetaOf norm arccos v))
    (pdb : σ) (axis : String) (export_ : Bool) (kwargs : Tbl.IRow → Bool) (sql' : Rt.Db) (files : List Rt.FileEffect)
    (hr : GenA.align cast ctor cov eigh norm arctan2 arccos cos sin pi pdb axis export_ kwargs = .ok (sql', files)) :
    ∃ sql, openDb cast ctor pdb = .ok sql ∧ AlignedFrom sql sql' export_ files ∧
      ∃ C u V k, cov (scat (getXYZ (selOf kwargs) sql.atoms)) = .ok C ∧ eigh C = .ok (u, V) ∧ k < 3 ∧
        u.x ≤ comp u k ∧ u.y ≤ comp u k ∧ u.z ≤ comp u k ∧
        alignCore norm arctan2 arccos cos sin sql (Mat3.col V k) axis export_ = .ok (sql', files) := by
  rw [gena_align_eq_model cast ctor cov eigh norm arctan2 arccos h] at hr
  cases ho : openDb cast ctor pdb with
  | error e => rw [ho] at hr; cases hr
  | ok sql =>
    rw [ho] at hr
    simp only [bind_ok, alignModelDb] at hr
    refine ⟨sql, rfl, ?_⟩
    cases hv : pcaVect cov eigh (fun u => Model.argmax [u.x, u.y, u.z]) (getXYZ (selOf kwargs) sql.atoms) with
    | error e => rw [hv] at hr; cases hr
    | ok v =>
      rw [hv] at hr
      simp only [bind_ok] at hr
      refine ⟨alignCore_ok norm arctan2 arccos sql v axis export_ sql' files (hu v) hr, ?_⟩
      rw [← gena_get_max_pca_vect_eq_model] at hv
      obtain ⟨_, C, u, V, k, hc, he, hk, hw, h1, h2, h3⟩ := gena_get_max_pca_vect_extreme cov eigh _ v hv
      exact ⟨C, u, V, k, hc, he, hk, h1, h2, h3, hw ▸ hr⟩

/-- **`align_interface` returned**: the same, with the contact atoms of `Model.contactAtoms` as the selection, a minimal eigenvalue,
    and the axis `Model.planeAxis plane` -/
theorem gena_align_interface_returns {σ : Type} {cos sin : Rat → Rat} {pi : Rat}
    (ord : List (Py.Str × Py.Str × Int) → List (Py.Str × Py.Str × Int)) (hord : Proofs.GenContacts.SetOrderOK ord)
    (cast : σ → Option Rt.Db) (ctor : σ → Except Err Rt.Db) (cov : Np.PointsT Rat → Except Err (Mat3 Rat))
    (eigh : Mat3 Rat → Except Err (Vec3 Rat × Mat3 Rat)) (norm : Vec3 Rat → Rat) (arctan2 : Rat → Rat → Rat) (arccos : Rat → Rat)
    (h : ∀ v, TrigAt cos sin pi (phiOf arctan2 v) (thetaOf norm arccos v))
    (hu : ∀ v, UnitAt cos sin (phiOf arctan2 v) (thetaOf norm arccos v))
    (ppi : σ) (plane : String) (export_ : Bool) (kw : Rt.ContactKw) (sql' : Rt.Db) (files : List Rt.FileEffect)
    (hr : GenA.align_interface cast ctor ord cov eigh norm arctan2 arccos cos sin pi ppi plane export_ kw = .ok (sql', files)) :
    ∃ sql, openDb cast ctor ppi = .ok sql ∧ AlignedFrom sql sql' export_ files ∧
      ∃ out axis C u V k, Model.contactAtoms sql.atoms (kwArgs kw) = .ok out ∧ planeAxis plane = some axis ∧
        cov (scat (getXYZ (fun i _ => decide (i ∈ rowIds out)) sql.atoms)) = .ok C ∧ eigh C = .ok (u, V) ∧ k < 3 ∧
        comp u k ≤ u.x ∧ comp u k ≤ u.y ∧ comp u k ≤ u.z ∧
        alignCore norm arctan2 arccos cos sin sql (Mat3.col V k) axis export_ = .ok (sql', files) := by
  rw [gena_align_interface_eq_model ord hord cast ctor cov eigh norm arctan2 arccos h] at hr
  cases ho : openDb cast ctor ppi with
  | error e => rw [ho] at hr; cases hr
  | ok sql =>
    rw [ho] at hr
    simp only [bind_ok, alignInterfaceModelDb] at hr
    refine ⟨sql, rfl, ?_⟩
    cases hc0 : Model.contactAtoms sql.atoms (kwArgs kw) with
    | error e => rw [hc0] at hr; cases hr
    | ok out =>
      rw [hc0] at hr
      simp only [bind_ok] at hr
      cases hv : pcaVect cov eigh Rt.argmin3 (getXYZ (fun i _ => decide (i ∈ rowIds out)) sql.atoms) with
      | error e => rw [hv] at hr; cases hr
      | ok v =>
        rw [hv] at hr
        simp only [bind_ok, planeAxisE] at hr
        cases hp : planeAxis plane with
        | none => rw [hp] at hr; cases hr
        | some axis =>
          rw [hp] at hr
          simp only [bind_ok] at hr
          refine ⟨alignCore_ok norm arctan2 arccos sql v axis export_ sql' files (hu v) hr, ?_⟩
          rw [← gena_get_min_pca_vect_eq_model] at hv
          obtain ⟨_, C, u, V, k, hc, he, hk, hw, h1, h2, h3⟩ := gena_get_min_pca_vect_extreme cov eigh _ v hv
          exact ⟨out, axis, C, u, V, k, rfl, rfl, hc, he, hk, h1, h2, h3, hw ▸ hr⟩

/-- **no file unless export** (both calls, read off the generated code through the equalities) -/
theorem gena_align_no_file_unless_export {σ : Type} {cos sin : Rat → Rat} {pi : Rat}
    (cast : σ → Option Rt.Db) (ctor : σ → Except Err Rt.Db) (cov : Np.PointsT Rat → Except Err (Mat3 Rat))
    (eigh : Mat3 Rat → Except Err (Vec3 Rat × Mat3 Rat)) (norm : Vec3 Rat → Rat) (arctan2 : Rat → Rat → Rat) (arccos : Rat → Rat)
    (h : ∀ v, TrigAt cos sin pi (phiOf arctan2 v) (thetaOf norm arccos v))
    (hu : ∀ v, UnitAt cos sin (phiOf arctan2 v) (thetaOf norm arccos v))
    (pdb : σ) (axis : String) (kwargs : Tbl.IRow → Bool) (sql' : Rt.Db) (files : List Rt.FileEffect)
    (hr : GenA.align cast ctor cov eigh norm arctan2 arccos cos sin pi pdb axis false kwargs = .ok (sql', files)) :
    files = [] := by
  obtain ⟨sql, _, ⟨_, _, hf⟩, _⟩ := gena_align_returns cast ctor cov eigh norm arctan2 arccos h hu pdb axis false kwargs sql' files hr
  simpa using hf

end Proofs.GenAlign
