/-
  Algebra of the 9-field `Py.Mat3` over a field: every identity unfolds to polynomial equalities.
  Helper lemmas only (cluster D: C06, C10, C18).
-/
import Mathlib.Tactic.Ring
import Mathlib.Tactic.LinearCombination
import Mathlib.Algebra.Field.Basic
import PdbVerif.Py.Mat
import PdbVerif.Spec.C06

set_option linter.unusedSectionVars false
set_option linter.unusedVariables false

namespace Proofs.M3
open Py Py.Mat3

variable {α : Type} [Field α]

theorem mul_assoc (A B C : Mat3 α) : (A.mul B).mul C = A.mul (B.mul C) := by
  ext <;> simp only [mul] <;> ring
theorem T_mul (A B : Mat3 α) : (A.mul B).T = B.T.mul A.T := by
  ext <;> simp only [mul, T] <;> ring
theorem T_T (A : Mat3 α) : A.T.T = A := by ext <;> rfl
theorem mul_one (A : Mat3 α) : A.mul one = A := by ext <;> simp [mul, one]
theorem one_mul (A : Mat3 α) : one.mul A = A := by ext <;> simp [mul, one]
theorem T_one : (one : Mat3 α).T = one := by ext <;> simp [T, one]
theorem tr_mul_comm (A B : Mat3 α) : tr (A.mul B) = tr (B.mul A) := by
  simp only [mul, tr]; ring
theorem tr_T (A : Mat3 α) : tr A.T = tr A := by simp only [T, tr]
theorem det_mul (A B : Mat3 α) : det (A.mul B) = det A * det B := by
  simp only [mul, det]; ring
theorem det_T (A : Mat3 α) : det A.T = det A := by simp only [T, det]; ring
theorem det_one : det (one : Mat3 α) = 1 := by simp [det, one]
theorem det_diag (x y z : α) : det (diag x y z) = x * y * z := by simp [det, diag]; ring
theorem mulVec_mul (A B : Mat3 α) (v : Vec3 α) : (A.mul B).mulVec v = A.mulVec (B.mulVec v) := by
  ext <;> simp only [mul, mulVec] <;> ring
theorem one_mulVec (v : Vec3 α) : (one : Mat3 α).mulVec v = v := by
  ext <;> simp [one, mulVec]
theorem mulVec_add (A : Mat3 α) (u v : Vec3 α) : A.mulVec (Vec3.add u v) = Vec3.add (A.mulVec u) (A.mulVec v) := by
  ext <;> simp only [mulVec, Vec3.add] <;> ring
theorem mulVec_sub (A : Mat3 α) (u v : Vec3 α) : A.mulVec (Vec3.sub u v) = Vec3.sub (A.mulVec u) (A.mulVec v) := by
  ext <;> simp only [mulVec, Vec3.sub] <;> ring
theorem mulVec_smul (A : Mat3 α) (k : α) (v : Vec3 α) : A.mulVec (Vec3.smul k v) = Vec3.smul k (A.mulVec v) := by
  ext <;> simp only [mulVec, Vec3.smul] <;> ring

/-- `(M u)·(M v) = u·(MᵀM v)` -/
theorem dot_mulVec (M : Mat3 α) (u v : Vec3 α) :
    Vec3.dot (M.mulVec u) (M.mulVec v) = Vec3.dot u ((M.T.mul M).mulVec v) := by
  simp only [mulVec, Vec3.dot, mul, T]; ring

/-- `det M · (u × v) … ` : `(M u) × (M v) = cof(M)(u × v)`; for `MᵀM = 1`, `det M = 1` see `SO3.cross_mulVec` -/
theorem dot_cross_mulVec (M : Mat3 α) (u v w : Vec3 α) :
    Vec3.dot (M.mulVec u) (Vec3.cross (M.mulVec v) (M.mulVec w)) = det M * Vec3.dot u (Vec3.cross v w) := by
  simp only [mulVec, Vec3.dot, Vec3.cross, det]; ring

open Spec

theorem orth_T {A : Mat3 α} (h : Orthogonal A) : Orthogonal A.T := by
  refine ⟨?_, ?_⟩
  · rw [T_T]; exact h.2
  · rw [T_T]; exact h.1

theorem orth_mul {A B : Mat3 α} (hA : Orthogonal A) (hB : Orthogonal B) : Orthogonal (A.mul B) := by
  refine ⟨?_, ?_⟩
  · rw [T_mul, mul_assoc, ← mul_assoc B, hB.1, one_mul, hA.1]
  · rw [T_mul, mul_assoc, ← mul_assoc A.T, hA.2, one_mul, hB.2]

theorem orth_one : Orthogonal (one : Mat3 α) := by
  refine ⟨?_, ?_⟩ <;> rw [T_one, one_mul]

theorem orth_det_sq {M : Mat3 α} (h : Orthogonal M) : det M * det M = 1 := by
  have := congrArg det h.1
  rw [det_mul, det_T, det_one] at this; exact this

theorem rot_mul {A B : Mat3 α} (hA : IsRotation A) (hB : IsRotation B) : IsRotation (A.mul B) :=
  ⟨orth_mul hA.1 hB.1, by rw [det_mul, hA.2, hB.2, _root_.mul_one]⟩

theorem rot_T {A : Mat3 α} (hA : IsRotation A) : IsRotation A.T :=
  ⟨orth_T hA.1, by rw [det_T, hA.2]⟩

theorem rot_one : IsRotation (one : Mat3 α) := ⟨orth_one, det_one⟩

/-- an orthogonal matrix preserves dot products -/
theorem orth_dot {M : Mat3 α} (h : Orthogonal M) (u v : Vec3 α) :
    Vec3.dot (M.mulVec u) (M.mulVec v) = Vec3.dot u v := by
  rw [dot_mulVec, h.2, one_mulVec]

theorem orth_normSq {M : Mat3 α} (h : Orthogonal M) (u : Vec3 α) :
    Vec3.normSq (M.mulVec u) = Vec3.normSq u := orth_dot h u u

end Proofs.M3
