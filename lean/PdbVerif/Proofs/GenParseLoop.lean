/-
  The translated record loop of `pdb2sql._create_table` (Gen/ParseLoop.lean: `GenP._create_table_for_colname_coltype` = the inner
  loop over `self.col.items()`, `GenP._create_table_for_line` = the loop over the lines, `GenP._create_table_for_c` = the table-name
  clean-up loop, `GenP._create_table` = the whole function; regenerated from pdb2sqlcore.py on every run) IS the hand model of
  Model/Parse.lean, for every list of lines, error branches included (the first ATOM record that fails decides).

  One normal-form lemma per generated unit (`fields_nf`, `create_table_for_line_nf`, `create_table_for_c_nf`, `create_table_nf`).  The
  loop lemmas (`foldlM_fields`, `foldlM_lines`) are in continuation-passing form: the loop body is taken from the goal by
  unification and proved equal to the model's step by case analysis + `simp`, so no proof quotes generated text.
-/
import PdbVerif.Proofs.GenParseRt
set_option linter.unusedVariables false
set_option linter.unusedSimpArgs false
namespace Proofs.GenParse
open Py

/-- what one column does to the tuple being built -/
def fieldStep (line : Str) (acc : List Val) (cn ct : String) : Except Err (List Val) :=
  Model.parseField line cn ct >>= fun v => Except.ok (match v with | some x => acc ++ [x] | none => acc)

theorem foldlM_fields (line : Str) (f : List Val → String × String → Except Err (List Val))
    (hf : ∀ acc it, f acc it = fieldStep line acc it.1 it.2) :
    ∀ (cols : List (String × String)) (acc : List Val),
      List.foldlM f acc cols = Model.parseFields line cols >>= fun vs => Except.ok (acc ++ vs)
  | [], acc => by simp [Model.parseFields, pure_eq_ok, ok_bind]
  | (cn, ct) :: rest, acc => by
    rw [List.foldlM_cons, hf, fieldStep, Model.parseFields]
    simp only [bind_assoc, ok_bind, pure_eq_ok]
    apply bind_congr'; intro v
    rw [foldlM_fields line f hf rest]
    apply bind_congr'; intro vs
    cases v <;> simp

def toVal : Model.Data → Val
  | .str s => .text s
  | .num v => .real v

/-- the conversion by column type, on the value the loop holds -/
def convStep (ct : String) (d : Val) : Except Err Val :=
  if ct = "INT" then GenP.Rt.pyInt d >>= fun t => Except.ok (Val.int t)
  else if ct = "REAL" then GenP.Rt.pyFloat d >>= fun t => Except.ok (Val.real t)
  else Except.ok d

theorem convert_eq (ct : String) (d : Model.Data) : Model.convert ct d = convStep ct (toVal d) := by
  unfold Model.convert convStep
  cases d <;> by_cases h1 : ct = "INT" <;> by_cases h2 : ct = "REAL" <;>
    simp [h1, h2, toVal, GenP.Rt.pyInt, GenP.Rt.pyFloat, pure_eq_ok, bind_ok_eq, map_eq_bind] <;> rfl

theorem fields_nf (line : Str) (acc : List Val) (cols : List (String × String)) :
    GenP._create_table_for_colname_coltype line acc cols = Model.parseFields line cols >>= fun vs => Except.ok (acc ++ vs) := by
  unfold GenP._create_table_for_colname_coltype
  apply foldlM_fields line
  intro acc it
  obtain ⟨cn, ct⟩ := it
  simp only [dictHas_eq, dictGet_eq, fieldStep, Model.parseField]
  cases hd : Model.lookup cn Gen.delimiter with
  | none => simp [pure_eq_ok, ok_bind]
  | some ab =>
    obtain ⟨a, b⟩ := ab
    simp only [Option.isSome_some, if_true, ok_bind, pure_eq_ok, bind_assoc]
    generalize hs : strip (slice line (a : Int) (b : Int)) = s
    simp only [convert_eq, toVal]
    by_cases hb : s = []
    · subst hb
      by_cases h1 : cn = "chainID"
      · subst h1
        simp [Gen.blank_defaults, Model.lookup, convStep, ok_bind, pure_eq_ok, bind_assoc]
      by_cases h2 : cn = "occ"
      · subst h2
        simp [Gen.blank_defaults, Model.lookup, convStep, ok_bind, pure_eq_ok, bind_assoc]
      by_cases h3 : cn = "temp"
      · subst h3
        simp [Gen.blank_defaults, Model.lookup, convStep, ok_bind, pure_eq_ok, bind_assoc]
      by_cases h4 : cn = "element"
      · subst h4
        simp [Gen.blank_defaults, Model.lookup, convStep, ok_bind, pure_eq_ok, bind_assoc]
      simp [h1, h2, h3, h4, Gen.blank_defaults, Model.lookup, convStep, ok_bind, pure_eq_ok, bind_assoc]
    · simp [hb, convStep, ok_bind, pure_eq_ok, bind_assoc]

/-! ### the record loop -/

/-- `self._nModel` after the loop: the ENDMDL records counted (a record that starts with ATOM is never one) -/
def modelCount : List Str → Int → Int
  | [], n => n
  | l :: rest, n =>
    if Py.startsWith l Gen.atom_prefix then modelCount rest n
    else if Py.startsWith l Gen.endmdl_prefix then modelCount rest (n + 1)
    else modelCount rest n

/-- normal form of the body of the record loop -/
def lineStep (acc : Int × List (List Val)) (l : Str) : Except Err (Int × List (List Val)) :=
  if Py.startsWith l Gen.atom_prefix then Model.parseAtomLine l acc.1 >>= fun r => Except.ok (acc.1, acc.2 ++ [r])
  else if Py.startsWith l Gen.endmdl_prefix then Except.ok (acc.1 + 1, acc.2)
  else Except.ok acc

theorem foldlM_lines (f : Int × List (List Val) → Str → Except Err (Int × List (List Val)))
    (hf : ∀ acc l, f acc l = lineStep acc l) :
    ∀ (lines : List Str) (n : Int) (acc : List (List Val)),
      List.foldlM f (n, acc) lines = Model.parseLines lines n >>= fun rs => Except.ok (modelCount lines n, acc ++ rs)
  | [], n, acc => by simp [Model.parseLines, modelCount, pure_eq_ok, ok_bind]
  | l :: rest, n, acc => by
    rw [List.foldlM_cons, hf, lineStep, Model.parseLines, modelCount]
    by_cases hA : Py.startsWith l Gen.atom_prefix = true
    · simp only [hA, if_true, bind_assoc, ok_bind, pure_eq_ok]
      apply bind_congr'; intro r
      rw [foldlM_lines f hf rest]
      simp only [bind_assoc, ok_bind, pure_eq_ok, List.append_assoc, List.singleton_append]
    · by_cases hE : Py.startsWith l Gen.endmdl_prefix = true
      · simp only [hA, hE, if_true, if_false, Bool.false_eq_true, ok_bind]
        exact foldlM_lines f hf rest (n + 1) acc
      · simp only [hA, hE, if_false, Bool.false_eq_true, ok_bind]
        exact foldlM_lines f hf rest n acc

/-- **the record loop of `_create_table`, for EVERY list of lines, start value of the model counter and rows collected so far**:
    the rows are those of `Model.parseLines` (errors included: the first ATOM record that fails decides), appended in order;
    the counter ends at the number of ENDMDL records -/
theorem create_table_for_line_nf (n : Int) (acc : List (List Val)) (lines : List Str) :
    GenP._create_table_for_line n acc lines =
      Model.parseLines lines n >>= fun rs => Except.ok (modelCount lines n, acc ++ rs) := by
  unfold GenP._create_table_for_line
  apply foldlM_lines
  intro acc l
  obtain ⟨n, rows⟩ := acc
  simp only [lineStep, Model.parseAtomLine, listGet_splitOn_zero, fields_nf, Gen.atom_prefix, Gen.endmdl_prefix]
  by_cases hA : Py.startsWith l ['A', 'T', 'O', 'M'] = true
  · simp [hA, ok_bind, pure_eq_ok, bind_assoc]
  · by_cases hE : Py.startsWith l ['E', 'N', 'D', 'M', 'D', 'L'] = true
    · simp [hA, hE, ok_bind, pure_eq_ok]
    · simp [hA, hE, ok_bind, pure_eq_ok]

/-- **`GenP` record loop = `Model.parse`** on the rows, for every list of lines -/
theorem genp_create_table_rows_eq_model (lines : List Str) :
    (GenP._create_table_for_line 0 [] lines >>= fun r => Except.ok r.2) = Model.parse lines := by
  rw [create_table_for_line_nf]
  simp only [bind_assoc, ok_bind, List.nil_append, bind_ok_eq, Model.parse]


/-! ### the whole of `_create_table` -/

instance {ε α : Type} [DecidableEq ε] [DecidableEq α] : DecidableEq (Except ε α)
  | .ok a, .ok b => if h : a = b then isTrue (by rw [h]) else isFalse (by intro h'; cases h'; exact h rfl)
  | .error a, .error b => if h : a = b then isTrue (by rw [h]) else isFalse (by intro h'; cases h'; exact h rfl)
  | .ok _, .error _ => isFalse (by intro h; cases h)
  | .error _, .ok _ => isFalse (by intro h; cases h)

/-- the table name after the clean-up loop over the punctuation characters `p` -/
def cleanName (p : List Str) (tn : Str) : Str := p.foldl (fun t c => GenP.Rt.replace t c ['_']) tn

theorem create_table_for_c_nf (tn : Str) (xs : List Str) :
    GenP._create_table_for_c tn xs = Except.ok (cleanName xs tn) := by
  unfold GenP._create_table_for_c cleanName
  exact foldlM_pure (fun t c => GenP.Rt.replace t c ['_']) xs tn

/-- replacing one character: `s.replace(c, d)` maps the characters -/
theorem replace_char (c d : Char) : ∀ s : Str, GenP.Rt.replace s [c] [d] = s.map (fun x => if x = c then d else x)
  | [] => by simp [GenP.Rt.replace, GenP.Rt.replaceAux]
  | x :: xs => by
    have ih := replace_char c d xs
    simp only [GenP.Rt.replace, List.isEmpty_cons, Bool.false_eq_true, if_false] at ih ⊢
    by_cases hx : x = c
    · simp [GenP.Rt.replaceAux, List.isPrefixOf, hx, ih]
    · have hx' : ¬ c = x := fun h => hx h.symm
      simp [GenP.Rt.replaceAux, List.isPrefixOf, hx, hx', ih]

/-- the clean-up loop maps every listed character to `_` and keeps the others (for a punctuation list without `_` … or with it) -/
theorem cleanName_chars : ∀ (p : Str) (tn : Str),
    cleanName (GenP.Rt.chars p) tn = tn.map (fun x => if x ∈ p then '_' else x)
  | [], tn => by simp [cleanName, GenP.Rt.chars]
  | c :: p, tn => by
    have ih := cleanName_chars p (GenP.Rt.replace tn [c] ['_'])
    simp only [cleanName, GenP.Rt.chars, List.map_cons, List.foldl_cons] at ih ⊢
    rw [ih, replace_char, List.map_map]
    apply List.map_congr_left
    intro x _
    by_cases hx : x = c
    · simp [hx]
    · by_cases hp : x ∈ p <;> simp [hx, hp]

/-- the header / placeholder loop on the column table of this tree (evaluated) -/
theorem header_loop_value :
    GenP._create_table_for_ic_colname_coltype 14 [] [] (GenP.Rt.enumerate Gen.col) =
      Except.ok ("serial INT, name TEXT, altLoc TEXT, resName TEXT, chainID TEXT, resSeq INT, iCode TEXT, x REAL, y REAL, z REAL, occ REAL, temp REAL, element TEXT, model INT".toList,
                 "?,?,?,?,?,?,?,?,?,?,?,?,?,?".toList) := by
  decide +kernel

def punct : Str := ['!', '@', '#', '$', '%', '^', '&', '*', '(', ')', '[', ']', '{', '}', ';', ':', ',', '.', '/', '<', '>', '?', '\\', '|', '`', '~', '-', '=', '_', '+']
def headerText : Str := "serial INT, name TEXT, altLoc TEXT, resName TEXT, chainID TEXT, resSeq INT, iCode TEXT, x REAL, y REAL, z REAL, occ REAL, temp REAL, element TEXT, model INT".toList
def qmText : Str := "?,?,?,?,?,?,?,?,?,?,?,?,?,?".toList
/-- `'CREATE TABLE {tablename} ({hd})'.format(..)` -/
def createText (t h : Str) : Str :=
  ['C', 'R', 'E', 'A', 'T', 'E', ' ', 'T', 'A', 'B', 'L', 'E', ' '] ++ t ++ [' ', '('] ++ h ++ [')']
/-- `'INSERT INTO {tablename} VALUES ({qm})'.format(..)` -/
def insertText (t q : Str) : Str :=
  ['I', 'N', 'S', 'E', 'R', 'T', ' ', 'I', 'N', 'T', 'O', ' '] ++ t ++ [' ', 'V', 'A', 'L', 'U', 'E', 'S', ' ', '('] ++ q ++ [')']
def clean (tn : Str) : Str := tn.map (fun x => if x ∈ punct then '_' else x)

/-- **`_create_table` in closed form**: CREATE TABLE on the cleaned name, the lines of `read_pdb`, the rows of `Model.parseLines`
    handed to ONE `executemany` of the INSERT text, `_nModel` = the ENDMDL count; any exception of `read_pdb` or of a record is
    the exception of the call -/
theorem create_table_nf (fs : GenP.Rt.FS) (o : GenP.Rt.Obj) (tn : Str) :
    GenP._create_table fs o tn =
      GenP.read_pdb fs o >>= fun lines => Model.parseLines lines 0 >>= fun rows =>
        Except.ok ([GenP.Rt.Fx.execute (createText (clean tn) headerText),
                    GenP.Rt.Fx.executemany (insertText (clean tn) qmText) rows],
                   modelCount lines 0) := by
  unfold GenP._create_table
  have h14 : (((Gen.col).length : Nat) : Int) = 14 := by decide
  simp only [h14, create_table_for_c_nf, cleanName_chars, header_loop_value, create_table_for_line_nf, ok_bind, pure_eq_ok,
    bind_assoc, List.nil_append]
  apply bind_congr'; intro lines
  apply bind_congr'; intro rows
  rfl

end Proofs.GenParse
