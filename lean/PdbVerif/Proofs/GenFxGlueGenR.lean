/-
  The values the glue of Proofs/GenFxGlue.lean computes ARE the values of the translated `GenR.compute_lzone`, `GenR.compute_izone`,
  `GenR.read_zone` (Gen/Rmsd.lean), and the file the translated effect program publishes is the file `GenR` returns as written;
  `readPdbT` returns what parseTie's translated `GenP.read_pdb` (Gen/ParseLoop.lean) returns on the same file system for a file NAME.
  A model work `W` built from these (`genrWork`) meets `WorkIs` unconditionally.
-/
import PdbVerif.Proofs.GenFxGlueSched
import PdbVerif.Proofs.GenParseRead

set_option linter.unusedVariables false
set_option linter.unusedSimpArgs false
set_option linter.unusedSectionVars false

namespace Proofs.GenFx
open Py Py.Fx Spec.C16 Model.C16 Proofs.Effects Proofs.GenRmsd

/-- `GenR.compute_lzone` on a reference whose lines are `rc` (parser `parse`): value = `zoneOfResidues d`, files written = `zoneWrites … d`,
    with `d` the residue list the glue uses (`dataE … .lzone rc`) -/
theorem genr_lzone_value (parse : List Py.Str → Except Py.Err (List Py.Atom))
    (gca : List Py.Atom → Rat → Py.Str → Py.Str → Except Py.Err (Model.Dict Py.Str (List Nat))) (cutoff : Rat)
    (rc : List Py.Str) (ref : Py.Str) (save : Bool) (fn : Option Py.Str) :
    GenR.compute_lzone (fun _ => parse rc) ref save fn =
      dataE parse gca cutoff .lzone rc >>= fun d =>
        zoneWrites save ref ".lzone".toList fn d >>= fun w => Except.ok (Model.Rmsd.zoneOfResidues d, w) := by
  rw [genr_compute_lzone_eq_model]
  have h : dataE parse gca cutoff .lzone rc = (parse rc >>= Model.Rmsd.computeLzone) := rfl
  rw [h]
  cases parse rc <;> rfl

theorem genr_izone_value (parse : List Py.Str → Except Py.Err (List Py.Atom))
    (gca : List Py.Atom → Rat → Py.Str → Py.Str → Except Py.Err (Model.Dict Py.Str (List Nat))) (cutoff : Rat)
    (rc : List Py.Str) (ref : Py.Str) (save : Bool) (fn : Option Py.Str) :
    GenR.compute_izone (fun _ => parse rc) gca ref cutoff save fn =
      dataE parse gca cutoff .izone rc >>= fun d =>
        zoneWrites save ref ".izone".toList fn d >>= fun w => Except.ok (Model.Rmsd.zoneOfResidues d, w) := by
  rw [genr_compute_izone_eq_model]
  have h : dataE parse gca cutoff .izone rc = (parse rc >>= fun t => computeIzoneWith gca t cutoff) := rfl
  rw [h]
  cases parse rc <;> rfl

theorem zoneText_eq_render (d : ZoneZ) : Model.Rmsd.zoneText d = .ok (renderZone d) := by
  unfold Model.Rmsd.zoneText renderZone
  induction d with
  | nil => rfl
  | cons r rs ih => simp only [List.mapM_cons, List.map_cons, Proofs.Zone.zone_line_eq] at ih ⊢; rw [ih]; rfl

/-- the file `GenR` reports as written for `save_file=True, filename=f` is exactly what the translated `_write_zone` publishes
    (`genf_write_zone_eq_model`): the name `f`, the lines `renderZone d` -/
theorem genr_zone_file (ref ext f : Py.Str) (d : ZoneZ) : zoneWrites true ref ext (some f) d = .ok [(f, renderZone d)] := by
  simp [zoneWrites, zoneFileName, zoneText_eq_render, bind, Except.bind]

theorem foldlM_step_eq {ι β σ : Type} (g : ι → Except Py.Err β) (step : σ → β → σ) (xs : List ι) (a : σ) :
    xs.foldlM (fun d x => do let r ← g x; pure (step d r)) a = (xs.mapM g >>= fun l => Except.ok (l.foldl step a)) := by
  induction xs generalizing a with
  | nil => rfl
  | cons x xs ih =>
    rw [List.foldlM_cons, List.mapM_cons]
    cases h : g x with
    | error e => rfl
    | ok r =>
      show List.foldlM _ (step a r) xs = _
      rw [ih]
      cases List.mapM g xs <;> rfl

/-- `GenR.read_zone` on an existing file with the lines `lines` = `zoneOfResidues` of what the glue's `readZoneT` returns -/
theorem genr_read_zone_value (lines : List Py.Str) (f : Py.Str) :
    GenR.read_zone (fun _ => true) (fun _ => .ok lines) f =
      (lines.mapM Gen.read_zone_line >>= fun l => Except.ok (Model.Rmsd.zoneOfResidues l)) := by
  rw [genr_read_zone_eq_model]
  simp only [if_true]
  show Model.Rmsd.readZone lines = _
  unfold Model.Rmsd.readZone Model.Rmsd.zoneOfResidues
  exact foldlM_step_eq Gen.read_zone_line (fun (d : Model.Rmsd.Zone) r => (d.setDefault r.1 []).extend r.1 [r.2]) lines []

/-! ### a model work made of the translated pieces -/

section
variable {R : Type}

/-- the pure work of the model with: zone = the (GenR) residue list of the parsed reference, zone file = the translated writer's
    lines, zone file parsing = the translated reader; checks / scores / export lines stay uninterpreted -/
def genrWork (parse : List Py.Str → Except Py.Err (List Py.Atom))
    (gca : List Py.Atom → Rat → Py.Str → Py.Str → Except Py.Err (Model.Dict Py.Str (List Nat))) (cutoff : Rat)
    (check : Routine → Nat → List (List Py.Str) → Except Spec.C16.Err Unit)
    (score : Routine → Option ZoneZ → List (List Py.Str) → Except Spec.C16.Err R)
    (exportLines : Routine → Nat → List (List Py.Str) → List Py.Str) (sameAtoms : List (List Py.Str) → Bool) : Work Py.Str ZoneZ R where
  compute := fun zr rc => match dataE parse gca cutoff zr rc with | .ok d => d | .error _ => []
  computeErr := fun zr rc => match dataE parse gca cutoff zr rc with | .ok _ => none | .error e => some (errOf e)
  render := renderZone
  parse := parseZone
  check := check
  score := score
  exportLines := exportLines
  sameAtoms := sameAtoms

/-- `WorkIs` holds of `genrWork` — for every parser and contact routine, failing references included -/
theorem genrWork_is (parse : List Py.Str → Except Py.Err (List Py.Atom))
    (gca : List Py.Atom → Rat → Py.Str → Py.Str → Except Py.Err (Model.Dict Py.Str (List Nat))) (cutoff : Rat)
    (check : Routine → Nat → List (List Py.Str) → Except Spec.C16.Err Unit)
    (score : Routine → Option ZoneZ → List (List Py.Str) → Except Spec.C16.Err R)
    (exportLines : Routine → Nat → List (List Py.Str) → List Py.Str) (sameAtoms : List (List Py.Str) → Bool) :
    WorkIs (genrWork parse gca cutoff check score exportLines sameAtoms) (dataE parse gca cutoff) where
  render := rfl
  parse := rfl
  lzone := fun rc => by cases h : dataE parse gca cutoff .lzone rc <;> simp [genrWork, h]
  izone := fun rc => by cases h : dataE parse gca cutoff .izone rc <;> simp [genrWork, h]

end

/-! ### `read_pdb` -/

/-- a file system of the effect model (no directories) as `GenP.read_pdb` sees it -/
def fsP (fs : FS Py.Str Py.Str) : GenP.Rt.FS :=
  { pathExists := fun p => (fs p).isSome, isfile := fun p => (fs p).isSome,
    readlines := fun p => match fs p with | some c => .ok c | none => .error .fileNotFound }

/-- **the glue's `readPdbT` returns what the translated `GenP.read_pdb` returns** on the same file system, for a `str` argument that
    is a file name (does not itself contain more than three `"\nATOM "` — such a string is taken as PDB text by the code; the effect
    model, `Model.C16.readPdb`, has no such branch) -/
theorem readPdbT_value_eq_genp (mk : Py.Str → Py.Str → Py.Str → Py.Str) (fs : FS Py.Str Py.Str) (p : Py.Str)
    (hname : ¬ (GenP.Rt.count p (['\n', 'A', 'T', 'O', 'M', ' '] : Py.Str) > (3 : Int))) :
    ((prog16 mk (readPdbT p) (fun c => (.done c : Spec.C16.Prog Py.Str Py.Str (List Py.Str)))).exec fs).2 =
      match GenP.read_pdb (fsP fs) (.str p) with
      | .ok c => .ok c
      | .error e => .error (errOf e) := by
  unfold prog16 readPdbT GenP.read_pdb
  simp only [GenP.Rt.isinstance, GenP.Rt.asStr, fsP, toC16, Spec.C16.Prog.exec]
  cases h : fs p <;>
    simp [h, hname, toC16, Spec.C16.Prog.exec, errOf, bind, Except.bind, pure, Except.pure, throw, throwThe, MonadExceptOf.throw]

end Proofs.GenFx
