/-
  Modifications: one cell, one row, the sequential `UPDATE … WHERE rowID=?` loop reduced to a function on the
  rows of the addressed table, and its frame (what cannot change).
-/
import PdbVerif.Proofs.TableGet

set_option linter.unusedVariables false
set_option linter.unusedSimpArgs false

namespace TableProofs
open Tbl Model

/-! ### one cell -/

theorem setStd_other (s s' : StdCol) (w : Val) (a a' : Py.Atom) (h : setStd s w a = some a') (hne : s' ≠ s)
    (e : List Val) : Row.std ⟨a', e⟩ s' = Row.std ⟨a, e⟩ s' := by
  cases s <;> cases w <;> simp [setStd] at h <;> subst h <;> cases s' <;> simp_all [Row.std]

theorem setStd_same (s : StdCol) (w : Val) (a a' : Py.Atom) (h : setStd s w a = some a') (e : List Val) :
    Row.std ⟨a', e⟩ s = w := by
  cases s <;> cases w <;> simp [setStd] at h <;> subst h <;> simp [Row.std]

/-- `SET c = v` changes no other cell of the row -/
theorem setCell_other (db : Db) (c c' : Col) (v : Val) (r r' : Row) (h : setCell db c v r = .ok r') (hne : c' ≠ c)
    (p : Nat) : cell c' p r' = cell c' p r := by
  cases c with
  | rowID => simp [setCell] at h
  | std s =>
    simp only [setCell] at h
    split at h
    · rename_i a ha
      injection h with h; subst h
      cases c' with
      | rowID => rfl
      | std s' => exact setStd_other s s' _ _ _ ha (by intro e; exact hne (by rw [e])) _
      | extra k => rfl
    · cases h
  | extra k =>
    simp only [setCell] at h
    split at h
    · injection h with h; subst h
      cases c' with
      | rowID => rfl
      | std s' => rfl
      | extra k' =>
        have : k ≠ k' := by intro e; exact hne (by rw [e])
        simp [cell, List.getD_eq_getElem?_getD, List.getElem?_set_ne this]
    · cases h

theorem setCell_extra_length (db : Db) (c : Col) (v : Val) (r r' : Row) (h : setCell db c v r = .ok r') :
    r'.extra.length = r.extra.length := by
  cases c with
  | rowID => simp [setCell] at h
  | std s =>
    simp only [setCell] at h
    split at h
    · injection h with h; subst h; rfl
    · cases h
  | extra k =>
    simp only [setCell] at h
    split at h
    · injection h with h; subst h; simp
    · cases h

/-- `SET c₁=?, …` changes no cell outside `c₁, …` -/
theorem setCells_other (db : Db) : ∀ (assign : List (Col × Val)) (r r' : Row), setCells db assign r = .ok r' →
    ∀ c', (∀ cv ∈ assign, cv.1 ≠ c') → ∀ p, cell c' p r' = cell c' p r
  | [], r, r', h, c', _, p => by simp [setCells] at h; subst h; rfl
  | (c, v) :: rest, r, r', h, c', hc, p => by
    simp only [setCells, bind, Except.bind] at h
    split at h
    · cases h
    · rename_i r1 h1
      rw [setCells_other db rest r1 r' h c' (fun cv hcv => hc cv (List.mem_cons_of_mem _ hcv)) p]
      exact setCell_other db c c' v r r1 h1 (fun e => hc (c, v) (by simp) e.symm) p

theorem setCells_extra_length (db : Db) : ∀ (assign : List (Col × Val)) (r r' : Row), setCells db assign r = .ok r' →
    r'.extra.length = r.extra.length
  | [], r, r', h => by simp [setCells] at h; subst h; rfl
  | (c, v) :: rest, r, r', h => by
    simp only [setCells, bind, Except.bind] at h
    split at h
    · cases h
    · rename_i r1 h1
      rw [setCells_extra_length db rest r1 r' h, setCell_extra_length db c v r r1 h1]

/-! ### the UPDATE loop as a function on the rows of the addressed table -/

/-- table names are unique (SQLite compares them case-insensitively and refuses duplicates) -/
def TabsOK (db : Db) : Prop := (db.tabs.map (fun t => Py.lower t.name)).Nodup

def execRows (db : Db) (cols : List Col) : List (List Val × Int) → Table → Table × Except Err Unit
  | [], T => (T, .ok ())
  | (vals, rid) :: rest, T =>
    if vals.length ≠ cols.length then (T, .error .programming)
    else if rid < 1 ∨ rid > T.length then execRows db cols rest T
    else match T[(rid - 1).toNat]? with
      | none => execRows db cols rest T
      | some r =>
        match setCells db (cols.zip vals) r with
        | .error e => (T, .error e)
        | .ok r' => execRows db cols rest (T.set (rid - 1).toNat r')

theorem setCell_congr (db db' : Db) (he : db.extra = db'.extra) (c : Col) (v : Val) (r : Row) :
    setCell db c v r = setCell db' c v r := by
  cases c <;> simp [setCell, affOf, he]

theorem setCells_congr (db db' : Db) (he : db.extra = db'.extra) : ∀ (assign : List (Col × Val)) (r : Row),
    setCells db assign r = setCells db' assign r
  | [], r => rfl
  | (c, v) :: rest, r => by
    simp only [setCells, setCell_congr db db' he, bind, Except.bind]
    split
    · rfl
    · exact setCells_congr db db' he rest _

theorem execRows_congr (db db' : Db) (he : db.extra = db'.extra) (cols : List Col) :
    ∀ (pairs : List (List Val × Int)) (T : Table), execRows db cols pairs T = execRows db' cols pairs T := by
  intro pairs
  induction pairs with
  | nil => intro T; rfl
  | cons pr rest ih =>
    intro T
    obtain ⟨vals, rid⟩ := pr
    simp only [execRows, setCells_congr db db' he, ih]

theorem ciEq_iff (a b : Py.Str) : ciEq a b = true ↔ Py.lower a = Py.lower b := by simp [ciEq]

theorem replaceTab_self (db : Db) (hT : TabsOK db) (tn : Py.Str) (tab : Tab) (h : findTab db tn = some tab) :
    replaceTab db tn tab.rows = db := by
  unfold replaceTab
  have hmem := findTab_mem db tn tab h
  have hci : ciEq tab.name tn = true := by
    have := List.find?_some h; simpa using this
  have : db.tabs.map (fun t => if ciEq t.name tn then { t with rows := tab.rows } else t) = db.tabs := by
    conv_rhs => rw [← List.map_id db.tabs]
    apply List.map_congr_left
    intro t ht
    by_cases hc : ciEq t.name tn = true
    · have : t = tab := inj_of_nodup_map (fun t : Tab => Py.lower t.name) db.tabs hT t ht tab hmem
        (by rw [(ciEq_iff _ _).1 hc, (ciEq_iff _ _).1 hci])
      subst this; simp [hc]
    · simp [hc]
  rw [this]

theorem find?_map_replace (tn : Py.Str) (rows : Table) : ∀ (ts : List Tab) (tab : Tab),
    ts.find? (fun t => ciEq t.name tn) = some tab →
    (ts.map (fun t => if ciEq t.name tn then { t with rows := rows } else t)).find? (fun t => ciEq t.name tn) =
      some { tab with rows := rows }
  | [], tab, h => by simp at h
  | t :: ts, tab, h => by
    simp only [List.map_cons, List.find?_cons] at h ⊢
    by_cases hc : ciEq t.name tn = true
    · simp only [hc, if_true] at h ⊢
      injection h with h; subst h; rfl
    · have hc' : ciEq t.name tn = false := by simpa using hc
      simp only [hc', Bool.false_eq_true, if_false] at h ⊢
      exact find?_map_replace tn rows ts tab h

theorem findTab_replaceTab (db : Db) (tn : Py.Str) (tab : Tab) (h : findTab db tn = some tab) (rows : Table) :
    findTab (replaceTab db tn rows) tn = some { tab with rows := rows } :=
  find?_map_replace tn rows db.tabs tab h

theorem replaceTab_twice (db : Db) (tn : Py.Str) (r1 r2 : Table) :
    replaceTab (replaceTab db tn r1) tn r2 = replaceTab db tn r2 := by
  unfold replaceTab
  simp only [List.map_map]
  congr 1
  apply List.map_congr_left
  intro t _
  by_cases hc : ciEq t.name tn = true <;> simp [hc]

theorem replaceTab_tabsOK (db : Db) (tn : Py.Str) (rows : Table) (h : TabsOK db) : TabsOK (replaceTab db tn rows) := by
  unfold TabsOK replaceTab at *
  have : (db.tabs.map (fun t => if ciEq t.name tn then { t with rows := rows } else t)).map (fun t => Py.lower t.name) =
      db.tabs.map (fun t => Py.lower t.name) := by
    rw [List.map_map]; apply List.map_congr_left; intro t _
    by_cases hc : ciEq t.name tn = true <;> simp [hc]
  simp only [this]; exact h

/-- `executemany` on the database = the loop on the rows of the addressed table -/
theorem execMany_eq (cols : List Col) (tn : Py.Str) : ∀ (pairs : List (List Val × Int)) (db : Db) (tab : Tab),
    TabsOK db → findTab db tn = some tab →
    execMany db tn cols pairs = (replaceTab db tn (execRows db cols pairs tab.rows).1, (execRows db cols pairs tab.rows).2)
  | [], db, tab, hT, h => by simp [execMany, execRows, replaceTab_self db hT tn tab h]
  | (vals, rid) :: rest, db, tab, hT, h => by
    unfold execMany execRows
    by_cases hl : vals.length ≠ cols.length
    · simp [hl, replaceTab_self db hT tn tab h]
    · simp only [hl, if_false, updateAt, h]
      by_cases hr : rid < 1 ∨ rid > tab.rows.length
      · simp only [hr, if_true]
        exact execMany_eq cols tn rest db tab hT h
      · simp only [hr, if_false]
        cases hrow : tab.rows[(rid - 1).toNat]? with
        | none => simp only []; exact execMany_eq cols tn rest db tab hT h
        | some r =>
          simp only [bind, Except.bind]
          cases hset : setCells db (cols.zip vals) r with
          | error e => simp [replaceTab_self db hT tn tab h]
          | ok r' =>
            simp only [pure, Except.pure]
            have ih := execMany_eq cols tn rest (replaceTab db tn (tab.rows.set (rid - 1).toNat r'))
              { tab with rows := tab.rows.set (rid - 1).toNat r' } (replaceTab_tabsOK db tn _ hT)
              (findTab_replaceTab db tn tab h _)
            rw [ih, replaceTab_twice]
            rw [execRows_congr (replaceTab db tn (tab.rows.set (rid - 1).toNat r')) db rfl]

/-! ### frame of the loop -/

theorem execRows_length (db : Db) (cols : List Col) : ∀ (pairs : List (List Val × Int)) (T : Table),
    (execRows db cols pairs T).1.length = T.length
  | [], T => rfl
  | (vals, rid) :: rest, T => by
    unfold execRows
    split_ifs
    · rfl
    · exact execRows_length db cols rest T
    · split
      · exact execRows_length db cols rest T
      · split
        · rfl
        · rw [execRows_length db cols rest _, List.length_set]

/-- a cell outside the addressed rows × the assigned columns is not changed by the loop -/
theorem execRows_frame (db : Db) (cols : List Col) : ∀ (pairs : List (List Val × Int)) (T : Table) (p : Nat) (c : Col),
    ((∀ pr ∈ pairs, pr.2 ≠ (p : Int) + 1) ∨ c ∉ cols) →
    ∀ r r', T[p]? = some r → (execRows db cols pairs T).1[p]? = some r' → cell c p r' = cell c p r
  | [], T, p, c, _, r, r', h1, h2 => by
    simp only [execRows] at h2; rw [h1] at h2; injection h2 with h2; rw [h2]
  | (vals, rid) :: rest, T, p, c, hfr, r, r', h1, h2 => by
    have hfr' : (∀ pr ∈ rest, pr.2 ≠ (p : Int) + 1) ∨ c ∉ cols := by
      rcases hfr with h | h
      · exact Or.inl (fun pr hpr => h pr (List.mem_cons_of_mem _ hpr))
      · exact Or.inr h
    unfold execRows at h2
    split_ifs at h2 with hl hr
    · rw [h1] at h2; injection h2 with h2; rw [h2]
    · exact execRows_frame db cols rest T p c hfr' r r' h1 h2
    · split at h2
      · exact execRows_frame db cols rest T p c hfr' r r' h1 h2
      · rename_i r0 hr0
        split at h2
        · rw [h1] at h2; injection h2 with h2; rw [h2]
        · rename_i r0' hset
          by_cases hp : (rid - 1).toNat = p
          · -- the addressed row: only the assigned columns change
            have hr0' : r0 = r := by rw [hp, h1] at hr0; injection hr0 with e; exact e.symm
            subst hr0'
            have hmid : (T.set (rid - 1).toNat r0')[p]? = some r0' := by
              rw [hp, List.getElem?_set_self]; exact (List.getElem?_eq_some_iff.1 h1).1
            rw [execRows_frame db cols rest _ p c hfr' r0' r' hmid h2]
            apply setCells_other db _ _ _ hset
            intro cv hcv
            rcases hfr with h | h
            · exfalso; apply h (vals, rid) (by simp); simp only; omega
            · intro e; apply h; rw [← e]; exact (List.of_mem_zip hcv).1
          · have hmid : (T.set (rid - 1).toNat r0')[p]? = some r := by
              rw [List.getElem?_set_ne hp]; exact h1
            exact execRows_frame db cols rest _ p c hfr' r r' hmid h2

/-! ### `update` -/

/-- the rowIDs `update` addresses: what `get('rowID', …)` answers -/
def updIds (db : Db) (tn : Py.Str) (kw : List Kw) : Except Err (List Int) := Model.get db rowIDName tn kw >>= asInts

/-- shapes agree: some value rows, each with one value per attribute, as many rows as atoms selected -/
def ShapesOK (db : Db) (columns : Py.Str) (values : List (List Val)) (tn : Py.Str) (kw : List Kw) : Prop :=
  values ≠ [] ∧ (∀ r ∈ values, r.length = (updNames columns).length) ∧
    ∀ ids, updIds db tn kw = .ok ids → ids.length = values.length

/-- **a shape mismatch raises before anything is modified** (the body of `update` for one model) -/
theorem updateCore_shape_error (db : Db) (columns : Py.Str) (values : List (List Val)) (tn : Py.Str) (kw : List Kw)
    (h : ¬ ShapesOK db columns values tn kw) :
    (updateCore db columns values tn kw).1 = db ∧ ∃ e, (updateCore db columns values tn kw).2 = .error e := by
  unfold updateCore
  cases values with
  | nil => exact ⟨rfl, _, rfl⟩
  | cons v0 vs =>
    simp only
    split_ifs with h1
    · exact ⟨rfl, _, rfl⟩
    · cases hget : (Model.get db rowIDName tn kw >>= asInts) with
      | error e => exact ⟨rfl, _, rfl⟩
      | ok rowID =>
        simp only
        split_ifs with h2
        · exact ⟨rfl, _, rfl⟩
        · exfalso; apply h
          refine ⟨by simp, ?_, ?_⟩
          · intro r hr
            simp only [List.any_eq_true, not_exists, not_and, decide_eq_true_eq, ne_eq, not_not] at h1
            exact h1 r hr
          · intro ids hids
            unfold updIds at hids
            rw [hget] at hids; injection hids with hids; subst hids
            simpa using h2

/-- when the shapes agree `update` is the UPDATE loop over the selected rowIDs -/
theorem updateCore_ok (db : Db) (columns : Py.Str) (values : List (List Val)) (tn : Py.Str) (kw : List Kw)
    (ids : List Int) (hids : updIds db tn kw = .ok ids) (hs : ShapesOK db columns values tn kw)
    (cs : List Col) (hcs : (updNames columns).mapM (sqlCol db) = some cs) :
    updateCore db columns values tn kw = execMany db tn cs (values.zip (ids.map (· + 1))) := by
  obtain ⟨h0, h1, h2⟩ := hs
  unfold updateCore
  cases values with
  | nil => exact absurd rfl h0
  | cons v0 vs =>
    have hany : (v0 :: vs).any (fun val => decide (val.length ≠ (updNames columns).length)) = false := by
      rw [List.any_eq_false]; intro r hr; simp [h1 r hr]
    unfold updIds at hids
    simp only [hany, Bool.false_eq_true, if_false, hids, h2 ids (by unfold updIds; exact hids), ne_eq, not_true_eq_false, hcs]

end TableProofs
