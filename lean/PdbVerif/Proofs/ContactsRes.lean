/-
  Helper lemmas for C05 / C14, part 5: residues (projection, extension, residue pair map).
-/
import PdbVerif.Proofs.ContactsAll
set_option linter.unusedVariables false
set_option linter.unusedSimpArgs false
set_option linter.unusedSectionVars false
namespace Proofs.Contacts
open Model Py
open Spec.Contact (Params passes near touches isHydrogen chainAtoms partners atoms residuesAt resOf)

theorem resKey_eq : resKey = resOf := rfl

theorem residuesAt_eq (t : List Atom) (S : List Nat) : (rowsAt t S).map (fun r => resKey r.1) = residuesAt t S := rfl

/-! ### residue view of the per-chain sets -/

theorem contactResidueSets_eq (t : List Atom) (a : ContactArgs) :
    contactResidueSets t a = (contactSets t (residueArgs a)).map (Spec.Contact.residueSets t) := by
  unfold contactResidueSets
  cases h : contactSets t (residueArgs a) with
  | error e => rfl
  | ok d =>
    simp only [bind, Except.bind, pure, Except.pure, Except.map, Spec.Contact.residueSets, Spec.Contact.residuesOf,
      sortDistinct_eq, resLt_eq, residuesAt_eq]

/-! ### residue extension -/

theorem mem_residuesAt {t : List Atom} {S : List Nat} {k : ResKey} :
    k ∈ residuesAt t S ↔ ∃ p ∈ t.zipIdx, p.2 ∈ S ∧ resOf p.1 = k := by
  simp only [residuesAt, atoms, List.mem_map, List.mem_filter, List.contains_eq_mem, decide_eq_true_eq]
  constructor
  · rintro ⟨p, ⟨hp, hs⟩, rfl⟩; exact ⟨p, hp, hs, rfl⟩
  · rintro ⟨p, hp, hs, rfl⟩; exact ⟨p, ⟨hp, hs⟩, rfl⟩

theorem extendToResidue_eq (t : List Atom) (S : List Nat) (bb : Bool) :
    extendToResidue t S bb = Spec.Contact.extension backbone t S bb := by
  unfold extendToResidue Spec.Contact.extension
  simp only [atoms]
  apply sortedSet_eq_of_asc strictTotal_ltNat (asc_positions t _)
  intro z
  simp only [List.mem_flatMap, mem_distinctFirst, residuesAt_eq, List.mem_map, List.mem_filter, List.contains_eq_mem,
    decide_eq_true_eq, Bool.and_eq_true, Bool.or_eq_true, Bool.not_eq_true']
  constructor
  · rintro ⟨k, hk, hz⟩
    cases bb with
    | true =>
      simp only [if_true, List.mem_map, List.mem_filter, decide_eq_true_eq] at hz
      obtain ⟨p, ⟨⟨hp, h1, h2, h3⟩, hbb⟩, rfl⟩ := hz
      refine ⟨p, ⟨hp, ?_, Or.inr hbb⟩, rfl⟩
      have : resOf p.1 = k := by
        obtain ⟨k1, k2, k3⟩ := k
        simp only [resOf] at *
        simp_all
      rw [this]; exact hk
    | false =>
      simp only [Bool.false_eq_true, if_false, List.mem_map, List.mem_filter, decide_eq_true_eq] at hz
      obtain ⟨p, ⟨hp, h1, h2, h3⟩, rfl⟩ := hz
      refine ⟨p, ⟨hp, ?_, Or.inl rfl⟩, rfl⟩
      have : resOf p.1 = k := by
        obtain ⟨k1, k2, k3⟩ := k
        simp only [resOf] at *
        simp_all
      rw [this]; exact hk
  · rintro ⟨p, ⟨hp, hown, hbb⟩, rfl⟩
    refine ⟨resOf p.1, hown, ?_⟩
    cases bb with
    | true =>
      simp only [if_true, List.mem_map, List.mem_filter, decide_eq_true_eq]
      refine ⟨p, ⟨⟨hp, rfl, rfl, rfl⟩, ?_⟩, rfl⟩
      rcases hbb with h | h
      · simp at h
      · exact h
    | false =>
      simp only [Bool.false_eq_true, if_false, List.mem_map, List.mem_filter, decide_eq_true_eq]
      exact ⟨p, ⟨hp, rfl, rfl, rfl⟩, rfl⟩

/-- membership in the Spec's extension: the atom's residue owns an atom of `S`, and the atom is a backbone atom when `bb` -/
theorem mem_extension {bbNames : List Str} {t : List Atom} {S : List Nat} {bb : Bool} {i : Nat} :
    i ∈ Spec.Contact.extension bbNames t S bb ↔
      ∃ x, t[i]? = some x ∧ (∃ s ∈ S, ∃ y, t[s]? = some y ∧ resOf y = resOf x) ∧ (bb = true → x.name ∈ bbNames) := by
  simp only [Spec.Contact.extension, atoms, List.mem_map, List.mem_filter, List.contains_eq_mem, decide_eq_true_eq,
    Bool.and_eq_true, Bool.or_eq_true, Bool.not_eq_true', mem_residuesAt]
  constructor
  · rintro ⟨p, ⟨hp, ⟨q, hq, hs, hr⟩, hbb⟩, rfl⟩
    refine ⟨p.1, List.mem_zipIdx_iff_getElem?.mp hp, ⟨q.2, hs, q.1, List.mem_zipIdx_iff_getElem?.mp hq, hr⟩, ?_⟩
    intro hb
    rcases hbb with h | h
    · rw [hb] at h; simp at h
    · exact h
  · rintro ⟨x, hx, ⟨s, hs, y, hy, hr⟩, hbb⟩
    refine ⟨(x, i), ⟨List.mem_zipIdx_iff_getElem?.mpr hx, ⟨(y, s), List.mem_zipIdx_iff_getElem?.mpr hy, hs, hr⟩, ?_⟩, rfl⟩
    cases bb with
    | true => exact Or.inr (hbb rfl)
    | false => exact Or.inl rfl
/-! ### `extend_to_residue=True` is the closure of the result without it -/

theorem icAfterLoop_extend (t : List Atom) (a : ContactArgs) (b : Bool) : icAfterLoop t { a with extend := b } = icAfterLoop t a := rfl
theorem pairsAfterLoop_extend (t : List Atom) (a : ContactArgs) (b : Bool) : pairsAfterLoop t { a with extend := b } = pairsAfterLoop t a := rfl
theorem callChains_extend (t : List Atom) (a : ContactArgs) (b : Bool) : callChains t { a with extend := b } = callChains t a := rfl

theorem mem_of_mem_combinations2 {α : Type} {l : List α} {x y : α} (h : (x, y) ∈ combinations2 l) : x ∈ l ∧ y ∈ l := by
  induction l with
  | nil => simp [combinations2] at h
  | cons z zs ih =>
    simp only [combinations2, List.mem_append, List.mem_map, Prod.mk.injEq] at h
    rcases h with ⟨w, hw, rfl, rfl⟩ | h
    · simp [hw]
    · have := ih h; simp [this.1, this.2]

theorem keys_icAfterLoop_sub (t : List Atom) (a : ContactArgs) (X : Str) (h : X ∈ (icAfterLoop t a).keys) : X ∈ callChains t a := by
  unfold icAfterLoop at h
  rw [mem_keys_applyEvents] at h
  simp only [Dict.keys, List.map_nil, List.not_mem_nil, false_or, List.mem_flatMap] at h
  obtain ⟨e, ⟨⟨A, B⟩, hcc, he⟩, rfl⟩ := h
  have := mem_of_mem_combinations2 hcc
  rcases mem_pairEvents he with h | h <;> simp only [h] <;> simp [this.1, this.2]

theorem contactSets_extend (t : List Atom) (a : ContactArgs) (hnd : (callChains t a).Nodup) :
    contactSets t { a with extend := true } =
      (contactSets t { a with extend := false }).map
        (fun d => d.map (fun e => (e.1, Spec.Contact.extension backbone t e.2 a.bb))) := by
  unfold contactSets
  rw [contactRun_eq, contactRun_eq]
  simp only [icAfterLoop_extend, pairsAfterLoop_extend, callChains_extend]
  by_cases hc : ((callChains t a).any fun c => !(getChains t).contains c) = true
  · simp only [hc, if_true]; rfl
  · simp only [hc, Bool.false_eq_true, if_false]
    have hd := nodup_keys_icAfterLoop t a
    by_cases hall : ∀ k ∈ callChains t a, k ∈ (icAfterLoop t a).keys
    · rw [mapChains_ok _ hnd hd hall]
      simp only [Except.bind, if_true, Bool.false_eq_true, if_false, Except.map]
      have hk : Dict.keys ((icAfterLoop t a).map (fun e => if e.1 ∈ callChains t a then (e.1, sortedSet ltNat e.2) else e)) = (icAfterLoop t a).keys :=
        keys_map_upd _ _ (by intro e; by_cases h : e.1 ∈ callChains t a <;> simp [h])
      rw [mapChains_ok _ hnd (by rw [hk]; exact hd) (by intro k hk'; rw [hk]; exact hall k hk')]
      simp only [List.map_map]
      congr 1
      apply List.map_congr_left
      intro e he
      have hmem : e.1 ∈ callChains t a := keys_icAfterLoop_sub t a e.1 (List.mem_map.mpr ⟨e, he, rfl⟩)
      simp [hmem, extendToResidue_eq]
    · have : ∃ k ∈ callChains t a, k ∉ (icAfterLoop t a).keys := by
        apply Classical.byContradiction
        intro hno
        apply hall
        intro k hk
        apply Classical.byContradiction
        intro hk'
        exact hno ⟨k, hk, hk'⟩
      rw [mapChains_err _ hd this]
      rfl

/-! ### the residue pair map -/

theorem filter_eq_singleton {α : Type} {l : List α} (hn : l.Nodup) {p : α} (hp : p ∈ l) {f : α → Bool}
    (hf : ∀ q ∈ l, f q = true ↔ q = p) : l.filter f = [p] := by
  induction l with
  | nil => simp at hp
  | cons x xs ih =>
    have hx := List.nodup_cons.mp hn
    by_cases hxp : x = p
    · subst hxp
      have h1 : f x = true := (hf x (by simp)).mpr rfl
      have h2 : xs.filter f = [] := by
        rw [List.filter_eq_nil_iff]
        intro q hq hfq
        have := (hf q (List.mem_cons_of_mem _ hq)).mp hfq
        subst this
        exact hx.1 hq
      simp [List.filter_cons, h1, h2]
    · have h1 : ¬ f x = true := fun h => hxp ((hf x (by simp)).mp h)
      have hp' : p ∈ xs := by
        rcases List.mem_cons.mp hp with h | h
        · exact absurd h.symm hxp
        · exact h
      simp only [List.filter_cons, h1, if_false, Bool.false_eq_true]
      exact ih hx.2 hp' (fun q hq => hf q (List.mem_cons_of_mem _ hq))

theorem nodup_zipIdx (t : List Atom) : t.zipIdx.Nodup := by
  have h : (t.zipIdx.map (fun r => r.2)).Nodup := by
    rw [zipIdx_map_snd']; exact List.nodup_range' (s := 0) (n := t.length)
  rw [List.Nodup, List.pairwise_map] at h
  exact h.imp (by intro a b hab heq; exact hab (by rw [heq]))

/-- `self.get(..., rowID=[i])` returns exactly the row `i` -/
theorem rowsAt_single {t : List Atom} {p : IRow} (hp : p ∈ t.zipIdx) : rowsAt t [p.2] = [p] := by
  unfold rowsAt
  apply filter_eq_singleton (nodup_zipIdx t) hp
  intro q hq
  simp only [List.contains_eq_mem, List.mem_singleton, decide_eq_true_eq]
  constructor
  · intro h; exact pos_inj hq hp h
  · intro h; rw [h]

/-- every key of the pair map that `get_contact_atoms` builds is a row of the table -/
theorem pairsAfterLoop_keys_valid (t : List Atom) (a : ContactArgs) {e : Nat × List Nat} (he : e ∈ pairsAfterLoop t a) :
    ∃ p ∈ t.zipIdx, p.2 = e.1 := by
  have hk : e.1 ∈ (pairsAfterLoop t a).keys := List.mem_map.mpr ⟨e, he, rfl⟩
  unfold pairsAfterLoop at hk
  rw [mem_keys_applyEvents] at hk
  simp only [Dict.keys, List.map_nil, List.not_mem_nil, false_or, List.mem_flatMap] at hk
  obtain ⟨ev, ⟨⟨A, B⟩, _, hev⟩, hk⟩ := hk
  obtain ⟨p, hp, _, rfl⟩ := mem_selOf.mp hev
  exact ⟨p, chainAtoms_sub hp, hk⟩

theorem contactPairs_ok {t : List Atom} {a : ContactArgs} {m : Dict Nat (List Nat)} (h : contactPairs t a = .ok m) :
    m = pairsAfterLoop t a := by
  unfold contactPairs at h
  rw [contactRun_eq] at h
  by_cases hc : ((callChains t a).any fun c => !(getChains t).contains c) = true
  · rw [if_pos hc] at h
    simp [Except.map] at h
  · rw [if_neg hc] at h
    cases h1 : mapChains (sortedSet ltNat) (callChains t a) (icAfterLoop t a) with
    | error e => simp [h1, Except.bind, Except.map] at h
    | ok ic =>
      simp only [h1, Except.bind] at h
      cases hext : a.extend with
      | false =>
        simp [hext, Except.bind, Except.map] at h
        exact h.symm
      | true =>
        simp only [hext, if_true] at h
        cases h2 : mapChains (fun l => extendToResidue t l a.bb) (callChains t a) ic with
        | error e => simp [h2, Except.map] at h
        | ok ic2 =>
          simp [h2, Except.map] at h
          exact h.symm

/-- the events of the residue dictionary -/
def resEvents (t : List Atom) (m : List (Nat × List Nat)) : List (ResKey × List ResKey) :=
  m.flatMap (fun e => (residuesAt t [e.1]).map (fun K => (K, residuesAt t e.2)))

theorem foldlM_residuePairStep (t : List Atom) (m : List (Nat × List Nat)) (hv : ∀ e ∈ m, ∃ p ∈ t.zipIdx, p.2 = e.1)
    (d : Dict ResKey (List ResKey)) :
    m.foldlM (residuePairStep t) d = .ok (applyEvents d (resEvents t m)) := by
  induction m generalizing d with
  | nil => rfl
  | cons e es ih =>
    obtain ⟨p, hp, hpe⟩ := hv e (by simp)
    have hrow : rowsAt t [e.1] = [p] := by rw [← hpe]; exact rowsAt_single hp
    have hstep : residuePairStep t d e = .ok (d.extend (resKey p.1) ((rowsAt t e.2).map (fun r => resKey r.1))) := by
      unfold residuePairStep
      rw [hrow]
      simp only [pure, Except.pure, setDefault_extend]
    rw [List.foldlM_cons, hstep]
    simp only [bind, Except.bind]
    rw [ih (fun e' he' => hv e' (by simp [he']))]
    have hres : residuesAt t [e.1] = [resOf p.1] := by
      rw [← residuesAt_eq, hrow]; rfl
    simp only [resEvents, List.flatMap_cons, hres, List.map_cons, List.map_nil, List.singleton_append]
    rfl

theorem contactResiduePairs_eq (t : List Atom) (a : ContactArgs) :
    contactResiduePairs t a = (contactPairs t (residueArgs a)).map (Spec.Contact.residuePairMap t) := by
  unfold contactResiduePairs
  cases h : contactPairs t (residueArgs a) with
  | error e => rfl
  | ok m =>
    have hm := contactPairs_ok h
    have hv : ∀ e ∈ m, ∃ p ∈ t.zipIdx, p.2 = e.1 := by
      intro e he; rw [hm] at he; exact pairsAfterLoop_keys_valid t _ he
    simp only [bind, Except.bind, foldlM_residuePairStep t m hv, pure, Except.pure, Except.map]
    congr 1
    rw [applyEvents_nil_eq, List.map_map]
    simp only [Spec.Contact.residuePairMap, distinct_eq, sortDistinct_eq, resLt_eq]
    rfl

/-- the two-chain call with `extend_to_residue=True`, in the Spec's words (used by the score routines' zone computation) -/
theorem contactSets_two_chain_extended (t : List Atom) (a : ContactArgs) (hall : a.allchains = false) (hne : a.chain1 ≠ a.chain2)
    (h1 : a.chain1 ∈ getChains t) (h2 : a.chain2 ∈ getChains t) (hext : a.extend = true) :
    contactSets t a = .ok
      [(a.chain1, Spec.Contact.extension backbone t (Spec.Contact.contactAtoms (params a) t a.chain1 a.chain2) a.bb),
       (a.chain2, Spec.Contact.extension backbone t (Spec.Contact.contactAtoms (params a) t a.chain2 a.chain1) a.bb)] := by
  simp [contactSets, contactRun_two_chain' t a hall hne h1 h2, Except.map, extendIf, hext, extendToResidue_eq]

end Proofs.Contacts
