/-
  Helper lemmas about `Py.fmtFixed` / `Py.fmtFloatR` (the model of `'{:>w.kf}'.format`): shape, width, characters,
  and reading the printed text back with `Py.parseFloat`.  Helper lemmas only.
-/
import Mathlib.Tactic.Linarith
import Mathlib.Tactic.Ring
import Mathlib.Tactic.NormNum
import Mathlib.Tactic.Positivity
import Mathlib.Tactic.FieldSimp
import Mathlib.Algebra.Order.Floor.Ring
import Mathlib.Algebra.Order.AbsoluteValue.Basic
import Mathlib.Data.Rat.Floor
import PdbVerif.Py.Num
import PdbVerif.Proofs.Str
import PdbVerif.Proofs.Num
import PdbVerif.Proofs.Digits

set_option linter.unusedSimpArgs false
set_option linter.unusedVariables false
set_option linter.unnecessarySeqFocus false

namespace Py

/-! ### rounding -/

theorem roundHE_sub_le (y : ℚ) : |(roundHE y : ℚ) - y| ≤ 1/2 := by
  have h1 := Int.floor_le y
  have h2 := Int.lt_floor_add_one y
  rw [roundHE_def]
  split_ifs <;> push_cast <;> rw [abs_le] <;> constructor <;> linarith

theorem roundHE_le_of_lt_half (y : ℚ) (N : ℤ) (h : y < N + 1/2) : roundHE y ≤ N := by
  have hf : ⌊y⌋ ≤ N := by
    have : ⌊y⌋ < N + 1 := by
      rw [Int.floor_lt]; push_cast; linarith
    omega
  rcases lt_or_eq_of_le hf with hlt | heq
  · have := roundHE_le_floor_add_one y; omega
  · rw [roundHE_def]
    have : y - (⌊y⌋ : ℚ) < 1/2 := by rw [heq]; linarith
    simp only [this, if_true]; omega

theorem roundHE_ge_of_gt_half (y : ℚ) (N : ℤ) (h : (N : ℚ) - 1/2 < y) : N ≤ roundHE y := by
  have hf : N - 1 ≤ ⌊y⌋ := by
    rw [Int.le_floor]; push_cast; linarith
  rcases lt_or_eq_of_le hf with hlt | heq
  · have := floor_le_roundHE y; omega
  · rw [roundHE_def]
    have hy : (⌊y⌋ : ℚ) = N - 1 := by rw [← heq]; push_cast; ring
    have h1 : ¬ (y - (⌊y⌋ : ℚ) < 1/2) := by rw [hy]; linarith
    have h2 : 1/2 < y - (⌊y⌋ : ℚ) := by rw [hy]; linarith
    simp only [h1, h2, if_true, if_false]; omega

theorem roundHE_nonpos {y : ℚ} (h : y ≤ 0) : roundHE y ≤ 0 := roundHE_le_of_le y 0 (by simpa using h)
theorem roundHE_nonneg {y : ℚ} (h : 0 ≤ y) : 0 ≤ roundHE y := roundHE_ge_of_ge y 0 (by simpa using h)

/-! ### the pieces of `'{:.kf}'.format(x)` -/

/-- the rounded scaled value -/
def fxN (x : ℚ) (k : ℕ) : ℤ := roundHE (x * ((pow10 k : ℕ) : ℚ))
/-- its magnitude -/
def fxM (x : ℚ) (k : ℕ) : ℕ := (fxN x k).natAbs
/-- integer part and fractional digits -/
def fxI (x : ℚ) (k : ℕ) : ℕ := fxM x k / pow10 k
def fxF (x : ℚ) (k : ℕ) : ℕ := fxM x k % pow10 k

theorem fmtFixed_eq (x : ℚ) (k : ℕ) :
    fmtFixed x k = (if x < 0 then ['-'] else []) ++ (decDigits (fxI x k) ++
      (if k = 0 then [] else '.' :: zeroPad k (decDigits (fxF x k)))) := by
  unfold fmtFixed fxI fxF fxM fxN
  by_cases hx : x < 0 <;> by_cases hk : k = 0 <;> simp [hx, hk]

theorem fxN_nonpos {x : ℚ} (k : ℕ) (h : x < 0) : fxN x k ≤ 0 :=
  roundHE_nonpos (mul_nonpos_of_nonpos_of_nonneg h.le (pow10_cast_pos k).le)

theorem fxN_nonneg {x : ℚ} (k : ℕ) (h : ¬ x < 0) : 0 ≤ fxN x k :=
  roundHE_nonneg (mul_nonneg (not_lt.mp h) (pow10_cast_pos k).le)

theorem fxF_lt (x : ℚ) (k : ℕ) : fxF x k < pow10 k := Nat.mod_lt _ (pow10_pos k)

theorem zeroPad_length (k : ℕ) (s : Str) (h : s.length ≤ k) : (zeroPad k s).length = k := by
  unfold zeroPad; simp; omega

theorem decDigits_length_le_of_lt_pow10 (k r : ℕ) (hk : k ≠ 0) (h : r < pow10 k) : (decDigits r).length ≤ k := by
  obtain ⟨j, rfl⟩ := Nat.exists_eq_succ_of_ne_zero hk
  exact decDigits_length_le j r h

theorem fracDigits_length (x : ℚ) (k : ℕ) (hk : k ≠ 0) : (zeroPad k (decDigits (fxF x k))).length = k :=
  zeroPad_length k _ (decDigits_length_le_of_lt_pow10 k _ hk (fxF_lt x k))

theorem fracDigits_allDigits (k r : ℕ) : AllDigits (zeroPad k (decDigits r)) := by
  unfold zeroPad
  exact (allDigits_replicate_zero _).append (decDigits_allDigits r)

theorem fracDigits_val (k r : ℕ) : digitsVal (zeroPad k (decDigits r)) = r := by
  unfold zeroPad; rw [digitsVal_zeros_append, digitsVal_decDigits]

theorem fmtFixed_length (x : ℚ) (k : ℕ) :
    (fmtFixed x k).length = (if x < 0 then 1 else 0) + (decDigits (fxI x k)).length + (if k = 0 then 0 else k + 1) := by
  rw [fmtFixed_eq]
  by_cases hx : x < 0 <;> by_cases hk : k = 0 <;> simp [hx, hk, fracDigits_length x k] <;> omega

/-- every character of a printed number is `-`, `.` or a digit -/
def NumChar (c : Char) : Prop := c = '-' ∨ c = '.' ∨ isDigit c = true

theorem numChar_facts (c : Char) (h : NumChar c) :
    isSpace c = false ∧ c ≠ '\n' ∧ c ≠ 'e' ∧ c ≠ '_' ∧ c.toLower = c := by
  rcases h with h | h | h
  · subst h; decide
  · subst h; decide
  · have f := digitFacts c h; exact ⟨f.notSpace, f.ne_nl, f.ne_e, f.ne_us, f.lower⟩

theorem fmtFixed_numChars (x : ℚ) (k : ℕ) : ∀ c ∈ fmtFixed x k, NumChar c := by
  rw [fmtFixed_eq]
  intro c hc
  simp only [List.mem_append] at hc
  rcases hc with hc | hc | hc
  · split at hc
    · simp at hc; exact Or.inl hc
    · simp at hc
  · exact Or.inr (Or.inr (decDigits_allDigits _ c hc))
  · split at hc
    · simp at hc
    · simp only [List.mem_cons] at hc
      rcases hc with hc | hc
      · exact Or.inr (Or.inl hc)
      · exact Or.inr (Or.inr (fracDigits_allDigits _ _ c hc))

theorem fmtFixed_ne_nil (x : ℚ) (k : ℕ) : fmtFixed x k ≠ [] := by
  have h1 := fmtFixed_length x k
  have h2 := decDigits_length_pos (fxI x k)
  intro h; rw [h] at h1; simp only [List.length_nil] at h1; omega

theorem fmtFixed_no_nl (x : ℚ) (k : ℕ) : '\n' ∉ fmtFixed x k := fun h =>
  (numChar_facts _ (fmtFixed_numChars x k _ h)).2.1 rfl

theorem strip_fmtFixed (x : ℚ) (k : ℕ) : strip (fmtFixed x k) = fmtFixed x k := by
  apply strip_eq_self_of _ (fmtFixed_ne_nil x k)
  · intro c hc; exact (numChar_facts c (fmtFixed_numChars x k c (List.mem_of_mem_head? hc))).1
  · intro c hc; exact (numChar_facts c (fmtFixed_numChars x k c (List.mem_of_getLast? hc))).1

theorem strip_fmtFloatR (w k : ℕ) (x : ℚ) : strip (fmtFloatR w k x) = fmtFixed x k := by
  unfold fmtFloatR; rw [strip_rjust, strip_fmtFixed]

theorem fmtFloatR_length (w k : ℕ) (x : ℚ) (h : (fmtFixed x k).length ≤ w) : (fmtFloatR w k x).length = w := by
  unfold fmtFloatR; rw [rjust_length]; omega

/-! ### reading a printed number back -/

theorem lowerAscii_fixed (s : Str) (h : ∀ c ∈ s, c.toLower = c) : lowerAscii s = s := by
  unfold lowerAscii
  induction s with
  | nil => rfl
  | cons c r ih =>
    simp only [List.map_cons]
    rw [h c (by simp), ih (fun d hd => h d (by simp [hd]))]

theorem parseMantissa_int (ip : Str) (h : AllDigits ip) (hne : ip ≠ []) :
    parseMantissa ip = some ((digitsVal ip : ℕ) : ℚ) := by
  unfold parseMantissa
  have hdot : '.' ∉ ip := fun hc => (digitFacts _ (h _ hc)).ne_dot rfl
  rw [splitOn_not_mem _ _ hdot]
  simp only [validDigitRun_allDigits ip h hne, stripUnderscores_allDigits ip h, if_true]

theorem parseMantissa_frac (ip fp : Str) (h : AllDigits ip) (hne : ip ≠ []) (hf : AllDigits fp) (hfne : fp ≠ []) :
    parseMantissa (ip ++ '.' :: fp) =
      some (((digitsVal ip : ℕ) : ℚ) + mkRat (digitsVal fp : ℕ) (pow10 fp.length)) := by
  unfold parseMantissa
  have hdot : '.' ∉ ip := fun hc => (digitFacts _ (h _ hc)).ne_dot rfl
  have hdot' : '.' ∉ fp := fun hc => (digitFacts _ (hf _ hc)).ne_dot rfl
  rw [splitOn_append_sep _ _ _ hdot, splitOn_not_mem _ _ hdot']
  have e1 : ip.isEmpty = false := by cases ip <;> simp_all
  have e2 : fp.isEmpty = false := by cases fp <;> simp_all
  simp only [validDigitRun_allDigits ip h hne, validDigitRun_allDigits fp hf hfne,
    stripUnderscores_allDigits ip h, stripUnderscores_allDigits fp hf, e1, e2, Bool.or_true, Bool.and_self,
    Bool.and_false, Bool.not_false, if_true, Bool.false_or, Bool.true_and]

theorem strip_of_numChars (s : Str) (h : ∀ c ∈ s, NumChar c) : strip s = s := by
  by_cases hne : s = []
  · subst hne; rfl
  · apply strip_eq_self_of s hne
    · intro c hc; exact (numChar_facts c (h c (List.mem_of_mem_head? hc))).1
    · intro c hc; exact (numChar_facts c (h c (List.mem_of_getLast? hc))).1

theorem beq_false_of_head_ne (d : Char) (r : Str) (e : Char) (t : Str) (h : d ≠ e) : ((d :: r) == (e :: t)) = false := by
  rw [beq_eq_false_iff_ne]; intro hc; simp at hc; exact h hc.1

/-- `float()` of `[-]body` where `body` starts with a digit, consists of digits and dots, and is a valid mantissa -/
theorem parseFloat_signed (neg : Bool) (d : Char) (r : Str) (q : ℚ) (hd : isDigit d = true)
    (hb : ∀ c ∈ d :: r, c = '.' ∨ isDigit c = true) (hm : parseMantissa (d :: r) = some q) :
    parseFloat ((if neg then ['-'] else []) ++ d :: r) = .ok (if neg then -q else q) := by
  have hnum : ∀ c ∈ d :: r, NumChar c := fun c hc => Or.inr (hb c hc)
  have hstrip : strip ((if neg then ['-'] else []) ++ d :: r) = (if neg then ['-'] else []) ++ d :: r := by
    apply strip_of_numChars
    intro c hc
    cases neg
    · exact hnum c (by simpa using hc)
    · simp only [if_true, List.singleton_append, List.mem_cons] at hc
      rcases hc with hc | hc
      · exact Or.inl hc
      · exact hnum c (by simpa using hc)
  have hsign : splitSign ((if neg then ['-'] else []) ++ d :: r) = (neg, d :: r) := by
    cases neg
    · simpa using splitSign_of_digit d r hd
    · rfl
  have hlow : lowerAscii (d :: r) = d :: r :=
    lowerAscii_fixed _ (fun c hc => (numChar_facts c (hnum c hc)).2.2.2.2)
  have he : 'e' ∉ d :: r := fun hc => (numChar_facts _ (hnum _ hc)).2.2.1 rfl
  have f := digitFacts d hd
  unfold parseFloat
  simp only [hstrip, hsign, hlow]
  have b1 : ((d :: r) == "inf".toList) = false := beq_false_of_head_ne _ _ _ _ f.ne_i
  have b2 : ((d :: r) == "infinity".toList) = false := beq_false_of_head_ne _ _ _ _ f.ne_i
  have b3 : ((d :: r) == "nan".toList) = false := beq_false_of_head_ne _ _ _ _ f.ne_n
  simp only [b1, b2, b3, Bool.or_self, Bool.false_eq_true, if_false, splitOn_not_mem _ _ he, hm]

theorem fx_div_add_mod (x : ℚ) (k : ℕ) :
    ((fxI x k : ℕ) : ℚ) + ((fxF x k : ℕ) : ℚ) / ((pow10 k : ℕ) : ℚ) = ((fxM x k : ℕ) : ℚ) / ((pow10 k : ℕ) : ℚ) := by
  have hp := pow10_cast_pos k
  have h : pow10 k * fxI x k + fxF x k = fxM x k := Nat.div_add_mod _ _
  have h' : ((pow10 k : ℕ) : ℚ) * ((fxI x k : ℕ) : ℚ) + ((fxF x k : ℕ) : ℚ) = ((fxM x k : ℕ) : ℚ) := by
    exact_mod_cast h
  rw [← h']; field_simp

/-- the body (no sign) of a printed number denotes `|n| / 10^k` -/
theorem parseMantissa_body (x : ℚ) (k : ℕ) :
    parseMantissa (decDigits (fxI x k) ++ (if k = 0 then [] else '.' :: zeroPad k (decDigits (fxF x k)))) =
      some (((fxM x k : ℕ) : ℚ) / ((pow10 k : ℕ) : ℚ)) := by
  by_cases hk : k = 0
  · subst hk
    simp only [if_true, List.append_nil]
    rw [parseMantissa_int _ (decDigits_allDigits _) (decDigits_ne_nil _), digitsVal_decDigits]
    simp [fxI, pow10]
  · simp only [hk, if_false]
    have hne : zeroPad k (decDigits (fxF x k)) ≠ [] := by
      intro h; have := fracDigits_length x k hk; rw [h] at this; simp at this; omega
    rw [parseMantissa_frac _ _ (decDigits_allDigits _) (decDigits_ne_nil _) (fracDigits_allDigits _ _) hne,
      digitsVal_decDigits, fracDigits_val, fracDigits_length x k hk, Rat.mkRat_eq_div, ← fx_div_add_mod]
    push_cast; rfl

theorem round_eq_fx (x : ℚ) (k : ℕ) : Py.round x k = ((fxN x k : ℤ) : ℚ) / ((pow10 k : ℕ) : ℚ) := round_eq x k

/-- `float('{:.kf}'.format(x))` is `x` rounded (half-even) to `k` decimals, exactly -/
theorem parseFloat_fmtFixed (x : ℚ) (k : ℕ) : parseFloat (fmtFixed x k) = .ok (Py.round x k) := by
  rw [fmtFixed_eq]
  obtain ⟨d, r0, hdr⟩ : ∃ d r0, decDigits (fxI x k) = d :: r0 := by
    cases h : decDigits (fxI x k) with
    | nil => exact absurd h (decDigits_ne_nil _)
    | cons d r => exact ⟨d, r, rfl⟩
  have hd : isDigit d = true := decDigits_allDigits (fxI x k) d (by rw [hdr]; simp)
  have hm := parseMantissa_body x k
  have hb : ∀ c ∈ decDigits (fxI x k) ++ (if k = 0 then [] else '.' :: zeroPad k (decDigits (fxF x k))),
      c = '.' ∨ isDigit c = true := by
    intro c hc
    rcases List.mem_append.mp hc with hc | hc
    · exact Or.inr (decDigits_allDigits _ c hc)
    · split at hc
      · simp at hc
      · simp only [List.mem_cons] at hc
        rcases hc with hc | hc
        · exact Or.inl hc
        · exact Or.inr (fracDigits_allDigits _ _ c hc)
  rw [hdr, List.cons_append] at hm hb
  rw [hdr, List.cons_append]
  by_cases hx : x < 0
  · have := parseFloat_signed true d _ _ hd hb hm
    simp only [if_true] at this
    simp only [hx, if_true]
    rw [this, round_eq_fx]
    congr 1
    have hn := fxN_nonpos k hx
    have : ((fxN x k : ℤ) : ℚ) = -((fxM x k : ℕ) : ℚ) := by
      unfold fxM
      have : (fxN x k : ℤ) = -((fxN x k).natAbs : ℤ) := by omega
      rw [this]; push_cast; simp
    rw [this]; ring
  · have := parseFloat_signed false d _ _ hd hb hm
    simp only [Bool.false_eq_true, if_false, List.nil_append] at this
    simp only [hx, if_false, List.nil_append]
    rw [this, round_eq_fx]
    congr 1
    have hn := fxN_nonneg k hx
    have : ((fxN x k : ℤ) : ℚ) = ((fxM x k : ℕ) : ℚ) := by
      unfold fxM
      have : (fxN x k : ℤ) = ((fxN x k).natAbs : ℤ) := by omega
      rw [this]; push_cast; simp
    rw [this]

/-! ### how many columns a printed number takes -/

/-- columns after the integer part: nothing for `k = 0`, else the point and `k` digits -/
def tailLen (k : ℕ) : ℕ := if k = 0 then 0 else k + 1

theorem fmtFixed_length' (x : ℚ) (k : ℕ) :
    (fmtFixed x k).length = (if x < 0 then 1 else 0) + (decDigits (fxI x k)).length + tailLen k :=
  fmtFixed_length x k

theorem fxI_lt_of (x : ℚ) (k d : ℕ) (h : fxM x k < 10 ^ (d + 1) * pow10 k) : fxI x k < 10 ^ (d + 1) := by
  unfold fxI; exact Nat.div_lt_of_lt_mul (by rw [Nat.mul_comm]; exact h)

theorem fxI_ge_of (x : ℚ) (k d : ℕ) (h : 10 ^ d * pow10 k ≤ fxM x k) : 10 ^ d ≤ fxI x k := by
  unfold fxI; exact (Nat.le_div_iff_mul_le (pow10_pos k)).mpr h

theorem len_le_pos (x : ℚ) (k d : ℕ) (hx : 0 ≤ x)
    (h : x * ((pow10 k : ℕ) : ℚ) < ((10 ^ (d + 1) * pow10 k : ℕ) : ℚ) - 1 / 2) :
    (fmtFixed x k).length ≤ (d + 1) + tailLen k := by
  rw [fmtFixed_length']
  have hx' : ¬ x < 0 := not_lt.mpr hx
  have h0 := fxN_nonneg k hx'
  have h1 : fxN x k ≤ ((10 ^ (d + 1) * pow10 k : ℕ) : ℤ) - 1 := by
    apply roundHE_le_of_lt_half; push_cast at h ⊢; linarith
  have hM : fxM x k < 10 ^ (d + 1) * pow10 k := by unfold fxM; omega
  have := decDigits_length_le d _ (fxI_lt_of x k d hM)
  simp only [hx', if_false]; omega

theorem len_le_neg (x : ℚ) (k d : ℕ) (hx : x < 0)
    (h : -((10 ^ (d + 1) * pow10 k : ℕ) : ℚ) + 1 / 2 < x * ((pow10 k : ℕ) : ℚ)) :
    (fmtFixed x k).length ≤ 1 + (d + 1) + tailLen k := by
  rw [fmtFixed_length']
  have h0 := fxN_nonpos k hx
  have h1 : -((10 ^ (d + 1) * pow10 k : ℕ) : ℤ) + 1 ≤ fxN x k := by
    apply roundHE_ge_of_gt_half; push_cast at h ⊢; linarith
  have hM : fxM x k < 10 ^ (d + 1) * pow10 k := by unfold fxM; omega
  have := decDigits_length_le d _ (fxI_lt_of x k d hM)
  simp only [hx, if_true]; omega

theorem len_ge_pos (x : ℚ) (k d : ℕ) (hx : 0 ≤ x)
    (h : ((10 ^ d * pow10 k : ℕ) : ℚ) ≤ x * ((pow10 k : ℕ) : ℚ)) :
    (d + 1) + tailLen k ≤ (fmtFixed x k).length := by
  rw [fmtFixed_length']
  have hx' : ¬ x < 0 := not_lt.mpr hx
  have h1 : ((10 ^ d * pow10 k : ℕ) : ℤ) ≤ fxN x k := by
    apply roundHE_ge_of_ge; push_cast at h ⊢; linarith
  have hM : 10 ^ d * pow10 k ≤ fxM x k := by unfold fxM; omega
  have := decDigits_length_ge d _ (fxI_ge_of x k d hM)
  simp only [hx', if_false]; omega

theorem len_ge_neg (x : ℚ) (k d : ℕ) (hx : x < 0)
    (h : x * ((pow10 k : ℕ) : ℚ) ≤ -((10 ^ d * pow10 k : ℕ) : ℚ)) :
    1 + (d + 1) + tailLen k ≤ (fmtFixed x k).length := by
  rw [fmtFixed_length']
  have h1 : fxN x k ≤ -((10 ^ d * pow10 k : ℕ) : ℤ) := by
    apply roundHE_le_of_le; push_cast at h ⊢; linarith
  have hM : 10 ^ d * pow10 k ≤ fxM x k := by unfold fxM; omega
  have := decDigits_length_ge d _ (fxI_ge_of x k d hM)
  simp only [hx, if_true]; omega

/-- a non-negative number printed in fewer than `d+1` integer digits is below `10^d` (to half a unit) -/
theorem lt_of_len_lt_pos (x : ℚ) (k d : ℕ) (hx : 0 ≤ x)
    (h : (fmtFixed x k).length < (d + 1) + tailLen k) :
    x * ((pow10 k : ℕ) : ℚ) ≤ ((10 ^ d * pow10 k : ℕ) : ℚ) - 1 / 2 := by
  by_contra hc
  push Not at hc
  rw [fmtFixed_length'] at h
  have hx' : ¬ x < 0 := not_lt.mpr hx
  have h1 : ((10 ^ d * pow10 k : ℕ) : ℤ) ≤ fxN x k := by
    apply roundHE_ge_of_gt_half; push_cast at hc ⊢; linarith
  have hM : 10 ^ d * pow10 k ≤ fxM x k := by unfold fxM; omega
  have := decDigits_length_ge d _ (fxI_ge_of x k d hM)
  simp only [hx', if_false] at h; omega

theorem gt_of_len_lt_neg (x : ℚ) (k d : ℕ) (hx : x < 0)
    (h : (fmtFixed x k).length < 1 + (d + 1) + tailLen k) :
    -((10 ^ d * pow10 k : ℕ) : ℚ) + 1 / 2 ≤ x * ((pow10 k : ℕ) : ℚ) := by
  by_contra hc
  push Not at hc
  rw [fmtFixed_length'] at h
  have h1 : fxN x k ≤ -((10 ^ d * pow10 k : ℕ) : ℤ) := by
    apply roundHE_le_of_lt_half; push_cast at hc ⊢; linarith
  have hM : 10 ^ d * pow10 k ≤ fxM x k := by unfold fxM; omega
  have := decDigits_length_ge d _ (fxI_ge_of x k d hM)
  simp only [hx, if_true] at h; omega

end Py
