/-
  The GENERATED `many2sql.intersect` (Gen/Many.lean) on the hand model's side of the external methods IS `Model.intersect`
  (Model/TableJoin.lean) the C19 theorems are stated about: `get_intersection('*', match)` through the TRANSLATED statement text
  (Props/C19K), `data2pdb` per structure, one new table per structure under the structure's name.
-/
import PdbVerif.Proofs.GenMany
import PdbVerif.Proofs.SqlJoinMain

set_option linter.unusedVariables false
set_option linter.unusedSimpArgs false

namespace Proofs.GenMany
open Tbl GenM Model SqlProofs MicroSql

/-- the generated `intersect` asks through the TRANSLATED statement text: `Rt.get_intersection` is `SqlProofs.intersectionViaSql` -/
theorem get_intersection_eq (db : Db) (column : Py.Str) (m : List Py.Str) :
    Rt.get_intersection db column m = intersectionViaSql db column m := by
  have herr : ∀ e, Rt.ofSqlErr e = errOf e := by intro e; cases e <;> rfl
  unfold Rt.get_intersection intersectionViaSql
  cases GenSql.intersection_query (db.tabs.map (·.name)) column m with
  | error e => simp only [herr]
  | ok text =>
    simp only
    cases MicroSql.query db text [] with
    | error e => rfl
    | ok rows =>
      simp only
      cases GenSql.intersection_split rows _ _ with
      | error e => simp only [herr]
      | ok d => rfl

/-- the fourteen standard attribute values of a record -/
def stdVals (r : Row) : List Val := StdCol.all.map (fun s => r.std s)

theorem rowOfVals_stdVals (r : Row) : Rt.rowOfVals (stdVals r) = some { atom := r.atom, extra := [] } := rfl

theorem mapM_rowOfVals : ∀ (rows : Table), (∀ r ∈ rows, r.extra = []) → (rows.map stdVals).mapM Rt.rowOfVals = some rows
  | [], _ => rfl
  | r :: t, h => by
    have hr : ({ atom := r.atom, extra := [] } : Row) = r := by
      have := h r (by simp)
      cases r; simp_all
    simp only [List.map_cons, List.mapM_cons, rowOfVals_stdVals, hr, mapM_rowOfVals t (fun x hx => h x (List.mem_cons_of_mem _ hx))]
    rfl

/-- `data2pdb` on the hand model's side gives the records back -/
theorem model_data2pdb (rt : Table → Table) (rows : Table) (h : ∀ r ∈ rows, r.extra = []) :
    Rt.data2pdb (Ext.model rt) (rows.map stdVals) = .ok (Elem.data (D := (Ext.model rt).Data) rows) := by
  simp only [Rt.data2pdb, mapM_rowOfVals rows h]

theorem zip_names_range {α β : Type} (f : Tab → α) (g : Nat → β) (l : List Tab) :
    List.zip (l.map f) ((List.range l.length).map g) = l.zipIdx.map (fun p => (f p.1, g p.2)) := by
  rw [List.zip_map, List.zipIdx_eq_zip_range', List.range_eq_range']
  rfl

/-- a loop that adds one table per element, the step known for the elements of the list only -/
theorem foldlM_tabs_mem {α : Type} {F : Db → α → Except Model.Err Db} (g : α → Except Model.Err Tab) :
    ∀ (l : List α) (db : Db), (∀ db x, x ∈ l → F db x = (g x >>= fun t => .ok { db with tabs := db.tabs ++ [t] })) →
      List.foldlM F db l = (l.mapM g >>= fun ts => .ok { db with tabs := db.tabs ++ ts })
  | [], db, _ => by simp [pure_eq_ok, ok_bind]
  | x :: xs, db, hF => by
    rw [List.foldlM_cons, hF db x (by simp), List.mapM_cons]
    cases g x with
    | error e => rfl
    | ok t =>
      simp only [ok_bind, bind_assoc, pure_eq_ok]
      rw [foldlM_tabs_mem g xs _ (fun db y hy => hF db y (List.mem_cons_of_mem _ hy))]
      cases List.mapM g xs with
      | error e => rfl
      | ok ts => simp [ok_bind, List.append_assoc]

theorem mapM_ok_of {α β : Type} (g : α → Except Model.Err β) (f : α → β) : ∀ (l : List α), (∀ x ∈ l, g x = .ok (f x)) →
    l.mapM g = .ok (l.map f)
  | [], _ => rfl
  | x :: xs, h => by
    rw [List.mapM_cons, h x (by simp), mapM_ok_of g f xs (fun y hy => h y (List.mem_cons_of_mem _ hy))]
    rfl

/-- **`many2sql.intersect(match)`** = the hand model `Model.intersect`, for every round trip: one table per structure, under the
    structure's name, holding the round trip of the structure's aligned rows; an empty intersection is IndexError.  Hypotheses: those
    of `Props.C19K.intersect_data_via_sql` (plain table and attribute names, no added columns, at least one structure, known match
    attributes) and no stray added cells in the rows. -/
theorem intersect_eq_model_of_match (rt : Table → Table) (db : Db) (hdb : JoinDb db) (hne : db.tabs ≠ [])
    (htn : ∀ t ∈ db.tabs, isName t.name = true) (mnames : List Py.Str) (hmn : ∀ a ∈ mnames, isName a = true ∧ NoAlias a)
    (m : List StdCol) (hm : mnames.mapM matchCol = some m) (hcells : ∀ t ∈ db.tabs, ∀ r ∈ t.rows, r.extra = []) :
    GenM.intersect (Ext.model rt) db mnames = Model.intersect rt db mnames := by
  rw [intersect_nf, get_intersection_eq, intersect_data_via_sql db hdb hne htn mnames hmn m hm]
  simp only [ok_bind]
  have hx := hdb.noExtra
  unfold Model.intersect
  obtain ⟨m', hm', hj⟩ := JoinProofs.matchCols_some db mnames m hm
  simp only [hx, List.isEmpty_nil, Bool.not_true, Bool.false_eq_true, if_false, hm', hj]
  generalize hJ : joinRows m (db.tabs.map (·.rows)) = J
  have hzip := zip_names_range (fun t => t.name) (fun k => (component J k).map (fun r => StdCol.all.map (fun s => r.std s))) db.tabs
  rw [hzip]
  -- facts about the structures
  have hfact : ∀ p ∈ db.tabs.zipIdx, (∀ r ∈ component J p.2, r.extra = []) ∧ ((component J p.2).isEmpty = J.isEmpty) := by
    intro p hp
    obtain ⟨t, k⟩ := p
    obtain ⟨hk, ht⟩ := List.mem_zipIdx' hp
    have hk' : (db.tabs.map (·.rows))[k]? = some t.rows := by simp [List.getElem?_eq_getElem hk, ht]
    have htm : t ∈ db.tabs := by rw [ht]; exact List.getElem_mem hk
    constructor
    · intro r hr
      simp only [component, List.mem_filterMap] at hr
      obtain ⟨tup, htup, hr⟩ := hr
      obtain ⟨r', hr', hmem⟩ := JoinProofs.component_mem m _ k t.rows hk' tup (hJ ▸ htup)
      rw [hr'] at hr
      cases hr
      exact hcells t htm r hmem
    · rw [← hJ, JoinProofs.component_eq_map m _ k t.rows hk']
      cases joinRows m (db.tabs.map (·.rows)) <;> rfl
  cases htabs : db.tabs with
  | nil => exact absurd htabs hne
  | cons t0 ts =>
    rw [htabs] at hfact
    simp only [List.zipIdx_cons, List.map_cons, Nat.zero_add] at hfact ⊢
    have hd : ∀ p ∈ (t0, 0) :: ts.zipIdx 1, Rt.data2pdb (Ext.model rt) ((component J p.2).map (fun r => StdCol.all.map (fun s => r.std s))) =
        .ok (Elem.data (D := (Ext.model rt).Data) (component J p.2)) := fun p hp => model_data2pdb rt _ (hfact p hp).1
    have he0 := (hfact (t0, 0) (by simp)).2
    rw [hd (t0, 0) (by simp)]
    simp only [ok_bind]
    rw [init_single, convert_input_nf]
    simp only [ok_bind]
    rw [model_pdb2sql_init rt (component J 0) (some (.str t0.name)) t0.name rfl]
    simp only [newTable, he0]
    cases hJe : J.isEmpty with
    | true => rfl
    | false =>
      simp only [Bool.false_eq_true, if_false, ok_bind, List.foldlM_map, Bool.false_or, List.isEmpty_cons]
      rw [foldlM_tabs_mem (fun p : Tab × Nat => .ok { name := p.1.name, rows := rt (component J p.2) }) (ts.zipIdx 1) _ (by
        intro db' p hp
        rw [hd p (List.mem_cons_of_mem _ hp)]
        simp only [ok_bind]
        rw [model_create_table]
        simp only [newTable, (hfact p (List.mem_cons_of_mem _ hp)).2, hJe, Bool.false_eq_true, if_false, ok_bind])]
      rw [mapM_ok_of _ (fun p : Tab × Nat => ({ name := p.1.name, rows := rt (component J p.2) } : Tab)) _ (fun _ _ => rfl)]
      rfl

/-- an unknown match attribute with two or more structures: OperationalError (from the statement) in the generated function and in
    the hand model alike -/
theorem intersect_bad_match (rt : Table → Table) (db : Db) (hdb : JoinDb db) (h2 : 2 ≤ db.tabs.length)
    (htn : ∀ t ∈ db.tabs, isName t.name = true) (mnames : List Py.Str) (hmn : ∀ a ∈ mnames, isName a = true ∧ NoAlias a)
    (hm : mnames.mapM matchCol = none) :
    GenM.intersect (Ext.model rt) db mnames = .error .operational ∧ Model.intersect rt db mnames = .error .operational := by
  constructor
  · rw [intersect_nf, get_intersection_eq, (getIntersection_bad_match db hdb h2 htn ['*'] (Or.inl rfl) mnames hmn hm).1]
    rfl
  · unfold Model.intersect
    simp [hdb.noExtra, JoinProofs.matchCols_ge2 db mnames h2, hm]

/-! ### fewer than two structures: no ON clause, the match attributes are never looked at -/

theorem eqTexts_lt2 (names mnames : List Py.Str) (h : names.length < 2) : eqTexts names mnames = [] := by
  have hp : pairsOf names = [] := by
    match names, h with
    | [], _ => rfl
    | [a], _ => rfl
  simp [eqTexts, hp]

/-- the translated statement text does not depend on `match` when there is no pair of tables -/
theorem intersection_query_lt2 (names : List Py.Str) (column : Py.Str) (mnames : List Py.Str) (h : names.length < 2) :
    GenSql.intersection_query names column mnames = GenSql.intersection_query names column [] := by
  rw [intersection_query_nf, intersection_query_nf]
  unfold joinText
  rw [eqTexts_lt2 names mnames h, eqTexts_lt2 names [] h]

theorem intersectionViaSql_lt2 (db : Db) (column : Py.Str) (mnames : List Py.Str) (h : db.tabs.length < 2) :
    intersectionViaSql db column mnames = intersectionViaSql db column [] := by
  unfold intersectionViaSql
  rw [intersection_query_lt2 _ column mnames (by simpa using h)]

theorem model_intersect_lt2 (rt : Table → Table) (db : Db) (mnames : List Py.Str) (h : db.tabs.length < 2) :
    Model.intersect rt db mnames = Model.intersect rt db [] := by
  unfold Model.intersect
  rw [JoinProofs.matchCols_lt2 db mnames h, JoinProofs.matchCols_lt2 db [] h]

theorem model_getIntersection_lt2 (db : Db) (column : Py.Str) (mnames : List Py.Str) (h : db.tabs.length < 2) :
    Model.getIntersection db column mnames = Model.getIntersection db column [] := by
  unfold Model.getIntersection
  rw [JoinProofs.matchCols_lt2 db mnames h, JoinProofs.matchCols_lt2 db [] h]

/-- **one structure, ANY match list (unknown names included)**: `Model.getIntersection` = translated text → MicroSql → translated
    cutting — the hand model follows the code, which emits no ON clause and succeeds -/
theorem getIntersection_eq_sql_single (db : Db) (hdb : JoinDb db) (h1 : db.tabs.length = 1) (htn : ∀ t ∈ db.tabs, isName t.name = true)
    (column : Py.Str) (hcol : JoinCols column) (mnames : List Py.Str) :
    intersectionViaSql db column mnames = Model.getIntersection db column mnames := by
  have hne : db.tabs ≠ [] := by intro h0; rw [h0] at h1; cases h1
  rw [intersectionViaSql_lt2 db column mnames (by omega), model_getIntersection_lt2 db column mnames (by omega)]
  exact getIntersection_eq_sql db hdb hne htn column hcol [] (by intro a ha; cases ha) [] rfl

/-- **`many2sql.intersect(match)` = `Model.intersect`** for EVERY match list: known attributes (previous theorem), an unknown attribute
    with two or more structures (OperationalError on both sides), and any list at all with one structure (no ON clause: both succeed).
    Remaining hypotheses: plain table names, no added columns / stray cells, at least one structure, and — only where the names reach
    SQLite, i.e. with two or more structures — plain attribute names. -/
theorem intersect_eq_model (rt : Table → Table) (db : Db) (hdb : JoinDb db) (hne : db.tabs ≠ [])
    (htn : ∀ t ∈ db.tabs, isName t.name = true) (mnames : List Py.Str)
    (hmn : 2 ≤ db.tabs.length → ∀ a ∈ mnames, isName a = true ∧ NoAlias a)
    (hcells : ∀ t ∈ db.tabs, ∀ r ∈ t.rows, r.extra = []) :
    GenM.intersect (Ext.model rt) db mnames = Model.intersect rt db mnames := by
  by_cases h2 : 2 ≤ db.tabs.length
  · cases hm : mnames.mapM matchCol with
    | some m => exact intersect_eq_model_of_match rt db hdb hne htn mnames (hmn h2) m hm hcells
    | none =>
      obtain ⟨a, b⟩ := intersect_bad_match rt db hdb h2 htn mnames (hmn h2) hm
      rw [a, b]
  · have hlt : db.tabs.length < 2 := by omega
    have hg : GenM.intersect (Ext.model rt) db mnames = GenM.intersect (Ext.model rt) db [] := by
      rw [intersect_nf, intersect_nf, get_intersection_eq, get_intersection_eq, intersectionViaSql_lt2 db _ mnames hlt]
    rw [hg, model_intersect_lt2 rt db mnames hlt]
    exact intersect_eq_model_of_match rt db hdb hne htn [] (by intro a ha; cases ha) [] rfl hcells

/-- one structure and an unknown match attribute: the call succeeds (no ON clause) — in the real code, in the generated function and,
    since the hand model was made to follow the code here, in `Model.intersect` -/
example : Model.intersect id { tabs := [{ name := "ATOM".toList, rows := [] }] } ["foo".toList] = .error .indexError ∧
    (Model.getIntersection { tabs := [{ name := "ATOM".toList, rows := [] }] } "x".toList ["foo".toList]) = .ok [[]] := by decide

end Proofs.GenMany
