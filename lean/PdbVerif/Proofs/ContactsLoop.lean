/-
  Helper lemmas for C05 / C14, part 2: the double loop of `get_contact_atoms` as a list of dictionary events, and the
  events of one chain pair expressed with the Spec's vocabulary.
-/
import PdbVerif.Proofs.ContactsBasic

set_option linter.unusedVariables false
set_option linter.unusedSimpArgs false
set_option linter.unusedSectionVars false

namespace Proofs.Contacts
open Model Py
open Spec.Contact (Params passes near touches isHydrogen chainAtoms partners atoms)

/-- the Spec's parameters for a call -/
def params (a : ContactArgs) : Params :=
  { backbone := Model.backbone, filters := { bb := a.bb, noH := a.noH }, cutoff := a.cutoff }

/-! ### one atom of the first chain -/

/-- the list `pairs` computed for a first-chain atom -/
def hits (a : ContactArgs) (rows2 : List IRow) (r : IRow) : List Nat :=
  (((rows2.filter (fun q => withinCutoff a.cutoff q.1 r.1))).filter (keepPartner a)).map (·.2)

/-- `some pairs` when the three updates happen for atom `r` -/
def fires (a : ContactArgs) (rows2 : List IRow) (r : IRow) : Option (List Nat) :=
  if a.noH && startsWithH r.1.name then none
  else if decide ((rows2.filter (fun q => withinCutoff a.cutoff q.1 r.1)).length > 0) && (!a.bb || decide (r.1.name ∈ backbone)) then
    if (hits a rows2 r).length > 0 then some (hits a rows2 r) else none
  else none

theorem scanAtom_eq (a : ContactArgs) (A B : Str) (rows2 : List IRow) (st : LoopState) (r : IRow) :
    scanAtom a A B rows2 st r =
      match fires a rows2 r with
      | none => st
      | some ps => { pairs := st.pairs.extend r.2 ps, indexContact := (st.indexContact.extend A [r.2]).extend B ps } := by
  unfold scanAtom fires hits
  by_cases h1 : (a.noH && startsWithH r.1.name) = true
  · simp [h1]
  · by_cases h2 : (decide ((rows2.filter (fun q => withinCutoff a.cutoff q.1 r.1)).length > 0) && (!a.bb || decide (r.1.name ∈ backbone))) = true
    · by_cases h3 : (List.map (fun x => x.snd) (List.filter (keepPartner a) (List.filter (fun q => withinCutoff a.cutoff q.fst r.fst) rows2))).length > 0
      · simp only [h1, h2, h3, if_true, if_false, Bool.false_eq_true]
      · simp only [h1, h2, h3, if_true, if_false, Bool.false_eq_true]
    · simp only [h1, h2, if_false, Bool.false_eq_true]

/-- the `(rowID, pairs)` items of the first-chain atoms for which the updates happen -/
def sel (a : ContactArgs) (rows1 rows2 : List IRow) : List (Nat × List Nat) :=
  rows1.filterMap (fun r => (fires a rows2 r).map (fun ps => (r.2, ps)))

/-- the `index_contact` updates of one chain pair -/
def icEvents (A B : Str) (s : List (Nat × List Nat)) : List (Str × List Nat) :=
  s.flatMap (fun e => [(A, [e.1]), (B, e.2)])

theorem foldl_scanAtom (a : ContactArgs) (A B : Str) (rows2 rows1 : List IRow) (st : LoopState) :
    rows1.foldl (scanAtom a A B rows2) st =
      { indexContact := applyEvents st.indexContact (icEvents A B (sel a rows1 rows2)),
        pairs := applyEvents st.pairs (sel a rows1 rows2) } := by
  induction rows1 generalizing st with
  | nil => simp [sel, icEvents, applyEvents]
  | cons r rs ih =>
    rw [List.foldl_cons, ih, scanAtom_eq]
    cases hf : fires a rows2 r with
    | none => simp [sel, hf]
    | some ps => simp [sel, hf, icEvents, applyEvents]

/-! ### one chain pair, all chain pairs -/

def selOf (a : ContactArgs) (t : List Atom) (cc : Str × Str) : List (Nat × List Nat) :=
  sel a (chainRows t cc.1) (chainRows t cc.2)

def pairEvents (a : ContactArgs) (t : List Atom) (cc : Str × Str) : List (Str × List Nat) :=
  [(cc.1, []), (cc.2, [])] ++ icEvents cc.1 cc.2 (selOf a t cc)

theorem scanPair_eq (a : ContactArgs) (t : List Atom) (st : LoopState) (cc : Str × Str) :
    scanPair a t st cc =
      { indexContact := applyEvents st.indexContact (pairEvents a t cc), pairs := applyEvents st.pairs (selOf a t cc) } := by
  unfold scanPair
  simp only [foldl_scanAtom, setDefault_nil, pairEvents, applyEvents_append, selOf]
  rfl

theorem foldl_scanPair (a : ContactArgs) (t : List Atom) (combos : List (Str × Str)) (st : LoopState) :
    combos.foldl (scanPair a t) st =
      { indexContact := applyEvents st.indexContact (combos.flatMap (pairEvents a t)),
        pairs := applyEvents st.pairs (combos.flatMap (selOf a t)) } := by
  induction combos generalizing st with
  | nil => simp [applyEvents]
  | cons cc cs ih =>
    rw [List.foldl_cons, ih, scanPair_eq]
    simp [applyEvents_append]

/-! ### the items of one chain pair in the Spec's words -/

theorem startsWithH_eq (x : Atom) : startsWithH x.name = isHydrogen x := rfl

theorem keepPartner_eq (a : ContactArgs) (q : IRow) : keepPartner a q = passes (params a) q.1 := by
  simp only [keepPartner, passes, params, startsWithH_eq, Bool.or_comm]
  congr

theorem atomDist2_comm (x y : Atom) : atomDist2 x y = atomDist2 y x := by
  unfold atomDist2; grind

theorem sqDist_eq (x y : Atom) : Spec.Contact.sqDist x y = atomDist2 x y := rfl

theorem withinCutoff_eq (a : ContactArgs) (x y : Atom) : withinCutoff a.cutoff x y = near (params a) y x := by
  simp only [withinCutoff, near, params, sqDist_eq, atomDist2_comm x y]
  congr

theorem near_comm (P : Params) (x y : Atom) : near P x y = near P y x := by
  simp only [near, sqDist_eq, atomDist2_comm x y]
  congr

theorem touches_comm (P : Params) (p q : Spec.Contact.Pos) : touches P p q = touches P q p := by
  simp only [touches, near_comm P p.1 q.1]
  cases passes P p.1 <;> cases passes P q.1 <;> simp

theorem hits_eq (a : ContactArgs) (rows2 : List IRow) (r : IRow) :
    hits a rows2 r = (rows2.filter (fun q => passes (params a) q.1 && near (params a) r.1 q.1)).map (·.2) := by
  unfold hits
  rw [List.filter_filter]
  congr 1
  apply List.filter_congr
  intro q _
  rw [keepPartner_eq, withinCutoff_eq]

theorem touches_of_passes {P : Params} {p : Spec.Contact.Pos} (h : passes P p.1 = true) :
    touches P p = fun q => passes P q.1 && near P p.1 q.1 := by
  funext q; simp [touches, h]

theorem touches_of_not_passes {P : Params} {p : Spec.Contact.Pos} (h : passes P p.1 = false) (q : Spec.Contact.Pos) :
    touches P p q = false := by
  simp [touches, h]

theorem any_touches_passes {P : Params} {p : Spec.Contact.Pos} {l : List Spec.Contact.Pos} (h : l.any (touches P p) = true) :
    passes P p.1 = true := by
  cases hp : passes P p.1 with
  | true => rfl
  | false =>
    rw [List.any_eq_true] at h
    obtain ⟨q, _, hq⟩ := h
    rw [touches_of_not_passes hp] at hq
    exact absurd hq (by simp)

theorem fires_eq (a : ContactArgs) (rows2 : List IRow) (r : IRow) :
    fires a rows2 r =
      if rows2.any (touches (params a) r) then some ((rows2.filter (touches (params a) r)).map (·.2)) else none := by
  have hp : passes (params a) r.1 = ((!a.bb || decide (r.1.name ∈ backbone)) && !(a.noH && startsWithH r.1.name)) := by
    simp only [passes, params, startsWithH_eq]
    congr
  unfold fires
  by_cases b1 : (a.noH && startsWithH r.1.name) = true
  · have hpf : passes (params a) r.1 = false := by rw [hp, b1]; simp
    have : rows2.any (touches (params a) r) = false := by
      rw [List.any_eq_false]; intro q _; simp [touches_of_not_passes hpf]
    simp [b1, this]
  · by_cases b2 : (!a.bb || decide (r.1.name ∈ backbone)) = true
    · have hpt : passes (params a) r.1 = true := by
        rw [hp, b2]
        cases hb : (a.noH && startsWithH r.1.name) with
        | true => exact absurd hb b1
        | false => rfl
      rw [hits_eq, touches_of_passes hpt]
      simp only [b1, b2, Bool.and_true, if_false]
      by_cases hany : rows2.any (fun q => passes (params a) q.1 && near (params a) r.1 q.1) = true
      · have hne : (rows2.filter (fun q => passes (params a) q.1 && near (params a) r.1 q.1)) ≠ [] := by
          intro h0
          rw [List.any_eq_true] at hany
          obtain ⟨q, hq, hq2⟩ := hany
          have : q ∈ rows2.filter (fun q => passes (params a) q.1 && near (params a) r.1 q.1) := List.mem_filter.mpr ⟨hq, hq2⟩
          rw [h0] at this; simp at this
        have hc : (rows2.filter (fun q => withinCutoff a.cutoff q.1 r.1)).length > 0 := by
          rw [List.any_eq_true] at hany
          obtain ⟨q, hq, hq2⟩ := hany
          have : q ∈ rows2.filter (fun q => withinCutoff a.cutoff q.1 r.1) := by
            refine List.mem_filter.mpr ⟨hq, ?_⟩
            rw [withinCutoff_eq]
            simp at hq2
            exact hq2.2
          exact List.length_pos_of_mem this
        have hl : ((rows2.filter (fun q => passes (params a) q.1 && near (params a) r.1 q.1)).map (·.2)).length > 0 := by
          rw [List.length_map]; exact List.length_pos_iff.mpr hne
        have hl' : ((rows2.filter (fun q => passes (params a) q.1 && near (params a) r.1 q.1)).map (fun x => x.2)).length > 0 := hl
        simp only [hany, hc, hl', decide_true, Bool.true_and, if_true, Bool.false_eq_true, if_false]
      · have hnil : (rows2.filter (fun q => passes (params a) q.1 && near (params a) r.1 q.1)) = [] := by
          rw [List.filter_eq_nil_iff]
          intro q hq hq2
          exact hany (List.any_eq_true.mpr ⟨q, hq, hq2⟩)
        simp [hany, hnil]
    · have hpf : passes (params a) r.1 = false := by
        rw [hp]; simp at b2 ⊢; intro h1 ; simp [b2] at h1
      have : rows2.any (touches (params a) r) = false := by
        rw [List.any_eq_false]; intro q _; simp [touches_of_not_passes hpf]
      simp [b1, b2, this]

theorem sel_eq (a : ContactArgs) (rows1 rows2 : List IRow) :
    sel a rows1 rows2 =
      (rows1.filter (fun r => rows2.any (touches (params a) r))).map
        (fun r => (r.2, (rows2.filter (touches (params a) r)).map (·.2))) := by
  unfold sel
  induction rows1 with
  | nil => rfl
  | cons r rs ih =>
    rw [List.filterMap_cons, fires_eq, ih]
    by_cases h : rows2.any (touches (params a) r) = true <;> simp [h, List.filter_cons]

theorem chainRows_eq (t : List Atom) (X : Str) : chainRows t X = chainAtoms t X := rfl

/-- the items of a chain pair are the Spec's pair map of that pair -/
theorem selOf_eq (a : ContactArgs) (t : List Atom) (A B : Str) :
    selOf a t (A, B) = Spec.Contact.pairMap (params a) t A B := by
  simp only [selOf, sel_eq, chainRows_eq, Spec.Contact.pairMap, partners]

theorem selOf_keys (a : ContactArgs) (t : List Atom) (A B : Str) :
    (selOf a t (A, B)).map (·.1) = Spec.Contact.contactAtoms (params a) t A B := by
  simp only [selOf_eq, Spec.Contact.pairMap, Spec.Contact.contactAtoms, List.map_map]
  rfl

end Proofs.Contacts
