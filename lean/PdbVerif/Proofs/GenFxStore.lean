/-
  C20 — the TRANSLATED `_create_sql`, `_commit`, `_close` (Gen/Fx.lean), interpreted in the store (`toC20`,
  Proofs/GenFxSem.lean), ARE the operations `openDb`, `commit`, `closeKeep`, `closeRemove` of the hand model
  `Model.C20.step` — same final store, same trace of file-system actions with the same arguments, for every world, path,
  pending list and object.  Hence a scenario whose open / commit / close steps are the translated programs (`runT`) is the
  model's `run`, and the crash-atomicity / keep / remove / names-are-data theorems of Props/C20 hold of the translated code.
-/
import PdbVerif.Proofs.GenFx
import PdbVerif.Proofs.EffectsStore

set_option linter.unusedVariables false
set_option linter.unusedSimpArgs false

namespace Proofs.GenFx
open Py Py.Fx Spec.C20 Model.C20 Proofs.Store

section
variable {P C Row : Type} [DecidableEq P]

/-- `_create_sql` on a file name = the model's `openDb`: isfile, remove exactly that name if present, connect -/
theorem genf_create_sql_eq_model (journal : P → P) (p : P) (self : Fx.Self P) (s : St P Row)
    (hs : self.sqlfile = some p) (hph : s.phase = .fresh) :
    toC20 journal (GenF._create_sql self : Fx.Prog P C _) s =
      (step journal p s .openDb, .ok { self with conn := some ⟨some p⟩, c := some ⟨some p⟩ }) := by
  rw [create_sql_nf, hs]
  simp only [toC20, step, hph, removeIfFile, note]
  cases h : s.world p <;> simp [h, toC20, World.set]

/-- `_create_sql` without a file name touches no file: the store is unchanged, no file-system action is recorded -/
theorem genf_create_sql_memory (journal : P → P) (self : Fx.Self P) (s : St P Row) (hs : self.sqlfile = none) :
    toC20 journal (GenF._create_sql self : Fx.Prog P C _) s = (s, .ok { self with conn := some ⟨none⟩, c := some ⟨none⟩ }) := by
  rw [create_sql_nf, hs]; rfl

/-- `_commit` = the model's `commit` -/
theorem genf_commit_eq_model (journal : P → P) (p : P) (self : Fx.Self P) (s : St P Row)
    (hc : self.conn = some ⟨some p⟩) (hph : s.phase = .live) :
    toC20 journal (GenF._commit self : Fx.Prog P C _) s = (step journal p s .commit, .ok self) := by
  rw [commit_nf, hc]
  simp [toC20, step, hph]

theorem commit_pending (journal : P → P) (p : P) (s : St P Row) : (Model.C20.commit journal p s).pending.isEmpty = true := by
  unfold Model.C20.commit
  split <;> simp_all

theorem commit_phase (journal : P → P) (p : P) (s : St P Row) : (Model.C20.commit journal p s).phase = s.phase := by
  unfold Model.C20.commit
  split <;> rfl

/-- `_close(rmdb=False)` = the model's `closeKeep`: commit, then close -/
theorem genf_close_keep_eq_model (journal : P → P) (p : P) (self : Fx.Self P) (s : St P Row)
    (hs : self.sqlfile = some p) (hc : self.conn = some ⟨some p⟩) (hph : s.phase = .live) :
    toC20 journal (GenF._close self false : Fx.Prog P C _) s = (step journal p s .closeKeep, .ok self) := by
  rw [close_nf, hc, hs]
  simp [toC20, step, hph, commit_phase, rollbackClose, commit_pending]

/-- `_close(rmdb=True)` = the model's `closeRemove`: close WITHOUT commit (the open transaction is rolled back), then
    isfile / remove of exactly `self.sqlfile`; on an object that is closed already the isfile / remove runs again -/
theorem genf_close_remove_eq_model (journal : P → P) (p : P) (self : Fx.Self P) (s : St P Row)
    (hs : self.sqlfile = some p) (hc : self.conn = some ⟨some p⟩) (hph : s.phase ≠ .fresh) :
    toC20 journal (GenF._close self true : Fx.Prog P C _) s = (step journal p s .closeRemove, .ok self) := by
  rw [close_nf, hc, hs]
  cases h : s.phase with
  | fresh => exact absurd h hph
  | live =>
    simp only [toC20, step, h, removeIfFile, note, if_true]
    cases hw : (rollbackClose journal p s).world p <;> simp [hw, toC20, World.set]
  | closed =>
    simp only [toC20, step, h, removeIfFile, note, if_true]
    cases hw : s.world p <;> simp [hw, toC20, World.set]

/-- `_close` of an in-memory object: no file-system action, nothing removed -/
theorem genf_close_memory (journal : P → P) (self : Fx.Self P) (rmdb : Bool) (s : St P Row)
    (hs : self.sqlfile = none) (hc : self.conn = some ⟨none⟩) :
    toC20 journal (GenF._close self rmdb : Fx.Prog P C _) s = (s, .ok self) := by
  rw [close_nf, hc, hs]; rfl

/-! ### a whole scenario with the translated open / commit / close -/

/-- one step of a scenario on the pair (object, store): open, commit and the two closes are the TRANSLATED programs run
    in the store; statements (DDL / DML) are the model's -/
def stepT (journal : P → P) (p : P) (x : Fx.Self P × St P Row) (op : Op Row) : Fx.Self P × St P Row :=
  let viaProg (m : Fx.Prog P C (Fx.Self P)) : Fx.Self P × St P Row :=
    let r := toC20 journal m x.2
    (match r.2 with | .ok self' => self' | .error _ => x.1, r.1)
  match op with
  | .openDb => if x.2.phase = .fresh then viaProg (GenF._create_sql x.1) else x
  | .commit => if x.2.phase = .live then viaProg (GenF._commit x.1) else x
  | .closeKeep => if x.2.phase = .live then viaProg (GenF._close x.1 false) else x
  | .closeRemove => if x.2.phase = .fresh then x else viaProg (GenF._close x.1 true)
  | op => (x.1, step journal p x.2 op)

/-- a scenario of an object created as `pdb2sql(…, sqlfile=p)` -/
def runT (journal : P → P) (p : P) (w : Model.C20.World P Row) (ops : List (Op Row)) : Fx.Self P × St P Row :=
  ops.foldl (stepT (C := C) journal p) ({ sqlfile := some p }, ⟨w, .fresh, [], []⟩)

def ObjInv (p : P) (x : Fx.Self P × St P Row) : Prop :=
  x.1.sqlfile = some p ∧ (x.2.phase ≠ .fresh → x.1.conn = some ⟨some p⟩)

theorem step_phase_not_fresh (journal : P → P) (p : P) (s : St P Row) (op : Op Row) (h : s.phase ≠ .fresh) :
    (step journal p s op).phase ≠ .fresh := by
  cases hph : s.phase with
  | fresh => exact absurd hph h
  | live =>
    cases op <;> simp only [step, hph, dml, ddl, Model.C20.commit, rollbackClose, removeIfFile] <;>
      (repeat' split) <;> simp_all
  | closed =>
    cases op <;> simp only [step, hph, removeIfFile] <;> (repeat' split) <;> simp_all

theorem stepT_spec (journal : P → P) (p : P) (x : Fx.Self P × St P Row) (op : Op Row) (hx : ObjInv p x) :
    (stepT (C := C) journal p x op).2 = step journal p x.2 op ∧ ObjInv p (stepT (C := C) journal p x op) := by
  obtain ⟨hs, hc⟩ := hx
  cases hph : x.2.phase with
  | fresh =>
    cases op <;> simp only [stepT, hph, if_true, if_false, reduceCtorEq]
    all_goals first
      | (rw [genf_create_sql_eq_model journal p x.1 x.2 hs hph]
         refine ⟨rfl, hs, fun _ => rfl⟩)
      | (refine ⟨by simp [step, hph], hs, fun h => ?_⟩
         simp [step, hph] at h)
  | live =>
    have hc' := hc (by simp [hph])
    cases op <;> simp only [stepT, hph, if_true, if_false, reduceCtorEq]
    all_goals first
      | (rw [genf_commit_eq_model journal p x.1 x.2 hc' hph]; exact ⟨rfl, hs, fun _ => hc'⟩)
      | (rw [genf_close_keep_eq_model journal p x.1 x.2 hs hc' hph]; exact ⟨rfl, hs, fun _ => hc'⟩)
      | (rw [genf_close_remove_eq_model journal p x.1 x.2 hs hc' (by simp [hph])]; exact ⟨rfl, hs, fun _ => hc'⟩)
      | exact ⟨by simp [step, hph], hs, fun _ => hc'⟩
      | exact ⟨rfl, hs, fun _ => hc'⟩
  | closed =>
    have hc' := hc (by simp [hph])
    cases op <;> simp only [stepT, hph, if_true, if_false, reduceCtorEq]
    all_goals first
      | (rw [genf_close_remove_eq_model journal p x.1 x.2 hs hc' (by simp [hph])]; exact ⟨rfl, hs, fun _ => hc'⟩)
      | exact ⟨by simp [step, hph], hs, fun _ => hc'⟩
      | exact ⟨rfl, hs, fun _ => hc'⟩

theorem foldl_stepT (journal : P → P) (p : P) (ops : List (Op Row)) (x : Fx.Self P × St P Row) (hx : ObjInv p x) :
    (ops.foldl (stepT (C := C) journal p) x).2 = ops.foldl (step journal p) x.2 := by
  induction ops generalizing x with
  | nil => rfl
  | cons op ops ih =>
    simp only [List.foldl_cons]
    rw [ih _ (stepT_spec journal p x op hx).2, (stepT_spec journal p x op hx).1]

/-- **the scenario run with the translated programs is the model's run** -/
theorem runT_eq_run (journal : P → P) (p : P) (w : Model.C20.World P Row) (ops : List (Op Row)) :
    (runT (C := C) journal p w ops).2 = run journal p w ops :=
  foldl_stepT journal p ops _ ⟨rfl, fun h => absurd rfl h⟩

/-- crash atomicity of the translated code: at every crash point a fresh reader finds the table of the last commit point -/
theorem genf_crash_atomic (journal : P → P) (p : P) (hj : journal p ≠ p) (w : Model.C20.World P Row) (ops : List (Op Row)) (k : Nat) :
    readBack (crash (runT (C := C) journal p w (ops.take k)).2) p = lastCommitted (readBack w p) (ops.take k) := by
  rw [runT_eq_run]; exact readBack_eq_seen journal p hj w (ops.take k)

/-- names are data, of the translated code: every file-system action names the database or its journal, none is a shell;
    no other file changes -/
theorem genf_names_are_data (journal : P → P) (p : P) (w : Model.C20.World P Row) (ops : List (Op Row)) :
    (∀ e ∈ (runT (C := C) journal p w ops).2.trace, e.isShell = false ∧ ∀ q ∈ e.paths journal, q = p ∨ q = journal p) ∧
      ∀ q, q ≠ p → q ≠ journal p → (runT (C := C) journal p w ops).2.world q = w q := by
  rw [runT_eq_run]; exact ⟨run_trace journal p w ops, fun q h1 h2 => run_frame journal p w ops q h1 h2⟩

end
end Proofs.GenFx
